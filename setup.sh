#!/bin/sh
# builds the checker from vendored sources only (offline)
set -eu
cd "$(dirname "$0")"
export GOPROXY=off GOSUMDB=off GOTOOLCHAIN=local GOWORK=off CGO_ENABLED=0 GOFLAGS=-mod=vendor
mkdir -p bin evidence reports
# built beside the target and renamed over it, so that a check running at the same time keeps its binary
(cd checker && go build -o ../bin/tcellvet.new . && mv -f ../bin/tcellvet.new ../bin/tcellvet)
echo "built bin/tcellvet"

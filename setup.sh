#!/bin/sh
# builds the checker from vendored sources only (offline)
set -eu
cd "$(dirname "$0")"
export GOPROXY=off GOSUMDB=off GOTOOLCHAIN=local GOWORK=off CGO_ENABLED=0 GOFLAGS=-mod=vendor
mkdir -p bin evidence reports
(cd checker && go build -o ../bin/tcellvet .)
echo "built bin/tcellvet"

#!/bin/bash
# Re-runs every check (quick) against each seeded change in /verif/seeded/<id>/ (patch applied to a
# scratch worktree of /repo, removed afterwards), updates caught_by in its meta.json and prints a table.
# usage: run_seeds.sh [id ...]
set -u
cd /verif
export GOPROXY=off GOSUMDB=off GOTOOLCHAIN=local GOWORK=off CGO_ENABLED=0
ids="${*:-$(ls seeded)}"
one() {
  id="$1"
  wt=$(mktemp -d /tmp/runseed.XXXXXX); rmdir "$wt"
  git -C /repo worktree add -q --detach "$wt" HEAD || { echo "$id worktree-failed"; return; }
  if ( cd "$wt" && git apply "/verif/seeded/$id/patch.diff" ); then
    out=$(/verif/bin/tcellvet -prop all -tier quick -no-evidence -repo "$wt" 2>&1)
    caught=$(echo "$out" | sed -n 's/^VIOLATION property=\([A-Z0-9]*\).*/\1/p' | tr '\n' ' ')
    keys=$(echo "$out" | grep "^FINDING" | sed -E 's/^FINDING [a-z]+ \[[a-z]+\] ([^ ]+) at .*/\1/' | sort -u | head -6 | tr '\n' ' ')
    python3 - "$id" "$caught" "$keys" <<'PY'
import json,sys
p='/verif/seeded/%s/meta.json'%sys.argv[1]
m=json.load(open(p)); m['caught_by']=sys.argv[2].split(); m['failing_keys']=sys.argv[3].split()
json.dump(m,open(p,'w'),indent=1)
PY
    own=$(python3 -c "import json;print(json.load(open('/verif/seeded/$id/meta.json'))['property'])")
    mark="MISSED"; echo " $caught " | grep -q " $own " && mark="own"; [ "$mark" = MISSED ] && [ -n "$caught" ] && mark="other-only"
    echo "$id breaks=$own caught-by: ${caught:-NONE} [$mark] $keys"
  else
    echo "$id patch-does-not-apply"
  fi
  git -C /repo worktree remove --force "$wt" >/dev/null 2>&1; rm -rf "$wt"
}
export -f one
echo $ids | tr ' ' '\n' | xargs -P 8 -I{} bash -c 'one {}' | sort

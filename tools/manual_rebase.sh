#!/bin/bash
# usage: manual_rebase.sh <seed-id> <edit.py>  — applies edit.py (run in a scratch worktree of /repo HEAD) as the
# new form of the seeded change, re-confirms it with the original demonstration and records it.
set -u
id="$1"; edit="$2"
export GOPROXY=off GOSUMDB=off GOTOOLCHAIN=local GOFLAGS=-mod=mod
wt=/tmp/rb-$id; git -C /repo worktree add -q --detach $wt HEAD || exit 2
( cd $wt && python3 "$edit" </dev/null && go build ./... && git diff > /root/seedstage/rbm-$id.diff ) || { git -C /repo worktree remove --force $wt; echo "$id EDIT-FAILED"; exit 1; }
git -C /repo worktree remove --force $wt
mkdir -p /root/seedstage/rbm/$id; cp /verif/seeded/$id/*_test.go /verif/seeded/$id/meta.json /root/seedstage/rbm/$id/; cp /root/seedstage/rbm-$id.diff /root/seedstage/rbm/$id/patch.diff
/verif/tools/verify_seed.sh /root/seedstage/rbm/$id $id --keep /verif/seeded/$id | grep -E "RESULT|clean-tree"
python3 -c "
import json,subprocess
p='/verif/seeded/$id/meta.json'; m=json.load(open(p))
h=subprocess.check_output(['git','-C','/repo','log','--format=%h','-1']).decode().strip()
m['rebased']='the same change re-created by hand on /repo %s (a fix: commit rewrote the lines it touched); confirmed again with the original demonstration'%h
json.dump(m,open(p,'w'),indent=1)" </dev/null

#!/usr/bin/env python3
# Rewrites the table of seeded changes in DESIGN.md section 5 from /verif/seeded/*/meta.json
# (summary in the seeding agent's words, the checks that report it, first failing key of the own property).
import json,os
root=os.path.dirname(os.path.dirname(os.path.abspath(__file__)))
rows=[]
for d in sorted(os.listdir(root+'/seeded')):
    m=json.load(open(root+'/seeded/%s/meta.json'%d))
    own=m['property']
    desc=(m.get('summary') or '').replace('|','/').replace('\n',' ')[:150]
    keys=m.get('failing_keys',[])
    k=[x for x in keys if x.startswith(own+'-')]
    key=(k or keys or ['-'])[0]
    rows.append("| %s | %s | %s | `%s` |"%(d,desc,' '.join(m.get('caught_by',[])),key))
p=root+'/DESIGN.md'; s=open(p).read()
i=s.index("| id | change | checks that report it | key |")
j=s.index("\n---------",i)
s=s[:i]+"| id | change | checks that report it | key |\n|---|---|---|---|\n"+"\n".join(rows)+"\n"+s[j:]
open(p,'w').write(s)
print(len(rows),"rows")

#!/bin/bash
# usage: intake_benign.sh <round-dir> <Cxx> [variants...] — verifies <round-dir>/out/<Cxx>/<V> and records it as /verif/benign/<Cxx>-<V>
set -u
rd="$1"; id="$2"; shift 2
vs="${*:-$(ls "$rd/out/$id" 2>/dev/null)}"
for v in $vs; do
  [ -f "$rd/out/$id/$v/patch.diff" ] || continue
  mkdir -p /root/benignstage/$id/$v && cp -r "$rd/out/$id/$v/." /root/benignstage/$id/$v/
  /verif/tools/verify_benign.sh /root/benignstage/$id/$v "$id-$v" --keep "/verif/benign/$id-$v" 2>&1 | tee /root/benignstage/$id-$v.log | grep -E "^(RESULT|   test|   FINDING)" | cut -c1-300
done

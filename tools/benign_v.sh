#!/bin/bash
# usage: benign_v.sh <benign-or-seed-dir> <prop> [grep-pattern]: verbose rule listing of one property on a patched scratch worktree
cd /verif
export GOPROXY=off GOSUMDB=off GOTOOLCHAIN=local GOWORK=off CGO_ENABLED=0
d="$1"; prop="$2"; pat="${3:-.}"
[ -d "$d" ] || d="/verif/benign/$1"; [ -d "$d" ] || d="/verif/seeded/$1"
wt=$(mktemp -d /tmp/bv.XXXXXX); rmdir "$wt"
git -C /repo worktree add -q --detach "$wt" HEAD || exit 2
( cd "$wt" && git apply "$d/patch.diff" ) || echo patch-does-not-apply
/verif/bin/tcellvet -prop "$prop" -tier quick -no-evidence -v -repo "$wt" 2>&1 | sed "s#$wt/##g" | grep -E "$pat" | cut -c1-320
git -C /repo worktree remove --force "$wt" >/dev/null 2>&1; rm -rf "$wt"

#!/bin/bash
# usage: rebase_seed.sh <seed-id>   — re-creates /verif/seeded/<id>/patch.diff on /repo's HEAD with a 3-way
# apply in a scratch worktree, rebuilds, and re-confirms with verify_seed.sh; prints CONFLICT if it needs a hand.
set -u
id="$1"
export GOPROXY=off GOSUMDB=off GOTOOLCHAIN=local GOFLAGS=-mod=mod
wt=/tmp/rb-$id; git -C /repo worktree add -q --detach $wt HEAD || exit 2
trap 'git -C /repo worktree remove --force $wt >/dev/null 2>&1' EXIT
cd $wt
if git apply --3way /verif/seeded/$id/patch.diff >/dev/null 2>&1 && ! grep -rlq '^<<<<<<< ' --include=*.go . ; then
  go build ./... || { echo "$id BUILD-FAILS"; exit 1; }
  git add -A; mkdir -p /root/seedstage/rb/$id; cp /verif/seeded/$id/*_test.go /verif/seeded/$id/meta.json /root/seedstage/rb/$id/
  git diff --cached > /root/seedstage/rb/$id/patch.diff
  cd /verif
  /verif/tools/verify_seed.sh /root/seedstage/rb/$id $id --keep /verif/seeded/$id | grep -E "RESULT|clean-tree"
  python3 - "$id" <<'PY'
import json,sys,subprocess
p='/verif/seeded/%s/meta.json'%sys.argv[1]; m=json.load(open(p))
h=subprocess.check_output(['git','-C','/repo','log','--format=%h','-1']).decode().strip()
m['rebased']='patch re-applied (3-way) on /repo %s after fix: commits touched the same lines; confirmed again with the original demonstration'%h
json.dump(m,open(p,'w'),indent=1)
PY
else
  echo "$id CONFLICT"; git diff --name-only --diff-filter=U
fi

#!/bin/bash
# usage: intake.sh <round-dir> <Cxx> [variants...]  — verifies sub-agent output <round-dir>/out/<Cxx>/<V>
# and, when confirmed, records it as /verif/seeded/<Cxx>-<V>
set -u
rd="$1"; id="$2"; shift 2
vs="${*:-$(ls "$rd/out/$id" 2>/dev/null)}"
for v in $vs; do
  mkdir -p /root/seedstage/$id/$v && cp -r "$rd/out/$id/$v/." /root/seedstage/$id/$v/
  /verif/tools/verify_seed.sh /root/seedstage/$id/$v "$id-$v" --keep "/verif/seeded/$id-$v" 2>&1 | tee /root/seedstage/$id-$v.log | grep -E "^(==|RESULT|   clean|   FINDING)" | cut -c1-260
done

#!/bin/bash
# usage: rebase_over_fix.sh seeded|benign <id> <base-commit> <edit.py>
# For a stored patch that no longer applies after a fix: commit because the fix changed its context lines:
# applies the patch on <base-commit> (the tree it was made on), replays the textual edits of the fix with
# edit.py (which asserts that each edited fragment is still there), takes the diff against /repo's HEAD as
# the new patch and re-confirms it with the stored demonstration / regression test.
set -u
kind="$1"; id="$2"; base="$3"; edit="$4"
export GOPROXY=off GOSUMDB=off GOTOOLCHAIN=local GOFLAGS=-mod=mod
wt=/tmp/rof-$id; rm -rf $wt; git -C /repo worktree add -q --detach $wt "$base" || exit 2
trap 'git -C /repo worktree remove --force $wt >/dev/null 2>&1; rm -rf $wt' EXIT
cd $wt
git apply /verif/$kind/$id/patch.diff || { echo "$id DOES-NOT-APPLY-ON-BASE"; exit 1; }
python3 "$edit" || { echo "$id EDIT-FAILED"; exit 1; }
go build ./... || { echo "$id BUILD-FAILS"; exit 1; }
git add -A
st=/root/rbstage/$id; rm -rf $st; mkdir -p $st
cp /verif/$kind/$id/*_test.go /verif/$kind/$id/meta.json $st/ 2>/dev/null
git diff --cached "$(git -C /repo rev-parse HEAD)" > $st/patch.diff
cd /verif
if [ "$kind" = seeded ]; then
  /verif/tools/verify_seed.sh $st $id --keep /verif/seeded/$id | grep -E "RESULT|clean-tree"
else
  /verif/tools/verify_benign.sh $st $id --keep /verif/benign/$id | grep -E "^RESULT|   test"
fi
python3 - "$kind" "$id" <<'PY'
import json,sys,subprocess
p='/verif/%s/%s/meta.json'%(sys.argv[1],sys.argv[2]); m=json.load(open(p))
h=subprocess.check_output(['git','-C','/repo','log','--format=%h','-1']).decode().strip()
m['rebased']='patch re-created on /repo %s (applied on the tree it was made on, the fix: commit replayed on top); confirmed again'%h
json.dump(m,open(p,'w'),indent=1)
PY

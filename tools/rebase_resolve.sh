#!/bin/bash
# usage: rebase_resolve.sh seeded|benign <id> <resolver.py>
# 3-way applies the stored patch on /repo's HEAD in a scratch worktree, lets resolver.py (run in the
# worktree; it gets the conflicted files with markers) settle the conflicts, rebuilds, takes the new
# diff and re-confirms it (verify_seed.sh / verify_benign.sh with the stored demonstration / regression test).
set -u
kind="$1"; id="$2"; res="$3"
export GOPROXY=off GOSUMDB=off GOTOOLCHAIN=local GOFLAGS=-mod=mod
wt=/tmp/rbr-$id; rm -rf $wt; git -C /repo worktree add -q --detach $wt HEAD || exit 2
trap 'git -C /repo worktree remove --force $wt >/dev/null 2>&1; rm -rf $wt' EXIT
cd $wt
git apply --3way /verif/$kind/$id/patch.diff >/dev/null 2>&1
python3 "$res" || { echo "$id RESOLVER-FAILED"; exit 1; }
if grep -rlq '^<<<<<<< \|^>>>>>>> ' --include=*.go . ; then echo "$id STILL-CONFLICTED"; exit 1; fi
gofmt -l $(git diff --name-only HEAD; git diff --name-only --cached HEAD) 2>/dev/null | head -3
go build ./... || { echo "$id BUILD-FAILS"; exit 1; }
git add -A
st=/root/rbstage/$id; rm -rf $st; mkdir -p $st
cp /verif/$kind/$id/*_test.go /verif/$kind/$id/meta.json $st/ 2>/dev/null
git diff --cached HEAD > $st/patch.diff
cd /verif
if [ "$kind" = seeded ]; then
  /verif/tools/verify_seed.sh $st $id --keep /verif/seeded/$id | grep -E "RESULT|clean-tree"
else
  /verif/tools/verify_benign.sh $st $id --keep /verif/benign/$id | grep -E "^RESULT|   test"
fi
python3 - "$kind" "$id" <<'PY'
import json,sys,subprocess
p='/verif/%s/%s/meta.json'%(sys.argv[1],sys.argv[2]); m=json.load(open(p))
h=subprocess.check_output(['git','-C','/repo','log','--format=%h','-1']).decode().strip()
m['rebased']='patch re-applied (3-way, conflicts settled by hand) on /repo %s after a fix: commit touched the same lines; confirmed again with the original test'%h
json.dump(m,open(p,'w'),indent=1)
PY

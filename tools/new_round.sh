#!/bin/bash
# usage: new_round.sh <round-dir> <variant1> <variant2>
# Prepares a round of independent seeding agents: one scratch git worktree of /repo per property under
# <round-dir>/<Cxx> (outside /repo and /verif), the property text, and a prompt that contains only the
# property, the procedure and one-line summaries of the changes earlier agents already produced for that
# property (from /verif/seeded/*/meta.json "summary", i.e. the agents' own words; nothing about the checks).
set -eu
rd="$1"; v1="$2"; v2="$3"
mkdir -p "$rd/out"
python3 - "$rd" "$v1" "$v2" <<'PY'
import json,sys,os,glob,subprocess
rd,v1,v2=sys.argv[1:4]
tmpl=open('/verif/tools/SEED_PROMPT.tmpl').read()
props=[json.loads(l) for l in open('/verif/properties.jsonl')]
for p in props:
    pid=p['id']
    wt=os.path.join(rd,pid)
    if not os.path.isdir(wt):
        subprocess.check_call(['git','-C','/repo','worktree','add','-q','--detach',wt,'HEAD'])
    prop="PROPERTY %s — %s\n\nStatement: %s\n\nQuantified over: %s\n"%(pid,p['title'],p['statement'],p['quantifier']['text'])
    open(os.path.join(rd,pid+'.prop.txt'),'w').write(prop)
    seen=[]
    for m in sorted(glob.glob('/verif/seeded/%s-*/meta.json'%pid)):
        seen.append('  - '+json.load(open(m)).get('summary','').replace('\n',' '))
    t=tmpl.replace('@RD@',rd).replace('@ID@',pid).replace('@PROP@',prop).replace('@V1@',v1).replace('@V2@',v2).replace('@SEEN@','\n'.join(seen))
    open(os.path.join(rd,pid+'.prompt.txt'),'w').write(t)
print("prepared",len(props),"worktrees under",rd)
PY

#!/bin/bash
# Re-runs every check (quick) against each behaviour-preserving change in /verif/benign/<id>/ (patch applied
# to a scratch worktree of /repo, removed afterwards).  Any VIOLATION is a false alarm.
# usage: run_benign.sh [id ...]
set -u
cd /verif
export GOPROXY=off GOSUMDB=off GOTOOLCHAIN=local GOWORK=off CGO_ENABLED=0
ids="${*:-$(ls benign)}"
one() {
  id="$1"
  wt=$(mktemp -d /tmp/runbenign.XXXXXX); rmdir "$wt"
  git -C /repo worktree add -q --detach "$wt" HEAD || { echo "$id worktree-failed"; return; }
  if ( cd "$wt" && git apply "/verif/benign/$id/patch.diff" ) 2>/dev/null; then
    out=$(/verif/bin/tcellvet -prop all -tier quick -no-evidence -repo "$wt" 2>&1)
    alarms=$(echo "$out" | sed -n 's/^VIOLATION property=\([A-Z0-9]*\).*/\1/p' | tr '\n' ' ')
    keys=$(echo "$out" | grep "^FINDING" | sed -E 's/^FINDING [a-z]+ \[[a-z]+\] ([^ ]+) at .*/\1/' | sort -u | head -5 | tr '\n' ' ')
    python3 - "$id" "$alarms" <<'PY'
import json,sys
p='/verif/benign/%s/meta.json'%sys.argv[1]
m=json.load(open(p)); m['alarms_now']=sys.argv[2].split()
json.dump(m,open(p,'w'),indent=1)
PY
    if [ -z "$alarms" ]; then echo "$id quiet"; else echo "$id FALSE-ALARM: $alarms $keys"; fi
  else
    echo "$id patch-does-not-apply"
  fi
  git -C /repo worktree remove --force "$wt" >/dev/null 2>&1; rm -rf "$wt"
}
export -f one
echo $ids | tr ' ' '\n' | xargs -P 8 -I{} bash -c 'one {}' | sort

#!/bin/bash
# usage: new_benign_round.sh <round-dir> <v1> <v2> <v3>
# Prepares a round of agents that produce behaviour-PRESERVING edits (to measure false alarms):
# one scratch git worktree of /repo per property under <round-dir>/<Cxx> and a prompt that contains only
# the property text and the procedure (nothing about the checks).
set -eu
rd="$1"; v1="$2"; v2="$3"; v3="$4"
mkdir -p "$rd/out"
python3 - "$rd" "$v1" "$v2" "$v3" <<'PY'
import json,sys,os,subprocess
rd,v1,v2,v3=sys.argv[1:5]
tmpl=open('/verif/tools/BENIGN_PROMPT.tmpl').read()
for l in open('/verif/properties.jsonl'):
    p=json.loads(l); pid=p['id']
    wt=os.path.join(rd,pid)
    if not os.path.isdir(wt):
        subprocess.check_call(['git','-C','/repo','worktree','add','-q','--detach',wt,'HEAD'])
    prop="PROPERTY %s — %s\n\nStatement: %s\n\nQuantified over: %s\n"%(pid,p['title'],p['statement'],p['quantifier']['text'])
    open(os.path.join(rd,pid+'.prop.txt'),'w').write(prop)
    t=tmpl.replace('@RD@',rd).replace('@ID@',pid).replace('@PROP@',prop).replace('@V1@',v1).replace('@V2@',v2).replace('@V3@',v3)
    open(os.path.join(rd,pid+'.prompt.txt'),'w').write(t)
print("prepared worktrees under",rd)
PY

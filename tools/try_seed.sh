#!/bin/bash
# usage: try_seed.sh <seed-id> [prop ...]   — runs the given checks (default: all) against a scratch
# worktree of /repo with /verif/seeded/<seed-id>/patch.diff applied; prints FINDING/VIOLATION lines.
set -u
seed="$1"; shift
props="${*:-all}"
export GOPROXY=off GOSUMDB=off GOTOOLCHAIN=local GOWORK=off CGO_ENABLED=0
wt=$(mktemp -d /tmp/tryseed.XXXXXX); rmdir "$wt"
git -C /repo worktree add -q --detach "$wt" HEAD || exit 2
trap 'git -C /repo worktree remove --force "$wt" >/dev/null 2>&1; rm -rf "$wt"' EXIT
( cd "$wt" && git apply "/verif/seeded/$seed/patch.diff" ) || { echo "patch does not apply"; exit 2; }
for p in $props; do
  /verif/bin/tcellvet -prop "$p" -tier quick -no-evidence -repo "$wt" 2>&1 | grep -E "^(FINDING|VIOLATION)" | sed "s#$wt/##g" | cut -c1-400
done
echo "-- done $seed"

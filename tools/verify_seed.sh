#!/bin/bash
# usage: verify_seed.sh <out-dir> <name>
#   <out-dir> contains patch.diff, a demo *_test.go file and meta.json (as produced by a mutation agent)
# 1. confirms in a scratch worktree: demo passes on the clean tree, original suite passes with the
#    patch, demo fails with the patch;  2. applies the patch to /repo, runs every check (quick),
#    reverts /repo;  3. prints which checks raised a VIOLATION.
set -u
src="$1"; name="$2"
export GOPROXY=off GOSUMDB=off GOTOOLCHAIN=local GOFLAGS=-mod=mod
wt=$(mktemp -d /tmp/seedverify.XXXXXX)
rmdir "$wt"
git -C /repo worktree add -q --detach "$wt" HEAD || exit 2
cleanup() { git -C /repo worktree remove --force "$wt" >/dev/null 2>&1; rm -rf "$wt"; }
trap cleanup EXIT
demo=$(ls "$src"/*_test.go 2>/dev/null | head -1)
[ -z "$demo" ] && { echo "RESULT $name no-demo"; exit 2; }
democmd=$(python3 -c "import json,sys;print(json.load(open('$src/meta.json')).get('demo_cmd',''))")
# where does the demo live? take the directory from the package clause / meta files
pkgdir=$(python3 - "$src" <<'PY'
import json,sys,re,os
m=json.load(open(sys.argv[1]+'/meta.json'))
cmd=m.get('demo_cmd','')
mm=re.search(r'\./([A-Za-z0-9_/]+)/?\s*$',cmd.strip())
d='.'
if mm: d=mm.group(1)
elif re.search(r'\s\.\s*$',cmd) or cmd.strip().endswith('./'): d='.'
print(d)
PY
)
runpat=$(echo "$democmd" | sed -n 's/.*-run[ =]\([^ ]*\).*/\1/p' | tr -d "'\"")
[ -z "$runpat" ] && runpat=.
cp "$demo" "$wt/$pkgdir/" || exit 2
demofile="$wt/$pkgdir/$(basename "$demo")"
echo "== $name: demo $(basename "$demo") in $pkgdir (run $runpat)"
( cd "$wt" && go test -vet=off -count=1 -run "$runpat" "./$pkgdir/" >/tmp/sv.$$.clean 2>&1 ); cleanrc=$?
( cd "$wt" && git apply "$src/patch.diff" ) || { echo "RESULT $name patch-does-not-apply"; exit 2; }
mv "$demofile" /tmp/sv.$$.demo
( cd "$wt" && go build ./... && GOOS=js GOARCH=wasm go build . && go test -vet=off -count=1 ./... >/tmp/sv.$$.suite 2>&1 ); suiterc=$?
mv /tmp/sv.$$.demo "$demofile"
( cd "$wt" && go test -vet=off -count=1 -run "$runpat" "./$pkgdir/" >/tmp/sv.$$.mut 2>&1 ); mutrc=$?
echo "   clean-tree demo rc=$cleanrc (want 0); suite with patch rc=$suiterc (want 0); demo with patch rc=$mutrc (want !=0)"
ok=1; [ $cleanrc -ne 0 ] && ok=0; [ $suiterc -ne 0 ] && ok=0; [ $mutrc -eq 0 ] && ok=0
rm -f /tmp/sv.$$.*
if [ $ok -ne 1 ]; then echo "RESULT $name NOT-CONFIRMED"; exit 1; fi
# run the checks against /repo with the patch applied
cd /repo && git diff --quiet || { echo "/repo not clean"; exit 2; }
git -C /repo apply "$src/patch.diff" || { echo "RESULT $name patch-does-not-apply-to-repo"; exit 2; }
caught=""
for p in C01 C02 C03 C04 C05 C06 C07 C08 C09 C10 C11 C12 C13 C14 C15 C16 C17 C18 C19 C20; do
  out=$(cd /verif && ./bin/tcellvet -prop $p -tier quick -no-evidence 2>&1)
  if echo "$out" | grep -q "^VIOLATION"; then
    caught="$caught $p"
    echo "$out" | grep "^FINDING" | cut -c1-260 | head -3 | sed "s/^/   [$p] /"
  fi
done
git -C /repo checkout -- .
echo "RESULT $name CONFIRMED caught-by:${caught:- NONE}"

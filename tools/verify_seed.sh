#!/bin/bash
# usage: verify_seed.sh <src-dir> <name> [--keep <dest>]
#   <src-dir> contains patch.diff, a demo *_test.go file and meta.json (as produced by a mutation agent)
# 1. confirms in a scratch worktree of /repo (outside /repo and /verif): the demo passes on the clean
#    tree, the module builds (also js/wasm) and the original suite passes with the patch, the demo
#    fails with the patch;
# 2. runs every check (quick) against the patched worktree (tcellvet -repo <worktree>; the checker
#    analyses whatever tree it is pointed at, /repo itself is never modified);
# 3. prints which checks raised a VIOLATION; with --keep, copies patch/demo/meta (+ what was run)
#    to <dest>.
# The scratch worktree and its build output are removed on exit.
set -u
src="$1"; name="$2"; keep=""
[ "${3:-}" = "--keep" ] && keep="$4"
export GOPROXY=off GOSUMDB=off GOTOOLCHAIN=local GOFLAGS=-mod=mod GOWORK=off
wt=$(mktemp -d /tmp/seedverify.XXXXXX)
rmdir "$wt"
git -C /repo worktree add -q --detach "$wt" HEAD || exit 2
tmpf=$(mktemp /tmp/sv.XXXXXX)
cleanup() { git -C /repo worktree remove --force "$wt" >/dev/null 2>&1; rm -rf "$wt" "$tmpf".*  "$tmpf"; }
trap cleanup EXIT
demo=$(ls "$src"/*_test.go 2>/dev/null | head -1)
[ -z "$demo" ] && { echo "RESULT $name no-demo"; exit 2; }
democmd=$(python3 -c "import json,sys;print(json.load(open('$src/meta.json')).get('demo_cmd',''))")
pkgdir=$(python3 - "$src" "$demo" <<'PY'
import json,sys,re,os
m=json.load(open(sys.argv[1]+'/meta.json'))
cmd=m.get('demo_cmd','')
mm=re.search(r'\./([A-Za-z0-9_/]+)/?(\s|$)',cmd.strip())
d='.'
if mm: d=mm.group(1)
else:
    # fall back on the package clause of the demo
    src=open(sys.argv[2]).read()
    pk=re.search(r'^package\s+(\w+)',src,re.M).group(1)
    d={'tcell':'.','tcell_test':'.','terminfo':'terminfo','terminfo_test':'terminfo','views':'views','views_test':'views','encoding':'encoding'}.get(pk,'.')
print(d)
PY
)
runpat=$(echo "$democmd" | sed -n 's/.*-run[ =]\([^ ]*\).*/\1/p' | tr -d "'\"")
[ -z "$runpat" ] && runpat=.
extraenv=""
echo "$democmd" | grep -q -- "-race" && extraenv="-race"
wasm=0
echo "$democmd" | grep -q "GOOS=js" && wasm=1
gotest() { # runs the demo in the worktree
  if [ $wasm -eq 1 ]; then
    ( cd "$wt" && GOOS=js GOARCH=wasm go test -vet=off -count=1 -exec="$(go env GOROOT)/misc/wasm/go_js_wasm_exec" -run "$runpat" "./$pkgdir/" )
  else
    ( cd "$wt" && CGO_ENABLED=$([ -n "$extraenv" ] && echo 1 || echo 0) go test $extraenv -vet=off -count=1 -run "$runpat" "./$pkgdir/" )
  fi
}
cp "$demo" "$wt/$pkgdir/" || exit 2
demofile="$wt/$pkgdir/$(basename "$demo")"
echo "== $name: demo $(basename "$demo") in $pkgdir (run $runpat $extraenv wasm=$wasm)"
gotest >"$tmpf.clean" 2>&1; cleanrc=$?
( cd "$wt" && git apply "$src/patch.diff" ) || { echo "RESULT $name patch-does-not-apply"; exit 2; }
mv "$demofile" "$tmpf.demo"
( cd "$wt" && go build ./... && GOOS=js GOARCH=wasm go build . && go test -vet=off -count=1 ./... >"$tmpf.suite" 2>&1 ); suiterc=$?
mv "$tmpf.demo" "$demofile"
gotest >"$tmpf.mut" 2>&1; mutrc=$?
echo "   clean-tree demo rc=$cleanrc (want 0); suite with patch rc=$suiterc (want 0); demo with patch rc=$mutrc (want !=0)"
ok=1; [ $cleanrc -ne 0 ] && ok=0; [ $suiterc -ne 0 ] && ok=0; [ $mutrc -eq 0 ] && ok=0
if [ $ok -ne 1 ]; then
  [ $cleanrc -ne 0 ] && tail -15 "$tmpf.clean" | sed 's/^/   clean| /'
  [ $suiterc -ne 0 ] && tail -15 "$tmpf.suite" | sed 's/^/   suite| /'
  echo "RESULT $name NOT-CONFIRMED"; exit 1
fi
rm -f "$demofile"
# run the checks against the patched worktree
unset GOFLAGS
out=$(cd /verif && CGO_ENABLED=0 ./bin/tcellvet -prop all -tier quick -no-evidence -repo "$wt" 2>&1)
caught=$(echo "$out" | sed -n 's/^VIOLATION property=\([A-Z0-9]*\).*/\1/p' | tr '\n' ' ')
echo "$out" | grep "^FINDING" | sed "s#$wt/##g" | cut -c1-300 | head -8 | sed "s/^/   /"
echo "RESULT $name CONFIRMED caught-by: ${caught:-NONE}"
if [ -n "$keep" ]; then
  mkdir -p "$keep"
  cp "$src/patch.diff" "$keep/patch.diff"
  cp "$demo" "$keep/"
  python3 - "$src/meta.json" "$keep/meta.json" "$name" "$caught" "$runpat" "$pkgdir" "$extraenv" <<'PY'
import json,sys
m=json.load(open(sys.argv[1]))
m['id']=sys.argv[3]
m['breaks_property']=m.get('property')
m['confirmed']={'clean_tree_demo':'pass','original_suite_with_patch':'pass (go build ./..., GOOS=js GOARCH=wasm go build ., go test -vet=off -count=1 ./...)','demo_with_patch':'fail',
  'ran':'tools/verify_seed.sh in a scratch git worktree of /repo: go test %s -vet=off -count=1 -run %s ./%s/ (clean, then patched); bin/tcellvet -prop all -tier quick -repo <patched worktree>'%(sys.argv[7],sys.argv[5],sys.argv[6])}
if 'GOOS=js' in m.get('demo_cmd',''): m['confirmed']['ran']=m['confirmed']['ran'].replace('go test ','GOOS=js GOARCH=wasm go test -exec=go_js_wasm_exec (Node) ',1)
m['caught_by']=sys.argv[4].split()
json.dump(m,open(sys.argv[2],'w'),indent=1)
PY
fi

#!/bin/bash
# usage: verify_benign.sh <src-dir> <name> [--keep dest]
# Confirms a behaviour-preserving change in a scratch worktree of /repo (builds incl. js/wasm, original suite
# passes, the agent's regression test passes before and after) and runs every check against the patched
# tree.  A VIOLATION here is a false alarm of the machinery (or the change is not harmless after all:
# to be triaged by reading).
set -u
src="$1"; name="$2"; keep=""
[ "${3:-}" = "--keep" ] && keep="$4"
export GOPROXY=off GOSUMDB=off GOTOOLCHAIN=local GOFLAGS=-mod=mod GOWORK=off
wt=$(mktemp -d /tmp/benignverify.XXXXXX); rmdir "$wt"
git -C /repo worktree add -q --detach "$wt" HEAD || exit 2
tmpf=$(mktemp /tmp/bv.XXXXXX)
trap 'git -C /repo worktree remove --force "$wt" >/dev/null 2>&1; rm -rf "$wt" "$tmpf" "$tmpf".*' EXIT
tst=$(ls "$src"/*_test.go 2>/dev/null | head -1)
[ -z "$tst" ] && { echo "RESULT $name no-test"; exit 2; }
pk=$(sed -n 's/^package \([a-z_]*\).*/\1/p' "$tst" | head -1)
case "$pk" in xterm) pkgdir=terminfo/x/xterm;; terminfo|terminfo_test) pkgdir=terminfo;; views|views_test) pkgdir=views;; encoding) pkgdir=encoding;; *) pkgdir=.;; esac
wasm=0; grep -q "js && wasm\|+build js" "$tst" && wasm=1
run() { if [ $wasm -eq 1 ]; then ( cd "$wt" && GOOS=js GOARCH=wasm go test -vet=off -count=1 -exec="$(go env GOROOT)/misc/wasm/go_js_wasm_exec" "./$pkgdir/" ); else ( cd "$wt" && go test -vet=off -count=1 "./$pkgdir/" ); fi; }
cp "$tst" "$wt/$pkgdir/"
run >"$tmpf.before" 2>&1; brc=$?
( cd "$wt" && git apply "$src/patch.diff" ) || { echo "RESULT $name patch-does-not-apply"; exit 2; }
( cd "$wt" && go build ./... && GOOS=js GOARCH=wasm go build . ) >"$tmpf.build" 2>&1; bld=$?
run >"$tmpf.after" 2>&1; arc=$?
rm -f "$wt/$pkgdir/$(basename "$tst")"
( cd "$wt" && go test -vet=off -count=1 ./... ) >"$tmpf.suite" 2>&1; src_=$?
echo "   test before rc=$brc after rc=$arc build rc=$bld suite rc=$src_ (all want 0)"
if [ $brc -ne 0 ] || [ $arc -ne 0 ] || [ $bld -ne 0 ] || [ $src_ -ne 0 ]; then echo "RESULT $name NOT-CONFIRMED"; tail -5 "$tmpf.after" | sed 's/^/   | /'; exit 1; fi
unset GOFLAGS
out=$(cd /verif && CGO_ENABLED=0 ./bin/tcellvet -prop all -tier quick -no-evidence -repo "$wt" 2>&1)
alarms=$(echo "$out" | sed -n 's/^VIOLATION property=\([A-Z0-9]*\).*/\1/p' | tr '\n' ' ')
echo "$out" | grep "^FINDING" | sed "s#$wt/##g" | cut -c1-330 | head -8 | sed "s/^/   /"
echo "RESULT $name CONFIRMED alarms: ${alarms:-none}"
if [ -n "$keep" ]; then
  mkdir -p "$keep"; cp "$src/patch.diff" "$tst" "$keep/"
  python3 - "$src/meta.json" "$keep/meta.json" "$name" "$alarms" <<'PY'
import json,sys
m=json.load(open(sys.argv[1])); m['id']=sys.argv[3]; m['alarms_first_pass']=sys.argv[4].split()
json.dump(m,open(sys.argv[2],'w'),indent=1)
PY
fi

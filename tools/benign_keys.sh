#!/bin/bash
# prints, for each benign change, the failing keys (rule ids) the checks report: the work list for generalising rules
cd /verif
export GOPROXY=off GOSUMDB=off GOTOOLCHAIN=local GOWORK=off CGO_ENABLED=0
one() {
  id="$1"
  wt=$(mktemp -d /tmp/bk.XXXXXX); rmdir "$wt"
  git -C /repo worktree add -q --detach "$wt" HEAD || return
  if ( cd "$wt" && git apply "/verif/benign/$id/patch.diff" ) 2>/dev/null; then
    /verif/bin/tcellvet -prop all -tier quick -no-evidence -repo "$wt" 2>&1 | grep "^FINDING" | sed -E "s#$wt/##g; s/^FINDING ([a-z]+) \[[a-z]+\] ([^ ]+) at ([^ ]+) \(.*\): (.*)/\1 \2 @\3 :: \4/" | cut -c1-260 | sed "s/^/$id  /"
  else echo "$id patch-does-not-apply"; fi
  git -C /repo worktree remove --force "$wt" >/dev/null 2>&1; rm -rf "$wt"
}
export -f one
echo ${*:-$(ls benign)} | tr ' ' '\n' | xargs -P 8 -I{} bash -c 'one {}' | sort

#!/usr/bin/env python3
"""Generates /verif/MANIFEST.json from the table below (one place to edit)."""
import json, os

HERE = os.path.dirname(os.path.abspath(__file__))

# id -> (technique, level text, level note) for claimed properties
CLAIMED = {
    "C10": (
        "must-lockset dataflow over SSA + call-graph summaries, derived field protection classes",
        "Structural necessary condition, decided on all paths: every access to mutable screen state, every Tty write and every use of the draw buffer / charset transformers in tScreen, simscreen and the shared baseScreen layer happens with the screen mutex held; no lock leak or double acquisition. This is the locking discipline race-freedom and the contiguity of a Show block depend on; it does not decide races inside dependencies or atomicity across critical sections.",
        "Assumes constructors/Init happen-before other calls, WaitGroup.Wait orders consecutive loops, Tty and Terminfo are not mutated by the application concurrently. Trusted: go/types, go/ssa (x/tools v0.29.0), the lockset transfer functions in checker/lockset.go.",
    ),
}

CLAIMED.update({
    "C19": (
        "type-check of the js/wasm configuration + interface satisfaction + must-lockset / lock-pairing dataflow on wScreen + guard dominance of JS calls + constant table comparison",
        "Structural necessary conditions decided on the GOOS=js GOARCH=wasm configuration: the package type-checks and *wScreen implements screenImpl; every wScreen method releases the mutex on every path and none re-acquires it (lifecycle calls cannot wedge on the lock); guarded state is touched only under the mutex and no blocking event post happens while it is held; mouse handlers are installed only under the matching flag tests; the JS drawCell call is dominated by the Dirty test and paired with the clean mark; the 16-colour palette equals the xterm values. The JavaScript half (webfiles/tcell.js), DOM key names and rendering are not decided.",
        "Trusted: go/types and go/ssa for js/wasm, the xterm 16-colour reference values, the assumption that tcell.js implements the named entry points. No JavaScript tooling exists in the sandbox.",
    ),
    "C06": (
        "stop-awareness analysis of WaitGroup-joined goroutines (SSA + call graph channel naming), lockset for blocking-under-lock, once/guard-liveness rules",
        "Structural necessary condition for 'Fini/Suspend always return', decided over all paths: every blocking channel operation reachable from a goroutine that disengage / Tty.Stop joins has a receive alternative on a channel that is closed on every path before the join; nothing blocks on a channel or WaitGroup while the screen mutex is held; Fini is a sync.Once around the single closer of quit; the flag Show/Sync test to become inert is really set on the Fini path; PollEvent returns nil on the stop case. Scheduler fairness, timing bounds and the behaviour of external Tty implementations are not decided.",
        "Assumes the documented Tty.Drain contract (a blocked Read returns after Drain) and a fair scheduler. Trusted: go/ssa, the channel-naming and stop-set computation in checker/stopaware.go.",
    ),
    "C05": (
        "enumeration of every send on an event queue (SSA Select/Send), return-value provenance in PostEvent, who-may-send/receive on the chunk queue, allocation-site completeness of Event values",
        "Structural necessary conditions: no lossy (non-blocking) send of input events anywhere in the library (only the resize notification and PostEvent may drop), blocking sends have only shutdown-signal alternatives; PostEvent returns nil exactly on the send case and ErrEventQFull exactly on the default case; the input pipeline is a single lane (one sender, one receiver, loops started once under the running flag with matching WaitGroup accounting, events sent in slice order); every constructed Event is stamped (no nil embedded time); ChannelEvents defers close of its channel. Exactly-once and ordering over schedules, HasPendingEvent and When() bounds are not decided.",
        "Assumes FIFO channels. Trusted: go/ssa, rule templates in checker/c05.go.",
    ),
})

CLAIMED.update({
    "C03": (
        "constant folding of the key-table builder over every database entry (typed-AST evaluator), SSA guard-shape rules for the registrars, exhaustive table checks, capability coverage",
        "Decided exhaustively over the 49 entries of the database as constants of the source: the key table each entry produces (folded from the builder, whose registrar semantics are first established from SSA) is prefix-free, maps every capability's sequence to the key and modifiers the capability's name denotes, pairs xterm modifier parameters 2..16 with xterm's Shift/Alt/Ctrl/Meta masks and replaces function-key aliases consistently, maps control bytes to Ctrl keys, contains no sequence shadowed by the rune parser, and every populated key capability is registered. NewEventKey's control-rune normalisation is checked by shape. The run-time matcher (Alt prefix, timeout, concatenated sequences) is not decided here.",
        "Trusted: the evaluator's statement subset (anything outside it is reported undecided), xterm's PC-style modifier encoding (1 + bitmask) and function-key alias offsets frozen in the checker.",
    ),
    "C14": (
        "constant extraction of all database literals, reference terminfo(5) parser, call-site arity derivation (through wrappers and local tables), ownership rule on *Terminfo stores (SSA), lock dominance and key provenance on the registry, control dependence of the synthesis blocks, value flow from lookups to registrations",
        "Decided exhaustively over all entries x fields (constants of the source): literal entries, unique names/aliases, aggregate imports, two-parameter cursor addressing, well-formed programs within the parameters supplied at the library's TParm call sites, colour-count consistency, prefix-free key tables. Lookup stability is decided as an ownership rule on all paths (no store through a *Terminfo that may alias a registered entry), plus synthesised strings denoting the standard SGR forms for every index, ErrTermNotFound on failure, documented environment constants, registration and map access under the mutex. The infocmp loader and environment-dependent behaviour are not decided.",
        "Trusted: reference terminfo(5) parser/interpreter and ECMA-48 tokenizer in the checker (self-tested on every run), go/types constant evaluation.",
    ),
    "C15": (
        "reference terminfo(5) interpreter applied to source constants (exhaustive evaluation of cup over the position grid and of colour programs over all indices per entry); constant evaluation of TColor over colour counts x index grid and of a %d helper over a number range (SSA-level constant propagation with modelled calls); scanner automaton of the padding grammar in lockstep with the reference automaton; SSA rules for TGoto and for TPuts' marker searches (strings.Index or strings.Cut)",
        "For each of the 49 entries the cursor-addressing constant is evaluated by an independent reference interpreter over rows x columns 0..300 (quick: 30 rows/cols x all; thorough: the full grid) and must equal the string its addressing convention defines; colour programs are evaluated for every index below the colour count and must denote that palette entry; TGoto's argument order, TColor's folding/range comparisons and TPuts' bounds and progress are checked on SSA. This decides the data and the argument plumbing, given a TParm that implements terminfo(5) (C07); the padding grammar is not decided.",
        "Trusted: the reference interpreter (written from terminfo(5), self-tested), the three addressing conventions and SGR colour forms frozen in the checker.",
    ),
})

CLAIMED.update({
    "C07": (
        "SSA rules on TParm and its stack, reader/writer/pops identified by role, helpers and constant tables of function literals looked through (dispatch exhaustiveness, operand order, guards, loop termination, index bounds, operand coercion of formatted conversions); constant evaluation of a %d helper over a number range; exhaustive parse of every parameterised constant with the reference terminfo(5) parser",
        "Structural necessary conditions on the interpreter (all paths) and exhaustive conditions on the data it is fed: the %-dispatch covers the terminfo(5) alphabet; each binary operator applies the matching Go operator to (second pop, first pop) with zero-guarded division; stack coercions and empty-stack behaviour have the specified shape; the skip scanner tracks nested conditionals; every loop terminates at end of input; array indices are guarded; and every parameterised string in the 49 entries and in the library's literals is a well-formed program using only implemented operators and supplied parameters. It does not decide the value each handler computes on arbitrary programs (printf details, %c of unusual values, static variables).",
        "Trusted: the operator alphabet frozen from terminfo(5); reference parser (self-tested); go/ssa.",
    ),
})

CLAIMED.update({
    "C01": (
        "path rules on the SSA of the terminfo painter: edge-sensitive must-dataflow (cursor cache), dominance / must-pass-through (invalidate before draw, flush, epilogue), value provenance of colour arguments",
        "Structural necessary conditions every history-independent painter must satisfy, decided on all paths of draw/drawCell/resize/Sync/mainLoop/showCursor/sendFgBg: payload only after addressing or both cache-equality tests; cached cursor and style forgotten at the start of each draw; every geometry change / Sync / resize notification invalidates all cells (Sync also clears) before drawing; clean-mark only after the payload write, cached column dropped after wide output; one buffered flush per draw; cursor epilogue with the four-sided test; palette indices from the colour cache / FindColor(palette), RGB under truecolor; hidden column of a wide rune re-dirtied. Grid equality over histories, attribute order and hyperlinks are not decided.",
        "Trusted: go/ssa; rule templates in checker/c01.go. The meaning of the emitted strings is decided separately (C09, C14, C15).",
    ),
    "C08": (
        "guard-dominance and field-pair agreement rules on the SSA of every CellBuffer method; who-may-write the shape fields; aliasing rule for combining slices",
        "Structural necessary conditions on all paths of cell.go: bounded cells[] access with index y*w+x under the four-way guard, shape fields only replaced together in Resize; Dirty/SetDirty/Resize agree on every curr/last field pair of the struct; lock test first, unlock and Invalidate force-dirty; combining runes copied and never written through; ColorNone merge wherever the style is stored; wide-rune columns dirtied before the width changes; width always recomputed from the stored rune. Equivalence with an array model over histories is not decided.",
        "Trusted: go/ssa; one named exception (SetDirty's zero-rune→blank rewrite), printed in the evidence.",
    ),
    "C09": (
        "encapsulation / who-may-read rules, sanitiser path rule on GetContent, provenance classification of every emission site + reference-interpreter expansion + ECMA-48 tokenizer over all ECMA-family entries, sign discipline of TParm arguments",
        "Injection half: cell content is reachable only through CellBuffer.GetContent, which on every path returns a blank, zero or a rune that passed width != 0 and rune >= ' '; width is always recomputed from the stored rune; payload reaches the Tty only via drawCell→encodeRune→writeString. Well-formedness half, exhaustive over emission sites x ECMA-family entries (3000+ constant strings): each emitted control string, expanded by the reference interpreter over sample parameters, tokenizes as complete CSI/OSC/ESC sequences with numeric parameters and no residue; integer TParm arguments are provably non-negative or named exceptions. External charset encoders and user strings (title, URL) are not decided.",
        "Trusted: go-runewidth's classification of non-printing runes (EastAsianWidth off, whose store is checked), reference interpreter and tokenizer (self-tested), three named exceptions (SetSize arguments, corner-trick column) printed in the evidence.",
    ),
    "C11": (
        "loop-bound and value-provenance rules on the rune decoder, block-level pairing rule on paste configuration, dispatch guards in the collect loop",
        "Thin structural necessary conditions: inclusive prefix-loop bound in parseRune, consumption = decoder's nSrc, paste enable/disable strings and both bracket keys configured together and mapped to start/end events, rune and focus parsers called unconditionally, focus I/O polarity. Behaviour of the external charset decoders over all strings and split points is not decided.",
        "Trusted: go/ssa. The sibling loop in SimulationScreen.InjectKeyBytes is decided under C18.",
    ),
    "C13": (
        "guard dominance of every emission by the Dirty edge, enumeration of force-dirty sites by the entry points that reach them through the call graph (repaint-by-contract table, edge-sensitive 'size differs' must-fact, value-changed guards), gate flags between draw and the cell loop, who-may-call the raw writer",
        "Structural necessary conditions on all paths: every emission of both painters is dominated by the true edge of Dirty and the clean-mark is tied to the payload write; every force-dirty site reachable from Show is behind resize()'s size-changed test or is one of the two documented neighbour sites (any other site makes every Show repaint unchanged cells); payload is written only by drawCell; LockRegion dispatches on its flag. 'Exactly the changed set' over histories is not decided.",
        "Trusted: go/ssa; the two documented neighbour sites are recognised by shape (x+1 under width>1; x-1 inside the corner-trick closure).",
    ),
    "C18": (
        "sibling rules of C11/C13/C01/C17 applied to simscreen and cross-checked against tScreen (failure predicate, fallback consulted for the main rune only): loop bound, nSrc provenance, reachability of a posted resize event from SetSize, dirty gate, Sync ordering, storage ownership of cell bytes and of the resized array",
        "Thin structural necessary conditions for the test double: InjectKeyBytes' prefix loop includes len(b) and advances by nSrc; SetSize of each backend reaches a posted EventResize without pre-empting the size comparison; painter dirty-gated, clean after write, Sync clears and invalidates first, last-column wide rune blanked, four-sided cursor test. Fidelity over histories and byte-level agreement with the real fallback chain are not decided; the simulator's locking is decided under C10.",
        "Trusted: go/ssa.",
    ),
})

CLAIMED.update({
    "C02": (
        "path rules on the SSA of the six input parsers (found by signature) and the collect loop: never-after (all-or-nothing), must-pass-through (complete implies consumption), cycle rule with edge facts (progress), provenance of slice bounds (prefix locality), guard dominance of index sites",
        "Structural necessary conditions decided on all paths: parsers are all-or-nothing, complete implies consumed, every collect-loop cycle progresses, with the timeout expired the loop only exits on an empty buffer, nothing a parser matches or consumes depends on len() of the whole input buffer, no unchecked prefix skip, guarded index sites, and the wait-for-more gate counts every parser's partial answer. Equality of event sequences over all partitions, the mutual consistency of the six parser languages and decoder behaviour are not decided.",
        "Trusted: go/ssa. Stated weakening: a consumption loop counts as a consumption site (it is not proven to run at least once).",
    ),
    "C04": (
        "set/reset pairing table filled from the emission sites of the code (value provenance), dominance and never-after rules on the Tty typestate of disengage/finalize/finish, sibling agreement over the mode togglers",
        "Structural necessary conditions on all paths: every mode the screen can set has its reset emitted in disengage before Tty.Stop under allowed guards only; Drain, NotifyResize(nil) and the join dominate Stop, nothing is written after Stop, Close only in finalize after disengage, finalize only from finish, finish only through sync.Once; Resume re-applies the persistent mode fields; each toggler stores the persistent field and emits consistently under the lock. Whether reset strings undo set strings on a real terminal (database content) and history-dependent guards are not decided.",
        "Assumes the documented Tty contract. Trusted: go/ssa, the twelve-row pairing table in checker/c04.go.",
    ),
    "C12": (
        "constant evaluation of buildMouseEvent over all 256 button codes (SSA-level constant propagation; the AST table reading as fallback) compared with the xterm protocol table; linear-form normalisation of the values handed to buildMouseEvent; guard and consumption rules on the two mouse parsers",
        "Table agreement and normalisation decided exhaustively on the code: button mask and six button codes, three modifier bits, clip as mandatory sanitiser with clamp values, SGR value-1 / motion bit cleared, X11 byte-33 coordinates and byte-32 button (sibling agreement of the two parsers), release and button-less motion clear the button bits, press flag set/cleared on the right edges, both introducers accepted. The press/drag/release protocol over report sequences and multi-digit parsing correctness are not decided.",
        "Trusted: the xterm ctlseqs mouse encoding frozen in the checker; go/types constant evaluation.",
    ),
    "C16": (
        "constant extraction of the ColorValues / ColorNames map literals compared with the xterm palette formula and an independent CSS colour-name table; provenance of FindColor's result; guard rules on validity gates",
        "The table half is decided exhaustively over constants: all 256 palette entries, all 148 CSS/SVG colour keywords present with the reference value and no others, RGB-flagged constants equal their table entry. FindColor returns ColorDefault or a palette element and updates on strictly smaller distance; Hex/RGB/TrueColor gate on validity. Round-trips over 2^24 values and CIE76 optimality are numeric and not decided.",
        "Trusted: golang.org/x/image/colornames (module cache) as the independent name table, the xterm 256-colour formula.",
    ),
    "C17": (
        "Boolean normal-form comparison of encodeRune's failure predicate with CanDisplay's success predicate; lookup-order dominance; constant table comparison of the ACS names and Unicode glyphs; CFG order of the locale variables; who-may-read the fallback map",
        "Structural necessary conditions: decision chain encoder → ACS → fallback → '?' by dominance on lookup results; CanDisplay is the logical negation of the failure predicate over the same three observations; ACS name table equals the terminfo(5) acsc assignment and the Rune constants are the right Unicode characters; buildAcsMap brackets glyphs and walks all pairs; LC_ALL/LC_CTYPE/LANG precedence and POSIX/C; the fallback map is never copied; registry normalisation and locking agree. What each charset encodes, width preservation and glyph fidelity are not decided.",
        "Trusted: terminfo(5) acsc table and Unicode code points frozen in the checker.",
    ),
    "C20": (
        "must-pass-through rules (clamp after offset write, relayout after mutation) with an infeasible-return refinement for local flags, guard normal forms of the window tests, loop-carried value rules on the remainder loops",
        "Structural necessary conditions on all paths of views/view.go and views/boxlayout.go: every offset / limit / size write of ViewPort is followed by the matching Validate call; the clamps bound the offset by lim-size and 0 in that order; SetContent forwards only inside the four window tests with the documented translation; Fill covers the view rectangle; every BoxLayout mutation is tied to a relayout; the remainder loops decrement and are not entered without a fill factor. Exact proportional distribution, pairwise disjointness and nested-layout histories are arithmetic and not decided.",
        "Trusted: go/ssa.",
    ),
})


# rules added after the independently seeded changes (rounds 1 and 2) were run against the checks:
# one sentence per property, appended to its level text
ADDENDA = {
    "C01": "Also: the style cache is compared as a whole (component reads only for components the forget-marker sets); drawCell returns the GetContent width on every path; a painted cell is marked clean on every way out; the believed column width is go-runewidth's. Further: LockRegion covers exactly its rectangle; the underline bit and underline style stay in step in every Style method; the palette model (fitting against the xterm-256 RGB table presupposes colour counts 0/8/16/256/direct: three 88-colour entries violate it and are a recorded known finding). Application text spliced into a capability (title, URL) never passes through the padding stripper. The style cache has two writers only (forget-marker; drawCell's store of the style just emitted); HideCursor moves the requested position off-screen. The colour reset precedes every colour selection in sendFgBg. Round 6: ShowCursor stores the requested position as given; every operand handed to the parameter interpreter is an int, string or bool. Round 7: a new combining list is a fresh slice (the last-drawn record shares the old one); the clear flag is raised only together with Invalidate. Round 8: Fill resolves ColorNone per cell on a copy; every colour selection and attribute switch of a style change is preceded by AttrOff.",
    "C02": "Also: what a parser consumes is exactly what it matched (fixed read counts against an abstract interpretation of the recogniser's (state, index) pairs; countdown, prefix, decoder and delimiter idioms); a queued input chunk owns its backing array; a 'partial' answer over several candidates only accumulates. Further: a decoder loop that answers 'complete' has consumed (progress); per terminal no key sequence or fixed report is a proper prefix of another key unless its parser is held back while the key matcher is partial; the escape timer is re-armed only after Stop with the tick drained. A recogniser dispatching on the current byte rejects unknown bytes. Round 6: which parsers the collect loop tries depends on the terminal's description and the scan only (the focus parser is tried on every terminal). Round 7: the rune parser offers the decoder growing prefixes, so what it consumes is the character it reports. Round 8: the pending-Alt flag is cleared only where applied (shared with C03).",
    "C03": "Also: the pending-Alt flag is screen state set by the collect loop and tested-and-cleared by the rune and function-key parsers; queued input chunks own their backing array. Further: wherever the pending-Alt flag is cleared it is applied; focus reports are checked against every key table; the rune parser's single-byte shortcut covers exactly 0x20-0x7e. The key matcher (parseFunctionKey) consumes exactly the matched sequence and its partial answer only accumulates. The escape timer is re-armed for any leftover, whatever its first byte. Round 6: the key matcher passes over a bare ESC entry of the table. Round 7: AddTerminfo files every entry under its name and aliases as written. Round 8: the key matcher's event carries the matched entry's key; every entry declaring xterm modifiers has the Shift forms of its cursor keys in its folded table.",
    "C04": "Also: remembered modes are stored only by the togglers (nothing reachable from Suspend/Resume/Fini stores them); on/off string fallbacks are assigned under the same conditions; the title is pushed before it is set. Further: cursor shape/colour resets are unconditional (a guard on the application's current request is rejected). Modes toggled on a screen that is not running are remembered, not written; engage's enter/push emissions carry no guard beyond the environment switch and string presence. Mode-off emissions and the remembered values do not depend on the bookkeeping or on the screen running; hyperlinks are closed at hand-back. Round 6: the set and reset strings of a mode differ in every description (DEC private pairs end in h/l the right way round); engage and the togglers are followed through their helpers with argument binding. Round 7: draw is inert unless the screen is running, in draw itself or in every caller. Round 8: the hand-back path selects no colour and switches no attribute on.",
    "C05": "Also: queued input chunks own their backing array; ChannelEvents forwards the event it holds before it can receive another; no event producer consults a queue's fill level; only the terminfo/console resize notification and PostEvent may drop (wasm callbacks included in the quick tier). Further: the escape timer cannot deliver a stale tick; Fini closes the quit channel unconditionally. Bytes a read returned are queued whatever error came with them. Input a parser removes as 'complete' becomes an event (excuses: undecodable input that is not the charset's own U+FFFD; non-base64 clipboard payload); StopQ hands out the channel only Fini closes. Appended events are freshly constructed (never a possibly-nil pointer). Round 6: PollEvent returns every event it takes off the queue. Round 7: every parser removes exactly the bytes it recognised (shared with C02).",
    "C06": "Also: engage re-establishes what disengage dismantles (resize callback feeding the queue the main loop reads, fresh stop channel given to both loops, Tty.Start); the Tty implementations do not join their signal goroutine under their own mutex; t.tty/t.ti are stored non-nil by the constructor or Init only. Further: draw returns unless running and every painter's column loop advances by at least one; every close of a quit channel runs at most once and engage refuses a finished screen. A refused engage has stored nothing in the screen; finish sets fini before handing the terminal back. PollEvent tests the stop channel alone before the select that also receives events. No event queue is ever closed; the unix Ttys undo deadline and non-blocking mode in Start; the simulation's Fini closes quit before locking. Round 6: every cycle of inputLoop that contains the Tty read passes the stop test. Round 7: a Tty that opens its own handle and wakes its reader with a deadline never calls Fd() on it. Round 8: what Init creates is used on the shutdown path only behind a non-nil test or the running flag (D54); the reported size is stored only where the resize event is posted.",
    "C07": "Also: a closer or else ends a skip only at nesting level zero and every skipping mode counts nested openers; %c writes exactly one byte; %i increments each of the first two parameters independently; no pop discards the popped stack. Further: the evaluation state is local to the call (no pooled or package storage besides the static variables). TGoto keeps no state across calls. Round 6: the logical operators %A/%O are decided on the two popped values; printf-style flags are collected without the ':' introducer as well. Round 7: reader and writer of TParm are identified by role; a formatted conversion gets the operand popped with the coercion of its type; %d writes the decimal form (a helper is decided by constant evaluation over -1000..70000). Round 8: every way of completing an operator pops the same number of operands.",
    "C08": "Also: every width store is RuneWidth of the stored rune, a copy, or the constant 1 under a proven printable-ASCII range; cells are never copied wholesale (clean-mark and lock do not travel); the ColorNone test works on a per-cell fresh copy of the style. Further: every method replacing a main rune dirties the covered columns first; SetDirty copies only the snapshot; Fill stores every cell; a width wrapper may only blank more runes. Resize copies exactly the overlapping region. Round 6: Dirty treats a zero marker as dirty whatever the cell holds and compares the combining runes with their lengths. Round 8: neighbour dirtying of a wide rune does not depend on the base cell's dirty marker.",
    "C09": "Also: TPuts removes terminated padding with exactly its delimiters and recognises every padding byte the database uses; encoder output is appended only behind the SUB test for every encoder call. Further: synthesised colour strings are well-formed with non-negative parameters for every index; format characters (Unicode Cf) get width 0 before the width tables are consulted; ACS glyph strings carry no padding. Round 6: operands of the parameter interpreter are int/string/bool; the charset is chosen from LC_ALL, LC_CTYPE, LANG with an empty value counting as unset. Round 7: encoder and decoder fields are assigned from NewEncoder and NewDecoder respectively wherever they are assigned.",
    "C10": "Also: memory handed from the input goroutine to the main loop is not written again by the sender. Further: what GetContent hands out is never written again. Concurrent Fini calls run the shutdown body once (sync.Once, single closer). The Tty implementations' resize callback is accessed under their own mutex. Round 8: event queues are never closed; clipboard event payloads are memory made for the event.",
    "C11": "Also: queued input chunks own their backing array; no unicode/utf8 function is applied to undecoded input; a prefix the decoder could only substitute U+FFFD for is not consumed before prefixes up to 4 bytes were tried; the charset registration table pairs names with the objects of the same name; the key matcher's partial answer accumulates. Further: a read that returns bytes together with an error has its bytes queued. The rune parser delivers every character it consumes, a genuine U+FFFD included; the collect loop honours every parser's partial answer on every path. The rune parser is asked before the mouse parsers. Round 6: a freshly read chunk is scanned with expire=false; paste and focus modes survive Suspend/Resume. Round 7: the U+FFFD comparison has the screen's own encoder output on one side; no parser call of the collect loop is behind a test of the pending-counter alone. Round 8: one normalisation of charset names; a select sending a decoded event has shutdown alternatives only.",
    "C12": "Also: the SGR parser's per-parameter accumulators are reset together; queued input chunks own their backing array. Further: the rune parser leaves an undecodable 8-bit CSI for the mouse parsers. Both mouse parsers consume exactly their report and always deliver its event. The button-held flag is stored by the mouse parsers only. Round 6: the button and modifier mapping of buildMouseEvent is decided by constant evaluation for all 256 codes; the mouse parsers are tried whatever the current mouse flags; the decimal accumulator saturates (D52). Known finding: an 8-bit CSI is consumed by the rune parser under single-byte charsets. Round 8: a button or modifier that depends on state outside the report is a violation.",
    "C13": "Also: the content-changed tests do not tell a nil combining list from an empty one; the cell lock is written only by LockCell/UnlockCell; a painted cell is marked clean on every way out of the terminfo painter. Further: the snapshot taken at clean-mark is exactly what Dirty compares; clean-mark is called only by painters after their emission; Dirty answers false for a locked cell first; LockRegion range. The cells that survive Resize carry their lock flag. The force-dirty marker is stored only by SetDirty/Invalidate/Resize/UnlockCell. Round 6: a zero marker means dirty also for a cell nothing was stored in; the cell buffer keeps its own copy of the combining runes. Round 7: force-dirty sites are attributed to entry points (only repaint-by-contract entries, or behind a value-changed test against the assigned field); no flag stands between draw and the cell loop unless everything that dirties raises it.",
    "C14": "Also: SetFg/SetBg/SetFgBg of every entry denote palette entry n for all n below its colour count; Init forces direct colour off under TCELL_TRUECOLOR=disable. Further: variant suffixes are matched at the end of the name only. The base entry found by a fallback lookup is the one the synthesised entry is built from. TCELL_TRUECOLOR=disable has the last word in LookupTerminfo. Round 6: lookups leave the registry as it is; set/reset pairs of every description differ. Round 7: the 256-colour synthesis does not depend on the base entry's contents; a lookup result is never registered again. Round 8: AddTerminfo registers an entry whatever it holds.",
    "C15": "Also: TPuts cuts the string exactly at its markers, keeps text between the markers that is not a padding specification (grammar alphabet digits . * /, a number required), sleeps only with a pad character; %c emits one byte; TGoto returns what TParm computes in that call (no remembered results). Further: only the capability is subject to padding; application text spliced into it is not searched for $<...>. The interpreter's binary operators agree with the colour programs' needs (shared with C07). Round 6: LookupTerminfo never registers what it fabricates; TColor is decided on values (lineage, fold alternatives, guards through helpers); the padding grammar by byte classes. Round 7: %d writes the decimal form of the popped number (strconv, or a helper decided by constant evaluation for -1000..70000).",
    "C16": "Also: FindColor scans the whole palette (no early exit); Hex answers -1, the colour's own 24 bits, or the table entry - nothing computed. Further: hex colour strings are parsed unsigned; PaletteColor/GetColor provenance. Further: by bit provenance (a per-bit dataflow, nothing executed) the conversions NewHexColor/NewRGBColor/Hex/RGB/TrueColor/IsRGB/PaletteColor/FromImageColor are exact for all 2^24 values and the special colours answer -1/not valid/default; CSS and GetColor agree on the '#%06X' form. FindColor hands go-colorful the components divided by 255.0 and does no arithmetic of its own. Round 6: FindColor's update test is decided on the keep edges of the loop-carried values; the distance rule looks through helpers. Round 8: GetColor looks every name up, whatever its length.",
    "C17": "Also: the encoder's destination buffer has a constant size >= 4 in encodeRune and CanDisplay; the charset registration table pairs every name with the encoding object of the same name (one reasoned exception: GB2312 is served by GBK). Further: acsc glyph bytes are copied as bytes, enter/exit strings lose their padding before they become cell content; locale compared as a whole. The fallback table is seeded where it is made and changed one entry at a time afterwards; cell content reaches the encoder one rune at a time. A screen's fallback table is its own map; combining runes are always handed to the encoder. Round 6: a helper that builds the cell text must leave the encoder to encodeRune. Round 7: the wide-cell padding decision reads the main rune's outcome only.",
    "C18": "Also: the simulation decides 'not encodable' from the same observations as the terminfo screen and gives the encoder a constant destination >= 4; its resize event is never dropped; drawCell returns the GetContent width; a substituted prefix is not consumed; the prefix loop has no cap below 4. HideCursor moves the requested position off-screen. The simulation's fallback table is its own map; every draw re-evaluates the cursor. Round 6: ShowCursor stores the request as given; cell bytes never alias the encoder's destination; InjectKey delivers the key, rune and modifiers it was given. Round 7: the fallback table is consulted only for the main rune in both encoders (D53); nil tests of the cell bytes only with nil resets; SetSize copies into fresh storage; clear only with Invalidate. Round 8: sends on the simulation's queue wait for room themselves.",
    "C19": "Also: drawCell returns the GetContent width and marks painted cells clean; remembered mouse/paste modes are stored only by the togglers and re-applied by Resume; named keys are looked up under their plain DOM name whatever the modifiers. Further: Fini closes quit exactly once in every state; a page cleared outside a draw is invalidated before the next draw. HideCursor moves the requested position off-screen. Painting a wide rune empties the page nodes of the columns it covers. The post helper waits only in a select with the quit channel. Round 6: every key the page reports becomes an event (modifier keys alone excepted); the columns a wide rune covers are emptied only below the grid's width; handler installations are followed through helpers. Round 7: the clear flag is raised only together with Invalidate. Round 8: a mouse callback is dropped only depending on the mouse flags and its arguments.",
    "C20": "Also: ViewPort.Resize clips the extent against the parent measured from the requested origin. Further: layout lays out unconditionally (return without it only for a nil view). Every child is placed on every layout pass. ViewPort.Resize re-validates the offset. Round 6: the clamp is decided for every ordering of offset, lim-size and 0 (order types); Resize clips against the parent every time. Round 7: a ViewPort invokes only SetContent and Size on its parent.",
}

# id -> reason for properties not (yet) claimed
NOT_APPLICABLE = {
}

PENDING_REASON = "static rule set for this property is designed in DESIGN.md section 3 but not implemented yet in this revision; no verdict is claimed"


def main():
    props = [json.loads(l) for l in open(os.path.join(HERE, "properties.jsonl"))]
    checks = []
    na = []
    for p in props:
        pid = p["id"]
        if pid in CLAIMED:
            tech, text, note = CLAIMED[pid]
            if pid in ADDENDA:
                text = text + " " + ADDENDA[pid]
            checks.append({
                "property_id": pid,
                "quick_cmd": "./check.sh %s quick" % pid,
                "thorough_cmd": "./check.sh %s thorough" % pid,
                "evidence_file": "/verif/evidence/%s.json" % pid,
                "replay_cmd_template": "./check.sh %s quick -replay {path}" % pid,
                "engine": "tcellvet",
                "level_claimed": {"category": "other", "text": text, "design_ref": "DESIGN.md section 3, %s" % pid},
                "level_note": note,
                "technique": "static analysis: " + tech,
            })
        else:
            na.append({"property_id": pid, "reason": NOT_APPLICABLE.get(pid, PENDING_REASON)})
    m = {
        "version": 1,
        "setup_cmd": "./setup.sh",
        "hooks": {
            "guard": "verif",
            "enable": "none needed: the checks are static analyses of /repo's source; no hook or instrumentation was added to gdamore/tcell (the build tag 'verif' is reserved and unused)",
            "baseline_off_cmd": "cd /repo && GOPROXY=off GOSUMDB=off GOTOOLCHAIN=local go test -vet=off -count=1 ./...",
            "source_commits": [],
            "add_only": True,
        },
        "engines": [{
            "name": "tcellvet",
            "path": "/verif/checker",
            "serves_properties": sorted(CLAIMED.keys()),
            "kind_free_text": "repository-specific static analyser (go/packages + go/types + go/ssa + call graph; x/tools v0.29.0 vendored): rule templates per property, constant extraction of the terminal database, reference terminfo(5) interpreter applied to source constants only; never executes tcell code",
        }],
        "checks": checks,
        "not_applicable": na,
        "notes": "All checks load /repo's current working tree on every run. Violations are keyed rule+construct; /verif/known_findings.json lists triaged genuine defects (known/fixed). The thorough tier adds further build configurations and re-runs each property's rules against source-edit mutants (checker/teeth.json) and the independently seeded changes in /verif/seeded on scratch copies; those runs never produce VIOLATION lines about /repo.",
    }
    json.dump(m, open(os.path.join(HERE, "MANIFEST.json"), "w"), indent=1)
    print("claimed:", len(checks), "not_applicable:", len(na))


if __name__ == "__main__":
    main()

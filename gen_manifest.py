#!/usr/bin/env python3
"""Generates /verif/MANIFEST.json from the table below (one place to edit)."""
import json, os

HERE = os.path.dirname(os.path.abspath(__file__))

# id -> (technique, level text, level note) for claimed properties
CLAIMED = {
    "C10": (
        "must-lockset dataflow over SSA + call-graph summaries, derived field protection classes",
        "Structural necessary condition, decided on all paths: every access to mutable screen state, every Tty write and every use of the draw buffer / charset transformers in tScreen, simscreen and the shared baseScreen layer happens with the screen mutex held; no lock leak or double acquisition. This is the locking discipline race-freedom and the contiguity of a Show block depend on; it does not decide races inside dependencies or atomicity across critical sections.",
        "Assumes constructors/Init happen-before other calls, WaitGroup.Wait orders consecutive loops, Tty and Terminfo are not mutated by the application concurrently. Trusted: go/types, go/ssa (x/tools v0.29.0), the lockset transfer functions in checker/lockset.go.",
    ),
}

CLAIMED.update({
    "C19": (
        "type-check of the js/wasm configuration + interface satisfaction + must-lockset / lock-pairing dataflow on wScreen + guard dominance of JS calls + constant table comparison",
        "Structural necessary conditions decided on the GOOS=js GOARCH=wasm configuration: the package type-checks and *wScreen implements screenImpl; every wScreen method releases the mutex on every path and none re-acquires it (lifecycle calls cannot wedge on the lock); guarded state is touched only under the mutex and no blocking event post happens while it is held; mouse handlers are installed only under the matching flag tests; the JS drawCell call is dominated by the Dirty test and paired with the clean mark; the 16-colour palette equals the xterm values. The JavaScript half (webfiles/tcell.js), DOM key names and rendering are not decided.",
        "Trusted: go/types and go/ssa for js/wasm, the xterm 16-colour reference values, the assumption that tcell.js implements the named entry points. No JavaScript tooling exists in the sandbox.",
    ),
    "C06": (
        "stop-awareness analysis of WaitGroup-joined goroutines (SSA + call graph channel naming), lockset for blocking-under-lock, once/guard-liveness rules",
        "Structural necessary condition for 'Fini/Suspend always return', decided over all paths: every blocking channel operation reachable from a goroutine that disengage / Tty.Stop joins has a receive alternative on a channel that is closed on every path before the join; nothing blocks on a channel or WaitGroup while the screen mutex is held; Fini is a sync.Once around the single closer of quit; the flag Show/Sync test to become inert is really set on the Fini path; PollEvent returns nil on the stop case. Scheduler fairness, timing bounds and the behaviour of external Tty implementations are not decided.",
        "Assumes the documented Tty.Drain contract (a blocked Read returns after Drain) and a fair scheduler. Trusted: go/ssa, the channel-naming and stop-set computation in checker/stopaware.go.",
    ),
    "C05": (
        "enumeration of every send on an event queue (SSA Select/Send), return-value provenance in PostEvent, who-may-send/receive on the chunk queue, allocation-site completeness of Event values",
        "Structural necessary conditions: no lossy (non-blocking) send of input events anywhere in the library (only the resize notification and PostEvent may drop), blocking sends have only shutdown-signal alternatives; PostEvent returns nil exactly on the send case and ErrEventQFull exactly on the default case; the input pipeline is a single lane (one sender, one receiver, loops started once under the running flag with matching WaitGroup accounting, events sent in slice order); every constructed Event is stamped (no nil embedded time); ChannelEvents defers close of its channel. Exactly-once and ordering over schedules, HasPendingEvent and When() bounds are not decided.",
        "Assumes FIFO channels. Trusted: go/ssa, rule templates in checker/c05.go.",
    ),
})

CLAIMED.update({
    "C03": (
        "constant folding of the key-table builder over every database entry (typed-AST evaluator), SSA guard-shape rules for the registrars, exhaustive table checks, capability coverage",
        "Decided exhaustively over the 49 entries of the database as constants of the source: the key table each entry produces (folded from the builder, whose registrar semantics are first established from SSA) is prefix-free, maps every capability's sequence to the key and modifiers the capability's name denotes, pairs xterm modifier parameters 2..16 with xterm's Shift/Alt/Ctrl/Meta masks and replaces function-key aliases consistently, maps control bytes to Ctrl keys, contains no sequence shadowed by the rune parser, and every populated key capability is registered. NewEventKey's control-rune normalisation is checked by shape. The run-time matcher (Alt prefix, timeout, concatenated sequences) is not decided here.",
        "Trusted: the evaluator's statement subset (anything outside it is reported undecided), xterm's PC-style modifier encoding (1 + bitmask) and function-key alias offsets frozen in the checker.",
    ),
    "C14": (
        "constant extraction of all database literals, reference terminfo(5) parser, call-site arity derivation, ownership rule on *Terminfo stores (SSA), lock dominance on the registry",
        "Decided exhaustively over all entries x fields (constants of the source): literal entries, unique names/aliases, aggregate imports, two-parameter cursor addressing, well-formed programs within the parameters supplied at the library's TParm call sites, colour-count consistency, prefix-free key tables. Lookup stability is decided as an ownership rule on all paths (no store through a *Terminfo that may alias a registered entry), plus synthesised strings denoting the standard SGR forms for every index, ErrTermNotFound on failure, documented environment constants, registration and map access under the mutex. The infocmp loader and environment-dependent behaviour are not decided.",
        "Trusted: reference terminfo(5) parser/interpreter and ECMA-48 tokenizer in the checker (self-tested on every run), go/types constant evaluation.",
    ),
    "C15": (
        "reference terminfo(5) interpreter applied to source constants: exhaustive evaluation of cup over the position grid and of colour programs over all indices per entry; SSA shape rules for TGoto/TColor/TPuts",
        "For each of the 49 entries the cursor-addressing constant is evaluated by an independent reference interpreter over rows x columns 0..300 (quick: 30 rows/cols x all; thorough: the full grid) and must equal the string its addressing convention defines; colour programs are evaluated for every index below the colour count and must denote that palette entry; TGoto's argument order, TColor's folding/range comparisons and TPuts' bounds and progress are checked on SSA. This decides the data and the argument plumbing, given a TParm that implements terminfo(5) (C07); the padding grammar is not decided.",
        "Trusted: the reference interpreter (written from terminfo(5), self-tested), the three addressing conventions and SGR colour forms frozen in the checker.",
    ),
})

CLAIMED.update({
    "C07": (
        "SSA pattern rules on TParm and its stack (dispatch exhaustiveness, operand order, guards, loop termination, index bounds) + exhaustive parse of every parameterised constant with the reference terminfo(5) parser",
        "Structural necessary conditions on the interpreter (all paths) and exhaustive conditions on the data it is fed: the %-dispatch covers the terminfo(5) alphabet; each binary operator applies the matching Go operator to (second pop, first pop) with zero-guarded division; stack coercions and empty-stack behaviour have the specified shape; the skip scanner tracks nested conditionals; every loop terminates at end of input; array indices are guarded; and every parameterised string in the 49 entries and in the library's literals is a well-formed program using only implemented operators and supplied parameters. It does not decide the value each handler computes on arbitrary programs (printf details, %c of unusual values, static variables).",
        "Trusted: the operator alphabet frozen from terminfo(5); reference parser (self-tested); go/ssa.",
    ),
})

# id -> reason for properties not (yet) claimed
NOT_APPLICABLE = {
}

PENDING_REASON = "static rule set for this property is designed in DESIGN.md section 3 but not implemented yet in this revision; no verdict is claimed"


def main():
    props = [json.loads(l) for l in open(os.path.join(HERE, "properties.jsonl"))]
    checks = []
    na = []
    for p in props:
        pid = p["id"]
        if pid in CLAIMED:
            tech, text, note = CLAIMED[pid]
            checks.append({
                "property_id": pid,
                "quick_cmd": "./check.sh %s quick" % pid,
                "thorough_cmd": "./check.sh %s thorough" % pid,
                "evidence_file": "/verif/evidence/%s.json" % pid,
                "replay_cmd_template": "./check.sh %s quick -replay {path}" % pid,
                "engine": "tcellvet",
                "level_claimed": {"category": "other", "text": text, "design_ref": "DESIGN.md section 3, %s" % pid},
                "level_note": note,
                "technique": "static analysis: " + tech,
            })
        else:
            na.append({"property_id": pid, "reason": NOT_APPLICABLE.get(pid, PENDING_REASON)})
    m = {
        "version": 1,
        "setup_cmd": "./setup.sh",
        "hooks": {
            "guard": "verif",
            "enable": "none needed: the checks are static analyses of /repo's source; no hook or instrumentation was added to gdamore/tcell (the build tag 'verif' is reserved and unused)",
            "baseline_off_cmd": "cd /repo && GOPROXY=off GOSUMDB=off GOTOOLCHAIN=local go test -vet=off -count=1 ./...",
            "source_commits": [],
            "add_only": True,
        },
        "engines": [{
            "name": "tcellvet",
            "path": "/verif/checker",
            "serves_properties": sorted(CLAIMED.keys()),
            "kind_free_text": "repository-specific static analyser (go/packages + go/types + go/ssa + call graph; x/tools v0.29.0 vendored): rule templates per property, constant extraction of the terminal database, reference terminfo(5) interpreter applied to source constants only; never executes tcell code",
        }],
        "checks": checks,
        "not_applicable": na,
        "notes": "All checks load /repo's current working tree on every run. Violations are keyed rule+construct; /verif/known_findings.json lists triaged genuine defects (known/fixed).",
    }
    json.dump(m, open(os.path.join(HERE, "MANIFEST.json"), "w"), indent=1)
    print("claimed:", len(checks), "not_applicable:", len(na))


if __name__ == "__main__":
    main()

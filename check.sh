#!/bin/sh
# usage: ./check.sh <property-id> <quick|thorough> [extra tcellvet flags]
# Static analysis of /repo's current working tree; nothing from /repo is executed.
set -u
cd "$(dirname "$0")"
export GOPROXY=off GOSUMDB=off GOTOOLCHAIN=local GOWORK=off CGO_ENABLED=0
unset GOFLAGS
if [ ! -x bin/tcellvet ] || [ -n "$(find checker -newer bin/tcellvet -name '*.go' -not -path '*/vendor/*' 2>/dev/null | head -1)" ]; then
  ./setup.sh >/dev/null || { echo "setup failed"; exit 2; }
fi
prop="$1"; tier="${2:-${VERIF_TIER:-quick}}"; shift; [ $# -gt 0 ] && shift
exec bin/tcellvet -prop "$prop" -tier "$tier" -repo "${VERIF_REPO:-/repo}" -verif "$(pwd)" "$@"

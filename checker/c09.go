package main

import (
	"fmt"
	"go/ast"
	"go/token"
	"go/types"
	"sort"
	"strings"

	"golang.org/x/tools/go/ssa"
)

func init() {
	register("C09", checkC09, "Two halves. (1) Injection: cell content is encapsulated in CellBuffer (no backend reads cell.currMain/currComb directly), every value GetContent returns as the primary rune is a blank, zero, or the stored rune on a path where width != 0 and rune >= ' ' held, width is always recomputed from the stored rune (so width 0 ⇔ non-printing, given go-runewidth with EastAsianWidth off, whose mode store is also checked), and cell payload reaches the Tty only through drawCell→encodeRune→writeString. (2) Well-formedness: every emission site of the terminfo screen (TPuts/writeString arguments) is classified by value provenance into database field / prepared string / literal / TParm-TGoto expansion, and for every ECMA-48-family entry of the database the resulting string — expanded by the checker's reference interpreter over sample parameter values, string parameters as an opaque marker — must tokenize as complete CSI/OSC/ESC sequences with numeric parameters only and no %-residue; integer arguments of TParm calls must be provably non-negative (masked, RGB under IsRGB, bounded loop index) or named exceptions. What external charset encoders emit and user-supplied title/URL strings are not decided.")
}

type emitSrc struct {
	kind    string // literal | field | prepared | payload | unknown
	name    string // field / prepared name
	lit     string
	tparm   bool
	kinds   []string // argument kinds for tparm
	unknown string
}

func checkC09(c *Ctx) {
	c.Rule("C09-R1", "cell.currMain/currComb are read only inside CellBuffer methods")
	c.Rule("C09-R2", "GetContent returns as primary rune only ' ', zero, or currMain on a path where width != 0 and rune >= ' '")
	c.Rule("C09-R3", "width is recomputed from the rune stored in currMain (shared with C08-R7)")
	c.Rule("C09-R4", "cell payload reaches the Tty only through drawCell → encodeRune → writeString; writeString has no other caller except the bell")
	c.Rule("C09-R5", "every control string the screen emits, for every ECMA-48-family database entry, tokenizes as complete control sequences with numeric parameters and no residue")
	c.Rule("C09-R6", "integer arguments of TParm calls in the screen are provably non-negative")
	c.Rule("C09-R7", "go-runewidth's EastAsianWidth is switched off at init unless RUNEWIDTH_EASTASIAN is set; no other store to that condition")
	c.Rule("C09-R11", "format characters (Unicode Cf: bidi controls and isolates, word joiner, tags ...) never count as printable: the width given to a cell's rune goes through a function that answers 0 for them before asking the width tables (go-runewidth gives some of them a column)")
	c.Expect("C09-R11", 2)
	c.Rule("C09-R10", "the colour strings LookupTerminfo synthesises for NAME-256color / NAME-truecolor are well-formed and denote non-negative SGR parameters for every index")
	c.Expect("C09-R10", 8)
	c.Rule("C09-R9", "encoder output is appended to the cell payload only where its first byte was tested against SUB (0x1a), for every encoder call in encodeRune (primary and combining runes alike)")
	c.Expect("C09-R9", 1)
	c.Rule("C09-R8", "TPuts removes every terminated padding specification with exactly its delimiters (so that no $<…> residue reaches the terminal from the database strings, which the emission check strips the same way)")
	c.Expect("C09-R8", 6)
	c.Expect("C09-R1", 1)
	c.Expect("C09-R2", 2)
	c.Expect("C09-R3", 3)
	c.Expect("C09-R4", 3)
	c.Expect("C09-R5", 1000)
	c.Expect("C09-R6", 15)
	c.Expect("C09-R7", 1)
	c.Assume("go-runewidth with EastAsianWidth off reports width 0 for C0, DEL, C1, combining/zero-width characters and out-of-range values (format characters are handled by the library itself, C09-R11)")
	c.Assume("combining rune lists contain only zero-width non-control marks (the statement's own restriction)")
	if err := tpSelfTest(); err != nil {
		c.Undecided("C09-R5", "self-test", "-", err.Error())
		return
	}
	if err := ecmaSelfTest(); err != nil {
		c.Undecided("C09-R5", "self-test", "-", err.Error())
		return
	}
	p := c.P("linux")
	if p == nil || p.Tcell == nil {
		c.Undecided("C09-R1", "package tcell", "-", "not loaded")
		return
	}
	c.Rule("C09-R13", "the charset the cells are encoded in is the terminal's: LC_ALL, LC_CTYPE, LANG in that order, a variable set to the empty string counting as unset (the wrong charset sends the UTF-8 of a printable rune to an 8-bit terminal as C1 control bytes)")
	c.Expect("C09-R13", 3)
	c.asRule("C17-R4", "C09-R13", func() { c17Charset(c, p) })
	c.Rule("C09-R12", "every operand handed to the parameter interpreter is an int, a string or a bool (anything else is read as 0 and the emitted sequence names another colour or cell)")
	c.Expect("C09-R12", 1)
	checkTParmOperandTypes(c, p, "C09-R12")
	c.Rule("C09-R14", "cells are encoded with the character set's encoder: wherever a screen's encoder and decoder are assigned, the encoder comes from NewEncoder and the decoder from NewDecoder (both have the same static type; the decoder used as encoder sends UTF-8 of Latin-1 code points, C1 bytes included, to an 8-bit terminal)")
	c.Expect("C09-R14", 2)
	checkTransformersNotSwapped(c, p, "C09-R14")
	c.Rule("C09-R17", "no parameter-language residue: capability strings reach the frame buffer through terminfo's TPuts, which removes the $<n> markers (= C13-R15)")
	c.Expect("C09-R17", 1)
	checkCapabilitiesThroughStripper(c, p, "C09-R17")
	c.Rule("C09-R18", "zero-width and format characters given as primary content are shown as blanks: SetContent stores the rune and the combining list as given (a zero-width primary rune moved into the combining list takes the unsanitised path to the terminal; = C08-R11)")
	c.Expect("C09-R18", 2)
	checkSetContentStoresWhatItIsGiven(c, p, "C09-R18")
	c.Rule("C09-R19", "no negative numbers: Hex answers -1, the colour's own 24 bits or a table entry, so that the components handed to the RGB capabilities are 0..255 (= C16-R4)")
	c.Expect("C09-R19", 3)
	c.asRule("C16-R4", "C09-R19", func() { c16Gates(c, p) })
	c.Rule("C09-R20", "printable characters in the terminal's character set: the ACS glyph is the byte of the acsc string itself, not the UTF-8 of the code point with that number (whose second byte is a C1 control on an 8-bit line; = C17-R3)")
	c.Expect("C09-R20", 60)
	c.asRule("C17-R3", "C09-R20", func() { c17Acs(c, p) })
	c.Rule("C09-R21", "everything written parses as complete sequences, also when two goroutines draw: a frame is flushed by draw itself under the screen's mutex, from a buffer reset at its start (written after the lock is released, the next frame refills the array the write is still reading; = C13-R16)")
	c.Expect("C09-R21", 1)
	checkFrameBufferStartsEmpty(c, p, "C09-R21")
	c.Rule("C09-R22", "OSC strings carry what was meant: text spliced into a capability is a constant, the base64 text of the standard encoder (EncodeToString), or written by the text-emitter wrapper (a hand-sized Encode buffer leaves NUL bytes inside the OSC; = C15-R7)")
	c.Expect("C09-R22", 2)
	checkTextNotPadded(c, p, "C09-R22")
	c.Rule("C09-R15", "numeric parameters only: %d writes the decimal form of the number it pops, by strconv or by a helper decided by constant evaluation over -1000..70000 (a helper short of digits writes ':' ';' '<' or control bytes into the CSI; = C15-R10)")
	c.Expect("C09-R15", 1)
	c.asRule("C15-R10", "C09-R15", func() { checkDecimalOutput(c, p, "C15-R10") })
	c09Encapsulation(c, p)
	c09Sanitiser(c, p)
	c08Width(c, p, "C09-R3")
	c09Payload(c, p)
	c09Emissions(c, p)
	c09Args(c, p)
	c09Runewidth(c, p)
	tputsSegmentsRule(c, p, "C09-R8")
	c09Sub(c, p)
	c09FormatChars(c, p)
	c.asRule("C14-R5", "C09-R10", func() { c14Lookup(c, p) })
}

func c09Encapsulation(c *Ctx, p *Prog) {
	bad := []string{}
	n := 0
	for _, fn := range p.modFns {
		if fn.Pkg != p.Tcell {
			continue
		}
		for _, a := range fieldAccesses(fn) {
			if a.Field.Owner != cellOwner {
				continue
			}
			n++
			top := fn
			for top.Parent() != nil {
				top = top.Parent()
			}
			// (methods of the cell type itself belong to the buffer's implementation)
			if recvTypeName(top) != cbOwner && recvTypeName(top) != cellOwner {
				bad = append(bad, fmt.Sprintf("%s reads cell.%s at %s", fn.Name(), a.Field.Name, p.pos(a.Instr.Pos())))
			}
		}
	}
	c.Check(len(bad) == 0 && n > 20, "C09-R1", "cell:encapsulated", "-", fmt.Sprintf("%d accesses to cell fields, outside CellBuffer methods: %v", n, bad))
}

func c09Sanitiser(c *Ctx, p *Prog) {
	fn := p.Fn("tcell:(*CellBuffer).GetContent")
	if fn == nil {
		c.Undecided("C09-R2", "GetContent", "-", "not found")
		return
	}
	rets := returnsOf(fn)
	if len(rets) == 0 {
		c.Undecided("C09-R2", "GetContent:returns", p.pos(fn.Pos()), "unexpected return shape")
		return
	}
	for _, r := range rets {
		if len(r.Results) != 4 {
			c.Undecided("C09-R2", "GetContent:returns", p.pos(fn.Pos()), "unexpected return shape")
			return
		}
	}
	var checkVal func(v ssa.Value, edgeGuards []Atom, depth int) (bool, string)
	checkVal = func(v ssa.Value, eg []Atom, depth int) (bool, string) {
		if k, ok := constInt(v); ok {
			if k == 0 || k == ' ' {
				return true, ""
			}
			return false, fmt.Sprintf("constant rune %d", k)
		}
		if phi, ok := v.(*ssa.Phi); ok && depth < 4 {
			for i, e := range phi.Edges {
				g := guardsOnEdge(phi.Block().Preds[i], phi.Block())
				if ok, why := checkVal(e, g, depth+1); !ok {
					return false, why
				}
			}
			return true, ""
		}
		if ref, _, ok := loadedField(v); ok && ref.Owner == cellOwner && ref.Name == "currMain" {
			name := valName(v)
			okW, okC := false, false
			for _, a := range eg {
				if strings.HasSuffix(a.L, ".width") && a.Op == "!=" && a.R == "0" {
					okW = true
				}
				if a.L == name && a.Op == ">=" && a.R == "32" {
					okC = true
				}
			}
			if okW && okC {
				return true, ""
			}
			return false, fmt.Sprintf("stored rune returned without both tests (width != 0: %v, rune >= ' ': %v)", okW, okC)
		}
		return false, "value of unrecognised provenance: " + valName(v)
	}
	ok, why := true, ""
	for _, r := range rets { // (one return, or an early one for positions outside the buffer)
		if ok1, why1 := checkVal(derefCell(resultOf(r, 0)), guardsAt(r.Block()), 0); !ok1 {
			ok, why = false, why1
		}
	}
	c.Check(ok, "C09-R2", "GetContent:primary-rune-sanitised", p.pos(rets[0].Pos()), "every returned primary rune is blank, zero or a printable stored rune "+why)
	// the width returned with a sanitised rune is 1: wherever the rune handed out is the blank, the
	// width handed out with it is the constant 1 (a return of its own, or the matching edges of two phis)
	okW, nBlank := true, 0
	for _, r := range rets {
		r0, r3 := derefCell(resultOf(r, 0)), derefCell(resultOf(r, 3))
		if k, isK := constInt(r0); isK && k == ' ' {
			nBlank++
			if w, isW := constInt(r3); !isW || w != 1 {
				okW = false
			}
			continue
		}
		if phi0, ok := r0.(*ssa.Phi); ok {
			phi3, ok3 := r3.(*ssa.Phi)
			for i, e := range phi0.Edges {
				if k, isK := constInt(e); isK && k == ' ' {
					nBlank++
					if !ok3 || phi3.Block() != phi0.Block() {
						okW = false
						continue
					}
					if w, isW := constInt(phi3.Edges[i]); !isW || w != 1 {
						okW = false
					}
				}
			}
		}
	}
	okW = okW && nBlank > 0
	c.Check(okW, "C09-R2", "GetContent:blank-has-width-1", p.pos(rets[0].Pos()), "a sanitised cell reports width 1")
}

func c09Payload(c *Ctx, p *Prog) {
	callers := func(suffix string) []string {
		set := map[string]bool{}
		for _, fn := range p.modFns {
			if fn.Pkg != p.Tcell {
				continue
			}
			for range callsIn(fn, func(n string, _ *ssa.CallCommon) bool { return strings.HasSuffix(n, suffix) }) {
				set[fn.Name()] = true
			}
		}
		return sortedKeys(set)
	}
	ws := payloadWriterCallers(p)
	okWS := len(ws) == 2 && ws[0] == "Beep" && ws[1] == "drawCell"
	c.Check(okWS, "C09-R4", "writeString:callers", "-", fmt.Sprintf("callers of writeString: %v (payload writer drawCell and the bell only; not counted: wrappers that write one expanded capability %v)", ws, textEmitterNames(p)))
	er := callers("tScreen).encodeRune")
	okER := len(er) >= 1
	for _, name := range er {
		if name == "drawCell" {
			continue
		}
		// a helper of the painter (`cellText(mainc, combc)`): used by drawCell only
		h := p.Fn("tcell:(*tScreen)." + name)
		if h == nil || !calledOnlyFrom(p, h, map[string]bool{"drawCell": true}, 1) {
			okER = false
			continue
		}
		// … which leaves the charset encoder to encodeRune (a helper that also feeds the encoder
		// itself — a whole cell at once, say — is a second way in)
		for _, f := range withClosures(h) {
			for _, a := range fieldAccesses(f) {
				if a.Field.Owner == "tcell.tScreen" && a.Field.Name == "encoder" {
					okER = false
				}
			}
		}
	}
	c.Check(okER, "C09-R4", "encodeRune:callers", "-", fmt.Sprintf("callers of encodeRune: %v (drawCell, or helpers only drawCell uses)", er))
	// the runes handed to encodeRune in drawCell come from GetContent
	dc := p.Fn("tcell:(*tScreen).drawCell")
	if dc == nil {
		c.Undecided("C09-R4", "drawCell", "-", "not found")
		return
	}
	ok := true
	n := 0
	for _, f := range encodeRuneFeeds(p, dc) {
		n++
		if f.src == "" {
			ok = false
		}
	}
	c.Check(ok && n >= 2, "C09-R4", "drawCell:encodes-only-GetContent-runes", p.pos(dc.Pos()), fmt.Sprintf("%d encodeRune calls, all fed from GetContent results", n))
}

// mapFieldValues: values stored into the map held by tScreen field g (MakeMap + MapUpdate in the storing function).
func mapFieldValues(p *Prog, g string) (out []ssa.Value) {
	for _, fn := range p.modFns {
		if fn.Pkg != p.Tcell {
			continue
		}
		for _, st := range storesTo(fn, "tcell.tScreen", g) {
			mk, ok := st.Val.(*ssa.MakeMap)
			if !ok {
				continue
			}
			for _, r := range referrers(mk) {
				if mu, ok := r.(*ssa.MapUpdate); ok {
					out = append(out, mu.Value)
				}
			}
		}
	}
	return
}

func classifyEmit(p *Prog, v ssa.Value, depth int) []emitSrc {
	if depth > 6 {
		return []emitSrc{{kind: "unknown", unknown: "too deep"}}
	}
	v = derefCell(v)
	if s, ok := constString(v); ok {
		return []emitSrc{{kind: "literal", lit: s}}
	}
	if ref, _, ok := loadedField(v); ok {
		switch ref.Owner {
		case "terminfo.Terminfo":
			return []emitSrc{{kind: "field", name: ref.Name}}
		case "tcell.tScreen":
			return []emitSrc{{kind: "prepared", name: ref.Name}}
		}
	}
	if srcs := tableFieldSources(p, v, depth); srcs != nil {
		return srcs
	}
	switch x := v.(type) {
	case *ssa.Phi:
		var out []emitSrc
		for _, e := range x.Edges {
			out = append(out, classifyEmit(p, e, depth+1)...)
		}
		return out
	case *ssa.Extract:
		if lk, ok := x.Tuple.(*ssa.Lookup); ok {
			return classifyEmit(p, lk, depth+1)
		}
		// one result of a helper of the painter that builds the cell's text and says something about it
		// (`str, narrow := t.cellText(mainc, combc)`)
		if call, ok := x.Tuple.(*ssa.Call); ok {
			if h := call.Call.StaticCallee(); h != nil && h.Pkg == p.Tcell && len(h.Blocks) > 0 && len(callsIn(h, func(nm string, _ *ssa.CallCommon) bool { return strings.HasSuffix(nm, "tScreen).encodeRune") })) > 0 {
				var out []emitSrc
				for _, r := range returnsOf(h) {
					out = append(out, classifyEmit(p, derefCell(resultOf(r, x.Index)), depth+1)...)
				}
				if len(out) > 0 {
					return out
				}
			}
		}
	case *ssa.BinOp:
		// the cell's bytes with a blank appended (the second column of a wide rune shown as '?')
		if x.Op == token.ADD {
			all := append(classifyEmit(p, x.X, depth+1), classifyEmit(p, x.Y, depth+1)...)
			okAll, hasPayload := true, false
			for _, e := range all {
				switch {
				case e.kind == "payload":
					hasPayload = true
				case e.kind == "literal" && strings.Trim(e.lit, " ") == "":
				default:
					okAll = false
				}
			}
			if okAll && hasPayload {
				return []emitSrc{{kind: "payload"}}
			}
		}
	case *ssa.Lookup:
		if ref, _, ok := loadedField(x.X); ok && ref.Owner == "tcell.tScreen" {
			var out []emitSrc
			for _, mv := range mapFieldValues(p, ref.Name) {
				out = append(out, classifyEmit(p, mv, depth+1)...)
			}
			if len(out) > 0 {
				return out
			}
		}
	case *ssa.Call:
		n := calleeName(&x.Call)
		if strings.HasSuffix(n, "Terminfo).TParm") && len(x.Call.Args) == 3 {
			return classifyExpansion(p, x.Call.Args[1], x.Call.Args[2], depth)
		}
		if strings.HasSuffix(n, "Terminfo).TGoto") {
			return []emitSrc{{kind: "field", name: "SetCursor", tparm: true, kinds: []string{"int", "int"}}}
		}
		// a helper of the painter that builds the cell's text (`str := t.cellText(mainc, combc)`):
		// whatever it returns
		if h := x.Call.StaticCallee(); h != nil && h.Pkg == p.Tcell && len(h.Blocks) > 0 && h.Signature.Results().Len() == 1 && len(callsIn(h, func(nm string, _ *ssa.CallCommon) bool { return strings.HasSuffix(nm, "tScreen).encodeRune") })) > 0 {
			var out []emitSrc
			for _, r := range returnsOf(h) {
				out = append(out, classifyEmit(p, derefCell(resultOf(r, 0)), depth+1)...)
			}
			if len(out) > 0 {
				return out
			}
		}
	case *ssa.Convert:
		// string(buf): encoded cell payload
		return []emitSrc{{kind: "payload"}}
	case *ssa.Parameter:
		return []emitSrc{{kind: "param", name: x.Name()}}
	}
	return []emitSrc{{kind: "unknown", unknown: valName(v)}}
}

// classifyExpansion: TParm(tmpl, args...) (directly or through a text-emitter wrapper).
func classifyExpansion(p *Prog, tmpl, varArg ssa.Value, depth int) []emitSrc {
	cnt, vals, ok := varargCount(varArg)
	if !ok {
		return []emitSrc{{kind: "unknown", unknown: "TParm with non-literal arguments"}}
	}
	kinds := make([]string, cnt)
	for i := range kinds {
		kinds[i] = argKind(vals[i])
	}
	inner := classifyEmit(p, tmpl, depth+1)
	for i := range inner {
		inner[i].tparm = true
		inner[i].kinds = kinds
	}
	return inner
}

type emitSite struct {
	fn   *ssa.Function
	in   ssa.Instruction
	srcs []emitSrc
}

// payloadWriterCallers: the functions that call the raw writer, except the recognised text-emitter
// wrappers (which hand it exactly one TParm expansion and nothing else).
func payloadWriterCallers(p *Prog) []string {
	set := map[string]bool{}
	for _, fn := range p.modFns {
		if fn.Pkg != p.Tcell || textEmitters(p)[fn] {
			continue
		}
		for range callsIn(fn, func(n string, _ *ssa.CallCommon) bool { return strings.HasSuffix(n, "tScreen).writeString") }) {
			set[fn.Name()] = true
		}
	}
	return sortedKeys(set)
}

func emissionSites(p *Prog) []emitSite {
	var out []emitSite
	for _, fn := range p.modFns {
		if fn.Pkg != p.Tcell {
			continue
		}
		top := fn
		for top.Parent() != nil {
			top = top.Parent()
		}
		if recvTypeName(top) != "tcell.tScreen" {
			continue
		}
		for _, call := range callsIn(fn, func(n string, _ *ssa.CallCommon) bool {
			return strings.HasSuffix(n, "tScreen).TPuts") || strings.HasSuffix(n, "tScreen).writeString")
		}) {
			cc := callCommon(call)
			if textEmitters(p)[fn] {
				// the wrapper's own write: what it writes is decided at its call sites
				out = append(out, emitSite{fn, call, []emitSrc{{kind: "param", name: fn.Params[len(fn.Params)-2].Name()}}})
				continue
			}
			out = append(out, emitSite{fn, call, classifyEmit(p, cc.Args[1], 0)})
		}
		eachInstr(fn, func(in ssa.Instruction) {
			if capArg, varArg, ok := textEmitterCall(p, in); ok {
				out = append(out, emitSite{fn, in, classifyExpansion(p, capArg, varArg, 0)})
			}
		})
	}
	return out
}

var intSamples = [][]int{
	{0}, {1}, {7}, {8}, {9}, {15}, {16}, {99}, {100}, {255},
}

func sampleArgs(kinds []string) [][]interface{} {
	var out [][]interface{}
	ints := []int{0, 1, 7, 8, 15, 16, 79, 100, 255}
	switch len(kinds) {
	case 0:
		return [][]interface{}{{}}
	}
	for _, base := range ints {
		args := make([]interface{}, len(kinds))
		for i, k := range kinds {
			if k == "string" {
				args[i] = strMarker
			} else {
				args[i] = (base + i*37) % 256
			}
		}
		out = append(out, args)
	}
	return out
}

func c09Emissions(c *Ctx, p *Prog) {
	db := buildDB(c, p)
	sites := emissionSites(p)
	if len(sites) < 60 {
		c.Undecided("C09-R5", "emission sites", "-", fmt.Sprintf("only %d TPuts/writeString call sites found in the terminfo screen", len(sites)))
	}
	for _, u := range db.unknown {
		c.Undecided("C09-R5", "usage:"+u, "-", u)
	}
	c.Rule("C09-R16", "complete control sequences: where the screen rewrites a string of the description before use (stores into a Terminfo field from package tcell), the result is decided for every value the field has in the database and tokenises completely (a trim that cuts at '[' instead of ESC leaves a dangling ESC in front of the next write)")
	c.Expect("C09-R16", 1)
	checkCapabilityRewrites(c, p, "C09-R16", db)
	// ECMA family = entries whose cup is the CSI form
	var fam []*Entry
	skipped := []string{}
	for _, e := range db.entries {
		cup := e.Str["SetCursor"]
		if strings.HasPrefix(cup, "\x1b[") {
			fam = append(fam, e)
		} else {
			skipped = append(skipped, e.Name)
		}
	}
	c.Note(fmt.Sprintf("ECMA-48 family: %d entries; not in the family (own control language): %v", len(fam), skipped))
	nStrings := 0
	siteNo := map[string]int{}
	for _, s := range sites {
		short := s.fn.RelString(p.Tcell.Pkg)
		siteNo[short]++
		siteKey := fmt.Sprintf("%s#%d", short, siteNo[short])
		hasPayload := false
		for _, src := range s.srcs {
			if src.kind == "payload" {
				hasPayload = true
			}
		}
		for _, src := range s.srcs {
			if hasPayload && src.kind == "literal" {
				// substitute written in place of a cell's payload: must be plain printable ASCII
				okTxt := true
				for i := 0; i < len(src.lit); i++ {
					if src.lit[i] < 0x20 || src.lit[i] > 0x7e {
						okTxt = false
					}
				}
				c.Check(okTxt, "C09-R5", fmt.Sprintf("%s:payload-substitute%q", siteKey, src.lit), p.pos(s.in.Pos()), "substitute for cell payload is printable ASCII")
				continue
			}
			switch src.kind {
			case "payload":
				c.OK("C09-R5", siteKey+":payload", p.pos(s.in.Pos()), "encoded cell payload (covered by R1–R4)")
				continue
			case "param":
				// TPuts(s)/writeString(s) forwarding its own parameter: the callers are the sites
				c.Trivial("C09-R5", siteKey+":forward("+src.name+")", p.pos(s.in.Pos()), "forwards its parameter")
				continue
			case "unknown":
				c.Undecided("C09-R5", siteKey+":unclassified", p.pos(s.in.Pos()), "emitted string of unrecognised provenance: "+src.unknown)
				continue
			}
			for _, e := range fam {
				var cands []string
				switch src.kind {
				case "literal":
					cands = []string{src.lit}
				case "field":
					if v := e.Str[src.name]; v != "" {
						cands = []string{v}
					}
				case "prepared":
					cands = db.preparedValues(e, src.name)
				}
				for _, raw := range cands {
					nStrings++
					key := fmt.Sprintf("%s:%s(%s)@%s", siteKey, src.kind, src.name, e.Name)
					if src.kind == "literal" {
						key = fmt.Sprintf("%s:literal%q@%s", siteKey, src.lit, e.Name)
					}
					msg := checkEmitted(raw, src)
					if msg == "" {
						c.OK("C09-R5", key, p.pos(s.in.Pos()), fmt.Sprintf("%q", raw))
					} else {
						c.Fail("C09-R5", key, p.pos(s.in.Pos()), fmt.Sprintf("%q: %s", raw, msg))
					}
				}
			}
		}
	}
	c.extra["control_strings_checked"] = nStrings
	c.extra["emission_sites"] = len(sites)
}

// checkEmitted expands (if parameterised) and tokenizes one emitted control string.
func checkEmitted(raw string, src emitSrc) string {
	s := stripPadding(raw)
	if !src.tparm {
		toks, err := ecmaTokenize(s)
		if err != nil {
			return err.Error()
		}
		if ok, txt := pureControl(toks); !ok {
			if strings.Contains(txt, "%") {
				return "parameter-language residue would be written verbatim: " + txt
			}
			return "printable text outside a control sequence: " + txt
		}
		return ""
	}
	prg, err := parseTparm(s)
	if err != nil {
		return err.Error()
	}
	if prg.maxParam > len(src.kinds) {
		return fmt.Sprintf("uses %%p%d but the call supplies %d parameter(s)", prg.maxParam, len(src.kinds))
	}
	for _, args := range sampleArgs(src.kinds) {
		out, okStack := evalTparm(prg, args...)
		if !okStack {
			return "stack underflow while expanding"
		}
		toks, err := ecmaTokenize(out)
		if err != nil {
			return fmt.Sprintf("with %v: %v", args, err)
		}
		if ok, txt := pureControl(toks); !ok {
			return fmt.Sprintf("with %v: text outside a control sequence: %q", args, txt)
		}
	}
	return ""
}

func c09Args(c *Ctx, p *Prog) {
	nnProg = p
	n := 0
	for _, fn := range p.modFns {
		if fn.Pkg != p.Tcell {
			continue
		}
		top := fn
		for top.Parent() != nil {
			top = top.Parent()
		}
		if recvTypeName(top) != "tcell.tScreen" {
			continue
		}
		short := fn.RelString(p.Tcell.Pkg)
		k := 0
		for _, call := range callsIn(fn, func(nm string, _ *ssa.CallCommon) bool {
			return strings.HasSuffix(nm, "Terminfo).TParm") || strings.HasSuffix(nm, "Terminfo).TGoto")
		}) {
			cc := callCommon(call)
			var vals []ssa.Value
			if strings.HasSuffix(calleeName(cc), "TGoto") {
				vals = cc.Args[1:]
			} else {
				_, vs, ok := varargCount(cc.Args[2])
				if !ok {
					continue
				}
				vals = vs
			}
			k++
			for i, v := range vals {
				if mi, ok := v.(*ssa.MakeInterface); ok {
					v = mi.X
				}
				if argKind(v) != "int" {
					continue
				}
				n++
				key := fmt.Sprintf("%s:call#%d:arg%d", short, k, i+1)
				ok, why := nonNegative(v, call, 0)
				if !ok {
					if ex, reason := c09ArgException(p, fn, short, valName(stripConv(derefCell(v)))); ex {
						c.Exception(short + " " + valName(v) + ": " + reason)
						c.OK("C09-R6", key, p.pos(call.Pos()), "exception: "+reason)
						continue
					}
				}
				c.Check(ok, "C09-R6", key, p.pos(call.Pos()), fmt.Sprintf("%s: %s", valName(v), why))
			}
		}
	}
	if n < 15 {
		c.Undecided("C09-R6", "int arguments", "-", fmt.Sprintf("found %d integer TParm/TGoto arguments", n))
	}
}

// c09ArgException: named exceptions, one symbol each.
func c09ArgException(p *Prog, f *ssa.Function, fn, arg string) (bool, string) {
	switch {
	case fn == "(*tScreen).SetSize" && (arg == "w" || arg == "h"):
		return true, "window size requested by the application, not cell content; outside the statement's draw histories"
	case fn == "(*tScreen).drawCell" && arg == "(x-1)":
		return true, "corner trick addresses column w-2; the statement quantifies over screens at least two columns wide"
	case (fn == "(*tScreen).drawCell$1" || deferredFromDrawCell(p, "tScreen", f)) && arg == "(x-1)":
		return true, "corner trick (deferred part), same bound as above"
	}
	return false, ""
}

// nonNegative: is integer value v provably >= 0 at instruction `at`?
func nonNegative(v ssa.Value, at ssa.Instruction, depth int) (bool, string) {
	if depth > 6 {
		return false, "too deep"
	}
	v = derefCell(v)
	if k, ok := constInt(v); ok {
		return k >= 0, "constant"
	}
	switch x := v.(type) {
	case *ssa.Convert:
		return nonNegative(x.X, at, depth+1)
	case *ssa.ChangeType:
		return nonNegative(x.X, at, depth+1)
	case *ssa.BinOp:
		if x.Op == token.AND {
			if k, ok := constInt(x.Y); ok && k >= 0 {
				return true, fmt.Sprintf("masked with %#x", k)
			}
		}
		if x.Op == token.ADD {
			a, _ := nonNegative(x.X, at, depth+1)
			b, _ := nonNegative(x.Y, at, depth+1)
			if a && b {
				return true, "sum of non-negatives"
			}
		}
	case *ssa.Phi:
		if isInductionFromNonNeg(x) {
			return true, "loop index counting up from a non-negative start"
		}
		for _, e := range x.Edges {
			if ok, _ := nonNegative(e, at, depth+1); !ok {
				return false, "phi with an unproven edge"
			}
		}
		return true, "all incoming values non-negative"
	case *ssa.Extract:
		if call, ok := x.Tuple.(*ssa.Call); ok {
			n := calleeName(&call.Call)
			if strings.HasSuffix(n, ".Color).RGB") {
				// RGB() is >= 0 exactly when the colour has RGB data: under IsRGB() true edge of the same colour
				recv := call.Call.Args[0]
				for _, g := range rawGuardsAt(at.Block()) {
					if gc, ok := g.Cond.(*ssa.Call); ok && g.Positive && strings.HasSuffix(calleeName(&gc.Call), ".Color).IsRGB") {
						if sameValue(gc.Call.Args[0], recv) {
							return true, "RGB component under the IsRGB() test of the same colour"
						}
					}
					// r >= 0 test on a component of the same call
					if bo, ok := g.Cond.(*ssa.BinOp); ok {
						if ex2, ok := bo.X.(*ssa.Extract); ok && ex2.Tuple == x.Tuple {
							if k, ok := constInt(bo.Y); ok && k == 0 && ((bo.Op == token.GEQ && g.Positive) || (bo.Op == token.LSS && !g.Positive)) {
								return true, "RGB component under an explicit >= 0 test"
							}
						}
					}
				}
				return false, "RGB() yields -1 for a colour without RGB data; no IsRGB()/>=0 guard of the same colour dominates"
			}
			if strings.HasSuffix(n, "CellBuffer).Size") {
				return true, "buffer dimension"
			}
		}
	case *ssa.Parameter:
		// parameters: all callers must pass non-negative values — decided for the cursor/goto helpers by guards
		g := guardsAt(at.Block())
		if hasAtom(g, Atom{x.Name(), ">=", "0"}) {
			return true, "guarded >= 0"
		}
		fn := x.Parent()
		if fn.Name() == "drawCell" && (x.Name() == "x" || x.Name() == "y") {
			return drawCellArgsNonNeg(fn, x)
		}
		// any other unexported helper that is only ever called directly (never stored or passed on):
		// the parameter is what its callers pass (`drawRow(y)` called with the row index)
		if fn.Parent() == nil && fn.Object() != nil && !fn.Object().Exported() && nnProg != nil && onlyCalledStatically(nnProg, fn) {
			return drawCellArgsNonNeg(fn, x)
		}
	case *ssa.UnOp:
		if ref, _, ok := loadedField(x); ok {
			g := guardsAt(at.Block())
			if hasAtom(g, Atom{"t." + ref.Name, ">=", "0"}) {
				return true, "guarded >= 0"
			}
			// a store to the same field earlier in the same block
			var last *ssa.Store
			for _, in := range x.Block().Instrs {
				if in == ssa.Instruction(x) {
					break
				}
				if st, isSt := in.(*ssa.Store); isSt {
					if r2, _, ok2 := fieldAddrRef(st.Addr); ok2 && r2 == ref {
						last = st
					}
				}
			}
			if last != nil {
				if ok2, why := nonNegative(last.Val, last, depth+1); ok2 {
					return true, "field just stored from: " + why
				}
			}
		}
	}
	g := guardsAt(at.Block())
	if hasAtom(g, Atom{valName(v), ">=", "0"}) {
		return true, "guarded >= 0"
	}
	return false, "no non-negativity argument found"
}

func sameValue(a, b ssa.Value) bool {
	a, b = derefCell(a), derefCell(b)
	if a == b {
		return true
	}
	return valName(a) == valName(b) && !strings.Contains(valName(a), "@")
}

var nnProg *Prog
var nnVisiting = map[*ssa.Parameter]bool{}

// drawCellArgsNonNeg: drawCell(x, y) is called with loop indices (or x-1 in the corner trick).
func drawCellArgsNonNeg(fn *ssa.Function, prm *ssa.Parameter) (bool, string) {
	if nnVisiting[prm] || nnProg == nil {
		return true, "recursive call site (coinductive)"
	}
	nnVisiting[prm] = true
	defer delete(nnVisiting, prm)
	idx := -1
	for i, q := range fn.Params {
		if q == prm {
			idx = i
		}
	}
	ok := true
	n := 0
	for _, f := range nnProg.modFns {
		if f.Pkg != fn.Pkg {
			continue
		}
		eachInstr(f, func(in ssa.Instruction) {
			cc := callCommon(in)
			if cc == nil || staticCallee(cc) != fn {
				return
			}
			n++
			a := derefCell(cc.Args[idx])
			if okA, _ := nonNegative(a, in, 1); !okA {
				// the corner trick's x-1 (named exception at its own TGoto site)
				if bo, isBO := a.(*ssa.BinOp); isBO && bo.Op == token.SUB && fn.Name() == "drawCell" {
					return
				}
				ok = false
			}
		})
	}
	if ok && n > 0 {
		return true, "every caller passes a loop index"
	}
	return false, "a caller passes a possibly negative coordinate"
}

func c09Runewidth(c *Ctx, p *Prog) {
	stores := []string{}
	okInit := false
	for _, fn := range p.modFns {
		eachInstr(fn, func(in ssa.Instruction) {
			st, ok := in.(*ssa.Store)
			if !ok {
				return
			}
			ref, _, ok := fieldAddrRef(st.Addr)
			if !ok || ref.Name != "EastAsianWidth" {
				return
			}
			stores = append(stores, fn.String()+"@"+p.pos(in.Pos()))
			if v, isC := constBool(st.Val); isC && !v && strings.HasPrefix(fn.Name(), "init") && fn.Pkg == p.Tcell {
				for _, g := range rawGuardsAt(in.Block()) {
					if bo, isBO := g.Cond.(*ssa.BinOp); isBO && g.Positive && bo.Op == token.EQL {
						if call, isCall := bo.X.(*ssa.Call); isCall && calleeName(&call.Call) == "os.Getenv" {
							if name, _ := constString(call.Call.Args[0]); name == "RUNEWIDTH_EASTASIAN" {
								if s, isS := constString(bo.Y); isS && s == "" {
									okInit = true
								}
							}
						}
					}
				}
			}
		})
	}
	sort.Strings(stores)
	c.Check(okInit && len(stores) == 1, "C09-R7", "runewidth:EastAsianWidth-off", "-", fmt.Sprintf("stores to EastAsianWidth: %v", stores))
}

// c09Sub: charmap encoders of gdamore/encoding substitute SUB (0x1a), a C0
// control, for what they cannot represent.  Each use of an encoder's output
// must therefore sit behind the false edge of `out[0] == 0x1a`.
func c09Sub(c *Ctx, p *Prog) {
	fn := p.Fn("tcell:(*tScreen).encodeRune")
	if fn == nil {
		c.Undecided("C09-R9", "encodeRune", "-", "not found")
		return
	}
	fn = transformHost(p, fn) // encodeRune, or the helper it transcodes one rune with
	n := 0
	eachInstr(fn, func(in ssa.Instruction) {
		cc := callCommon(in)
		if cc == nil || !cc.IsInvoke() || cc.Method.Name() != "Transform" || len(cc.Args) != 3 {
			return
		}
		n++
		dst := cc.Args[0]
		// uses of the destination as a source of bytes: slices of it flowing into append
		bad := ""
		uses := 0
		eachInstr(fn, func(u ssa.Instruction) {
			sl, ok := u.(*ssa.Slice)
			if !ok || (sl.X != dst && sliceRoot(sl.X) != sliceRoot(dst)) || u == ssa.Instruction(nil) {
				return
			}
			if sl == dst {
				return
			}
			isAppendArg := false
			for _, r := range referrers(sl) {
				if call, ok := r.(*ssa.Call); ok {
					if b, ok := call.Call.Value.(*ssa.Builtin); ok && b.Name() == "append" {
						isAppendArg = true
					}
				}
			}
			// … or handed out by the helper that holds the encoder call (`return out[:n], true`)
			for _, r := range referrers(sl) {
				if _, isRet := r.(*ssa.Return); isRet {
					isAppendArg = true
				}
			}
			if !isAppendArg {
				return
			}
			uses++
			guarded := false
			for _, g := range rawGuardsAt(u.Block()) {
				bo, ok := g.Cond.(*ssa.BinOp)
				if !ok {
					continue
				}
				if k, ok := constInt(bo.Y); !ok || k != 0x1a {
					continue
				}
				if encNorm(bo.X) != "out[0]" {
					continue
				}
				if (bo.Op == token.EQL && !g.Positive) || (bo.Op == token.NEQ && g.Positive) {
					guarded = true
				}
			}
			if !guarded {
				bad += "encoder output appended at " + p.pos(u.Pos()) + " without the SUB test; "
			}
		})
		c.Check(bad == "" && uses > 0, "C09-R9", fmt.Sprintf("encodeRune:encoder-call#%d:sub-tested", n), p.pos(in.Pos()), fmt.Sprintf("%d use(s) of the encoder's output, each behind `out[0] != 0x1a` %s", uses, bad))
	})
	if n == 0 {
		c.Undecided("C09-R9", "encodeRune:encoder-call", p.pos(fn.Pos()), "no Transform call")
	}
}

// c09FormatChars: see C09-R11.
func c09FormatChars(c *Ctx, p *Prog) {
	n := 0
	for _, fn := range p.modFns {
		if fn.Pkg != p.Tcell || recvTypeName(topFunc(fn)) != "tcell.CellBuffer" {
			continue
		}
		for _, ws := range storesTo(fn, cellOwner, "width") {
			call, ok := ws.Val.(*ssa.Call)
			if !ok {
				continue
			}
			n++
			key := fn.Name() + ":width-blanks-format-characters"
			f := staticCallee(&call.Call)
			ok2, detail := false, "the width comes straight from "+calleeName(&call.Call)+": U+2066..2069, U+2060, U+061C, tag characters keep a column and are written to the terminal"
			if f != nil && f.Pkg == p.Tcell {
				for _, r := range returnsOf(f) {
					if k, isK := constInt(r.Results[0]); isK && k == 0 {
						for _, g := range rawGuardsAt(r.Block()) {
							if gc, isCall := g.Cond.(*ssa.Call); isCall && g.Positive && calleeName(&gc.Call) == "unicode.Is" && strings.HasSuffix(valName(gc.Call.Args[0]), "Cf") {
								ok2, detail = true, f.Name()+" answers 0 for unicode.Cf before consulting the width tables"
							}
						}
					}
				}
			}
			c.Check(ok2, "C09-R11", key, p.pos(ws.Pos()), detail)
		}
	}
	if n == 0 {
		c.Undecided("C09-R11", "width stores", "-", "no computed width store found")
	}
}

// tableFieldSources: the emitted string is field k of the element of a small table the code ranges over
// (`for _, m := range table { … TPuts(m.seq) }`): every element's field k is a source.  The table is a
// package-level array/slice literal (its strings are constants of the source) or a literal built on the
// spot (its strings are whatever was stored: capabilities, literals).  nil if v is not of that shape.
func tableFieldSources(p *Prog, v ssa.Value, depth int) []emitSrc {
	ld, ok := v.(*ssa.UnOp)
	if !ok || ld.Op != token.MUL {
		return nil
	}
	// an array of strings indexed by a variable (t.underStyles[us], a local fancyUnder[us]): every
	// string ever stored into the array is a source
	if ia, isIA := ld.X.(*ssa.IndexAddr); isIA {
		if _, isConstIdx := constInt(ia.Index); !isConstIdx {
			var out []emitSrc
			collect := func(fn *ssa.Function, match func(base ssa.Value) bool) {
				eachInstr(fn, func(in ssa.Instruction) {
					st, isSt := in.(*ssa.Store)
					if !isSt {
						return
					}
					ia2, isIA2 := st.Addr.(*ssa.IndexAddr)
					if !isIA2 || !match(ia2.X) {
						return
					}
					out = append(out, classifyEmit(p, st.Val, depth+1)...)
				})
			}
			switch base := ia.X.(type) {
			case *ssa.Alloc:
				collect(base.Parent(), func(b ssa.Value) bool { return b == ssa.Value(base) })
			case *ssa.FieldAddr:
				ref, _, okR := fieldAddrRef(base)
				if okR && ref.Owner == "tcell.tScreen" {
					for _, fn := range p.modFns {
						if fn.Pkg == p.Tcell {
							collect(fn, func(b ssa.Value) bool {
								r2, _, ok2 := fieldAddrRef(b)
								return ok2 && r2 == ref
							})
						}
					}
				}
			}
			if len(out) > 0 {
				return out
			}
		}
		return nil
	}
	fa, ok := ld.X.(*ssa.FieldAddr)
	if !ok {
		return nil
	}
	var table ssa.Value
	if ia, isIA := fa.X.(*ssa.IndexAddr); isIA {
		// table[i].field, the element addressed in place
		table = ia.X
	}
	elem, ok := fa.X.(*ssa.Alloc) // the range variable
	if !ok && table == nil {
		return nil
	}
	elemType := fa.X.Type()
	for _, r := range referrersOrNil(elem) {
		if st, isSt := r.(*ssa.Store); isSt && st.Addr == ssa.Value(elem) {
			switch iv := st.Val.(type) {
			case *ssa.Index:
				table = iv.X
			case *ssa.UnOp:
				if ia, isIA := iv.X.(*ssa.IndexAddr); isIA && iv.Op == token.MUL {
					table = ia.X
				}
			}
		}
	}
	if table == nil {
		return nil
	}
	// look through the copy `t := *table`
	var base ssa.Value = table
	if u, isU := table.(*ssa.UnOp); isU && u.Op == token.MUL {
		base = u.X
	}
	if sl, isSl := base.(*ssa.Slice); isSl {
		base = sl.X
	}
	switch b := base.(type) {
	case *ssa.Global:
		pk := p.pkg("")
		obj := pk.Types.Scope().Lookup(b.Name())
		if obj == nil {
			return nil
		}
		cl, isCL := findVarDecl(pk, obj).(*ast.CompositeLit)
		if !isCL {
			return nil
		}
		var out []emitSrc
		for _, el := range cl.Elts {
			if kv, isKV := el.(*ast.KeyValueExpr); isKV {
				el = kv.Value
			}
			ecl, isE := el.(*ast.CompositeLit)
			if !isE {
				return nil
			}
			var fe ast.Expr
			for i, f := range ecl.Elts {
				if kv, isKV := f.(*ast.KeyValueExpr); isKV {
					if id, isID := kv.Key.(*ast.Ident); isID {
						if st, okS := elemType.(*types.Pointer).Elem().Underlying().(*types.Struct); okS && fa.Field < st.NumFields() && st.Field(fa.Field).Name() == id.Name {
							fe = kv.Value
						}
					}
				} else if i == fa.Field {
					fe = f
				}
			}
			if fe == nil {
				out = append(out, emitSrc{kind: "literal", lit: ""})
				continue
			}
			s, okS := strConst(pk.TypesInfo, fe)
			if !okS {
				return []emitSrc{{kind: "unknown", unknown: "table " + b.Name() + " has a non-constant string"}}
			}
			out = append(out, emitSrc{kind: "literal", lit: s})
		}
		return out
	case *ssa.Alloc:
		var out []emitSrc
		for _, r := range referrers(b) {
			ia, isIA := r.(*ssa.IndexAddr)
			if !isIA {
				continue
			}
			for _, r2 := range referrers(ia) {
				f2, isFA := r2.(*ssa.FieldAddr)
				if !isFA || f2.Field != fa.Field {
					continue
				}
				for _, r3 := range referrers(f2) {
					if st, isSt := r3.(*ssa.Store); isSt && st.Addr == ssa.Value(f2) {
						out = append(out, classifyEmit(p, st.Val, depth+1)...)
					}
				}
			}
		}
		if len(out) == 0 {
			return nil
		}
		return out
	}
	return nil
}

func referrersOrNil(a *ssa.Alloc) []ssa.Instruction {
	if a == nil {
		return nil
	}
	return referrers(a)
}

// onlyCalledStatically: every mention of fn in the module is the callee position of a plain call.
func onlyCalledStatically(p *Prog, fn *ssa.Function) bool {
	ok := true
	for _, g := range p.modFns {
		if g.Pkg != fn.Pkg {
			continue
		}
		for _, f := range withClosures(g) {
			eachInstr(f, func(in ssa.Instruction) {
				for _, op := range in.Operands(nil) {
					if *op == ssa.Value(fn) {
						cc := callCommon(in)
						// a direct call, also a deferred one or one started as a goroutine: the arguments
						// are the values at that point
						_, isCall := in.(*ssa.Call)
						_, isDefer := in.(*ssa.Defer)
						_, isGo := in.(*ssa.Go)
						if !(isCall || isDefer || isGo) || cc == nil || cc.StaticCallee() != fn {
							ok = false
						}
					}
				}
			})
		}
	}
	return ok
}

// encodeRuneFeed: one encodeRune call of the cell painter (in drawCell or in a helper it hands the
// cell's runes to), with where its rune comes from ("GetContent#0", "GetContent#1[i]" or "") and the
// conditions it is made under.
type encodeRuneFeed struct {
	call   ssa.Instruction
	src    string
	guards []rawGuard
}

func encodeRuneFeeds(p *Prog, dc *ssa.Function) []encodeRuneFeed {
	var out []encodeRuneFeed
	for _, d := range deepInstrs(p, dc, 1, nil) {
		cc := callCommon(d.in)
		if cc == nil || !strings.HasSuffix(calleeName(cc), "tScreen).encodeRune") {
			continue
		}
		// a helper's parameter stands for the argument drawCell passed
		bind := func(v ssa.Value) ssa.Value {
			v = derefCell(v)
			if pa, ok := v.(*ssa.Parameter); ok && len(d.chain) > 0 {
				if site := callCommon(d.chain[len(d.chain)-1]); site != nil {
					for i, q := range d.in.Parent().Params {
						if q == pa && i < len(site.Args) {
							return derefCell(site.Args[i])
						}
					}
				}
			}
			return v
		}
		fromGetContent := func(v ssa.Value, idx int) bool {
			ex, ok := bind(v).(*ssa.Extract)
			if !ok || ex.Index != idx {
				return false
			}
			cl, isCall := ex.Tuple.(*ssa.Call)
			return isCall && strings.HasSuffix(calleeName(&cl.Call), "CellBuffer).GetContent")
		}
		src := ""
		arg := derefCell(cc.Args[1])
		if fromGetContent(arg, 0) {
			src = "GetContent#0"
		} else if u, ok := arg.(*ssa.UnOp); ok {
			// range element of combc = GetContent#1
			if ia, isIA := u.X.(*ssa.IndexAddr); isIA && fromGetContent(ia.X, 1) {
				src = "GetContent#1[i]"
			}
		}
		out = append(out, encodeRuneFeed{d.in, src, d.rawGuards()})
	}
	return out
}

package main

import (
	"fmt"
	"go/types"
	"sort"
	"strings"

	"golang.org/x/tools/go/ssa"
)

// T4 — must-lockset over the methods of one screen type.
//
// Local lock state of a function, relative to its caller:
//   lsHeld     the function itself acquired the mutex (definitely held)
//   lsEntry    unchanged since entry (held iff the caller held it)
//   lsReleased the function released it (definitely not held)
// meet = min (lsReleased < lsEntry < lsHeld).

type lstate int

const (
	lsReleased lstate = iota
	lsEntry
	lsHeld
)

func (s lstate) String() string { return [...]string{"released", "entry", "held"}[s] }

type lockDomain struct {
	p       *Prog
	pkg     *ssa.Package
	tname   string // "tScreen"
	owner   string // "tcell.tScreen"
	muField string
	fns     []*ssa.Function
	inDom   map[*ssa.Function]bool
	roots   map[*ssa.Function]string // root kind: api | go | callback
	initFn  map[*ssa.Function]bool   // constructor / Init entry points

	// per function results
	stateAt   map[ssa.Instruction]lstate
	summaries map[*ssa.Function]*lockSummary
	initOnly  map[*ssa.Function]bool
	class     map[string]string // field name -> class
	accesses  map[*ssa.Function][]lsAccess
}

type lsAccess struct {
	field string // field name or pseudo-field
	write bool
	instr ssa.Instruction
}

type lsCall struct {
	callee *ssa.Function
	instr  ssa.Instruction
	state  lstate
	kind   string // call | defer | once
}

type lockSummary struct {
	needs        map[string]ssa.Instruction // fields accessed while relying on the caller's lock -> a witness site
	needsVia     map[string]string          // field -> chain text
	locksAtEntry ssa.Instruction            // Lock() executed in state lsEntry (deadlocks if caller holds)
	calls        []lsCall
	leaks        []ssa.Instruction // returns with lsHeld and no deferred unlock
	mixed        []ssa.Instruction // joins entered with the mutex held on one edge and not on another
	blocking     []ssa.Instruction // blocking operations while lsHeld
}

func (d *lockDomain) isLockOp(cc *ssa.CallCommon) (lock, unlock bool) {
	if cc == nil {
		return
	}
	if cc.IsInvoke() {
		// baseScreen: b.screenImpl.Lock()
		if cc.Method.Name() == "Lock" || cc.Method.Name() == "Unlock" {
			if typeName(cc.Value.Type()) == "tcell.screenImpl" || typeName(cc.Value.Type()) == "sync.Locker" {
				return cc.Method.Name() == "Lock", cc.Method.Name() == "Unlock"
			}
		}
		return
	}
	f := cc.StaticCallee()
	if f == nil || len(cc.Args) == 0 {
		return
	}
	n := f.String()
	if n != "(*sync.Mutex).Lock" && n != "(*sync.Mutex).Unlock" {
		return
	}
	ref, _, ok := fieldAddrRef(cc.Args[0])
	if !ok || ref.Owner != d.owner {
		return
	}
	// the type's own mutex only (the embedded one, or its only mutex field): a second mutex added for
	// part of the state protects nothing against the code that still uses the first
	if mf := d.mutexField(); mf != "" && ref.Name != mf {
		return
	}
	return n == "(*sync.Mutex).Lock", n == "(*sync.Mutex).Unlock"
}

// mutexField: the name of the domain's mutex field ("Mutex" when embedded), "" when there is none or
// it cannot be told.
func (d *lockDomain) mutexField() string {
	if d.muField != "" {
		return d.muField
	}
	nt := d.p.namedType(d.pkg, d.tname)
	if nt == nil {
		return ""
	}
	st, ok := nt.Underlying().(*types.Struct)
	if !ok {
		return ""
	}
	var all []string
	for i := 0; i < st.NumFields(); i++ {
		f := st.Field(i)
		if typeName(f.Type()) == "sync.Mutex" {
			if f.Anonymous() {
				d.muField = f.Name()
				return d.muField
			}
			all = append(all, f.Name())
		}
	}
	if len(all) == 1 {
		d.muField = all[0]
	}
	return d.muField
}

// boundTarget resolves `x.m` method values (bound method wrappers) to m.
func boundTarget(v ssa.Value) *ssa.Function {
	mc, ok := v.(*ssa.MakeClosure)
	if !ok {
		return nil
	}
	f, ok := mc.Fn.(*ssa.Function)
	if !ok {
		return nil
	}
	if strings.Contains(f.Synthetic, "bound method wrapper") {
		var tgt *ssa.Function
		eachInstr(f, func(in ssa.Instruction) {
			if c, ok := in.(*ssa.Call); ok {
				if g := c.Call.StaticCallee(); g != nil {
					tgt = g
				}
			}
		})
		return tgt
	}
	return f
}

func newLockDomain(p *Prog, pkg *ssa.Package, tname string) *lockDomain {
	d := &lockDomain{p: p, pkg: pkg, tname: tname, owner: pkg.Pkg.Name() + "." + tname,
		inDom: map[*ssa.Function]bool{}, roots: map[*ssa.Function]string{}, initFn: map[*ssa.Function]bool{},
		stateAt: map[ssa.Instruction]lstate{}, summaries: map[*ssa.Function]*lockSummary{},
		initOnly: map[*ssa.Function]bool{}, class: map[string]string{}, accesses: map[*ssa.Function][]lsAccess{}}
	for _, fn := range p.modFns {
		if fn.Pkg != pkg {
			continue
		}
		top := fn
		for top.Parent() != nil {
			top = top.Parent()
		}
		if recvTypeName(top) == d.owner {
			d.fns = append(d.fns, fn)
			d.inDom[fn] = true
		}
	}
	// constructors: package functions that allocate the type
	for _, fn := range p.modFns {
		if fn.Pkg != pkg || fn.Signature.Recv() != nil || fn.Parent() != nil {
			continue
		}
		alloc := false
		eachInstr(fn, func(in ssa.Instruction) {
			if a, ok := in.(*ssa.Alloc); ok {
				if strings.TrimPrefix(typeName(a.Type()), "*") == d.owner {
					alloc = true
				}
			}
		})
		if alloc {
			d.fns = append(d.fns, fn)
			d.inDom[fn] = true
			d.initFn[fn] = true
		}
	}
	return d
}

func (d *lockDomain) analyse() {
	// roots
	// Which methods can the application call?  A screen wrapped in baseScreen
	// is reachable only through the screenImpl method set; a type that is
	// handed out itself (it implements an exported interface of the package
	// directly, like SimulationScreen) exposes every exported method.
	callable := d.callableMethods()
	for _, fn := range d.fns {
		if d.initFn[fn] {
			continue
		}
		if fn.Parent() == nil && fn.Signature.Recv() != nil && fn.Object() != nil && fn.Object().Exported() {
			if fn.Name() == "Init" {
				d.initFn[fn] = true
			} else if fn.Name() != "Lock" && fn.Name() != "Unlock" && (callable == nil || callable[fn.Name()]) {
				d.roots[fn] = "api"
			}
		}
	}
	for _, fn := range d.fns {
		d.summaries[fn] = &lockSummary{needs: map[string]ssa.Instruction{}, needsVia: map[string]string{}}
	}
	for _, fn := range d.fns {
		d.intra(fn)
	}
	// go targets and escaping closures are roots
	for _, fn := range d.fns {
		eachInstr(fn, func(in ssa.Instruction) {
			switch x := in.(type) {
			case *ssa.Go:
				if g := staticCallee(&x.Call); g != nil && d.inDom[g] {
					d.roots[g] = "go"
				}
			case *ssa.MakeClosure:
				g, _ := x.Fn.(*ssa.Function)
				if g == nil {
					return
				}
				tgt := g
				if bt := boundTarget(x); bt != nil {
					tgt = bt
				}
				if !d.inDom[tgt] {
					return
				}
				// closure used other than as the callee of call/defer/go or Once.Do
				for _, r := range referrers(x) {
					cc := callCommon(r)
					if cc != nil && cc.Value == ssa.Value(x) {
						continue
					}
					if cc != nil && calleeName(cc) == "(*sync.Once).Do" {
						continue
					}
					if _, ok := d.roots[tgt]; !ok {
						d.roots[tgt] = "callback"
					}
				}
			}
		})
	}
	d.computeInitOnly()
	d.classify()
	d.propagate()
}

// intra runs the local lock-state dataflow over fn and records accesses/calls.
func (d *lockDomain) intra(fn *ssa.Function) {
	if len(fn.Blocks) == 0 {
		return
	}
	sum := d.summaries[fn]
	in := map[*ssa.BasicBlock]lstate{}
	reached := map[*ssa.BasicBlock]bool{}
	deferUnl := map[*ssa.BasicBlock]bool{} // must: a deferred Unlock is registered
	in[fn.Blocks[0]] = lsEntry
	reached[fn.Blocks[0]] = true
	step := func(ins ssa.Instruction, st lstate, du bool, record bool) (lstate, bool) {
		if record {
			d.stateAt[ins] = st
		}
		cc := callCommon(ins)
		if cc == nil {
			return st, du
		}
		lock, unlock := d.isLockOp(cc)
		switch ins.(type) {
		case *ssa.Defer:
			if unlock {
				return st, true
			}
			return st, du
		case *ssa.Go:
			return st, du
		}
		if lock {
			if record && st == lsEntry && sum.locksAtEntry == nil {
				sum.locksAtEntry = ins
			}
			if record && st == lsHeld {
				sum.blocking = append(sum.blocking, ins) // self-deadlock: Lock while held
			}
			return lsHeld, du
		}
		if unlock {
			return lsReleased, du
		}
		return st, du
	}
	changed := true
	du0 := map[*ssa.BasicBlock]bool{}
	for changed {
		changed = false
		for _, b := range fn.Blocks {
			if !reached[b] || deadBlock(b) {
				continue
			}
			st, du := in[b], du0[b]
			for _, ins := range b.Instrs {
				st, du = step(ins, st, du, false)
			}
			for _, s := range b.Succs {
				if !reached[s] {
					reached[s] = true
					in[s] = st
					du0[s] = du
					changed = true
					continue
				}
				ns, nd := in[s], du0[s]
				if st < ns {
					ns = st
				}
				nd = nd && du
				if ns != in[s] || nd != du0[s] {
					in[s] = ns
					du0[s] = nd
					changed = true
				}
			}
		}
	}
	_ = deferUnl
	for _, b := range fn.Blocks {
		if !reached[b] || deadBlock(b) {
			continue
		}
		st, du := in[b], du0[b]
		for _, ins := range b.Instrs {
			st, du = step(ins, st, du, true)
			if r, ok := ins.(*ssa.Return); ok {
				if d.stateAt[r] == lsHeld && !du {
					sum.leaks = append(sum.leaks, r)
				}
			}
		}
	}
	// a join entered with the mutex held along one edge and not held along another: whatever follows
	// either unlocks a mutex that is not locked or locks one that is (a loop that goes round holding the
	// lock after a branch that skipped its Unlock)
	for _, b := range fn.Blocks {
		if !reached[b] || deadBlock(b) || len(b.Preds) < 2 || len(b.Instrs) == 0 {
			continue
		}
		held, notHeld := false, false
		for _, pr := range b.Preds {
			if !reached[pr] || deadBlock(pr) {
				continue
			}
			st, du := in[pr], du0[pr]
			for _, ins := range pr.Instrs {
				st, du = step(ins, st, du, false)
			}
			if st == lsHeld && !du {
				held = true
			} else if st != lsHeld {
				notHeld = true
			}
		}
		if held && notHeld {
			sum.mixed = append(sum.mixed, b.Instrs[0])
		}
	}
	// calls within the domain
	eachInstr(fn, func(ins ssa.Instruction) {
		st, ok := d.stateAt[ins]
		if !ok {
			return
		}
		switch x := ins.(type) {
		case *ssa.Call:
			if g := staticCallee(&x.Call); g != nil && d.inDom[g] {
				sum.calls = append(sum.calls, lsCall{g, ins, st, "call"})
			}
			if calleeName(&x.Call) == "(*sync.Once).Do" && len(x.Call.Args) == 2 {
				if g := boundTarget(x.Call.Args[1]); g != nil && d.inDom[g] {
					sum.calls = append(sum.calls, lsCall{g, ins, st, "once"})
				}
			}
			// blocking while held
			if st == lsHeld {
				n := calleeName(&x.Call)
				if n == "(*sync.WaitGroup).Wait" {
					sum.blocking = append(sum.blocking, ins)
				}
			}
		case *ssa.Defer:
			if g := staticCallee(&x.Call); g != nil && d.inDom[g] {
				// a deferred function runs at return; lock state then is the
				// state at the returns of fn — approximated by the meet over returns below
				sum.calls = append(sum.calls, lsCall{g, ins, st, "defer"})
			}
		case *ssa.Send:
			if st == lsHeld {
				sum.blocking = append(sum.blocking, ins)
			}
		case *ssa.Select:
			if st == lsHeld && x.Blocking {
				sum.blocking = append(sum.blocking, ins)
			}
		case *ssa.UnOp:
			if st == lsHeld && x.Op.String() == "<-" {
				sum.blocking = append(sum.blocking, ins)
			}
		}
	})
	// deferred closures run at the returns: use the meet of the states at returns
	retState := lsHeld
	nret := 0
	for _, r := range returnsOf(fn) {
		if s, ok := d.stateAt[r]; ok {
			// a deferred Unlock registered earlier has not run yet when
			// earlier-registered... (LIFO): closures deferred *after* the
			// deferred Unlock run before it, closures deferred before run after.
			if s < retState {
				retState = s
			}
			nret++
		}
	}
	if nret > 0 {
		for i := range sum.calls {
			if sum.calls[i].kind == "defer" {
				sum.calls[i].state = retState
			}
		}
	}
	d.accesses[fn] = d.collectAccesses(fn)
}

// collectAccesses lists accesses of fn to fields of the domain type and to the pseudo-fields.
func (d *lockDomain) collectAccesses(fn *ssa.Function) []lsAccess {
	var out []lsAccess
	for _, a := range fieldAccesses(fn) {
		if a.Field.Owner != d.owner {
			continue
		}
		out = append(out, lsAccess{a.Field.Name, a.Write, a.Instr})
	}
	isOwnField := func(v ssa.Value, want func(types.Type) bool) (string, bool) {
		ref, _, ok := loadedField(v)
		if !ok || ref.Owner != d.owner {
			return "", false
		}
		return ref.Name, true
	}
	eachInstr(fn, func(ins ssa.Instruction) {
		cc := callCommon(ins)
		if cc == nil {
			return
		}
		if cc.IsInvoke() {
			// stateful transformer: Reset/Transform mutate the encoder/decoder
			if name, ok := isOwnField(cc.Value, nil); ok {
				tn := typeName(cc.Value.Type())
				if tn == "transform.Transformer" {
					out = append(out, lsAccess{name + "·state", true, ins})
				}
				if tn == "tcell.Tty" && cc.Method.Name() == "Write" {
					out = append(out, lsAccess{"tty-out", true, ins})
				}
				// handing the terminal over and taking it back: Start and Stop of the Tty are not
				// safe against each other (nor against writes), so they run under the screen's mutex
				if tn == "tcell.Tty" && (cc.Method.Name() == "Start" || cc.Method.Name() == "Stop") {
					out = append(out, lsAccess{"tty-life", true, ins})
				}
			}
			return
		}
		// the Tty handed to a writer function: io.WriteString(t.tty, …), ti.TPuts(t.tty, …), buf.WriteTo(t.tty)
		for _, a := range cc.Args {
			if mi, ok := a.(*ssa.MakeInterface); ok {
				a = mi.X
			}
			if ct, ok := a.(*ssa.ChangeInterface); ok {
				a = ct.X
			}
			if name, ok := isOwnField(a, nil); ok && typeName(a.Type()) == "tcell.Tty" {
				_ = name
				out = append(out, lsAccess{"tty-out", true, ins})
			}
		}
	})
	if d.tname == "baseScreen" {
		// the shared layer reaches the implementation's CellBuffer through GetCells()
		eachInstr(fn, func(ins ssa.Instruction) {
			cc := callCommon(ins)
			if cc == nil || cc.IsInvoke() {
				return
			}
			f := cc.StaticCallee()
			if f != nil && recvTypeName(f) == "tcell.CellBuffer" {
				out = append(out, lsAccess{"cells", true, ins})
			}
		})
	}
	// js side effects of the wasm backend: js.Global().Call/Set are the "output stream"
	if d.tname == "wScreen" {
		eachInstr(fn, func(ins ssa.Instruction) {
			cc := callCommon(ins)
			if cc == nil {
				return
			}
			n := calleeName(cc)
			if n == "(syscall/js.Value).Call" {
				if len(cc.Args) >= 2 {
					if s, ok := constString(cc.Args[1]); ok && (s == "drawCell" || s == "clearScreen" || s == "show" || s == "resize") {
						out = append(out, lsAccess{"js-grid", true, ins})
					}
				}
			}
		})
	}
	return out
}

func (d *lockDomain) computeInitOnly() {
	// functions reachable from non-init roots
	reach := map[*ssa.Function]bool{}
	var walk func(f *ssa.Function)
	walk = func(f *ssa.Function) {
		if reach[f] {
			return
		}
		reach[f] = true
		for _, c := range d.summaries[f].calls {
			walk(c.callee)
		}
		for _, a := range f.AnonFuncs {
			if d.inDom[a] {
				walk(a)
			}
		}
	}
	for f := range d.roots {
		walk(f)
	}
	for _, f := range d.fns {
		if !reach[f] {
			d.initOnly[f] = true
		}
	}
}

func selfSynchronised(t types.Type) bool {
	switch typeName(t) {
	case "sync.Mutex", "sync.RWMutex", "sync.Once", "sync.WaitGroup":
		return true
	}
	return false
}

// classify derives the protection class of every field of the domain type.
func (d *lockDomain) classify() {
	named := d.p.namedType(d.pkg, d.tname)
	if named == nil {
		return
	}
	st := named.Underlying().(*types.Struct)
	// which go-root reaches which function
	goReach := map[*ssa.Function]map[*ssa.Function]bool{}
	for r, k := range d.roots {
		seen := map[*ssa.Function]bool{}
		var walk func(f *ssa.Function)
		walk = func(f *ssa.Function) {
			if seen[f] {
				return
			}
			seen[f] = true
			for _, c := range d.summaries[f].calls {
				walk(c.callee)
			}
			for _, a := range f.AnonFuncs {
				if d.inDom[a] {
					walk(a)
				}
			}
		}
		walk(r)
		_ = k
		goReach[r] = seen
	}
	fields := map[string]types.Type{}
	for i := 0; i < st.NumFields(); i++ {
		fields[canonField(d.owner, st.Field(i).Name())] = st.Field(i).Type()
	}
	pseudo := map[string]bool{}
	for _, fn := range d.fns {
		for _, a := range d.accesses[fn] {
			if _, ok := fields[a.field]; !ok {
				pseudo[a.field] = true
			}
		}
	}
	for name, t := range fields {
		if selfSynchronised(t) {
			d.class[name] = "self-synchronised"
			continue
		}
		writesOutsideInit := 0
		var accFns []*ssa.Function
		for _, fn := range d.fns {
			for _, a := range d.accesses[fn] {
				if a.field != name {
					continue
				}
				if d.initOnly[fn] {
					continue
				}
				accFns = append(accFns, fn)
				if a.write {
					writesOutsideInit++
				}
			}
		}
		if writesOutsideInit == 0 {
			d.class[name] = "init-frozen"
			continue
		}
		// goroutine-confined: all accessors reachable from exactly one go root and no other root
		confined := ""
		ok := true
		for _, f := range accFns {
			var from []*ssa.Function
			for r, seen := range goReach {
				if seen[f] {
					from = append(from, r)
				}
			}
			if len(from) != 1 || d.roots[from[0]] != "go" {
				ok = false
				break
			}
			if confined == "" {
				confined = from[0].Name()
			} else if confined != from[0].Name() {
				ok = false
				break
			}
		}
		if ok && confined != "" {
			d.class[name] = "confined:" + confined
			continue
		}
		d.class[name] = "guarded"
	}
	for name := range pseudo {
		d.class[name] = "guarded"
	}
}

// propagate computes needs-lock summaries to a fixpoint.
func (d *lockDomain) propagate() {
	for _, fn := range d.fns {
		if d.initOnly[fn] {
			continue
		}
		sum := d.summaries[fn]
		for _, a := range d.accesses[fn] {
			if d.class[a.field] != "guarded" {
				continue
			}
			st, ok := d.stateAt[a.instr]
			if !ok {
				continue
			}
			if st == lsEntry {
				if _, dup := sum.needs[a.field]; !dup {
					sum.needs[a.field] = a.instr
					sum.needsVia[a.field] = fn.Name()
				}
			}
		}
	}
	changed := true
	for changed {
		changed = false
		for _, fn := range d.fns {
			if d.initOnly[fn] {
				continue
			}
			sum := d.summaries[fn]
			for _, c := range sum.calls {
				if c.state != lsEntry {
					continue
				}
				cs := d.summaries[c.callee]
				for f, w := range cs.needs {
					if _, ok := sum.needs[f]; !ok {
						sum.needs[f] = w
						sum.needsVia[f] = fn.Name() + "→" + cs.needsVia[f]
						changed = true
					}
				}
			}
		}
	}
}

type lockFinding struct {
	rule, construct, pos, detail string
}

// report emits R1 (unlocked access), R3 (leak/double acquisition), blocking-while-held.
func (d *lockDomain) report() (findings []lockFinding, nAccess int, nFns int) {
	short := func(f *ssa.Function) string { return f.RelString(d.pkg.Pkg) }
	add := func(rule, construct string, at ssa.Instruction, detail string) {
		findings = append(findings, lockFinding{rule, construct, d.p.pos(at.Pos()), detail})
	}
	for _, fn := range d.fns {
		if d.initOnly[fn] {
			continue
		}
		nFns++
		sum := d.summaries[fn]
		// direct accesses after an explicit release
		for _, a := range d.accesses[fn] {
			if d.class[a.field] != "guarded" {
				continue
			}
			nAccess++
			if st, ok := d.stateAt[a.instr]; ok && st == lsReleased {
				add("R1", short(fn)+"→"+a.field, a.instr, "access to guarded field "+a.field+" after the mutex was released in "+short(fn))
			}
		}
		for _, c := range sum.calls {
			cs := d.summaries[c.callee]
			if c.state == lsReleased {
				for _, f := range sortedKeys(cs.needs) {
					add("R1", short(fn)+"→"+f, c.instr, fmt.Sprintf("call of %s after the mutex was released; it reaches guarded %s via %s (%s)", short(c.callee), f, cs.needsVia[f], d.p.pos(cs.needs[f].Pos())))
				}
			}
			if c.state == lsHeld && cs.locksAtEntry != nil && c.kind != "go" {
				add("R3", short(fn)+"→"+short(c.callee)+":double-lock", c.instr, "call with the mutex held of a function that acquires it")
			} else if c.state == lsHeld && c.kind != "go" {
				// … or of one that hands the state it was entered in on to a function that acquires it
				// (`SetSize` holding the lock calls `HideCursor`, which calls `ShowCursor`)
				if via := d.locksViaEntry(c.callee, map[*ssa.Function]bool{}); via != "" {
					add("R3", short(fn)+"→"+short(c.callee)+":double-lock", c.instr, "call with the mutex held of a function that reaches, without releasing it, "+via+", which acquires it")
				}
			}
		}
		for _, m := range sum.mixed {
			add("R3", short(fn)+":lock-state-differs-at-join", m, "the mutex is held along one way into this point and not along another")
		}
		for _, r := range sum.leaks {
			add("R3", short(fn)+":lock-leak", r, "returns with the mutex still held (no deferred Unlock on this path)")
		}
		if kind, isRoot := d.roots[fn]; isRoot {
			for _, f := range sortedKeys(sum.needs) {
				add("R1", short(fn)+"→"+f, sum.needs[f], fmt.Sprintf("%s root %s reaches guarded %s without the mutex via %s", kind, short(fn), f, sum.needsVia[f]))
			}
		}
	}
	sort.Slice(findings, func(i, j int) bool {
		if findings[i].construct != findings[j].construct {
			return findings[i].construct < findings[j].construct
		}
		return findings[i].pos < findings[j].pos
	})
	// dedupe by construct
	var out []lockFinding
	seen := map[string]bool{}
	for _, f := range findings {
		k := f.rule + f.construct
		if seen[k] {
			continue
		}
		seen[k] = true
		out = append(out, f)
	}
	return out, nAccess, nFns
}

// callableMethods returns the method names reachable by an application, or
// nil when every exported method is (the concrete type escapes as itself).
func (d *lockDomain) callableMethods() map[string]bool {
	named := d.p.namedType(d.pkg, d.tname)
	if named == nil {
		return nil
	}
	ptr := types.NewPointer(named)
	scope := d.pkg.Pkg.Scope()
	var impl *types.Interface
	for _, n := range scope.Names() {
		tn, ok := scope.Lookup(n).(*types.TypeName)
		if !ok {
			continue
		}
		it, ok := tn.Type().Underlying().(*types.Interface)
		if !ok || it.NumMethods() < 10 {
			continue
		}
		if tn.Name() == "screenImpl" {
			impl = it
			continue
		}
		if tn.Exported() && tn.Name() != "Screen" && types.Implements(ptr, it) {
			// e.g. SimulationScreen: the value is handed out directly
			return nil
		}
	}
	if d.tname == "baseScreen" || impl == nil {
		return nil
	}
	out := map[string]bool{}
	for i := 0; i < impl.NumMethods(); i++ {
		out[impl.Method(i).Name()] = true
	}
	return out
}

// locksViaEntry: f, entered with the mutex in the state the caller has it in, calls (in that same entry
// state) a function that acquires the mutex at its entry; the name of that function, or "".
func (d *lockDomain) locksViaEntry(f *ssa.Function, seen map[*ssa.Function]bool) string {
	if f == nil || seen[f] {
		return ""
	}
	seen[f] = true
	sum := d.summaries[f]
	if sum == nil {
		return ""
	}
	for _, c := range sum.calls {
		if c.state != lsEntry || c.kind == "go" {
			continue
		}
		cs := d.summaries[c.callee]
		if cs == nil {
			continue
		}
		if cs.locksAtEntry != nil {
			return c.callee.Name()
		}
		if via := d.locksViaEntry(c.callee, seen); via != "" {
			return via
		}
	}
	return ""
}

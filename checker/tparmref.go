package main

import (
	"fmt"
	"strconv"
	"strings"
)

// T2 — reference parser/interpreter for terminfo(5) parameterised strings.
// Written from the terminfo(5) manual page; it interprets string CONSTANTS
// found in /repo's source, never tcell code.

type tpKind int

const (
	tpLit    tpKind = iota // literal byte
	tpPct                  // %%
	tpFmt                  // %[[:]flags][width[.prec]][doxXs] and %d %s
	tpChr                  // %c
	tpParam                // %p1..%p9
	tpSetVar               // %P[a-zA-Z]
	tpGetVar               // %g[a-zA-Z]
	tpCharC                // %'c'
	tpIntC                 // %{nn}
	tpStrlen               // %l
	tpBin                  // %+ %- %* %/ %m %& %| %^ %= %> %< %A %O
	tpUn                   // %! %~
	tpInc                  // %i
	tpCond                 // %? … %;
)

type tpNode struct {
	kind tpKind
	b    byte   // literal byte, operator, variable name, char const
	n    int    // param index (1-9), int const
	fmt  string // printf format incl. leading % and conversion
	// conditional: arms[i] = (cond, body); els = final else part (may be nil)
	arms [][2][]*tpNode
	els  []*tpNode
}

type tpProgram struct {
	src      string
	nodes    []*tpNode
	ops      map[string]bool // operator spellings used, e.g. "%d" "%p" "%+" "%?"
	maxParam int
	depth    int // conditional nesting depth
	usesStr  bool
}

type tpParser struct {
	s   string
	i   int
	prg *tpProgram
}

// parseTparm parses s; an error means the string is not a well-formed terminfo(5) program.
func parseTparm(s string) (*tpProgram, error) {
	p := &tpParser{s: s, prg: &tpProgram{src: s, ops: map[string]bool{}}}
	nodes, term, err := p.seq(0)
	if err != nil {
		return nil, err
	}
	if term != "" {
		return nil, fmt.Errorf("unbalanced %%%s at offset %d", term, p.i)
	}
	p.prg.nodes = nodes
	return p.prg, nil
}

// seq parses items until end of input or one of %t %e %; (returned as term, consumed).
func (p *tpParser) seq(depth int) ([]*tpNode, string, error) {
	var out []*tpNode
	for p.i < len(p.s) {
		c := p.s[p.i]
		if c != '%' {
			out = append(out, &tpNode{kind: tpLit, b: c})
			p.i++
			continue
		}
		p.i++
		if p.i >= len(p.s) {
			return nil, "", fmt.Errorf("dangling %% at end")
		}
		c = p.s[p.i]
		p.i++
		switch c {
		case '%':
			p.prg.ops["%%"] = true
			out = append(out, &tpNode{kind: tpPct})
		case 'c':
			p.prg.ops["%c"] = true
			out = append(out, &tpNode{kind: tpChr})
		case 'd', 's', 'o', 'x', 'X':
			p.prg.ops["%"+string(c)] = true
			if c == 's' {
				p.prg.usesStr = true
			}
			out = append(out, &tpNode{kind: tpFmt, fmt: "%" + string(c)})
		case ':', '#', ' ', '.', '0', '1', '2', '3', '4', '5', '6', '7', '8', '9':
			// %[[:]flags][width[.precision]][doxXs]
			f := "%"
			j := p.i - 1
			if p.s[j] == ':' {
				j++
			}
			for j < len(p.s) && strings.IndexByte("-+# ", p.s[j]) >= 0 {
				f += string(p.s[j])
				j++
			}
			for j < len(p.s) && p.s[j] >= '0' && p.s[j] <= '9' {
				f += string(p.s[j])
				j++
			}
			if j < len(p.s) && p.s[j] == '.' {
				f += "."
				j++
				for j < len(p.s) && p.s[j] >= '0' && p.s[j] <= '9' {
					f += string(p.s[j])
					j++
				}
			}
			if j >= len(p.s) || strings.IndexByte("doxXs", p.s[j]) < 0 {
				return nil, "", fmt.Errorf("bad format specification at offset %d", p.i-2)
			}
			f += string(p.s[j])
			if p.s[j] == 's' {
				p.prg.usesStr = true
			}
			p.i = j + 1
			p.prg.ops["%fmt"] = true
			out = append(out, &tpNode{kind: tpFmt, fmt: f})
		case 'p':
			if p.i >= len(p.s) || p.s[p.i] < '1' || p.s[p.i] > '9' {
				return nil, "", fmt.Errorf("%%p not followed by 1-9 at offset %d", p.i)
			}
			n := int(p.s[p.i] - '0')
			p.i++
			if n > p.prg.maxParam {
				p.prg.maxParam = n
			}
			p.prg.ops["%p"] = true
			out = append(out, &tpNode{kind: tpParam, n: n})
		case 'P', 'g':
			if p.i >= len(p.s) || !((p.s[p.i] >= 'a' && p.s[p.i] <= 'z') || (p.s[p.i] >= 'A' && p.s[p.i] <= 'Z')) {
				return nil, "", fmt.Errorf("%%%c not followed by a variable letter", c)
			}
			k := tpSetVar
			if c == 'g' {
				k = tpGetVar
			}
			p.prg.ops["%"+string(c)] = true
			out = append(out, &tpNode{kind: k, b: p.s[p.i]})
			p.i++
		case '\'':
			if p.i+1 >= len(p.s) || p.s[p.i+1] != '\'' {
				return nil, "", fmt.Errorf("unterminated character constant at offset %d", p.i)
			}
			p.prg.ops["%'"] = true
			out = append(out, &tpNode{kind: tpCharC, b: p.s[p.i]})
			p.i += 2
		case '{':
			j := p.i
			for j < len(p.s) && p.s[j] >= '0' && p.s[j] <= '9' {
				j++
			}
			if j == p.i || j >= len(p.s) || p.s[j] != '}' {
				return nil, "", fmt.Errorf("malformed integer constant at offset %d", p.i)
			}
			n, _ := strconv.Atoi(p.s[p.i:j])
			p.i = j + 1
			p.prg.ops["%{"] = true
			out = append(out, &tpNode{kind: tpIntC, n: n})
		case 'l':
			p.prg.ops["%l"] = true
			out = append(out, &tpNode{kind: tpStrlen})
		case '+', '-', '*', '/', 'm', '&', '|', '^', '=', '>', '<', 'A', 'O':
			p.prg.ops["%"+string(c)] = true
			out = append(out, &tpNode{kind: tpBin, b: c})
		case '!', '~':
			p.prg.ops["%"+string(c)] = true
			out = append(out, &tpNode{kind: tpUn, b: c})
		case 'i':
			p.prg.ops["%i"] = true
			out = append(out, &tpNode{kind: tpInc})
		case '?':
			p.prg.ops["%?"] = true
			if depth+1 > p.prg.depth {
				p.prg.depth = depth + 1
			}
			node := &tpNode{kind: tpCond}
			cond, term, err := p.seq(depth + 1)
			if err != nil {
				return nil, "", err
			}
			if term != "t" {
				return nil, "", fmt.Errorf("%%? without %%t")
			}
			for {
				body, term, err := p.seq(depth + 1)
				if err != nil {
					return nil, "", err
				}
				node.arms = append(node.arms, [2][]*tpNode{cond, body})
				if term == ";" {
					break
				}
				if term != "e" {
					return nil, "", fmt.Errorf("conditional not closed by %%;")
				}
				// else part: either a plain else, or `cond %t body` (else-if)
				part, term2, err := p.seq(depth + 1)
				if err != nil {
					return nil, "", err
				}
				if term2 == ";" {
					node.els = part
					break
				}
				if term2 == "t" {
					cond = part
					continue
				}
				return nil, "", fmt.Errorf("conditional: %%e followed by %%e")
			}
			out = append(out, node)
		case 't', 'e', ';':
			if depth == 0 {
				return nil, "", fmt.Errorf("%%%c outside a conditional at offset %d", c, p.i-2)
			}
			p.prg.ops["%"+string(c)] = true
			return out, string(c), nil
		default:
			return nil, "", fmt.Errorf("unknown operator %%%c at offset %d", c, p.i-2)
		}
	}
	if depth > 0 {
		return nil, "", fmt.Errorf("conditional not closed by %%;")
	}
	return out, "", nil
}

// tpVal is a stack value: int or string.
type tpVal struct {
	isStr bool
	i     int
	s     string
}

func (v tpVal) Int() int {
	if v.isStr {
		n, _ := strconv.Atoi(v.s)
		return n
	}
	return v.i
}

func (v tpVal) Str() string {
	if v.isStr {
		return v.s
	}
	return strconv.Itoa(v.i)
}

type tpMachine struct {
	params [9]tpVal
	dvars  [26]tpVal
	svars  *[26]tpVal
	stk    []tpVal
	out    []byte
	under  bool // stack underflow happened
}

func (m *tpMachine) push(v tpVal) { m.stk = append(m.stk, v) }
func (m *tpMachine) pop() tpVal {
	if len(m.stk) == 0 {
		m.under = true
		return tpVal{}
	}
	v := m.stk[len(m.stk)-1]
	m.stk = m.stk[:len(m.stk)-1]
	return v
}

func b2i(b bool) int {
	if b {
		return 1
	}
	return 0
}

func (m *tpMachine) run(nodes []*tpNode) {
	for _, n := range nodes {
		switch n.kind {
		case tpLit:
			m.out = append(m.out, n.b)
		case tpPct:
			m.out = append(m.out, '%')
		case tpFmt:
			conv := n.fmt[len(n.fmt)-1]
			if conv == 's' {
				m.out = append(m.out, fmt.Sprintf(n.fmt, m.pop().Str())...)
			} else {
				m.out = append(m.out, fmt.Sprintf(n.fmt, m.pop().Int())...)
			}
		case tpChr:
			m.out = append(m.out, byte(m.pop().Int()))
		case tpParam:
			m.push(m.params[n.n-1])
		case tpSetVar:
			if n.b >= 'a' {
				m.dvars[n.b-'a'] = m.pop()
			} else {
				m.svars[n.b-'A'] = m.pop()
			}
		case tpGetVar:
			if n.b >= 'a' {
				m.push(m.dvars[n.b-'a'])
			} else {
				m.push(m.svars[n.b-'A'])
			}
		case tpCharC:
			m.push(tpVal{i: int(n.b)})
		case tpIntC:
			m.push(tpVal{i: n.n})
		case tpStrlen:
			m.push(tpVal{i: len(m.pop().Str())})
		case tpBin:
			y := m.pop().Int()
			x := m.pop().Int()
			var r int
			switch n.b {
			case '+':
				r = x + y
			case '-':
				r = x - y
			case '*':
				r = x * y
			case '/':
				if y != 0 {
					r = x / y
				}
			case 'm':
				if y != 0 {
					r = x % y
				}
			case '&':
				r = x & y
			case '|':
				r = x | y
			case '^':
				r = x ^ y
			case '=':
				r = b2i(x == y)
			case '>':
				r = b2i(x > y)
			case '<':
				r = b2i(x < y)
			case 'A':
				r = b2i(x != 0 && y != 0)
			case 'O':
				r = b2i(x != 0 || y != 0)
			}
			m.push(tpVal{i: r})
		case tpUn:
			x := m.pop().Int()
			if n.b == '!' {
				m.push(tpVal{i: b2i(x == 0)})
			} else {
				m.push(tpVal{i: ^x})
			}
		case tpInc:
			for k := 0; k < 2; k++ {
				if !m.params[k].isStr {
					m.params[k].i++
				}
			}
		case tpCond:
			done := false
			for _, arm := range n.arms {
				m.run(arm[0])
				if m.pop().Int() != 0 {
					m.run(arm[1])
					done = true
					break
				}
			}
			if !done && n.els != nil {
				m.run(n.els)
			}
		}
	}
}

var refStatics [26]tpVal

// evalTparm evaluates a parsed program with integer/string parameters.
func evalTparm(prg *tpProgram, params ...interface{}) (string, bool) {
	m := &tpMachine{svars: &refStatics}
	for i, p := range params {
		if i >= 9 {
			break
		}
		switch v := p.(type) {
		case int:
			m.params[i] = tpVal{i: v}
		case string:
			m.params[i] = tpVal{isStr: true, s: v}
		}
	}
	m.run(prg.nodes)
	return string(m.out), !m.under
}

// stripPadding removes well-formed $<n[.m][*][/]> padding specifications.
func stripPadding(s string) string {
	var out strings.Builder
	for {
		i := strings.Index(s, "$<")
		if i < 0 {
			out.WriteString(s)
			return out.String()
		}
		j := strings.IndexByte(s[i:], '>')
		if j < 0 {
			out.WriteString(s)
			return out.String()
		}
		body := s[i+2 : i+j]
		ok := len(body) > 0
		k := 0
		for k < len(body) && body[k] >= '0' && body[k] <= '9' {
			k++
		}
		if k == 0 {
			ok = false
		}
		if k < len(body) && body[k] == '.' {
			k++
			for k < len(body) && body[k] >= '0' && body[k] <= '9' {
				k++
			}
		}
		for k < len(body) && (body[k] == '*' || body[k] == '/') {
			k++
		}
		if k != len(body) {
			ok = false
		}
		out.WriteString(s[:i])
		if !ok {
			out.WriteString(s[i : i+j+1])
		}
		s = s[i+j+1:]
	}
}

func tpSelfTest() error {
	type tc struct {
		s    string
		p    []interface{}
		want string
	}
	cases := []tc{
		{"\x1b[%i%p1%d;%p2%dH", []interface{}{4, 9}, "\x1b[5;10H"},
		{"%?%p1%{8}%<%t3%p1%d%e%p1%{16}%<%t9%p1%{8}%-%d%e38;5;%p1%d%;m", []interface{}{3}, "33m"},
		{"%?%p1%{8}%<%t3%p1%d%e%p1%{16}%<%t9%p1%{8}%-%d%e38;5;%p1%d%;m", []interface{}{12}, "94m"},
		{"%?%p1%{8}%<%t3%p1%d%e%p1%{16}%<%t9%p1%{8}%-%d%e38;5;%p1%d%;m", []interface{}{200}, "38;5;200m"},
		{"%?%p1%t%?%p2%tA%;B%eC%;", []interface{}{0, 1}, "C"},
		{"%?%p1%t%?%p2%tA%;B%eC%;", []interface{}{1, 1}, "AB"},
		{"%p1%p2%A%d", []interface{}{1, 1}, "1"},
		{"%p1%p2%-%d", []interface{}{7, 2}, "5"},
		{"%p1%:-4d|", []interface{}{7}, "7   |"},
		{"%p1%#x", []interface{}{255}, "0xff"},
		{"\x1bY%p1%' '%+%c%p2%' '%+%c", []interface{}{1, 2}, "\x1bY!\""},
		{"%p1%s-%p2%s", []interface{}{"a", "b"}, "a-b"},
		{"%p1%l%d", []interface{}{"abcd"}, "4"},
	}
	for _, c := range cases {
		prg, err := parseTparm(c.s)
		if err != nil {
			return fmt.Errorf("self-test parse %q: %v", c.s, err)
		}
		got, _ := evalTparm(prg, c.p...)
		if got != c.want {
			return fmt.Errorf("self-test eval %q %v = %q, want %q", c.s, c.p, got, c.want)
		}
	}
	for _, bad := range []string{"%?%p1%tA", "%p0", "%{12", "%'a", "%z", "%;", "abc%"} {
		if _, err := parseTparm(bad); err == nil {
			return fmt.Errorf("self-test: %q must not parse", bad)
		}
	}
	if stripPadding("a$<5>b$<10.5*/>c$<x>d$<3") != "abc$<x>d$<3" {
		return fmt.Errorf("self-test stripPadding: %q", stripPadding("a$<5>b$<10.5*/>c$<x>d$<3"))
	}
	return nil
}

package main

import (
	"fmt"
	"go/token"
	"go/types"
	"strings"

	"golang.org/x/tools/go/ssa"
)

func init() {
	register("C06", checkC06, "Liveness of shutdown decided structurally: for every WaitGroup.Wait that joins library goroutines (disengage; devTty/stdIoTty Stop) the set S of channels closed on every path (through every caller chain) before the wait is computed, and every blocking channel operation (send, blocking select, bare receive) reachable from the joined goroutine roots must have a receive alternative on a member of S — otherwise the goroutine can park forever and Fini/Suspend never return. Further: no join and no blocking channel operation while the screen mutex is held; Fini is a sync.Once around the only closer of the quit channel; the field tested to make the screen inert is really set on the shutdown path; PollEvent returns nil on the stop case. Tty Read/Write are external blocking calls governed by the documented Drain contract (listed, not decided). Scheduler fairness and timing are not decided.")
}

func checkC06(c *Ctx) {
	c.Rule("C06-R1", "every blocking channel operation reachable from a goroutine joined by WaitGroup.Wait has a receive case on a channel closed before the wait")
	c.Rule("C06-R2", "no WaitGroup.Wait and no blocking channel operation while the screen mutex is held")
	c.Rule("C06-R3", "Fini only runs finish through sync.Once; finish has no other caller; the quit channel has exactly one closer")
	c.Rule("C06-R4", "a field tested to make the screen inert is set on the shutdown path (a guard that is never written is dead)")
	c.Rule("C06-R5", "PollEvent/PostEventWait/ChannelEvents: every blocking operation has a StopQ alternative; PollEvent returns nil on it")
	c.Rule("C06-R9", "a finished screen stays finished: every close of a quit channel runs at most once (sync.Once, or behind a flag tested and set under the lock), and engage refuses to restart a screen whose fini flag is set")
	c.Expect("C06-R9", 3)
	c.Rule("C06-R12", "Screen calls after Fini do not panic: no channel of events is ever closed (PostEvent, PostEventWait and the resize path send on the queue; only the struct{} quit/stop channels are closed)")
	c.Expect("C06-R12", 1)
	c.Rule("C06-R14", "the simulation's Fini cannot be locked out: Show, Sync and SetSize wait for queue room holding the mutex, so Fini closes the quit channel (which ends that wait) before it asks for the mutex")
	c.Expect("C06-R14", 1)
	c.Rule("C06-R13", "input works again after Resume on both unix Tty implementations: Drain/Stop leave a read deadline of 'now' on the handle, and every successful return of Start comes after a fresh open of that handle or SetReadDeadline(zero time); likewise for the non-blocking mode Drain switches on")
	c.Expect("C06-R13", 4)
	c.Rule("C06-R11", "after Fini PollEvent returns nil even if events are still queued: the stop channel is tested alone before the select that also receives from the queue (two ready cases are chosen between at random)")
	c.Expect("C06-R11", 1)
	c.Rule("C06-R10", "no half-done state around the hand-over: a refused engage has stored nothing in the screen (a Resume turned down as 'already engaged' must not have replaced the stop channel the running loops listen to), and Fini marks the screen finished before its teardown releases the mutex")
	c.Expect("C06-R10", 2)
	c.Rule("C06-R8", "drawing cannot wedge a suspended screen: draw() returns at once unless the screen is running, and the column loop of every painter advances by at least one per cell (a width below 1, as reported for a cell outside the buffer, is raised to 1)")
	c.Expect("C06-R8", 2)
	c.Rule("C06-R7", "what the API methods dereference without a nil test stays in place after Fini: the Tty and Terminfo of a screen are stored (non-nil) by its constructor or Init only")
	c.Expect("C06-R7", 2)
	c.Rule("C06-R6", "what disengage dismantles, engage re-establishes on every successful path: the resize callback (NotifyResize with a function that pokes the queue the main loop reads), a fresh stop channel shared with both loops, and Tty.Start")
	c.Expect("C06-R6", 4)
	c.Expect("C06-R1", 6)
	c.Expect("C06-R2", 20)
	c.Expect("C06-R3", 3)
	c.Expect("C06-R4", 2)
	c.Expect("C06-R5", 4)
	c.Assume("Tty implementations honour the Drain contract: a blocked Read returns after Drain()")
	c.Assume("the Go scheduler is fair; closed channels are always ready")
	cfgs := []string{"linux"}
	if c.Tier == "thorough" {
		cfgs = append(cfgs, "darwin", "freebsd")
	}
	c.Rule("C06-R18", "resize delivery works again after Resume: the size last reported to the application (t.w, t.h) is stored only where the resize event is posted, so a window that changed while the terminal was handed back is noticed by the next resize()")
	c.Expect("C06-R18", 1)
	c.Rule("C06-R19", "the reader is told to stop before it is woken: close(stopQ) dominates the Drain in disengage (woken first, a reader that comes back empty-handed finds the stop channel open, reads again, and the wait for it never ends)")
	c.Expect("C06-R19", 1)
	c.Rule("C06-R20", "Suspend and Fini return while the user is idle: the Drain of the stdin Tty gets a read(2) already in progress to return by making the descriptor non-blocking (VMIN=0 only affects later reads), and Start makes it blocking again")
	c.Expect("C06-R20", 2)
	c.Rule("C06-R21", "further calls on a finished simulation do not panic: where the physical cell array is dropped, the bounds that index it (physw, physh) are reset with it")
	c.Expect("C06-R21", 1)
	c.Rule("C06-R22", "after Fini PollEvent returns nil at once, also where Init failed: every return of the simulation's Init follows the creation of its event and quit channels (or the constructor makes them)")
	c.Expect("C06-R22", 2)
	c.Rule("C06-R17", "Fini returns (does not panic) on a screen whose Init failed: what Init creates (the quit channel, a Tty it opens itself) is closed or called on the shutdown path only behind a non-nil test or the running flag, in the terminfo screen as in the simulation")
	c.Expect("C06-R17", 2)
	c.Rule("C06-R16", "the read deadline that gets the input loop out of a blocked Read keeps working: a Tty implementation that opens its own handle and wakes its reader with a deadline never calls Fd() on that handle (Fd switches the descriptor to blocking mode; Suspend and Fini would wait for the next key)")
	c.Expect("C06-R16", 1)
	c.Rule("C06-R15", "every way round a loop of inputLoop that contains the Tty read passes the test of the stop channel (a reader that returns empty-handed must not spin past it: Suspend and Fini would wait for ever)")
	c.Expect("C06-R15", 1)
	for _, cfg := range cfgs {
		p := c.P(cfg)
		if p == nil || p.Tcell == nil {
			c.Undecided("C06-R1", "package tcell", "-", "not loaded")
			continue
		}
		c.curCfg = cfg
		n := checkStopAware(c, p, p.Tcell, "C06-R1", func(owner string) bool { return strings.HasPrefix(owner, "tcell.") })
		if n < 3 {
			c.Undecided("C06-R1", "waits", "-", fmt.Sprintf("found %d WaitGroup.Wait sites on struct fields, expected 3 (disengage, devTty.Stop, stdIoTty.Stop)", n))
		}
		c06Locks(c, p)
		c06Once(c, p)
		checkQuitAlwaysClosed(c, p, "C06-R3")
		c06Guards(c, p)
		c06Poll(c, p, "C06-R5")
		c06Reengage(c, p)
		c06DrawProgress(c, p)
		c06FinishedStays(c, p)
		checkEventQueuesNeverClosed(c, p, "C06-R12")
		checkTtyRestart(c, p, "C06-R13")
		checkFiniNotLockedOut(c, p, "C06-R14", "simscreen")
		checkReadLoopPassesStop(c, p, "C06-R15")
		checkDeadlineHandleStaysPollable(c, p, "C06-R16")
		checkFiniSafeBeforeInit(c, p, "C06-R17", "tScreen")
		checkReportedSizeStoredWithEvent(c, p, "C06-R18", "tScreen")
		checkStopBeforeDrain(c, p, "C06-R19", "tScreen")
		checkDrainMakesDescriptorNonBlocking(c, p, "C06-R20")
		checkSimFiniResetsBounds(c, p, "C06-R21")
		checkSimInitMakesQueuesFirst(c, p, "C06-R22")
		c.Rule("C06-R23", "Fini stops the Tty and joins the loops whatever Drain reports: once the teardown has marked the screen as not running every way out passes Tty.Stop (= C04-R17)")
		c.Expect("C06-R23", 1)
		checkTeardownCompletes(c, p, "C06-R23")
		c.Rule("C06-R24", "further Screen calls do not panic after Fini, also on a screen whose Init found no terminal: outside the life-cycle functions (those calling Tty.Start/Stop/Close and the loops they start) every use of the screen's Tty is behind a non-nil test of it or the running flag (D57)")
		c.Expect("C06-R24", 3)
		checkTtyUsedBehindGuard(c, p, "C06-R24")
		checkFiniSafeBeforeInit(c, p, "C06-R17", "simscreen")
		for _, f := range []string{"tty", "ti"} {
			ws := []string{}
			for _, fn := range p.modFns {
				if fn.Pkg != p.Tcell {
					continue
				}
				for _, st := range storesTo(fn, "tcell.tScreen", f) {
					w := fn.Name()
					if isNilConst(st.Val) {
						w += "(nil)"
					}
					ws = append(ws, w)
				}
			}
			ok := len(ws) > 0
			for _, w := range ws {
				// the constructor, or Init's platform hook that opens the default tty
				if !(strings.HasPrefix(w, "New") || w == "initialize" || w == "Init") || strings.HasSuffix(w, "(nil)") {
					ok = false
				}
			}
			c.Check(ok, "C06-R7", "tScreen."+f+":set-by-constructor-only", "-", fmt.Sprintf("stores to t.%s: %v (methods such as Beep, SetSize, EnableMouse use it unconditionally, also after Fini)", f, ws))
		}
	}
}

// c06Reengage: Suspend then Resume must leave input and resize delivery
// working.  Each thing disengage tears down must be put back by engage on
// every path that reaches the point where the screen is marked running.
func c06Reengage(c *Ctx, p *Prog) {
	engage, disengage := p.Fn("tcell:(*tScreen).engage"), p.Fn("tcell:(*tScreen).disengage")
	if engage == nil || disengage == nil {
		c.Undecided("C06-R6", "engage/disengage", "-", "not found")
		return
	}
	ttyCalls := func(fn *ssa.Function, m string) []ssa.Instruction {
		return callsIn(fn, func(n string, cc *ssa.CallCommon) bool {
			return cc.IsInvoke() && typeName(cc.Value.Type()) == "tcell.Tty" && cc.Method.Name() == m
		})
	}
	// the point of no return in engage: the store running = true
	var runStore ssa.Instruction
	for _, st := range storesTo(engage, "tcell.tScreen", "running") {
		if b, ok := constBool(st.Val); ok && b {
			runStore = st
		}
	}
	if runStore == nil {
		c.Undecided("C06-R6", "engage:running", p.pos(engage.Pos()), "no store running = true")
		return
	}
	// (a) resize callback
	unreg := false
	for _, call := range ttyCalls(disengage, "NotifyResize") {
		if isNilConst(callCommon(call).Args[0]) {
			unreg = true
		}
	}
	if unreg {
		ok, detail := false, "engage never registers a resize callback"
		for _, call := range ttyCalls(engage, "NotifyResize") {
			arg := callCommon(call).Args[0]
			if isNilConst(arg) {
				continue
			}
			if !instrDominates(call, runStore) {
				detail = "NotifyResize(callback) does not dominate running = true"
				continue
			}
			// the callback pokes the queue mainLoop receives from
			var cb *ssa.Function
			if mc, isMC := arg.(*ssa.MakeClosure); isMC {
				cb, _ = mc.Fn.(*ssa.Function)
			} else if f, isF := arg.(*ssa.Function); isF {
				cb = f
			}
			// a method value (t.postResize) is a closure over a bound-method wrapper: look at the method
			if cb != nil && strings.Contains(cb.Synthetic, "bound") {
				if t := boundTarget(arg); t != nil {
					cb = t
				}
			}
			if cb == nil {
				detail = "callback is not a function literal"
				continue
			}
			sends := ""
			// the send may be in the callback or in a function it calls
			cbFns := []*ssa.Function{cb}
			eachInstr(cb, func(in ssa.Instruction) {
				if cc := callCommon(in); cc != nil {
					if callee := cc.StaticCallee(); callee != nil && callee.Pkg == p.Tcell && len(callee.Blocks) > 0 {
						cbFns = append(cbFns, callee)
					}
				}
			})
			for _, cbf := range cbFns {
				eachInstr(cbf, func(in ssa.Instruction) {
					switch x := in.(type) {
					case *ssa.Send:
						sends = chanName(x.Chan, nil, 0)
					case *ssa.Select:
						for _, st := range x.States {
							if st.Dir == types.SendOnly {
								sends = chanName(st.Chan, nil, 0)
							}
						}
					}
				})
			}
			recv := false
			if ml := p.Fn("tcell:(*tScreen).mainLoop"); ml != nil {
				eachInstr(ml, func(in ssa.Instruction) {
					if sel, isSel := in.(*ssa.Select); isSel {
						for _, st := range sel.States {
							if st.Dir == types.RecvOnly && chanName(st.Chan, nil, 0) == sends && sends != "" {
								recv = true
							}
						}
					}
				})
			}
			if sends != "" && recv {
				ok, detail = true, "NotifyResize(callback sending on "+sends+", which mainLoop receives) dominates running = true"
			} else {
				detail = "the callback does not send on a channel the main loop receives from (sends on " + sends + ")"
			}
		}
		c.Check(ok, "C06-R6", "engage:registers-resize-callback", p.pos(engage.Pos()), detail)
	} else {
		c.Trivial("C06-R6", "engage:registers-resize-callback", p.pos(disengage.Pos()), "disengage does not unregister the callback")
	}
	// (b) fresh stop channel stored and handed to both loops
	var mk ssa.Value
	for _, st := range storesTo(engage, "tcell.tScreen", "stopQ") {
		if _, ok := st.Val.(*ssa.MakeChan); ok {
			mk = st.Val
		}
	}
	c.Check(mk != nil, "C06-R6", "engage:fresh-stop-channel", p.pos(engage.Pos()), "t.stopQ = make(chan …) (disengage closes the old one)")
	nGo, okGo := 0, true
	eachInstr(engage, func(in ssa.Instruction) {
		g, ok := in.(*ssa.Go)
		if !ok {
			return
		}
		nGo++
		has := false
		for _, a := range g.Call.Args {
			if a == mk {
				has = true
			}
		}
		if !has {
			okGo = false
		}
	})
	c.Check(mk != nil && nGo >= 2 && okGo, "C06-R6", "engage:loops-get-the-new-stop-channel", p.pos(engage.Pos()), fmt.Sprintf("%d goroutines started, each with the channel stored in t.stopQ", nGo))
	// (c) Start
	okStart := false
	for _, call := range ttyCalls(engage, "Start") {
		if instrDominates(call, runStore) {
			okStart = true
		}
	}
	c.Check(okStart && len(ttyCalls(disengage, "Stop")) == 1, "C06-R6", "engage:tty-start", p.pos(engage.Pos()), "Tty.Start dominates running = true; disengage stops it once")
}

func c06Locks(c *Ctx, p *Prog) {
	c06LocksOf(c, p, "tScreen")
	// the Tty implementations have a mutex of their own, shared with the goroutine their Stop joins
	for _, t := range []string{"devTty", "stdIoTty"} {
		if p.namedType(p.Tcell, t) != nil {
			c06LocksOf(c, p, t)
		}
	}
}

func c06LocksOf(c *Ctx, p *Prog, tname string) {
	d := newLockDomain(p, p.Tcell, tname)
	d.analyse()
	// transitive blocking summary: functions that contain a blocking channel op or Wait reachable at lsEntry
	blocks := map[*ssa.Function]ssa.Instruction{}
	for _, fn := range d.fns {
		eachInstr(fn, func(in ssa.Instruction) {
			if deadBlock(in.Block()) {
				return
			}
			st := d.stateAt[in]
			if st == lsReleased {
				return
			}
			switch x := in.(type) {
			case *ssa.Send:
				blocks[fn] = in
			case *ssa.Select:
				if x.Blocking {
					blocks[fn] = in
				}
			case *ssa.UnOp:
				if x.Op == token.ARROW {
					blocks[fn] = in
				}
			case *ssa.Call:
				if calleeName(&x.Call) == "(*sync.WaitGroup).Wait" {
					blocks[fn] = in
				}
			}
		})
	}
	changed := true
	for changed {
		changed = false
		for _, fn := range d.fns {
			if _, ok := blocks[fn]; ok {
				continue
			}
			for _, call := range d.summaries[fn].calls {
				if call.kind == "go" || call.state == lsReleased {
					continue
				}
				if w, ok := blocks[call.callee]; ok {
					blocks[fn] = w
					changed = true
					break
				}
			}
		}
	}
	for _, fn := range d.fns {
		short := fn.RelString(p.Tcell.Pkg)
		sum := d.summaries[fn]
		bad := false
		for _, m := range sum.mixed {
			bad = true
			c.Fail("C06-R2", short+":lock-state-differs-at-join", p.pos(m.Pos()), "the "+tname+" mutex is held along one way into this point and not along another: a loop that goes round (or a function that returns) holding it blocks the shutdown path for ever")
		}
		for _, b := range sum.blocking {
			bad = true
			c.Fail("C06-R2", short+":blocking-while-locked", p.pos(b.Pos()), "blocking operation with the "+tname+" mutex held: "+b.String())
		}
		for _, call := range sum.calls {
			if call.state == lsHeld && call.kind != "go" {
				if w, ok := blocks[call.callee]; ok {
					bad = true
					c.Fail("C06-R2", short+"→"+call.callee.Name()+":blocking-while-locked", p.pos(call.instr.Pos()), "call with the mutex held of a function that blocks on a channel / WaitGroup at "+p.pos(w.Pos()))
				}
			}
		}
		if !bad && fn.Parent() == nil {
			if sum.locksAtEntry != nil {
				c.OK("C06-R2", short+":blocking-while-locked", p.pos(fn.Pos()), "no blocking operation inside its critical sections")
			} else {
				c.Trivial("C06-R2", short+":blocking-while-locked", p.pos(fn.Pos()), "takes no lock")
			}
		}
	}
}

func c06Once(c *Ctx, p *Prog) {
	fini := p.Fn("tcell:(*tScreen).Fini")
	if fini == nil {
		c.Undecided("C06-R3", "(*tScreen).Fini", "-", "not found")
		return
	}
	var target *ssa.Function
	ncalls := 0
	eachInstr(fini, func(in ssa.Instruction) {
		cc := callCommon(in)
		if cc == nil {
			return
		}
		ncalls++
		if calleeName(cc) == "(*sync.Once).Do" && len(cc.Args) == 2 {
			target = boundTarget(cc.Args[1])
		}
	})
	c.Check(target != nil && ncalls == 1, "C06-R3", "Fini=Once.Do(finish)", p.pos(fini.Pos()), fmt.Sprintf("Fini makes %d calls; Once.Do target: %v", ncalls, target))
	if target == nil {
		return
	}
	// no other caller of the target
	others := []string{}
	for _, g := range p.modFns {
		eachInstr(g, func(in ssa.Instruction) {
			cc := callCommon(in)
			if cc != nil && staticCallee(cc) == target && !strings.Contains(g.Synthetic, "bound") {
				others = append(others, g.Name())
			}
		})
	}
	c.Check(len(others) == 0, "C06-R3", target.Name()+":only-through-once", p.pos(target.Pos()), fmt.Sprintf("direct callers: %v", others))
	// closers of tScreen.quit
	closers := []string{}
	for _, g := range p.modFns {
		if g.Pkg != p.Tcell {
			continue
		}
		eachInstr(g, func(in ssa.Instruction) {
			if cl, ok := in.(*ssa.Call); ok {
				if b, ok := cl.Call.Value.(*ssa.Builtin); ok && b.Name() == "close" {
					if chanName(cl.Call.Args[0], nil, 0) == "tcell.tScreen.quit" {
						closers = append(closers, g.Name())
					}
				}
			}
		})
	}
	c.Check(len(closers) == 1 && closers[0] == target.Name(), "C06-R3", "close(quit):single-site", p.pos(target.Pos()), fmt.Sprintf("closers of tScreen.quit: %v", closers))
}

// c06Guards: bool fields of tScreen that are tested in branch conditions must be written somewhere
// with a non-zero value; the inert flag must be set on the Fini path.
func c06Guards(c *Ctx, p *Prog) {
	named := p.namedType(p.Tcell, "tScreen")
	if named == nil {
		c.Undecided("C06-R4", "tScreen", "-", "type not found")
		return
	}
	st := named.Underlying().(*types.Struct)
	tested := map[string]ssa.Instruction{}
	setTrue := map[string][]*ssa.Function{}
	for _, g := range p.modFns {
		if g.Pkg != p.Tcell {
			continue
		}
		for _, a := range fieldAccesses(g) {
			if a.Field.Owner != "tcell.tScreen" {
				continue
			}
			if a.Write {
				if s, ok := a.Instr.(*ssa.Store); ok {
					if v, isc := constBool(s.Val); isc && !v {
						continue
					}
					setTrue[a.Field.Name] = append(setTrue[a.Field.Name], g)
				}
				continue
			}
			// is the loaded value used by an If (possibly through !)?
			if v, ok := a.Instr.(ssa.Value); ok {
				for _, r := range referrers(v) {
					if _, isIf := r.(*ssa.If); isIf {
						tested[a.Field.Name] = a.Instr
					}
					if u, ok := r.(*ssa.UnOp); ok && u.Op == token.NOT {
						for _, r2 := range referrers(u) {
							if _, isIf := r2.(*ssa.If); isIf {
								tested[a.Field.Name] = a.Instr
							}
						}
					}
				}
			}
		}
	}
	for i := 0; i < st.NumFields(); i++ {
		f := st.Field(i)
		if b, ok := f.Type().Underlying().(*types.Basic); !ok || b.Kind() != types.Bool {
			continue
		}
		at, isTested := tested[f.Name()]
		if !isTested {
			continue
		}
		c.Check(len(setTrue[f.Name()]) > 0, "C06-R4", "tScreen."+f.Name()+":guard-live", p.pos(at.Pos()), fmt.Sprintf("field is tested to gate behaviour; stores of a non-false value: %d", len(setTrue[f.Name()])))
	}
	// the field tested by Show/Sync before drawing must be set on the Fini chain
	show := p.Fn("tcell:(*tScreen).Show")
	fini := p.Fn("tcell:(*tScreen).Fini")
	if show == nil || fini == nil {
		c.Undecided("C06-R4", "Show/Fini", "-", "not found")
		return
	}
	// which bool field gates the draw call in Show?
	gate := ""
	for _, call := range callsIn(show, func(n string, _ *ssa.CallCommon) bool { return strings.HasSuffix(n, "tScreen).draw") }) {
		for _, g := range guardsAt(call.Block()) {
			if strings.HasPrefix(g.L, "t.") && (g.R == "false" || g.R == "true") {
				gate = strings.TrimPrefix(g.L, "t.")
			}
		}
	}
	if gate == "" {
		c.Fail("C06-R4", "Show:inert-gate", p.pos(show.Pos()), "Show draws without testing any shutdown flag: drawing after Fini walks a released cell buffer")
		return
	}
	// reachable from Fini (through Once.Do)
	reach := map[*ssa.Function]bool{}
	var walk func(f *ssa.Function)
	walk = func(f *ssa.Function) {
		if f == nil || reach[f] || f.Pkg != p.Tcell {
			return
		}
		reach[f] = true
		eachInstr(f, func(in ssa.Instruction) {
			cc := callCommon(in)
			if cc == nil {
				return
			}
			if g := staticCallee(cc); g != nil {
				walk(g)
			}
			if calleeName(cc) == "(*sync.Once).Do" && len(cc.Args) == 2 {
				walk(boundTarget(cc.Args[1]))
			}
		})
	}
	walk(fini)
	ok := false
	for _, g := range setTrue[gate] {
		if reach[g] {
			ok = true
		}
	}
	c.Check(ok, "C06-R4", "Fini sets tScreen."+gate, p.pos(fini.Pos()), "the flag that makes Show/Sync inert is stored true on the Fini path")
}

// selectCaseBlock returns the block executed when select chooses state idx.
func selectCaseBlock(sel *ssa.Select, idx int) *ssa.BasicBlock {
	for _, r := range referrers(sel) {
		ex, ok := r.(*ssa.Extract)
		if !ok || ex.Index != 0 {
			continue
		}
		for _, r2 := range referrers(ex) {
			bo, ok := r2.(*ssa.BinOp)
			if !ok || bo.Op != token.EQL {
				continue
			}
			k, ok := constInt(bo.Y)
			if !ok || int(k) != idx {
				continue
			}
			for _, r3 := range referrers(bo) {
				if iff, ok := r3.(*ssa.If); ok {
					return iff.Block().Succs[0]
				}
			}
		}
	}
	return nil
}

func c06Poll(c *Ctx, p *Prog, rule string) {
	for _, name := range []string{"PollEvent", "PostEventWait", "ChannelEvents"} {
		fn := p.Fn("tcell:(*baseScreen)." + name)
		if fn == nil {
			c.Undecided(rule, "(*baseScreen)."+name, "-", "not found")
			continue
		}
		nsel := 0
		// the function together with the helpers of the screen it calls (a select moved into
		// `forwardEvent` or `isStopped` is still part of it)
		var instrs []ssa.Instruction
		for _, d := range deepInstrs(p, fn, 1, func(_ ssa.Instruction, callee *ssa.Function) bool {
			return recvTypeName(callee) == "tcell.baseScreen"
		}) {
			instrs = append(instrs, d.in)
		}
		for _, in := range instrs {
			if deadBlock(in.Block()) {
				continue
			}
			inHelper := in.Parent() != fn
			switch x := in.(type) {
			case *ssa.Send:
				c.Fail(rule, name+":bare-send", p.pos(in.Pos()), "blocking send without a StopQ alternative")
			case *ssa.UnOp:
				if x.Op == token.ARROW {
					c.Fail(rule, name+":bare-recv", p.pos(in.Pos()), "blocking receive without a StopQ alternative")
				}
			case *ssa.Select:
				if !x.Blocking {
					continue
				}
				nsel++
				stopIdx := -1
				for i, st := range x.States {
					if st.Dir == types.RecvOnly && chanName(st.Chan, nil, 0) == "iface.StopQ()" {
						stopIdx = i
					}
				}
				key := fmt.Sprintf("%s:select#%d", name, nsel)
				if stopIdx < 0 {
					c.Fail(rule, key, p.pos(in.Pos()), "blocking select without a receive on StopQ()")
					continue
				}
				ok := true
				detail := "has a StopQ() case"
				if name == "PollEvent" && !inHelper {
					blk := selectCaseBlock(x, stopIdx)
					ok = false
					if blk != nil && len(blk.Instrs) > 0 {
						if r, isRet := blk.Instrs[len(blk.Instrs)-1].(*ssa.Return); isRet && len(r.Results) == 1 && isNilConst(r.Results[0]) {
							ok = true
							detail = "StopQ() case returns nil"
						}
					}
				}
				c.Check(ok, rule, key, p.pos(in.Pos()), detail)
			}
		}
		if nsel == 0 {
			c.Undecided(rule, name+":select", p.pos(fn.Pos()), "no blocking select found")
		}
		if name == "PollEvent" {
			// R11: a finished screen answers nil although events are still queued.  A select with two
			// ready cases picks one at random, so the stop channel has to be tested alone first: a
			// non-blocking select whose only state is the receive from StopQ(), returning nil when it
			// fires, dominates every blocking select of PollEvent.
			var first *ssa.Select
			eachInstr(fn, func(in ssa.Instruction) {
				if sel, ok := in.(*ssa.Select); ok && !sel.Blocking && len(sel.States) == 1 &&
					sel.States[0].Dir == types.RecvOnly && chanName(sel.States[0].Chan, nil, 0) == "iface.StopQ()" {
					if blk := selectCaseBlock(sel, 0); blk != nil && len(blk.Instrs) > 0 {
						if r, isRet := blk.Instrs[len(blk.Instrs)-1].(*ssa.Return); isRet && len(r.Results) == 1 && isNilConst(r.Results[0]) {
							first = sel
						}
					}
				}
			})
			// … or the same poll in a boolean helper (`if b.isStopped() { return nil }`)
			var firstI ssa.Instruction
			if first != nil {
				firstI = first
			} else {
				eachInstr(fn, func(in ssa.Instruction) {
					call, isCall := in.(*ssa.Call)
					if !isCall || firstI != nil {
						return
					}
					h := call.Call.StaticCallee()
					if h == nil || h.Pkg != fn.Pkg || !isStopPollHelper(h) {
						return
					}
					for _, r := range referrers(call) {
						if iff, isIf := r.(*ssa.If); isIf && iff.Cond == ssa.Value(call) {
							blk := iff.Block().Succs[0]
							if len(blk.Instrs) > 0 {
								if ret, isRet := blk.Instrs[len(blk.Instrs)-1].(*ssa.Return); isRet && len(ret.Results) == 1 && isNilConst(ret.Results[0]) {
									firstI = call
								}
							}
						}
					}
				})
			}
			ok := firstI != nil
			eachInstr(fn, func(in ssa.Instruction) {
				if sel, isSel := in.(*ssa.Select); isSel && sel.Blocking && (firstI == nil || !instrDominates(firstI, sel)) {
					ok = false
				}
			})
			c.Check(ok, "C06-R11", "PollEvent:stop-has-priority", p.pos(fn.Pos()), "the stop channel is polled on its own (nil if closed) before the select that also receives events")
		}
	}
}

// c06DrawProgress: Suspend empties the cell buffer but the painter still loops
// over the remembered size; a cell outside the buffer reports width 0, and a
// loop that advances by the width never ends - with the screen mutex held, so
// that Resume and Fini block behind it.
func c06DrawProgress(c *Ctx, p *Prog) {
	draw := p.Fn("tcell:(*tScreen).draw")
	if draw == nil {
		c.Undecided("C06-R8", "(*tScreen).draw", "-", "not found")
		return
	}
	// (a) gated on running: every call and store in draw is dominated by the true edge of t.running
	gated := true
	where := ""
	eachInstr(draw, func(in ssa.Instruction) {
		_, isCall := in.(*ssa.Call)
		st, isStore := in.(*ssa.Store)
		if !isCall && !isStore {
			return
		}
		if isStore {
			if _, local := st.Addr.(*ssa.Alloc); local {
				return // spilling a parameter into its heap cell
			}
		}
		ok := false
		for _, a := range guardsAt(in.Block()) {
			if a.L == "t.running" && ((a.Op == "==" && a.R == "true") || (a.Op == "!=" && a.R == "false")) {
				ok = true
			}
		}
		if !ok && gated {
			gated = false
			where = p.pos(in.Pos())
		}
	})
	if !gated {
		// … or the test is made by every caller instead (`if !t.fini && t.running { t.resize(); t.draw() }`)
		running := func(b *ssa.BasicBlock) bool {
			for _, a := range guardsAt(b) {
				if a.L == "t.running" && ((a.Op == "==" && a.R == "true") || (a.Op == "!=" && a.R == "false")) {
					return true
				}
			}
			return false
		}
		nCall, all, first := 0, true, ""
		for _, f := range p.modFns {
			if f.Pkg != p.Tcell {
				continue
			}
			eachInstr(f, func(in ssa.Instruction) {
				if cc := callCommon(in); cc != nil && cc.StaticCallee() == draw {
					nCall++
					if !running(in.Block()) {
						all = false
						if first == "" {
							first = "; the caller at " + p.pos(in.Pos()) + " (" + f.Name() + ") does not test it either"
						}
					}
				}
			})
		}
		if nCall > 0 && all {
			gated = true
		} else {
			where += first
		}
	}
	c.Check(gated, "C06-R8", "draw:only-while-running", p.pos(draw.Pos()), "draw() does nothing unless t.running "+where)
	// (b) the column loop advances by at least one cell per iteration, however the step is written
	// (x += width-1 with x++, x += width, a floor applied to the width first or in the step …): a
	// lower bound of (next x) - x over every way round the loop
	okStep, detail := false, "column loop not recognised"
	// (the loop is in draw, or in the helper that paints one row for it)
	var dcCalls []ssa.Instruction
	for _, d := range deepInstrs(p, draw, 2, func(_ ssa.Instruction, callee *ssa.Function) bool { return callee.Name() != "drawCell" }) {
		if cc := callCommon(d.in); cc != nil && strings.HasSuffix(calleeName(cc), "tScreen).drawCell") {
			dcCalls = append(dcCalls, d.in)
		}
	}
	for _, call := range dcCalls {
		for h, body := range loopsOf(call.Parent()) {
			if !body[call.Block()] {
				continue
			}
			for _, in := range h.Instrs {
				phi, isPhi := in.(*ssa.Phi)
				if !isPhi || callCommon(call).Args[1] != ssa.Value(phi) {
					continue
				}
				lb, okLB := loopStepLowerBound(phi, h, body)
				switch {
				case !okLB:
					detail = "the step of the column index could not be bounded"
				case lb >= 1:
					okStep, detail = true, fmt.Sprintf("the column index grows by at least %d on every way round the loop (a width below 1 is raised first)", lb)
				default:
					detail = fmt.Sprintf("the column index may advance by %d: a cell that reports width 0 (outside the buffer) is never left", lb)
				}
			}
		}
	}
	c.Check(okStep, "C06-R8", "draw:column-loop-advances", p.pos(draw.Pos()), detail)
}

// c06FinishedStays: a second Fini must be a no-op (closing a closed channel
// panics), and nothing may bring a finished screen back to life.
func c06FinishedStays(c *Ctx, p *Prog) {
	// every close(x.quit) in the package
	for _, g := range p.modFns {
		if g.Pkg != p.Tcell {
			continue
		}
		eachInstr(g, func(in ssa.Instruction) {
			cl, ok := in.(*ssa.Call)
			if !ok {
				return
			}
			b, ok := cl.Call.Value.(*ssa.Builtin)
			if !ok || b.Name() != "close" {
				return
			}
			cn := chanName(cl.Call.Args[0], nil, 0)
			if !strings.HasSuffix(cn, ".quit") {
				return
			}
			key := "close(" + strings.TrimPrefix(cn, "tcell.") + "):once"
			// (a) inside a function that only runs through sync.Once
			top := topFunc(g)
			once := false
			for _, h := range p.modFns {
				if h.Pkg != p.Tcell {
					continue
				}
				eachInstr(h, func(in2 ssa.Instruction) {
					cc := callCommon(in2)
					if cc != nil && calleeName(cc) == "(*sync.Once).Do" && len(cc.Args) == 2 {
						if t := boundTarget(cc.Args[1]); t == g || t == top {
							once = true
						}
					}
				})
			}
			// (b) behind a flag of the same struct that was loaded before it is set true in this function
			flag := false
			for _, gd := range rawGuardsAt(in.Block()) {
				var ld *ssa.UnOp
				pos := gd.Positive
				switch x := gd.Cond.(type) {
				case *ssa.UnOp:
					if x.Op == token.NOT {
						if l, ok := x.X.(*ssa.UnOp); ok {
							ld, pos = l, !pos
						}
					} else if x.Op == token.MUL {
						ld = x
					}
				}
				if ld == nil || pos {
					continue // need: flag was false
				}
				if ref, _, ok := fieldAddrRef(ld.X); ok {
					for _, st := range storesTo(g, ref.Owner, ref.Name) {
						if v, isB := constBool(st.Val); isB && v && instrDominates(ld, st) {
							flag = true
						}
					}
				}
			}
			c.Check(once || flag, "C06-R9", key, p.pos(in.Pos()), fmt.Sprintf("runs at most once: through sync.Once %v, or behind a test-and-set flag %v", once, flag))
		})
	}
	// engage refuses after Fini
	if eng := p.Fn("tcell:(*tScreen).engage"); eng != nil {
		ok := false
		for _, call := range callsIn(eng, func(n string, cc *ssa.CallCommon) bool {
			return cc.IsInvoke() && typeName(cc.Value.Type()) == "tcell.Tty" && cc.Method.Name() == "Start"
		}) {
			for _, a := range guardsAt(call.Block()) {
				if a.L == "t.fini" && ((a.Op == "==" && a.R == "false") || (a.Op == "!=" && a.R == "true")) {
					ok = true
				}
			}
		}
		c.Check(ok, "C06-R9", "engage:refuses-after-Fini", p.pos(eng.Pos()), "Tty.Start is reached only with t.fini false (Resume after Fini must not re-enter the terminal)")
		// R10 (a): a refused engage leaves the screen as it was.  No store to a field of the screen can be
		// followed by a return of a non-nil error: a Resume() that is turned down ("already engaged")
		// after it replaced the stop channel leaves the running loops listening to a channel nobody closes
		bad := ""
		for _, r := range returnsOf(eng) {
			if len(r.Results) != 1 || isNilConst(derefCell(resultOf(r, 0))) {
				continue
			}
			eachInstr(eng, func(in ssa.Instruction) {
				st, isSt := in.(*ssa.Store)
				if !isSt {
					return
				}
				if ref, _, okR := fieldAddrRef(st.Addr); okR && ref.Owner == "tcell.tScreen" && reachableAfter(st, r) {
					bad += fmt.Sprintf("t.%s is stored at %s before the refusal at %s; ", ref.Name, p.pos(st.Pos()), p.pos(r.Pos()))
				}
			})
		}
		c.Check(bad == "", "C06-R10", "engage:refusal-changes-nothing", p.pos(eng.Pos()), "no field of the screen is stored on a path to an error return "+bad)
	} else {
		c.Undecided("C06-R9", "engage", "-", "not found")
	}
	// R10 (b): the flag that makes engage refuse is set before the teardown starts.  Fini's teardown
	// releases the screen mutex while it waits for the loops; a Resume() from another goroutine in that
	// window must already see the screen as finished.
	// (the teardown function is found by role: the one — named or a function literal handed to the
	// Once — that sets the flag)
	var fin *ssa.Function
	for _, top := range p.modFns {
		if top.Pkg != p.Tcell {
			continue
		}
		for _, f := range withClosures(top) {
			for _, st := range storesTo(f, "tcell.tScreen", "fini") {
				if v, isB := constBool(st.Val); isB && v {
					fin = f
				}
			}
		}
	}
	if fin != nil {
		var set ssa.Instruction
		for _, st := range storesTo(fin, "tcell.tScreen", "fini") {
			if v, isB := constBool(st.Val); isB && v {
				set = st
			}
		}
		ok, n := set != nil, 0
		reach := func(fn *ssa.Function) bool {
			for g := range staticReachFrom(p, fn) {
				for range callsIn(g, func(_ string, cc *ssa.CallCommon) bool {
					return cc.IsInvoke() && typeName(cc.Value.Type()) == "tcell.Tty" && (cc.Method.Name() == "Stop" || cc.Method.Name() == "Close")
				}) {
					return true
				}
			}
			return false
		}
		eachInstr(fin, func(in ssa.Instruction) {
			cc := callCommon(in)
			if cc == nil {
				return
			}
			if callee := staticCallee(cc); callee != nil && callee.Pkg == p.Tcell && reach(callee) {
				n++
				if set == nil || !instrDominates(set, in) {
					ok = false
				}
			}
		})
		c.Check(ok && n > 0, "C06-R10", "finish:inert-before-teardown", p.pos(fin.Pos()), fmt.Sprintf("fini = true dominates the %d call(s) that hand the terminal back", n))
	} else {
		c.Undecided("C06-R10", "finish", "-", "not found")
	}
}

// isStopPollHelper: h answers, without blocking, whether the screen's stop channel is closed: a
// non-blocking select whose only state is the receive from StopQ(), true returned where it fires,
// false otherwise.
func isStopPollHelper(h *ssa.Function) bool {
	res := h.Signature.Results()
	if res.Len() != 1 || len(h.Blocks) == 0 {
		return false
	}
	if bt, ok := res.At(0).Type().Underlying().(*types.Basic); !ok || bt.Kind() != types.Bool {
		return false
	}
	var sel *ssa.Select
	n := 0
	eachInstr(h, func(in ssa.Instruction) {
		if x, ok := in.(*ssa.Select); ok {
			n++
			if !x.Blocking && len(x.States) == 1 && x.States[0].Dir == types.RecvOnly && chanName(x.States[0].Chan, nil, 0) == "iface.StopQ()" {
				sel = x
			}
		}
	})
	if sel == nil || n != 1 {
		return false
	}
	fired := selectCaseBlock(sel, 0)
	if fired == nil {
		return false
	}
	okTrue, okFalse := false, true
	for _, r := range returnsOf(h) {
		v, isC := constBool(derefCell(resultOf(r, 0)))
		if !isC {
			return false
		}
		inFired := r.Block() == fired || fired.Dominates(r.Block())
		if v && inFired {
			okTrue = true
		}
		if v && !inFired {
			okFalse = false
		}
	}
	return okTrue && okFalse
}

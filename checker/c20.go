package main

import (
	"fmt"
	"go/token"
	"go/types"
	"sort"
	"strings"

	"golang.org/x/tools/go/ssa"
)

func init() {
	register("C20", checkC20, "Containment, disjointness and exact distribution of space are arithmetic over all geometries and are mostly not statically decidable. Decided, on every path: every ViewPort method that writes a scroll offset (or the content limits / view size the clamp depends on) passes the corresponding Validate call before returning; ViewPort.SetContent forwards to the parent only behind the four window tests and translates by -offset +origin, Fill iterates the view rectangle offset by the origin; every BoxLayout method that changes the children, the orientation or the view marks the layout changed or re-lays out before returning, Draw re-lays out under the changed flag and Resize always; the remainder-distribution loops decrement their counter on every cycle and the counter is zeroed when no child can take extra space (so the loop cannot spin or dereference a nil candidate).")
}

const vpOwner = "views.ViewPort"
const blOwner = "views.BoxLayout"

func checkC20(c *Ctx) {
	c.Rule("C20-R1", "ViewPort: every store of viewx/viewy (and of limx/limy/width/height in the size setters) is followed by the matching Validate call on every path to the return")
	c.Rule("C20-R2", "ViewPort.SetContent: parent call only inside the four window tests, coordinates x-viewx+physx / y-viewy+physy; Fill covers [0,width)x[0,height) offset by the origin")
	c.Rule("C20-R3", "BoxLayout: a method storing cells/orient/view sets changed or calls layout() before returning; Draw lays out under changed; Resize lays out")
	c.Rule("C20-R8", "a nested BoxLayout gets its preferred extent: Size() is worked out from the children when asked (the outer layout pass asks before the inner box has been laid out), not remembered from the last layout pass")
	c.Expect("C20-R8", 1)
	c.Rule("C20-R7", "the surplus is shared in proportion to the fill factors: frac = extra*fill/total for cells with fill > 0, pad = int(frac), the lost fraction is kept, the remainder shrinks by pad; each remainder cell goes to one cell (pad+1) whose fraction is then zeroed")
	c.Expect("C20-R7", 4)
	c.Rule("C20-R6", "every child is placed on every layout pass: in hLayout/vLayout no iteration of the loop over the cells avoids the child's ViewPort.Resize and the widget's Resize (a skipped child keeps a stale rectangle)")
	c.Expect("C20-R6", 4)
	c.Rule("C20-R4", "hLayout/vLayout: the remainder loop decrements resid every cycle; resid is zero when the total fill is zero")
	c.Rule("C20-R5", "ViewPort.Resize clips the extent against the parent measured from the requested origin: width is the argument or (parent width - x), height the argument or (parent height - y)")
	c.Expect("C20-R5", 2)
	for r, n := range map[string]int{"C20-R1": 11, "C20-R2": 4, "C20-R3": 6, "C20-R4": 4} {
		c.Expect(r, n)
	}
	p := c.P("linux")
	if p == nil || p.Views == nil {
		c.Undecided("C20-R1", "package views", "-", "not loaded")
		return
	}
	methods := func(owner string) map[string]*ssa.Function {
		out := map[string]*ssa.Function{}
		for _, fn := range p.modFns {
			if fn.Pkg == p.Views && fn.Parent() == nil && recvTypeName(fn) == owner {
				out[fn.Name()] = fn
			}
		}
		return out
	}
	vp := methods(vpOwner)
	// the unexported fields are identified by what the exported getters return, not by their names:
	// Size() -> width, height; GetContentSize() -> limx, limy; GetPhysical() -> physx, physy, …;
	// GetVisible() -> viewx, viewy, …; the parent is the field of interface type View
	vn = vpFieldRoles(p, vp)
	cn := func(fn *ssa.Function, s string) string { return vpCanon(fn, s) }
	_ = cn
	c20ResizeClip(c, p, vp["Resize"])
	c.Rule("C20-R9", "ViewPort.Resize clips the request against the parent's current size every time (no shortcut for unchanged arguments: the parent may have changed)")
	c.Expect("C20-R9", 1)
	checkResizeAlwaysClips(c, p, "C20-R9", vp)
	c.Rule("C20-R10", "everything a ViewPort paints goes through its parent's SetContent at translated coordinates: the only other thing it asks its parent is its size (a parent Fill or Clear paints the parent's whole window, whatever the port's origin or the parent's scroll offset)")
	c.Expect("C20-R10", 1)
	checkViewPortPaintsThroughSetContent(c, p, "C20-R10")
	c.Rule("C20-R11", "scrolling never leaves the content limits, whichever call set them: SetContentSize records limits and the locked flag on every path; it returns early only where each parameter is known to equal what is stored")
	c.Expect("C20-R11", 3)
	checkSetterStoresParams(c, p, "C20-R11", "views:(*ViewPort).SetContentSize", "views.ViewPort")
	c.Rule("C20-R12", "the surplus is distributed in proportion to the fill factors: what is stored into a cell's pad is computed from that cell's fill factor (or is zero, or one leftover cell more), unless stored under a test that fill factors are equal")
	c.Expect("C20-R12", 3)
	checkPadDerivesFromFill(c, p, "C20-R12")
	c.Rule("C20-R13", "re-doing the layout after a child changes: BoxLayout.HandleEvent marks the layout changed for every content event, decided by the event's type alone (a test of the sender against the children drops the events of widgets that are boxes or texts by embedding)")
	c.Expect("C20-R13", 1)
	checkContentEventAlwaysRelayouts(c, p, "C20-R13")
	c.Rule("C20-R14", "re-doing the layout after the orientation changes, in an enclosing box as well: wherever a BoxLayout marks its layout changed (SetOrientation, Add/Insert/RemoveWidget) it posts the content event")
	c.Expect("C20-R14", 3)
	checkOrientationChangePosts(c, p, "C20-R14")
	c.Rule("C20-R15", "re-doing the layout after a child changes, whichever box holds it now: WidgetWatchers.PostEvent delivers to the handlers watching at the time of the call and keeps no delivery list between calls")
	c.Expect("C20-R15", 1)
	checkWatchersDeliveredFresh(c, p, "C20-R15")
	c.Rule("C20-R16", "the surplus is distributed among children in proportion to their fill factors, so none of it goes to a child that does not expand: the extents handed to the children's view ports are computed, never the negative constant meaning \"the rest of the parent\"")
	c.Expect("C20-R16", 1)
	checkLayoutExtentsNeverNegative(c, p, "C20-R16")
	c.Rule("C20-R17", "the view is clipped to its parent in each dimension: in ViewPort's methods a horizontal quantity (x, width, the parent's first Size() result and the fields they are stored in) is compared with horizontal ones only, a vertical one with vertical ones")
	c.Expect("C20-R17", 1)
	checkAxisPairing(c, p, "C20-R17", "ViewPort:comparisons-within-one-axis", "views.ViewPort", map[string][2][]int{
		"Resize":         {{0, 2}, {1, 3}},
		"SetContent":     {{0}, {1}},
		"SetContentSize": {{0}, {1}},
		"SetSize":        {{0}, {1}},
		"MakeVisible":    {{0}, {1}},
		"Center":         {{0}, {1}},
	}, 8)
	bl := methods(blOwner)
	if len(vp) < 15 || len(bl) < 10 {
		c.Undecided("C20-R1", "methods", "-", fmt.Sprintf("found %d ViewPort and %d BoxLayout methods", len(vp), len(bl)))
		return
	}
	// ---- R1
	validators := func(fn *ssa.Function, axis string) map[ssa.Instruction]bool {
		out := map[ssa.Instruction]bool{}
		for _, call := range callsIn(fn, func(n string, _ *ssa.CallCommon) bool {
			return strings.HasSuffix(n, "ViewPort).ValidateView") || strings.HasSuffix(n, "ViewPort).ValidateView"+axis)
		}) {
			out[call] = true
		}
		return out
	}
	for _, name := range sortedKeys(vp) {
		fn := vp[name]
		if strings.HasPrefix(name, "ValidateView") {
			continue
		}
		for _, ax := range []struct{ role, axis string }{{"viewx", "X"}, {"viewy", "Y"}} {
			for i, st := range storesTo(fn, vpOwner, vn[ax.role]) {
				key := fmt.Sprintf("%s:%s-store#%d", name, ax.role, i+1)
				if k, isC := constInt(st.Val); isC && k == 0 {
					c.Trivial("C20-R1", key, p.pos(st.Pos()), "stores the constant 0, which is inside every clamp")
					continue
				}
				ok := !existsPathAvoiding(st, validators(fn, ax.axis))
				c.Check(ok, "C20-R1", key, p.pos(st.Pos()), "followed by ValidateView"+ax.axis+"/ValidateView on every path to the return")
			}
		}
		// the clamp depends on limx/limy and width/height: the two setters must re-clamp
		// (the auto-grow of the limits in SetContent only ever raises lim-size, which cannot invalidate the
		// upper clamp; it is not listed)
		if name == "SetContentSize" || name == "SetSize" || name == "Resize" {
			for _, role := range []string{"limx", "limy", "width", "height"} {
				f := vn[role]
				for i, st := range storesTo(fn, vpOwner, f) {
					all := map[ssa.Instruction]bool{}
					for _, call := range callsIn(fn, func(n string, _ *ssa.CallCommon) bool { return strings.HasSuffix(n, "ViewPort).ValidateView") }) {
						all[call] = true
					}
					c.Check(!existsPathAvoiding(st, all), "C20-R1", fmt.Sprintf("%s:%s-store#%d", name, role, i+1), p.pos(st.Pos()), "followed by ValidateView on every path to the return")
				}
			}
		}
	}
	// the clamps themselves: ValidateViewX/Y contain `view > lim - size` and `view < 0`
	for _, ax := range []struct{ name, v, lim, size string }{{"ValidateViewX", "viewx", "limx", "width"}, {"ValidateViewY", "viewy", "limy", "height"}} {
		fn := vp[ax.name]
		if fn == nil {
			c.Undecided("C20-R1", ax.name, "-", "not found")
			continue
		}
		// decided by order types (T13): for every ordering of the offset, lim-size and 0 the function's
		// branches are followed and the offset it leaves is max(min(offset, lim-size), 0)
		okClamp, detail := clampOrderEval(fn, vpOwner, vn[ax.v], vn[ax.lim], vn[ax.size])
		c.Check(okClamp, "C20-R1", ax.name+":clamp", p.pos(fn.Pos()), detail)
	}
	// ---- R2
	sc := vp["SetContent"]
	var parent ssa.Instruction
	eachInstr(sc, func(in ssa.Instruction) {
		if cc := callCommon(in); cc != nil && cc.IsInvoke() && cc.Method.Name() == "SetContent" {
			parent = in
		}
	})
	if parent == nil {
		c.Fail("C20-R2", "SetContent:parent-call", p.pos(sc.Pos()), "no call of the parent view")
	} else {
		g := guardsAt(parent.Block())
		has := func(want ...string) bool {
			for _, a := range g {
				for _, w := range want {
					if vpCanon(sc, a.String()) == w {
						return true
					}
				}
			}
			return false
		}
		inside := has("v.viewx <= x", "x >= v.viewx") && has("v.viewy <= y", "y >= v.viewy") &&
			has("(v.viewx+v.width) > x", "x < (v.viewx+v.width)") && has("(v.viewy+v.height) > y", "y < (v.viewy+v.height)")
		gs := []string{}
		for _, a := range g {
			gs = append(gs, a.String())
		}
		c.Check(inside, "C20-R2", "SetContent:window-tests", p.pos(parent.Pos()), "parent call guarded by: "+strings.Join(gs, " ∧ "))
		cc := callCommon(parent)
		ax, ay := vpCanon(sc, valName(cc.Args[0])), vpCanon(sc, valName(cc.Args[1]))
		c.Check(ax == "((x-v.viewx)+v.physx)" && ay == "((y-v.viewy)+v.physy)", "C20-R2", "SetContent:translation", p.pos(parent.Pos()), fmt.Sprintf("parent coordinates %s, %s", ax, ay))
		// nil parent guard
		c.Check(has("v.v != nil", "nil != v.v"), "C20-R2", "SetContent:nil-parent", p.pos(parent.Pos()), "no call on a nil parent")
	}
	fill := vp["Fill"]
	okFill := false
	eachInstr(fill, func(in ssa.Instruction) {
		if cc := callCommon(in); cc != nil && cc.IsInvoke() && cc.Method.Name() == "SetContent" {
			ax, ay := vpCanon(fill, valName(cc.Args[0])), vpCanon(fill, valName(cc.Args[1]))
			g := guardsAt(in.Block())
			bx, by := false, false
			for _, a := range g {
				as := vpCanon(fill, a.String())
				if as == "v.width > x" || as == "x < v.width" {
					bx = true
				}
				if as == "v.height > y" || as == "y < v.height" {
					by = true
				}
			}
			if ax == "(x+v.physx)" && ay == "(y+v.physy)" && bx && by {
				okFill = true
			}
		}
	})
	c.Check(okFill, "C20-R2", "Fill:rectangle", p.pos(fill.Pos()), "Fill writes (x+physx, y+physy) for x < width, y < height")
	// ---- R3
	// the "needs a layout" flag, by role: the boolean field of the box that layout() clears
	changedField := "changed"
	if l := bl["layout"]; l != nil {
		eachInstr(l, func(in ssa.Instruction) {
			if st, ok := in.(*ssa.Store); ok {
				if ref, _, isF := fieldAddrRef(st.Addr); isF && ref.Owner == blOwner {
					if v, isC := constBool(st.Val); isC && !v {
						changedField = ref.Name
					}
				}
			}
		})
	}
	layoutCalls := func(fn *ssa.Function) map[ssa.Instruction]bool {
		out := map[ssa.Instruction]bool{}
		for _, call := range callsIn(fn, func(n string, _ *ssa.CallCommon) bool { return strings.HasSuffix(n, "BoxLayout).layout") }) {
			out[call] = true
		}
		for _, st := range storesTo(fn, blOwner, changedField) {
			if v, isC := constBool(st.Val); isC && v {
				out[st] = true
			}
		}
		return out
	}
	// layout() itself lays out whenever it is asked to: the only things that may stop it are a
	// missing view and the orientation switch.  (Mutators such as InsertWidget call it without
	// raising `changed`; a shortcut keyed on remembered state would skip their relayout.)
	if lay := bl["layout"]; lay != nil {
		bad := ""
		n := 0
		for _, call := range callsIn(lay, func(nm string, _ *ssa.CallCommon) bool {
			return strings.HasSuffix(nm, "BoxLayout).hLayout") || strings.HasSuffix(nm, "BoxLayout).vLayout")
		}) {
			n++
			for _, a := range guardsAt(call.Block()) {
				as := a.String()
				if strings.Contains(as, ".view") || strings.Contains(as, ".orient") {
					continue
				}
				bad += "the call at " + p.pos(call.Pos()) + " depends on " + as + "; "
			}
		}
		// and no way out of layout() avoids them, except the one for a missing view
		calls := map[ssa.Instruction]bool{}
		for _, call := range callsIn(lay, func(nm string, _ *ssa.CallCommon) bool {
			return strings.HasSuffix(nm, "BoxLayout).hLayout") || strings.HasSuffix(nm, "BoxLayout).vLayout")
		}) {
			calls[call] = true
		}
		for _, r := range returnsOf(lay) {
			if !existsPathFromEntryAvoiding(lay, r, calls) {
				continue
			}
			noView := false
			for _, a := range guardsAt(r.Block()) {
				if strings.Contains(a.L, ".view") && a.Op == "==" && a.R == "nil" {
					noView = true
				}
			}
			if !noView {
				bad += "the return at " + p.pos(r.Pos()) + " is reachable without laying out; "
			}
		}
		c.Check(n == 2 && bad == "", "C20-R3", "layout:unconditional", p.pos(lay.Pos()), "hLayout/vLayout run whenever layout() is called with a view "+bad)
	} else {
		c.Undecided("C20-R3", "layout", "-", "not found")
	}
	for _, name := range sortedKeys(bl) {
		fn := bl[name]
		if name == "layout" || name == "hLayout" || name == "vLayout" {
			continue
		}
		for _, f := range []string{"cells", "orient", "view"} {
			sts := storesTo(fn, blOwner, f)
			if len(sts) == 0 {
				continue
			}
			marks := layoutCalls(fn)
			ok := true
			for _, st := range sts {
				dom := false
				for m := range marks {
					if instrDominates(m, st) {
						dom = true
					}
				}
				if !dom && existsPathAvoiding(st, marks) {
					// a `changed := false … changed = true … if !changed { return }` local flag
					// makes the early return infeasible after the store: stop at such returns
					stop := map[ssa.Instruction]bool{}
					for m := range marks {
						stop[m] = true
					}
					for _, r := range returnsOf(fn) {
						if flagReturnInfeasibleAfter(st, r) && len(r.Block().Instrs) > 0 {
							stop[r.Block().Instrs[0]] = true
						}
					}
					if existsPathAvoiding(st, stop) {
						ok = false
					}
				}
			}
			c.Check(ok, "C20-R3", name+":"+f+"-change-relayouts", p.pos(fn.Pos()), "every store of "+f+" is tied to changed = true or a layout() call")
		}
	}
	if d := bl["Draw"]; d != nil {
		ok := false
		for call := range layoutCalls(d) {
			for _, a := range guardsAt(call.Block()) {
				if strings.HasSuffix(a.L, "."+changedField) && a.Op == "==" && a.R == "true" {
					ok = true
				}
			}
		}
		c.Check(ok, "C20-R3", "Draw:layout-under-changed", p.pos(d.Pos()), "Draw re-lays out when the changed flag is set")
	}
	if r := bl["Resize"]; r != nil {
		ok := false
		for call := range layoutCalls(r) {
			if _, isCall := call.(*ssa.Call); isCall && len(guardsAt(call.Block())) == 0 {
				ok = true
			}
		}
		c.Check(ok, "C20-R3", "Resize:layout", p.pos(r.Pos()), "Resize re-lays out unconditionally")
	}
	if l := bl["layout"]; l != nil {
		ok := false
		for _, st := range storesTo(l, blOwner, changedField) {
			if v, isC := constBool(st.Val); isC && !v {
				ok = true
			}
		}
		c.Check(ok, "C20-R3", "layout:clears-changed", p.pos(l.Pos()), "layout() clears the flag after laying out")
	}
	// ---- R8: a box that is itself a child is asked for its preferred size before it has been laid out
	// (the outer pass comes first; the inner box may not even have a view yet).  Size() therefore works
	// the size out from the children as they are now: it asks the children (Widget.Size) and reads none
	// of the fields that only a layout pass writes.
	if sz := bl["Size"]; sz != nil {
		asks := 0
		eachInstr(sz, func(in ssa.Instruction) {
			if cc := callCommon(in); cc != nil && cc.IsInvoke() && cc.Method.Name() == "Size" && strings.HasSuffix(typeName(cc.Value.Type()), "Widget") {
				asks++
			}
		})
		stale := ""
		for _, f := range []string{"width", "height"} {
			if len(loadsOf(sz, blOwner, f)) > 0 {
				stale += "returns the remembered " + f + "; "
			}
		}
		c.Check(asks >= 1 && stale == "", "C20-R8", "BoxLayout.Size:computed-from-children", p.pos(sz.Pos()), fmt.Sprintf("asks the children (%d call site(s)) and reads no field written only by a layout pass %s", asks, stale))
	} else {
		c.Undecided("C20-R8", "BoxLayout.Size", "-", "not found")
	}
	// ---- R7: the shape of the proportional share.  Every cell with a positive fill factor gets
	// int(extra * fill / total) cells of the surplus, keeps the fraction it lost, and the remainder is
	// reduced by what it got; the remainder loop then hands single cells to the largest fractions and
	// zeroes the fraction of the winner (so nobody gets two).  Operand roles are checked, not values.
	for _, name := range []string{"hLayout", "vLayout"} {
		fn := bl[name]
		if fn == nil {
			c.Undecided("C20-R7", name, "-", "not found")
			continue
		}
		// the per-child record and its fields are identified by role (element type of the layout's
		// list; the int is the extra size, the *ViewPort the child's window, of the two floats the one
		// stored from AddWidget's parameter is the fill factor and the other the kept fraction)
		cellOwner, role := boxCellRoles(p, bl)
		if cellOwner == "" {
			c.Undecided("C20-R7", name+":record", p.pos(fn.Pos()), "the per-child record of the layout was not identified")
			continue
		}
		fn = layoutHost(p, fn, cellOwner) // the distribution may live in a helper shared by both orientations
		fieldOf := func(v ssa.Value, name string) bool {
			ref, _, ok := loadedField(stripConv(v))
			return ok && ref.Owner == cellOwner && ref.Name == role[name]
		}
		share, padInt, fracRest, residSub, winPad, winFrac := false, false, false, false, false, false
		for _, st := range storesTo(fn, cellOwner, role["frac"]) {
			v := st.Val
			// frac = float64(extra) * fill / totf
			if q, ok := v.(*ssa.BinOp); ok && q.Op == token.QUO {
				if m, isM := q.X.(*ssa.BinOp); isM && m.Op == token.MUL {
					if (fieldOf(m.Y, "fill") && !fieldOf(m.X, "fill")) || (fieldOf(m.X, "fill") && !fieldOf(m.Y, "fill")) {
						if !fieldOf(q.Y, "fill") {
							// guarded by fill > 0
							for _, a := range guardsAt(st.Block()) {
								if strings.HasSuffix(a.L, "."+role["fill"]) && a.Op == ">" && a.R == "0" {
									share = true
								}
							}
						}
					}
				}
			}
			// frac -= float64(pad)
			if sb, ok := v.(*ssa.BinOp); ok && sb.Op == token.SUB && fieldOf(sb.X, "frac") && fieldOf(sb.Y, "pad") {
				fracRest = true
			}
			if k, ok := v.(*ssa.Const); ok && k.Value != nil && k.Value.String() == "0" {
				winFrac = true
			}
		}
		for _, st := range storesTo(fn, cellOwner, role["pad"]) {
			if cv, ok := st.Val.(*ssa.Convert); ok && fieldOf(cv.X, "frac") {
				padInt = true
			}
			if ad, ok := st.Val.(*ssa.BinOp); ok && ad.Op == token.ADD && fieldOf(ad.X, "pad") {
				if k, isK := constInt(ad.Y); isK && k == 1 {
					winPad = true
				}
			}
		}
		residPhis := remainderCounters(fn)
		eachInstr(fn, func(in ssa.Instruction) {
			if sb, ok := in.(*ssa.BinOp); ok && sb.Op == token.SUB && fieldOf(sb.Y, "pad") {
				// the result feeds the counter of the remainder loop
				seen := map[ssa.Value]bool{}
				var feeds func(v ssa.Value, d int) bool
				feeds = func(v ssa.Value, d int) bool {
					if d > 6 || seen[v] {
						return false
					}
					seen[v] = true
					if residPhis[v] {
						return true
					}
					for _, r := range referrers(v.(ssa.Instruction).(ssa.Value)) {
						if phi, isPhi := r.(*ssa.Phi); isPhi && feeds(phi, d+1) {
							return true
						}
					}
					return false
				}
				if feeds(sb, 0) {
					residSub = true
				}
			}
		})
		c.Check(share && padInt && fracRest && residSub, "C20-R7", name+":proportional-share", p.pos(fn.Pos()),
			fmt.Sprintf("frac = extra*fill/total under fill>0: %v; pad = int(frac): %v; frac -= pad: %v; resid -= pad: %v", share, padInt, fracRest, residSub))
		c.Check(winPad && winFrac, "C20-R7", name+":remainder-one-cell-each", p.pos(fn.Pos()),
			fmt.Sprintf("the winner of a remainder cell gets pad+1: %v and its fraction is zeroed: %v", winPad, winFrac))
	}
	// ---- R6: every child is placed on every layout pass.  In the loop that hands each cell its
	// rectangle, no cycle avoids the ViewPort.Resize call (and the widget's Resize after it): a child that is
	// skipped "because it has no extent" keeps the rectangle of an earlier pass, which then overlaps its
	// siblings or lies outside the layout's view.
	for _, name := range []string{"hLayout", "vLayout"} {
		fn := bl[name]
		if fn == nil {
			c.Undecided("C20-R6", name, "-", "not found")
			continue
		}
		for _, what := range []string{"ViewPort).Resize", "Widget).Resize"} {
			var site ssa.Instruction
			eachInstr(fn, func(in ssa.Instruction) {
				cc := callCommon(in)
				if cc == nil {
					return
				}
				n := calleeName(cc)
				if cc.IsInvoke() {
					n = typeName(cc.Value.Type()) + ")." + cc.Method.Name()
				}
				if strings.HasSuffix(n, what) {
					site = in
				}
			})
			key := name + ":every-child-placed:" + strings.TrimSuffix(strings.Replace(what, ").", ".", 1), ")")
			if site == nil {
				c.Fail("C20-R6", key, p.pos(fn.Pos()), "no call of "+what+" in the placement loop")
				continue
			}
			var header *ssa.BasicBlock
			var body map[*ssa.BasicBlock]bool
			for h, b := range loopsOf(fn) {
				if b[site.Block()] && (body == nil || len(b) < len(body)) {
					header, body = h, b
				}
			}
			if header == nil {
				c.Fail("C20-R6", key, p.pos(site.Pos()), "the call is not inside a loop over the cells")
				continue
			}
			// is there a cycle header -> ... -> header inside the loop that avoids the call's block?
			avoid := false
			seen := map[*ssa.BasicBlock]bool{}
			stack := []*ssa.BasicBlock{}
			for _, s := range header.Succs {
				if body[s] && s != site.Block() {
					stack = append(stack, s)
				}
			}
			for len(stack) > 0 {
				b := stack[len(stack)-1]
				stack = stack[:len(stack)-1]
				if b == header {
					avoid = true
					break
				}
				if seen[b] {
					continue
				}
				seen[b] = true
				for _, s := range b.Succs {
					if body[s] && s != site.Block() {
						stack = append(stack, s)
					}
				}
			}
			c.Check(!avoid, "C20-R6", key, p.pos(site.Pos()), "every iteration over the cells passes the call")
		}
	}
	// ---- R4
	for _, name := range []string{"hLayout", "vLayout"} {
		fn := bl[name]
		if fn == nil {
			c.Undecided("C20-R4", name, "-", "not found")
			continue
		}
		// the loop: header with a phi (the remainder counter) compared > 0, wherever it lives
		cellOwnerR4, _ := boxCellRoles(p, bl)
		fn = layoutHost(p, fn, cellOwnerR4)
		var resid *ssa.Phi
		for v := range remainderCounters(fn) {
			if phi, ok := v.(*ssa.Phi); ok {
				resid = phi
			}
		}
		if resid == nil {
			c.Undecided("C20-R4", name+":remainder-loop", p.pos(fn.Pos()), "loop `for resid > 0` not found")
			continue
		}
		dec := false
		for _, e := range resid.Edges {
			if bo, ok := e.(*ssa.BinOp); ok && bo.Op == token.SUB && bo.X == ssa.Value(resid) {
				if k, ok := constInt(bo.Y); ok && k == 1 {
					dec = true
				}
			}
		}
		c.Check(dec, "C20-R4", name+":remainder-loop-decrements", p.pos(resid.Pos()), "the loop-carried value of resid is resid-1")
		// zeroed when totf == 0: some phi feeding the loop has a const 0 edge from a block guarded by totf == 0
		zero := false
		var walk func(v ssa.Value, d int)
		seen := map[ssa.Value]bool{}
		walk = func(v ssa.Value, d int) {
			if d > 6 || seen[v] {
				return
			}
			seen[v] = true
			phi, ok := v.(*ssa.Phi)
			if !ok {
				if bo, isBO := v.(*ssa.BinOp); isBO {
					walk(bo.X, d+1)
				}
				return
			}
			for i, e := range phi.Edges {
				if k, isC := constInt(e); isC && k == 0 {
					for _, a := range guardsOnEdge(phi.Block().Preds[i], phi.Block()) {
						if a.L == "totf" && a.Op == "==" && (a.R == "0" || a.R == "0.0") {
							zero = true
						}
					}
				}
				walk(e, d+1)
			}
		}
		walk(resid, 0)
		c.Check(zero, "C20-R4", name+":no-fill-no-remainder", p.pos(resid.Pos()), "resid is 0 on the totf == 0 edge, so the loop body (which needs a child with a fill factor) is not entered")
	}
}

// flagReturnInfeasibleAfter: return r sits behind `flag == false` where flag is a
// boolean loop-carried local that is false only on edges that cannot follow st
// and true on the edge leaving st's block.
func flagReturnInfeasibleAfter(st ssa.Instruction, r *ssa.Return) bool {
	for _, g := range rawGuardsAt(r.Block()) {
		cond, pos := g.Cond, g.Positive
		if u, ok := cond.(*ssa.UnOp); ok && u.Op == token.NOT {
			cond, pos = u.X, !pos
		}
		phi, ok := cond.(*ssa.Phi)
		if !ok || pos {
			continue
		}
		reach := blocksReachableFrom(st.Block())
		good := true
		setsTrue := false
		seen := map[*ssa.Phi]bool{}
		var walk func(p *ssa.Phi)
		walk = func(p *ssa.Phi) {
			if seen[p] {
				return
			}
			seen[p] = true
			for i, e := range p.Edges {
				pred := p.Block().Preds[i]
				if v, isC := constBool(e); isC {
					if v {
						if pred == st.Block() || st.Block().Dominates(pred) {
							setsTrue = true
						}
						continue
					}
					// a false edge must not be able to follow the store
					if reach[pred] || pred == st.Block() {
						good = false
					}
					continue
				}
				if q, isPhi := e.(*ssa.Phi); isPhi {
					walk(q)
					continue
				}
				good = false
			}
		}
		walk(phi)
		if good && setsTrue {
			return true
		}
	}
	return false
}

// c20ResizeClip: a child whose requested origin lies outside the parent keeps
// its old origin; its extent then collapses because it is measured from the
// requested origin.  Measured from anything else (the stored origin, say) the
// child keeps a positive size at a stale position and overlaps its siblings.
func c20ResizeClip(c *Ctx, p *Prog, fn *ssa.Function) {
	if fn == nil {
		c.Undecided("C20-R5", "ViewPort.Resize", "-", "not found")
		return
	}
	// parent size
	var size *ssa.Call
	eachInstr(fn, func(in ssa.Instruction) {
		if call, ok := in.(*ssa.Call); ok && call.Call.IsInvoke() && call.Call.Method.Name() == "Size" {
			size = call
		}
	})
	if size == nil || len(fn.Params) < 5 {
		c.Undecided("C20-R5", "ViewPort.Resize:parent-size", p.pos(fn.Pos()), "call of the parent's Size() not found")
		return
	}
	for i, dim := range []struct {
		field string
		org   *ssa.Parameter
		ext   *ssa.Parameter
	}{{"width", fn.Params[1], fn.Params[3]}, {"height", fn.Params[2], fn.Params[4]}} {
		sts := storesTo(fn, vpOwner, vn[dim.field])
		ok := len(sts) >= 1
		detail := ""
		if ok {
			var check func(v ssa.Value, d int) bool
			check = func(v ssa.Value, d int) bool {
				v = derefCell(v)
				if d > 4 {
					return false
				}
				switch x := v.(type) {
				case *ssa.Parameter:
					return x == dim.ext
				case *ssa.Phi:
					for _, e := range x.Edges {
						if !check(e, d+1) {
							return false
						}
					}
					return true
				case *ssa.BinOp:
					if x.Op == token.SUB {
						ex, isEx := x.X.(*ssa.Extract)
						if isEx && ex.Tuple == ssa.Value(size) && ex.Index == i && derefCell(x.Y) == ssa.Value(dim.org) {
							return true
						}
					}
					detail = "clipped to " + valName(x)
					return false
				}
				detail = "stored from " + valName(v)
				return false
			}
			// one store of the clipped value, or one store per case of the clip
			for _, st := range sts {
				if !check(st.Val, 0) {
					ok = false
				}
			}
		}
		c.Check(ok, "C20-R5", "Resize:"+dim.field+"-clip", p.pos(fn.Pos()), "v."+dim.field+" is the requested extent or parent extent minus the requested origin "+detail)
	}
}

// vn: role -> actual name of the ViewPort's unexported fields (set by vpFieldRoles).
var vn = map[string]string{"viewx": "viewx", "viewy": "viewy", "limx": "limx", "limy": "limy", "physx": "physx", "physy": "physy", "width": "width", "height": "height", "parent": "v"}

// vpFieldRoles identifies the fields by what the exported getters hand out.
func vpFieldRoles(p *Prog, vp map[string]*ssa.Function) map[string]string {
	out := map[string]string{}
	for k, v := range vn {
		out[k] = v
	}
	firstTwo := func(fn *ssa.Function, a, b string) {
		if fn == nil {
			return
		}
		for _, r := range returnsOf(fn) {
			if len(r.Results) < 2 {
				continue
			}
			if ref, _, ok := loadedField(derefCell(resultOf(r, 0))); ok && ref.Owner == vpOwner {
				out[a] = ref.Name
			}
			if ref, _, ok := loadedField(derefCell(resultOf(r, 1))); ok && ref.Owner == vpOwner {
				out[b] = ref.Name
			}
		}
	}
	firstTwo(vp["Size"], "width", "height")
	firstTwo(vp["GetContentSize"], "limx", "limy")
	firstTwo(vp["GetPhysical"], "physx", "physy")
	firstTwo(vp["GetVisible"], "viewx", "viewy")
	if named := p.namedType(p.Views, "ViewPort"); named != nil {
		if st, ok := named.Underlying().(*types.Struct); ok {
			for i := 0; i < st.NumFields(); i++ {
				if strings.HasSuffix(typeName(st.Field(i).Type()), "views.View") {
					out["parent"] = st.Field(i).Name()
				}
			}
		}
	}
	return out
}

// vpCanon rewrites the names in a printed value or atom to the role names the rules are written in
// (receiver v; fields viewx, viewy, limx, limy, physx, physy, width, height, parent field v).
func vpCanon(fn *ssa.Function, s string) string {
	recv := "v"
	if fn != nil && len(fn.Params) > 0 {
		recv = fn.Params[0].Name()
	}
	// longest names first, through placeholders so that replacements do not chain
	type pair struct{ from, to string }
	var ps []pair
	for role, actual := range vn {
		to := "v." + role
		if role == "parent" {
			to = "v.v"
		}
		ps = append(ps, pair{recv + "." + actual, to})
	}
	sort.Slice(ps, func(i, j int) bool { return len(ps[i].from) > len(ps[j].from) })
	for i, pr := range ps {
		s = replaceWord(s, pr.from, fmt.Sprintf("\x00%d\x00", i))
	}
	for i, pr := range ps {
		s = strings.ReplaceAll(s, fmt.Sprintf("\x00%d\x00", i), pr.to)
	}
	return s
}

// replaceWord replaces from by to where from is not followed by an identifier character.
func replaceWord(s, from, to string) string {
	var b strings.Builder
	for {
		i := strings.Index(s, from)
		if i < 0 {
			b.WriteString(s)
			return b.String()
		}
		end := i + len(from)
		if end < len(s) {
			ch := s[end]
			if ch == '_' || (ch >= '0' && ch <= '9') || (ch >= 'a' && ch <= 'z') || (ch >= 'A' && ch <= 'Z') {
				b.WriteString(s[:end])
				s = s[end:]
				continue
			}
		}
		b.WriteString(s[:i])
		b.WriteString(to)
		s = s[end:]
	}
}

// layoutHost: fn itself, or the BoxLayout helper it calls that holds the distribution of the surplus
// (the function that stores the cells' frac field).
func layoutHost(p *Prog, fn *ssa.Function, cellOwner string) *ssa.Function {
	if len(remainderCounters(fn)) > 0 {
		return fn
	}
	var host *ssa.Function
	eachInstr(fn, func(in ssa.Instruction) {
		if cc := callCommon(in); cc != nil {
			if h := cc.StaticCallee(); h != nil && h.Pkg == p.Views && len(h.Blocks) > 0 && len(remainderCounters(h)) > 0 {
				host = h
			}
		}
	})
	if host != nil {
		return host
	}
	return fn
}

// remainderCounters: loop-header phis that are tested `> 0` by their loop and go down by one per cycle.
func remainderCounters(fn *ssa.Function) map[ssa.Value]bool {
	out := map[ssa.Value]bool{}
	for h := range loopsOf(fn) {
		for _, in := range h.Instrs {
			phi, ok := in.(*ssa.Phi)
			if !ok {
				continue
			}
			tested, dec := false, false
			for _, r := range referrers(phi) {
				if bo, isBO := r.(*ssa.BinOp); isBO && bo.Op == token.GTR && bo.X == ssa.Value(phi) && bo.Block() == h {
					if k, isK := constInt(bo.Y); isK && k == 0 {
						tested = true
					}
				}
			}
			for _, e := range phi.Edges {
				if bo, isBO := e.(*ssa.BinOp); isBO && bo.Op == token.SUB && bo.X == ssa.Value(phi) {
					if k, isK := constInt(bo.Y); isK && k == 1 {
						dec = true
					}
				}
			}
			if tested && dec {
				out[phi] = true
			}
		}
	}
	return out
}

// boxCellRoles: the record BoxLayout keeps per child and its fields by role.  The record is the struct
// the layout's list holds pointers to; "pad" is its int field, "view" its *ViewPort, "widget" its Widget;
// of its two float64 fields "fill" is the one AddWidget/InsertWidget store their parameter into and
// "frac" the other.
func boxCellRoles(p *Prog, bl map[string]*ssa.Function) (string, map[string]string) {
	named := p.namedType(p.Views, "BoxLayout")
	if named == nil {
		return "", nil
	}
	st, ok := named.Underlying().(*types.Struct)
	if !ok {
		return "", nil
	}
	var cell *types.Named
	for i := 0; i < st.NumFields(); i++ {
		if sl, isSl := st.Field(i).Type().Underlying().(*types.Slice); isSl {
			if ptr, isPtr := sl.Elem().(*types.Pointer); isPtr {
				if n, isN := ptr.Elem().(*types.Named); isN {
					if _, isSt := n.Underlying().(*types.Struct); isSt {
						cell = n
					}
				}
			}
		}
	}
	if cell == nil {
		return "", nil
	}
	owner := typeName(cell)
	cst := cell.Underlying().(*types.Struct)
	role := map[string]string{}
	var floats []string
	for i := 0; i < cst.NumFields(); i++ {
		f := cst.Field(i)
		switch {
		case strings.HasSuffix(typeName(f.Type()), "views.Widget"):
			role["widget"] = f.Name()
		case strings.HasSuffix(typeName(f.Type()), "views.ViewPort"):
			role["view"] = f.Name()
		default:
			if bt, isB := f.Type().Underlying().(*types.Basic); isB {
				if bt.Kind() == types.Int {
					role["pad"] = f.Name()
				}
				if bt.Kind() == types.Float64 {
					floats = append(floats, f.Name())
				}
			}
		}
	}
	for _, name := range []string{"AddWidget", "InsertWidget"} {
		fn := bl[name]
		if fn == nil {
			continue
		}
		for _, f := range floats {
			for _, st := range storesTo(fn, owner, f) {
				if _, isP := stripConv(st.Val).(*ssa.Parameter); isP {
					role["fill"] = f
				}
			}
		}
	}
	for _, f := range floats {
		if f != role["fill"] {
			role["frac"] = f
		}
	}
	if role["fill"] == "" || role["frac"] == "" || role["pad"] == "" {
		return "", nil
	}
	return owner, role
}

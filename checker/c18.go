package main

import (
	"fmt"
	"go/types"
	"strings"

	"golang.org/x/tools/go/ssa"
)

func init() {
	register("C18", checkC18, "Fidelity of the simulator over draw histories and all encodable text is not statically decidable. Decided (siblings of the rules applied to the real screen): InjectKeyBytes' prefix-decoding loop reaches the whole input and consumes exactly the decoder's nSrc; SetSize of every backend reaches a posted resize event and does not pre-empt the size comparison that produces it; the simulator's painter is dirty-gated with the clean-mark tied to the physical write, Sync sets clear and invalidates before drawing, a wide rune in the last column is replaced by a blank, and the cursor visibility test covers the four bounds. The simulator's locking discipline is decided under C10. Byte-level equivalence with the real screen's fallback chain is not decided.")
}

func checkC18(c *Ctx) {
	c.Rule("C18-R1", "InjectKeyBytes: prefix loop bound includes len(b); input advanced by the decoder's nSrc")
	c.Rule("C18-R2", "SetSize of every backend reaches a resize event that is posted, and does not resize the logical buffer itself before the size comparison")
	c.Rule("C18-R3", "simscreen painter: dirty gate, clean after write, Sync = clear + Invalidate before draw, wide rune in the last column shown blank, four-sided cursor visibility test")
	c.Rule("C18-R4", "the simulation decides 'not encodable' from the same observations as the terminfo screen (zero-length output, SUB first byte) and gives the encoder a destination of constant size >= 4")
	c.Expect("C18-R4", 2)
	c.Rule("C18-R5", "HideCursor moves the requested cursor position off-screen, so GetCursor keeps reporting a hidden cursor after the next Show or Sync")
	c.Expect("C18-R5", 1)
	c.Rule("C18-R7", "the simulation's fallback table is its own map (made on the spot, never the shared stock table, which nothing writes), and every draw ends by re-evaluating the requested cursor position (showCursor after the cell loop on every path)")
	c.Expect("C18-R7", 2)
	c.Rule("C18-R6", "InjectKeyBytes delivers U+FFFD when it is what was injected: a decoded rune equal to U+FFFD is dropped only if the consumed bytes are not the charset's own encoding of U+FFFD (same rule as the terminfo screen's rune parser)")
	c.Expect("C18-R6", 1)
	c.Expect("C18-R1", 2)
	c.Expect("C18-R2", 2)
	c.Expect("C18-R3", 6)
	p := c.P("linux")
	if p == nil || p.Tcell == nil {
		c.Undecided("C18-R1", "package tcell", "-", "not loaded")
		return
	}
	c.Rule("C18-R9", "what the simulation keeps as a cell's bytes is its own storage, never a reslice of the per-call encoder destination")
	c.Expect("C18-R9", 1)
	checkNoAliasedEncodeBuffer(c, p, "C18-R9")
	c.Rule("C18-R10", "InjectKey delivers the key event it was asked for: built from the key, rune and modifiers given, unchanged")
	c.Expect("C18-R10", 1)
	checkInjectKeyVerbatim(c, p, "C18-R10")
	c.Rule("C18-R11", "the same fallback rules as a real screen: both encoders consult the fallback table only while nothing has been written for the cell (the main rune); a combining rune the character set lacks is elided even when a fallback is registered for it")
	c.Expect("C18-R11", 2)
	checkFallbackOnlyForMainRune(c, p, "C18-R11")
	c.Rule("C18-R12", "the '?' of a cell nothing could be written for is decided on bytes that are really empty: a nil test of the cell's bytes is used only while they are reset to nil (a recycled Bytes[:0] is empty but not nil: a cell painted before would stay empty)")
	c.Expect("C18-R12", 1)
	checkEmptinessTestMatchesReset(c, p, "C18-R12")
	c.Rule("C18-R13", "SetSize preserves the overlapping region: the cells are carried over into an array made by the call, never moved within the live one (front to back overwrites a row before it is moved as soon as the width grows)")
	c.Expect("C18-R13", 1)
	checkResizeIntoFreshStorage(c, p, "C18-R13")
	c.Rule("C18-R14", "Sync shows everything again: the simulation's clear flag is raised only together with cells.Invalidate()")
	c.Expect("C18-R14", 1)
	checkClearImpliesInvalidate(c, p, "C18-R14", "simscreen")
	c.Rule("C18-R15", "injected events come out in the order injected: every send on the simulation's queue waits for room itself (blocking select with shutdown alternatives only); none is tried without blocking or handed to a goroutine (= C05-R1)")
	c.Expect("C18-R15", 1)
	c.asRule("C05-R1", "C18-R15", func() { c05Sends(c, p) })
	c.Rule("C18-R16", "SetSize produces a resize event with the new size, also when one dimension stays: a way through the simulation's resize that does not resize the buffer knows both dimensions unchanged")
	c.Expect("C18-R16", 1)
	checkResizeSkippedOnlyWhenBothEqual(c, p, "C18-R16", "simscreen")
	c.Rule("C18-R17", "the reported cells hold what was last set there: the simulation's drawCell addresses one physical cell, by y*w+x (a write to the neighbour a wide rune covers wraps into the next row from the last column)")
	c.Expect("C18-R17", 1)
	checkSimDrawCellWritesOwnCell(c, p, "C18-R17")
	c.Rule("C18-R18", "injected keys and mouse events come out exactly as injected: InjectKey and InjectMouse reach the post on every path, whatever modes are enabled")
	c.Expect("C18-R18", 2)
	checkInjectAlwaysPosts(c, p, "C18-R18")
	c.Rule("C18-R19", "injected key bytes come out as the real decoder would deliver them: a rune event made straight from an input byte is made only where the byte is printable (a control byte is its control key, with the Ctrl-letter modifier rule of InjectKeyBytes, not NewEventKey's)")
	c.Expect("C18-R19", 1)
	checkInjectedControlBytesAreKeys(c, p, "C18-R19")
	c.Rule("C18-R20", "the cursor query reflects ShowCursor: every call recomputes the visibility (SetSize resets the stored position without it)")
	c.Expect("C18-R20", 1)
	checkShowCursorAlwaysRecomputes(c, p, "C18-R20")
	c.Rule("C18-R21", "the cursor is reported visible exactly when it lies on the screen: in the simulation's methods a column is compared with the width only and a row with the height only (axes seeded from the parameters of ShowCursor and SetSize and carried through the fields)")
	c.Expect("C18-R21", 1)
	checkAxisPairing(c, p, "C18-R21", "simscreen:comparisons-within-one-axis", "tcell.simscreen", map[string][2][]int{
		"ShowCursor": {{0}, {1}},
		"SetSize":    {{0}, {1}},
		"drawCell":   {{0}, {1}},
	}, 2)
	c.Rule("C18-R8", "the simulation's ShowCursor remembers the requested position as given")
	c.Expect("C18-R8", 1)
	checkShowCursorStoresRequest(c, p, "C18-R8", "simscreen")
	ik := p.Fn("tcell:(*simscreen).InjectKeyBytes")
	if ik == nil {
		c.Undecided("C18-R1", "InjectKeyBytes", "-", "not found")
	} else {
		checkPrefixLoop(c, p, ik, "C18-R1")
		checkSubstitutedPrefix(c, p, ik, "C18-R1")
		for _, pl := range findPrefixLoops(ik) {
			ok := false
			if pl.nSrc != nil {
				for _, r := range referrers(pl.nSrc) {
					if sl, isSl := r.(*ssa.Slice); isSl && sl.Low == pl.nSrc && sl.High == nil {
						ok = true
					}
				}
				// the count may be carried to the reslice in a variable (`consumed = nin … b = b[consumed:]`):
				// every non-constant source of the bound is the decoder's count
				eachInstr(ik, func(in ssa.Instruction) {
					sl, isSl := in.(*ssa.Slice)
					if !isSl || sl.High != nil || sl.Low == nil {
						return
					}
					srcs := phiSources(sl.Low)
					if len(srcs) == 0 {
						return
					}
					all := true
					for _, src := range srcs {
						if src != pl.nSrc {
							all = false
						}
					}
					if all {
						ok = true
					}
				})
			}
			c.Check(ok, "C18-R1", "InjectKeyBytes:advance-by-nSrc", p.pos(pl.call.Pos()), "b = b[nSrc:] after a successful decode")
		}
	}
	// R2
	for _, tname := range []string{"tScreen", "simscreen"} {
		c18SetSize(c, p, tname)
	}
	if c.Tier == "thorough" {
		if pw := c.P("wasm"); pw != nil && pw.Tcell != nil {
			c.curCfg = "wasm"
			c18SetSize(c, pw, "wScreen")
			c.curCfg = "linux"
		}
	}
	// R3
	dc := p.Fn("tcell:(*simscreen).drawCell")
	if dc == nil {
		c.Undecided("C18-R3", "(*simscreen).drawCell", "-", "not found")
		return
	}
	checkDirtyGate(c, p, dc, "C18-R3", isSimEmission, 2)
	encHost := transformHost(p, dc) // drawCell, or the helper it encodes the runes with
	checkEncodeDst(c, p, encHost, "C18-R4")
	checkHideCursor(c, p, "C18-R5", "simscreen")
	checkFallbackOwnership(c, p, "C18-R7", "simscreen")
	checkCursorEpilogue(c, p, "C18-R7", "simscreen")
	if inj := p.Fn("tcell:(*simscreen).InjectKeyBytes"); inj != nil {
		checkGenuineReplacementChar(c, p, inj, "C18-R6")
	} else {
		c.Undecided("C18-R6", "InjectKeyBytes", "-", "not found")
	}
	sa, foundAppend := encodedAppendAtoms(encHost)
	c.Check(foundAppend && sa["T#0 != 0"] && sa["out[0] != 26"], "C18-R4", "(*simscreen).drawCell:failure-predicate", p.pos(dc.Pos()),
		fmt.Sprintf("the encoded bytes are kept under %v (the terminfo screen falls back on zero length and on a SUB first byte; so must its test double)", sortedKeys(sa)))
	checkDrawCellWidth(c, p, dc, "C18-R3")
	checkResolvedStyle(c, p, dc, "C18-R3")
	checkCleanMarkCallers(c, p, "C18-R3")
	// wide rune in the last column: a ' ' store under x > physw-width
	okBlank := false
	eachInstr(dc, func(in ssa.Instruction) {
		if !isSimEmission(in) {
			return
		}
		for _, a := range guardsAt(in.Block()) {
			if strings.Contains(a.String(), "physw") && strings.Contains(a.String(), "-") && (a.Op == ">" || a.Op == "<") && strings.Contains(a.String(), "x") {
				okBlank = true
			}
		}
	})
	c.Check(okBlank, "C18-R3", "(*simscreen).drawCell:last-column-blank", p.pos(dc.Pos()), "a rune wider than the remaining columns is replaced by a blank")
	sy := p.Fn("tcell:(*simscreen).Sync")
	if sy != nil {
		draws := callsIn(sy, func(n string, _ *ssa.CallCommon) bool { return strings.HasSuffix(n, "simscreen).draw") })
		ok := len(draws) == 1
		if ok {
			inv, clr := false, false
			for _, i := range callsIn(sy, func(n string, _ *ssa.CallCommon) bool { return strings.HasSuffix(n, "CellBuffer).Invalidate") }) {
				if instrDominates(i, draws[0]) {
					inv = true
				}
			}
			for _, st := range storesTo(sy, "tcell.simscreen", "clear") {
				if v, isC := constBool(st.Val); isC && v && instrDominates(st, draws[0]) {
					clr = true
				}
			}
			ok = inv && clr
		}
		c.Check(ok, "C18-R3", "(*simscreen).Sync:clear+invalidate", p.pos(sy.Pos()), "clear = true and back.Invalidate() dominate draw()")
	} else {
		c.Undecided("C18-R3", "(*simscreen).Sync", "-", "not found")
	}
	sc := p.Fn("tcell:(*simscreen).showCursor")
	if sc != nil {
		ok := false
		// the coordinate tests may guard a store of true, or be the stored expression itself
		// (vis = x >= 0 && y >= 0 && x < w && y < h, or the negation of the off-screen test); the fields may
		// be grouped in a struct: what counts is four comparisons of the requested position
		// the requested position: the fields ShowCursor stores its two parameters into
		posFields := []string{"cursor", ".x", ".y"}
		if shc := p.Fn("tcell:(*simscreen).ShowCursor"); shc != nil && len(shc.Params) == 3 {
			eachInstr(shc, func(in ssa.Instruction) {
				if st, isSt := in.(*ssa.Store); isSt {
					if prm, isP := derefCell(st.Val).(*ssa.Parameter); isP && (prm == shc.Params[1] || prm == shc.Params[2]) {
						if ref, _, isF := fieldAddrRef(st.Addr); isF {
							posFields = append(posFields, "."+ref.Name)
						}
					}
				}
			})
		}
		countTests := func(gs []rawGuard) int {
			n := 0
			for _, g := range gs {
				if at, okA := condAtom(g.Cond, g.Positive); okA {
					as := at.String()
					pos := false
					for _, f := range posFields {
						if strings.Contains(as, f) {
							pos = true
						}
					}
					if pos && (at.Op == "<" || at.Op == ">=" || at.Op == ">" || at.Op == "<=") {
						n++
					}
				}
			}
			return n
		}
		eachInstr(sc, func(in ssa.Instruction) {
			st, isSt := in.(*ssa.Store)
			if !isSt {
				return
			}
			ref, _, okR := fieldAddrRef(st.Addr)
			if !okR || !(ref.Name == "cursorvis" || ref.Name == "visible") {
				return
			}
			if v, isC := constBool(st.Val); isC {
				if v && countTests(rawGuardsAt(st.Block())) >= 4 {
					ok = true
				}
				return
			}
			if countTests(expandCond(st.Val, true, 0)) >= 4 {
				ok = true
			}
			// the expression may be the answer of a small helper (`s.onScreen(s.cursorx, s.cursory)`): its
			// return expression, with the parameters printed as the arguments
			if call, isCall := st.Val.(*ssa.Call); isCall {
				if h := call.Call.StaticCallee(); h != nil && h.Pkg == sc.Pkg && len(h.Blocks) > 0 {
					if rets := returnsOf(h); len(rets) == 1 && len(rets[0].Results) == 1 {
						env := map[*ssa.Parameter]ssa.Value{}
						for i, pa := range h.Params {
							if i < len(call.Call.Args) {
								env[pa] = call.Call.Args[i]
							}
						}
						saved := valNameEnv
						valNameEnv = env
						n := countTests(expandCond(derefCell(resultOf(rets[0], 0)), true, 0))
						valNameEnv = saved
						if n >= 4 {
							ok = true
						}
					}
				}
			}
		})
		_ = storesTo
		c.Check(ok, "C18-R3", "(*simscreen).showCursor:four-bounds", p.pos(sc.Pos()), "cursor reported visible only inside all four bounds")
	}
}

func c18SetSize(c *Ctx, p *Prog, tname string) {
	fn := p.Fn("tcell:(*" + tname + ").SetSize")
	if fn == nil {
		c.Undecided("C18-R2", "(*"+tname+").SetSize", "-", "not found")
		return
	}
	// reachable functions
	reach := map[*ssa.Function]bool{}
	var walk func(f *ssa.Function)
	walk = func(f *ssa.Function) {
		if f == nil || reach[f] || f.Pkg != p.Tcell {
			return
		}
		reach[f] = true
		eachInstr(f, func(in ssa.Instruction) {
			if cc := callCommon(in); cc != nil {
				walk(staticCallee(cc))
			}
		})
	}
	walk(fn)
	posts := false
	var via string
	for f := range reach {
		makes, sends := false, false
		eachInstr(f, func(in ssa.Instruction) {
			switch x := in.(type) {
			case *ssa.Alloc:
				if strings.HasSuffix(typeName(x.Type()), "tcell.EventResize") {
					makes = true
				}
			case *ssa.Send:
				sends = true
			case *ssa.Select:
				sends = true
			}
			if cc := callCommon(in); cc != nil {
				n := calleeName(cc)
				if strings.HasSuffix(n, "NewEventResize") {
					makes = true
				}
				if strings.HasSuffix(n, ").postEvent") {
					sends = true
				}
			}
		})
		if makes && sends {
			posts = true
			via = f.Name()
		}
	}
	// a direct CellBuffer.Resize in SetSize pre-empts the size comparison in resize()
	preempt := ""
	usesCompare := false
	for f := range reach {
		if f.Name() == "resize" {
			usesCompare = true
		}
	}
	if usesCompare {
		for _, call := range callsIn(fn, func(n string, _ *ssa.CallCommon) bool { return strings.HasSuffix(n, "CellBuffer).Resize") }) {
			preempt = p.pos(call.Pos())
		}
	}
	if tname == "simscreen" {
		// the test double must not lose the event: no non-blocking send of it
		lossy := ""
		for f := range reach {
			eachInstr(f, func(in ssa.Instruction) {
				if sel, ok := in.(*ssa.Select); ok && !sel.Blocking {
					for _, st := range sel.States {
						if st.Dir == types.SendOnly {
							lossy = f.Name() + " sends without waiting at " + p.pos(in.Pos())
						}
					}
				}
			})
		}
		c.Check(lossy == "", "C18-R2", "(*simscreen).SetSize:event-not-dropped", p.pos(fn.Pos()), "the resize event is sent with a blocking send (a full queue delays it, it is not dropped) "+lossy)
	}
	c.Check(posts && (preempt == "" || !usesCompare), "C18-R2", "(*"+tname+").SetSize:announces", p.pos(fn.Pos()),
		fmt.Sprintf("resize event constructed and posted (in %q): %v; logical buffer resized directly before the comparison: %q", via, posts, preempt))
}

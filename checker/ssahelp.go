package main

import (
	"fmt"
	"go/constant"
	"go/token"
	"go/types"
	"sort"
	"strings"

	"golang.org/x/tools/go/ssa"
)

// ---- iteration ---------------------------------------------------------

func eachInstr(fn *ssa.Function, f func(ssa.Instruction)) {
	for _, b := range fn.Blocks {
		for _, in := range b.Instrs {
			f(in)
		}
	}
}

// withClosures returns fn and all anonymous functions nested in it.
func withClosures(fn *ssa.Function) []*ssa.Function {
	out := []*ssa.Function{fn}
	for _, a := range fn.AnonFuncs {
		out = append(out, withClosures(a)...)
	}
	return out
}

// deadBlock reports blocks that exist only for go/ssa's own bookkeeping:
// the synthetic recover block and the unreachable tail of a blocking select.
func deadBlock(b *ssa.BasicBlock) bool {
	if b == b.Parent().Recover {
		return true
	}
	if len(b.Instrs) > 0 {
		if p, ok := b.Instrs[len(b.Instrs)-1].(*ssa.Panic); ok {
			if c, ok := p.X.(*ssa.MakeInterface); ok {
				if k, ok := c.X.(*ssa.Const); ok && k.Value != nil && k.Value.Kind() == constant.String &&
					strings.Contains(constant.StringVal(k.Value), "blocking select matched no case") {
					return true
				}
			}
		}
	}
	return false
}

func instrIndex(in ssa.Instruction) int {
	for i, x := range in.Block().Instrs {
		if x == in {
			return i
		}
	}
	return -1
}

// ---- calls -------------------------------------------------------------

// callCommon returns the CallCommon of Call/Go/Defer instructions.
func callCommon(in ssa.Instruction) *ssa.CallCommon {
	switch c := in.(type) {
	case *ssa.Call:
		return &c.Call
	case *ssa.Go:
		return &c.Call
	case *ssa.Defer:
		return &c.Call
	}
	return nil
}

// staticCallee resolves a call to a concrete function, looking through
// closures bound at the call site and method values.
func staticCallee(cc *ssa.CallCommon) *ssa.Function {
	if cc == nil {
		return nil
	}
	if f := cc.StaticCallee(); f != nil {
		return f
	}
	if mc, ok := cc.Value.(*ssa.MakeClosure); ok {
		if f, ok := mc.Fn.(*ssa.Function); ok {
			return f
		}
	}
	return nil
}

// calleeName gives "pkgpath.(*T).m" style identity of a static callee or
// "invoke:Iface.m" for interface calls.
func calleeName(cc *ssa.CallCommon) string {
	if cc == nil {
		return ""
	}
	if cc.IsInvoke() {
		return "invoke:" + typeName(cc.Value.Type()) + "." + cc.Method.Name()
	}
	if f := staticCallee(cc); f != nil {
		return f.String()
	}
	if b, ok := cc.Value.(*ssa.Builtin); ok {
		return "builtin:" + b.Name()
	}
	return ""
}

func typeName(t types.Type) string {
	t = types.Unalias(t)
	if p, ok := t.(*types.Pointer); ok {
		return "*" + typeName(p.Elem())
	}
	if n, ok := t.(*types.Named); ok {
		if n.Obj().Pkg() != nil {
			return n.Obj().Pkg().Name() + "." + n.Obj().Name()
		}
		return n.Obj().Name()
	}
	return t.String()
}

// isMethod reports whether f is method `name` on (pointer to) named type tname of package pkgname.
func isMethod(f *ssa.Function, pkgname, tname, name string) bool {
	if f == nil || f.Signature.Recv() == nil || f.Name() != name {
		return false
	}
	return recvTypeName(f) == pkgname+"."+tname
}

func recvTypeName(f *ssa.Function) string {
	if f == nil || f.Signature.Recv() == nil {
		return ""
	}
	return strings.TrimPrefix(typeName(f.Signature.Recv().Type()), "*")
}

// isCallTo reports whether the instruction is a call (not go/defer unless any) whose
// callee identity equals name (as produced by calleeName).
func isCallTo(in ssa.Instruction, name string) bool {
	c, ok := in.(*ssa.Call)
	if !ok {
		return false
	}
	return calleeName(&c.Call) == name
}

// callsIn lists call instructions (incl. go/defer) in fn whose calleeName satisfies pred.
func callsIn(fn *ssa.Function, pred func(name string, cc *ssa.CallCommon) bool) []ssa.Instruction {
	var out []ssa.Instruction
	eachInstr(fn, func(in ssa.Instruction) {
		if cc := callCommon(in); cc != nil {
			if pred(calleeName(cc), cc) {
				out = append(out, in)
			}
		}
	})
	return out
}

func callsNamed(fn *ssa.Function, names ...string) []ssa.Instruction {
	set := map[string]bool{}
	for _, n := range names {
		set[n] = true
	}
	return callsIn(fn, func(n string, _ *ssa.CallCommon) bool { return set[n] })
}

// ---- fields ------------------------------------------------------------

// FieldRef identifies a struct field by owner type and name.
type FieldRef struct {
	Owner string // "tcell.tScreen"
	Name  string
}

func (f FieldRef) String() string { return f.Owner + "." + f.Name }

// fieldAddrRef decodes a FieldAddr value.
func fieldAddrRef(v ssa.Value) (FieldRef, ssa.Value, bool) {
	fa, ok := v.(*ssa.FieldAddr)
	if !ok {
		return FieldRef{}, nil, false
	}
	pt, ok := types.Unalias(fa.X.Type()).Underlying().(*types.Pointer)
	if !ok {
		return FieldRef{}, nil, false
	}
	st, ok := pt.Elem().Underlying().(*types.Struct)
	if !ok {
		return FieldRef{}, nil, false
	}
	owner := strings.TrimPrefix(typeName(pt.Elem()), "*")
	return FieldRef{Owner: owner, Name: canonField(owner, st.Field(fa.Field).Name())}, fa.X, true
}

// fieldValRef decodes a Field (value struct) access.
func fieldValRef(v ssa.Value) (FieldRef, ssa.Value, bool) {
	f, ok := v.(*ssa.Field)
	if !ok {
		return FieldRef{}, nil, false
	}
	st, ok := f.X.Type().Underlying().(*types.Struct)
	if !ok {
		return FieldRef{}, nil, false
	}
	return FieldRef{Owner: typeName(f.X.Type()), Name: canonField(typeName(f.X.Type()), st.Field(f.Field).Name())}, f.X, true
}

// loadedField: v is `*FieldAddr` (UnOp MUL) or a Field value; returns the field.
func loadedField(v ssa.Value) (FieldRef, ssa.Value, bool) {
	v = stripConv(v)
	if u, ok := v.(*ssa.UnOp); ok && u.Op == token.MUL {
		return fieldAddrRef(u.X)
	}
	return fieldValRef(v)
}

func stripConv(v ssa.Value) ssa.Value {
	for {
		switch x := v.(type) {
		case *ssa.Convert:
			v = x.X
		case *ssa.ChangeType:
			v = x.X
		default:
			return v
		}
	}
}

// derefCell looks through go/ssa's heap spill cells: for `t0 = new T (x); *t0 = x`
// with exactly one store in the allocating function and none elsewhere, a
// load `*t0` (in the function or in a closure through a FreeVar bound to t0)
// is the stored value.
func derefCell(v ssa.Value) ssa.Value {
	for i := 0; i < 8; i++ {
		u, ok := v.(*ssa.UnOp)
		if !ok || u.Op != token.MUL {
			return v
		}
		cell := u.X
		if fv, ok := cell.(*ssa.FreeVar); ok {
			cell = freeVarBinding(fv)
			if cell == nil {
				return v
			}
		}
		al, ok := cell.(*ssa.Alloc)
		if !ok {
			return v
		}
		st := soleStore(al)
		if st == nil {
			return v
		}
		v = st.Val
	}
	return v
}

func freeVarBinding(fv *ssa.FreeVar) ssa.Value {
	fn := fv.Parent()
	par := fn.Parent()
	if par == nil {
		return nil
	}
	idx := -1
	for i, f := range fn.FreeVars {
		if f == fv {
			idx = i
		}
	}
	if idx < 0 {
		return nil
	}
	var res ssa.Value
	n := 0
	eachInstr(par, func(in ssa.Instruction) {
		if mc, ok := in.(*ssa.MakeClosure); ok && mc.Fn == fn {
			res = mc.Bindings[idx]
			n++
		}
	})
	if n != 1 {
		return nil
	}
	return res
}

// soleStore returns the only Store to an Alloc anywhere (function and closures), else nil.
func soleStore(al *ssa.Alloc) *ssa.Store {
	var st *ssa.Store
	n := 0
	for _, f := range withClosures(al.Parent()) {
		eachInstr(f, func(in ssa.Instruction) {
			s, ok := in.(*ssa.Store)
			if !ok {
				return
			}
			a := s.Addr
			if fv, ok := a.(*ssa.FreeVar); ok {
				a = freeVarBinding(fv)
			}
			if a == ssa.Value(al) {
				st = s
				n++
			}
		})
	}
	if n == 1 {
		return st
	}
	return nil
}

// FieldAccess is one read or write of a struct field.
type FieldAccess struct {
	Field FieldRef
	Write bool
	Instr ssa.Instruction
	Base  ssa.Value // the pointer/struct the field was selected from
}

// fieldAccesses lists accesses to struct fields in fn (not closures):
// loads/stores through FieldAddr, map updates and element stores through a
// loaded field count as writes of that field ("content write").
func fieldAccesses(fn *ssa.Function) []FieldAccess {
	var out []FieldAccess
	addrUse := func(fa *ssa.FieldAddr, in ssa.Instruction, write bool) {
		ref, base, ok := fieldAddrRef(fa)
		if ok {
			out = append(out, FieldAccess{Field: ref, Write: write, Instr: in, Base: base})
		}
	}
	eachInstr(fn, func(in ssa.Instruction) {
		switch x := in.(type) {
		case *ssa.Store:
			if fa, ok := x.Addr.(*ssa.FieldAddr); ok {
				addrUse(fa, in, true)
			}
			// element store through slice held in a field: s[i] = v
			if ia, ok := x.Addr.(*ssa.IndexAddr); ok {
				if ref, base, ok := loadedField(ia.X); ok {
					out = append(out, FieldAccess{Field: ref, Write: true, Instr: in, Base: base})
				}
			}
		case *ssa.UnOp:
			if x.Op == token.MUL {
				if fa, ok := x.X.(*ssa.FieldAddr); ok {
					addrUse(fa, in, false)
				}
			}
		case *ssa.MapUpdate:
			if ref, base, ok := loadedField(x.Map); ok {
				out = append(out, FieldAccess{Field: ref, Write: true, Instr: in, Base: base})
			}
		case *ssa.Field:
			if ref, base, ok := fieldValRef(x); ok {
				out = append(out, FieldAccess{Field: ref, Write: false, Instr: in, Base: base})
			}
		case *ssa.Call:
			// delete(m, k) on a map held in a field
			if b, ok := x.Call.Value.(*ssa.Builtin); ok && b.Name() == "delete" && len(x.Call.Args) > 0 {
				if ref, base, ok := loadedField(x.Call.Args[0]); ok {
					out = append(out, FieldAccess{Field: ref, Write: true, Instr: in, Base: base})
				}
			}
		}
	})
	// address-taken fields passed to calls (e.g. &t.buf as io.Writer, t.cells.Method())
	eachInstr(fn, func(in ssa.Instruction) {
		cc := callCommon(in)
		if cc == nil {
			return
		}
		args := cc.Args
		for _, a := range args {
			a2 := a
			if mi, ok := a2.(*ssa.MakeInterface); ok {
				a2 = mi.X
			}
			if fa, ok := a2.(*ssa.FieldAddr); ok {
				ref, base, ok := fieldAddrRef(fa)
				if ok {
					out = append(out, FieldAccess{Field: ref, Write: true, Instr: in, Base: base})
				}
			}
		}
	})
	return out
}

// ---- constants ---------------------------------------------------------

func constInt(v ssa.Value) (int64, bool) {
	v = stripConv(v)
	c, ok := v.(*ssa.Const)
	if !ok || c.Value == nil {
		return 0, false
	}
	if c.Value.Kind() != constant.Int {
		return 0, false
	}
	i, ok := constant.Int64Val(c.Value)
	return i, ok
}

func constString(v ssa.Value) (string, bool) {
	c, ok := v.(*ssa.Const)
	if !ok || c.Value == nil || c.Value.Kind() != constant.String {
		return "", false
	}
	return constant.StringVal(c.Value), true
}

func constBool(v ssa.Value) (bool, bool) {
	c, ok := v.(*ssa.Const)
	if !ok || c.Value == nil || c.Value.Kind() != constant.Bool {
		return false, false
	}
	return constant.BoolVal(c.Value), true
}

func isNilConst(v ssa.Value) bool {
	c, ok := v.(*ssa.Const)
	return ok && c.Value == nil
}

// ---- dominance & paths ------------------------------------------------

// instrDominates: a executes before b on every path reaching b.
func instrDominates(a, b ssa.Instruction) bool {
	if a.Block() == b.Block() {
		return instrIndex(a) < instrIndex(b)
	}
	return a.Block().Dominates(b.Block())
}

// edgeDominates: every path from entry to block x passes the edge from->from.Succs[idx].
func edgeDominates(from *ssa.BasicBlock, idx int, x *ssa.BasicBlock) bool {
	s := from.Succs[idx]
	if !s.Dominates(x) {
		return false
	}
	// all other predecessors of s must be dominated by s (back edges)
	for _, p := range s.Preds {
		if p == from {
			// the other edge of `from` could also lead to s
			if len(from.Succs) == 2 && from.Succs[0] == from.Succs[1] {
				return false
			}
			continue
		}
		if !s.Dominates(p) {
			return false
		}
	}
	return true
}

// reachableFrom returns the set of blocks reachable from the point after
// instruction `in` (the rest of its block is handled by the caller via index).
func blocksReachableFrom(b *ssa.BasicBlock) map[*ssa.BasicBlock]bool {
	seen := map[*ssa.BasicBlock]bool{}
	var walk func(*ssa.BasicBlock)
	walk = func(x *ssa.BasicBlock) {
		if seen[x] || deadBlock(x) {
			return
		}
		seen[x] = true
		for _, s := range x.Succs {
			walk(s)
		}
	}
	for _, s := range b.Succs {
		walk(s)
	}
	return seen
}

// reachableAfter: can instruction b execute after instruction a (same function)?
func reachableAfter(a, b ssa.Instruction) bool {
	if a.Block() == b.Block() && instrIndex(a) < instrIndex(b) {
		return true
	}
	return blocksReachableFrom(a.Block())[b.Block()]
}

// Facts is a small bitset for must-dataflow.
type Facts uint64

// mustFlow computes, for each block, the set of facts that hold at block
// entry on every path from the function entry. instrT transfers a fact set
// across an instruction, edgeT across a CFG edge (from, successor index).
func mustFlow(fn *ssa.Function, entry Facts, instrT func(ssa.Instruction, Facts) Facts,
	edgeT func(from *ssa.BasicBlock, succIdx int, f Facts) Facts) map[*ssa.BasicBlock]Facts {
	const top = ^Facts(0)
	in := map[*ssa.BasicBlock]Facts{}
	for _, b := range fn.Blocks {
		in[b] = top
	}
	if len(fn.Blocks) == 0 {
		return in
	}
	in[fn.Blocks[0]] = entry
	changed := true
	for changed {
		changed = false
		for _, b := range fn.Blocks {
			if deadBlock(b) {
				continue
			}
			f := in[b]
			if f == top && b != fn.Blocks[0] {
				// not yet reached
				reached := false
				for _, p := range b.Preds {
					if in[p] != top || p == fn.Blocks[0] {
						reached = true
					}
				}
				if !reached {
					continue
				}
			}
			for _, ins := range b.Instrs {
				if instrT != nil {
					f = instrT(ins, f)
				}
			}
			for i, s := range b.Succs {
				out := f
				if edgeT != nil {
					out = edgeT(b, i, out)
				}
				var nw Facts
				if in[s] == top {
					nw = out
				} else {
					nw = in[s] & out
				}
				if s == fn.Blocks[0] {
					nw &= entry
				}
				if nw != in[s] {
					in[s] = nw
					changed = true
				}
			}
		}
	}
	return in
}

// factsAt gives the facts holding just before instruction `at`.
func factsAt(in map[*ssa.BasicBlock]Facts, at ssa.Instruction, instrT func(ssa.Instruction, Facts) Facts) Facts {
	f := in[at.Block()]
	for _, ins := range at.Block().Instrs {
		if ins == at {
			break
		}
		if instrT != nil {
			f = instrT(ins, f)
		}
	}
	return f
}

// returnsOf lists the Return instructions of fn (ignoring the recover block).
func returnsOf(fn *ssa.Function) []*ssa.Return {
	var out []*ssa.Return
	for _, b := range fn.Blocks {
		if deadBlock(b) {
			continue
		}
		if len(b.Instrs) == 0 {
			continue
		}
		if r, ok := b.Instrs[len(b.Instrs)-1].(*ssa.Return); ok {
			out = append(out, r)
		}
	}
	return out
}

// ---- conditions --------------------------------------------------------

// Atom is a normalised comparison `L op R` over printable operand names.
type Atom struct {
	L, Op, R string
}

func (a Atom) String() string { return a.L + " " + a.Op + " " + a.R }

func negOp(op string) string {
	switch op {
	case "==":
		return "!="
	case "!=":
		return "=="
	case "<":
		return ">="
	case ">=":
		return "<"
	case ">":
		return "<="
	case "<=":
		return ">"
	}
	return "!" + op
}

func swapOp(op string) string {
	switch op {
	case "<":
		return ">"
	case ">":
		return "<"
	case "<=":
		return ">="
	case ">=":
		return "<="
	}
	return op
}

// valNameEnv, when set, binds the parameters of a helper to the arguments of one call of it: values
// inside the helper then print as they would if its body stood at the call (see helperAtoms).
var valNameEnv map[*ssa.Parameter]ssa.Value

// valName prints an SSA value as a short expression over params, fields and constants.
func valName(v ssa.Value) string {
	return valNameD(v, 0)
}

func valNameD(v ssa.Value, d int) string {
	if d > 6 {
		return "?"
	}
	v = derefCell(v)
	switch x := v.(type) {
	case *ssa.Const:
		if x.Value == nil {
			return "nil"
		}
		if x.Value.Kind() == constant.String {
			return "\"" + constant.StringVal(x.Value) + "\""
		}
		return x.Value.ExactString()
	case *ssa.Parameter:
		if a, bound := valNameEnv[x]; bound {
			// a helper's parameter, printed as the argument of the call under expansion
			saved := valNameEnv
			valNameEnv = nil
			s := valNameD(a, d+1)
			valNameEnv = saved
			return s
		}
		return x.Name()
	case *ssa.FreeVar:
		return x.Name()
	case *ssa.Global:
		return x.Name()
	case *ssa.Convert:
		return valNameD(x.X, d+1)
	case *ssa.ChangeType:
		return valNameD(x.X, d+1)
	case *ssa.UnOp:
		if x.Op == token.MUL {
			if ref, base, ok := fieldAddrRef(x.X); ok {
				return valNameD(base, d+1) + "." + ref.Name
			}
			if ia, ok := x.X.(*ssa.IndexAddr); ok {
				return valNameD(ia.X, d+1) + "[" + valNameD(ia.Index, d+1) + "]"
			}
			if g, ok := x.X.(*ssa.Global); ok {
				return g.Name()
			}
			return "*" + valNameD(x.X, d+1)
		}
		return x.Op.String() + valNameD(x.X, d+1)
	case *ssa.FieldAddr:
		ref, base, _ := fieldAddrRef(x)
		return "&" + valNameD(base, d+1) + "." + ref.Name
	case *ssa.Field:
		ref, base, _ := fieldValRef(x)
		return valNameD(base, d+1) + "." + ref.Name
	case *ssa.BinOp:
		return "(" + valNameD(x.X, d+1) + x.Op.String() + valNameD(x.Y, d+1) + ")"
	case *ssa.Call:
		n := calleeName(&x.Call)
		if i := strings.LastIndex(n, "/"); i >= 0 {
			n = n[i+1:]
		}
		args := []string{}
		if x.Call.IsInvoke() {
			args = append(args, valNameD(x.Call.Value, d+1))
		}
		for _, a := range x.Call.Args {
			args = append(args, valNameD(a, d+1))
		}
		if _, isBuiltin := x.Call.Value.(*ssa.Builtin); isBuiltin {
			return n[len("builtin:"):] + "(" + strings.Join(args, ",") + ")"
		}
		// two calls of the same function are different values: keep them apart
		return n + "(" + strings.Join(args, ",") + ")@" + x.Name()
	case *ssa.Extract:
		return valNameD(x.Tuple, d+1) + "#" + string(rune('0'+x.Index))
	case *ssa.Lookup:
		return valNameD(x.X, d+1) + "[" + valNameD(x.Index, d+1) + "]"
	case *ssa.Index:
		return valNameD(x.X, d+1) + "[" + valNameD(x.Index, d+1) + "]"
	case *ssa.IndexAddr:
		return "&" + valNameD(x.X, d+1) + "[" + valNameD(x.Index, d+1) + "]"
	case *ssa.Phi:
		if x.Comment != "" {
			return x.Comment
		}
		return "phi"
	case *ssa.Alloc:
		return "&" + x.Comment
	case *ssa.Slice:
		s := valNameD(x.X, d+1) + "["
		if x.Low != nil {
			s += valNameD(x.Low, d+1)
		}
		s += ":"
		if x.High != nil {
			s += valNameD(x.High, d+1)
		}
		return s + "]"
	case *ssa.MakeInterface:
		return valNameD(x.X, d+1)
	case *ssa.TypeAssert:
		return valNameD(x.X, d+1) + ".(" + typeName(x.AssertedType) + ")"
	}
	return v.Name()
}

// condAtom normalises a boolean SSA value that is a comparison into an Atom
// (with polarity applied). ok=false if it is not a simple comparison.
func condAtom(v ssa.Value, positive bool) (Atom, bool) {
	switch x := v.(type) {
	case *ssa.BinOp:
		op := x.Op.String()
		switch op {
		case "==", "!=", "<", "<=", ">", ">=":
			a := Atom{valName(x.X), op, valName(x.Y)}
			if !positive {
				a.Op = negOp(a.Op)
			}
			return a, true
		}
	case *ssa.UnOp:
		if x.Op == token.NOT {
			return condAtom(x.X, !positive)
		}
	}
	a := Atom{valName(v), "==", "true"}
	if !positive {
		a.R = "false"
	}
	return a, true
}

// canon puts an atom into a canonical orientation: constants on the right,
// and `>`/`>=` rewritten so comparisons with equal meaning print equally.
func (a Atom) canon() Atom {
	isConst := func(s string) bool {
		if s == "" {
			return false
		}
		c := s[0]
		return (c >= '0' && c <= '9') || c == '-' || c == '"' || s == "nil" || s == "true" || s == "false"
	}
	if isConst(a.L) && !isConst(a.R) {
		a.L, a.R = a.R, a.L
		a.Op = swapOp(a.Op)
	} else if !isConst(a.L) && !isConst(a.R) && a.L > a.R {
		a.L, a.R = a.R, a.L
		a.Op = swapOp(a.Op)
	}
	return a
}

// guardsAt returns the set of atoms known to hold whenever block b executes,
// from dominating If edges (conjunctive information only).
func guardsAt(b *ssa.BasicBlock) []Atom {
	var out []Atom
	fn := b.Parent()
	for _, a := range fn.Blocks {
		if len(a.Instrs) == 0 {
			continue
		}
		iff, ok := a.Instrs[len(a.Instrs)-1].(*ssa.If)
		if !ok {
			continue
		}
		for idx := 0; idx < 2; idx++ {
			if edgeDominates(a, idx, b) {
				for _, g := range expandCond(iff.Cond, idx == 0, 0) {
					// the helper's answer, and what it stands for
					out = append(out, helperAtoms(g)...)
					if at, ok := condAtom(g.Cond, g.Positive); ok {
						out = append(out, at.canon())
					}
				}
			}
		}
	}
	out = resolveDisjunctions(b, out)
	sort.Slice(out, func(i, j int) bool { return out[i].String() < out[j].String() })
	return out
}

// resolveDisjunctions: a block reached from several branch edges knows the disjunction of their
// conditions (`else if a && b { … } else if a { HERE }`: HERE is entered from "not a" or "not b"); when
// what is already known contradicts all alternatives but one, that one holds (unit resolution:
// a, ¬a ∨ ¬b ⊢ ¬b).  Conditions are compared as comparisons of the *same SSA values* (a variable
// assigned in between is another value, whatever it is called).  Applied to the dominators of b with
// two or more predecessors, to a fixpoint.
func resolveDisjunctions(b *ssa.BasicBlock, known []Atom) []Atom {
	return resolveDisjunctionsWith(b, known, nil)
}

// resolveDisjunctionsWith: the same, knowing in addition the conditions of the edge being left through.
func resolveDisjunctionsWith(b *ssa.BasicBlock, known []Atom, extra []rawGuard) []Atom {
	raw := append(append([]rawGuard{}, rawGuardsAt(b)...), extra...)
	type cmp struct {
		x, y ssa.Value
		op   token.Token
	}
	norm := func(g rawGuard) (cmp, bool) {
		cond, pos := g.Cond, g.Positive
		for {
			u, ok := cond.(*ssa.UnOp)
			if !ok || u.Op != token.NOT {
				break
			}
			cond, pos = u.X, !pos
		}
		bo, ok := cond.(*ssa.BinOp)
		if !ok {
			return cmp{}, false
		}
		op := bo.Op
		switch op {
		case token.EQL, token.NEQ, token.LSS, token.LEQ, token.GTR, token.GEQ:
		default:
			return cmp{}, false
		}
		if !pos {
			op = negTok(op)
		}
		return cmp{bo.X, bo.Y, op}, true
	}
	same := func(v, w ssa.Value) bool {
		if v == w {
			return true
		}
		kv, okv := v.(*ssa.Const)
		kw, okw := w.(*ssa.Const)
		return okv && okw && kv.Value != nil && kw.Value != nil && kv.Value.ExactString() == kw.Value.ExactString()
	}
	contradicts := func(a, k cmp) bool { // k known, a alternative: k implies not a
		if !same(a.x, k.x) || !same(a.y, k.y) {
			return false
		}
		return k.op == negTok(a.op)
	}
	var knownC []cmp
	for _, g := range raw {
		if c, ok := norm(g); ok {
			knownC = append(knownC, c)
		}
	}
	for round := 0; round < 3; round++ {
		added := false
		for d := b; d != nil; d = d.Idom() {
			if len(d.Preds) < 2 {
				continue
			}
			type alt struct {
				c  cmp
				at Atom
			}
			var alts []alt
			okAll := true
			for _, pr := range d.Preds {
				if d.Dominates(pr) || len(pr.Instrs) == 0 {
					okAll = false // a back edge: not an alternative way in
					break
				}
				iff, isIf := pr.Instrs[len(pr.Instrs)-1].(*ssa.If)
				if !isIf || pr.Succs[0] == pr.Succs[1] {
					okAll = false
					break
				}
				g := rawGuard{iff.Cond, pr.Succs[0] == d}
				c, ok := norm(g)
				at, okA := condAtom(g.Cond, g.Positive)
				if !ok || !okA {
					okAll = false
					break
				}
				alts = append(alts, alt{c, at.canon()})
			}
			if !okAll {
				continue
			}
			var alive []alt
			for _, a := range alts {
				dead := false
				for _, k := range knownC {
					if contradicts(a.c, k) {
						dead = true
					}
				}
				if !dead {
					alive = append(alive, a)
				}
			}
			if len(alive) == 1 {
				dup := false
				for _, k := range knownC {
					if same(k.x, alive[0].c.x) && same(k.y, alive[0].c.y) && k.op == alive[0].c.op {
						dup = true
					}
				}
				if !dup {
					knownC = append(knownC, alive[0].c)
					known = append(known, alive[0].at)
					added = true
				}
			}
		}
		if !added {
			break
		}
	}
	return known
}

// helperAtoms: when a branch condition is the answer of a small boolean helper of the module
// (`if cb.inRange(x, y)`, `if !t.inPalette(c)`), the comparisons that answer stands for — those of the
// helper's single return expression, or those leading to its only return of that answer — printed with
// the helper's parameters replaced by the arguments, i.e. as if the test were written in place.
func helperAtoms(g rawGuard) []Atom {
	call, ok := g.Cond.(*ssa.Call)
	if !ok || call.Parent() == nil {
		return nil
	}
	h := call.Call.StaticCallee()
	if h == nil || h.Pkg != call.Parent().Pkg || len(h.Blocks) == 0 || h == call.Parent() {
		return nil
	}
	res := h.Signature.Results()
	if res.Len() != 1 {
		return nil
	}
	if bt, isB := res.At(0).Type().Underlying().(*types.Basic); !isB || bt.Kind() != types.Bool {
		return nil
	}
	var inner []rawGuard
	rets := returnsOf(h)
	if len(rets) == 1 {
		inner = append(inner, expandCond(derefCell(resultOf(rets[0], 0)), g.Positive, 1)...)
	} else {
		var match []*ssa.Return
		for _, r := range rets {
			if v, isC := constBool(derefCell(resultOf(r, 0))); !isC || v == g.Positive {
				match = append(match, r)
			}
		}
		if len(match) != 1 {
			return nil
		}
		inner = rawGuardsAtDepth(match[0].Block(), 1)
		if _, isC := constBool(derefCell(resultOf(match[0], 0))); !isC {
			inner = append(inner, expandCond(derefCell(resultOf(match[0], 0)), g.Positive, 1)...)
		}
	}
	env := map[*ssa.Parameter]ssa.Value{}
	for i, pa := range h.Params {
		if i < len(call.Call.Args) {
			env[pa] = call.Call.Args[i]
		}
	}
	var out []Atom
	saved := valNameEnv
	valNameEnv = env
	for _, ig := range inner {
		switch ig.Cond.(type) {
		case *ssa.Call, *ssa.Phi, *ssa.Parameter, *ssa.Const:
			continue // not a comparison: says nothing by itself
		}
		if at, ok := condAtom(ig.Cond, ig.Positive); ok {
			out = append(out, at.canon())
		}
	}
	valNameEnv = saved
	return out
}

// expandCond looks through the value form of short-circuit expressions.  In `if a && b` go/ssa emits two
// branches, but in `switch { case a && b: }`, `x := a && b; if x` and `return a && b` the conjunction is a
// phi ("&&": false from the block where a failed, b from the block reached when a held).  Knowing that
// such a phi is true means the b-edge was taken: both b and everything that guards the b-block hold.
// Dually for "||" known to be false.  The result always contains the condition itself.
func expandCond(cond ssa.Value, positive bool, depth int) []rawGuard {
	out := []rawGuard{{cond, positive}}
	if depth > 4 {
		return out
	}
	switch x := cond.(type) {
	case *ssa.UnOp:
		if x.Op == token.NOT {
			return append(out, expandCond(x.X, !positive, depth+1)...)
		}
	case *ssa.Phi:
		if x.Comment != "&&" && x.Comment != "||" {
			return out
		}
		// the constant edges are the short-circuit exits
		var rest []int
		for i, e := range x.Edges {
			if v, isC := constBool(e); isC && v == (x.Comment == "||") {
				continue
			}
			rest = append(rest, i)
		}
		if (x.Comment == "&&") != positive || len(rest) != 1 {
			return out
		}
		i := rest[0]
		pred := x.Block().Preds[i]
		out = append(out, expandCond(x.Edges[i], positive, depth+1)...)
		for _, g := range rawGuardsAtDepth(pred, depth+1) {
			out = append(out, g)
		}
	}
	return out
}

// rawGuard is a dominating branch condition with its polarity.
type rawGuard struct {
	Cond     ssa.Value
	Positive bool
}

// rawGuardsAt returns the branch conditions (as SSA values) known to hold in block b.
func rawGuardsAt(b *ssa.BasicBlock) []rawGuard { return rawGuardsAtDepth(b, 0) }

func rawGuardsAtDepth(b *ssa.BasicBlock, depth int) []rawGuard {
	var out []rawGuard
	for _, a := range b.Parent().Blocks {
		if len(a.Instrs) == 0 {
			continue
		}
		iff, ok := a.Instrs[len(a.Instrs)-1].(*ssa.If)
		if !ok {
			continue
		}
		for idx := 0; idx < 2; idx++ {
			if edgeDominates(a, idx, b) {
				out = append(out, expandCond(iff.Cond, idx == 0, depth)...)
			}
		}
	}
	return out
}

func hasAtom(as []Atom, want Atom) bool {
	want = want.canon()
	for _, a := range as {
		if a == want {
			return true
		}
	}
	return false
}

// ---- misc --------------------------------------------------------------

func sortedKeys[M ~map[string]V, V any](m M) []string {
	out := make([]string, 0, len(m))
	for k := range m {
		out = append(out, k)
	}
	sort.Strings(out)
	return out
}

// referrers returns the referrers of v (nil-safe).
func referrers(v ssa.Value) []ssa.Instruction {
	r := v.Referrers()
	if r == nil {
		return nil
	}
	return *r
}

// guardsOnEdge: atoms known when control flows from pred to succ (pred's
// dominating guards plus pred's own terminating condition with the edge's polarity).
func guardsOnEdge(pred, succ *ssa.BasicBlock) []Atom {
	out := append([]Atom{}, guardsAt(pred)...)
	if len(pred.Instrs) > 0 {
		if iff, ok := pred.Instrs[len(pred.Instrs)-1].(*ssa.If); ok && pred.Succs[0] != pred.Succs[1] {
			for idx := 0; idx < 2; idx++ {
				if pred.Succs[idx] == succ {
					edge := expandCond(iff.Cond, idx == 0, 0)
					for _, g := range edge {
						if at, ok := condAtom(g.Cond, g.Positive); ok {
							out = append(out, at.canon())
						}
						out = append(out, helperAtoms(g)...)
					}
					// what the edge's own condition settles among the ways into pred and its dominators
					out = resolveDisjunctionsWith(pred, out, edge)
				}
			}
		}
	}
	return out
}

// guardAlternativesOnEdge: what is known when control passes from pred to succ, one set per way of
// getting there: when pred is a join of forward edges that does nothing but pass control on (the
// shared body of `if a || (b && c) { … }`), each way into it is considered on its own, so that a fact
// that holds on every way in for a different reason on each is still seen.
func guardAlternativesOnEdge(pred, succ *ssa.BasicBlock) [][]Atom {
	base := guardsOnEdge(pred, succ)
	if len(pred.Preds) < 2 {
		return [][]Atom{base}
	}
	for _, pp := range pred.Preds {
		if pred.Dominates(pp) {
			return [][]Atom{base}
		}
	}
	var out [][]Atom
	for _, pp := range pred.Preds {
		out = append(out, append(append([]Atom{}, base...), guardsOnEdge(pp, pred)...))
	}
	return out
}

// storesTo lists Store instructions in fn whose address is field `name` of a struct type `owner`.
func storesTo(fn *ssa.Function, owner, name string) []*ssa.Store {
	var out []*ssa.Store
	eachInstr(fn, func(in ssa.Instruction) {
		if st, ok := in.(*ssa.Store); ok {
			if ref, _, ok := fieldAddrRef(st.Addr); ok && ref.Owner == owner && ref.Name == name {
				out = append(out, st)
			}
		}
	})
	return out
}

// loadsOf lists loads of field `name` of struct `owner` in fn.
func loadsOf(fn *ssa.Function, owner, name string) []*ssa.UnOp {
	var out []*ssa.UnOp
	eachInstr(fn, func(in ssa.Instruction) {
		if u, ok := in.(*ssa.UnOp); ok && u.Op == token.MUL {
			if ref, _, ok := fieldAddrRef(u.X); ok && ref.Owner == owner && ref.Name == name {
				out = append(out, u)
			}
		}
	})
	return out
}

// isInduction: v is a loop variable phi(c, v+k) with c >= 0, k > 0 (so v >= 0).
func isInductionFromNonNeg(v ssa.Value) bool {
	phi, ok := v.(*ssa.Phi)
	if !ok {
		return false
	}
	// a value that is the loop variable itself or the loop variable plus something non-negative
	var atLeastPhi func(e ssa.Value, d int) bool
	nonNegStep := func(bo *ssa.BinOp, y ssa.Value) bool {
		if k, ok := constInt(y); ok {
			return k >= 0
		}
		for _, a := range guardsAt(bo.Block()) {
			if a.L == valName(y) && ((a.Op == ">=" && (a.R == "0" || a.R == "1")) || (a.Op == ">" && (a.R == "0" || a.R == "-1"))) {
				return true
			}
		}
		// a phi whose every edge is a non-negative constant or a value known non-negative on that edge
		if ph, isPhi := y.(*ssa.Phi); isPhi {
			implies := func(a Atom, name string) bool {
				if a.L != name {
					return false
				}
				switch a.Op {
				case ">=":
					return a.R == "0" || a.R == "1"
				case ">":
					return a.R == "0" || a.R == "1" || a.R == "-1"
				}
				return false
			}
			all := len(ph.Edges) > 0
			for i, e := range ph.Edges {
				if kk, isKK := constInt(e); isKK && kk >= 0 {
					continue
				}
				okEdge := false
				pred := ph.Block().Preds[i]
				for _, a := range guardsAt(pred) {
					if implies(a, valName(e)) {
						okEdge = true
					}
				}
				if !okEdge && len(pred.Instrs) > 0 {
					if iff, isIf := pred.Instrs[len(pred.Instrs)-1].(*ssa.If); isIf {
						for _, g := range expandCond(iff.Cond, pred.Succs[0] == ph.Block(), 0) {
							if at, okA := condAtom(g.Cond, g.Positive); okA && implies(at.canon(), valName(e)) {
								okEdge = true
							}
						}
					}
				}
				if !okEdge {
					all = false
				}
			}
			if all {
				return true
			}
		}
		// w - 1 where w is known to be at least 1, or a phi of such values and positive constants
		if sub, ok := y.(*ssa.BinOp); ok && sub.Op == token.SUB {
			if k, isK := constInt(sub.Y); isK && k <= 1 {
				if ph, isPhi := sub.X.(*ssa.Phi); isPhi {
					all := true
					for i, e := range ph.Edges {
						if kk, isKK := constInt(e); isKK && kk >= k {
							continue
						}
						// known to be at least k on that edge (from the guards of the predecessor and the
						// edge's own test, e.g. the false edge of `e < 1`)
						okEdge := atomLowerBound(guardsOnEdge(ph.Block().Preds[i], ph.Block()), valName(e)) >= k
						if !okEdge {
							all = false
						}
					}
					return all
				}
			}
		}
		return false
	}
	atLeastPhi = func(e ssa.Value, d int) bool {
		if d > 5 {
			return false
		}
		if e == ssa.Value(phi) {
			return true
		}
		switch x := e.(type) {
		case *ssa.BinOp:
			if x.Op == token.ADD {
				return (atLeastPhi(x.X, d+1) && nonNegStep(x, x.Y)) || (atLeastPhi(x.Y, d+1) && nonNegStep(x, x.X))
			}
		case *ssa.Phi:
			for _, e2 := range x.Edges {
				if !atLeastPhi(e2, d+1) {
					return false
				}
			}
			return len(x.Edges) > 0
		}
		return false
	}
	hasInit, hasStep := false, false
	for _, e := range phi.Edges {
		if k, ok := constInt(e); ok && k >= 0 {
			hasInit = true
			continue
		}
		if e != ssa.Value(phi) && atLeastPhi(e, 0) {
			hasStep = true
			continue
		}
		return false
	}
	return hasInit && hasStep
}

func typesPointer(t types.Type) types.Type { return types.NewPointer(t) }

// constObjInt returns the integer value of a constant object (or a large negative sentinel).
func constObjInt(o types.Object) int64 {
	k, ok := o.(*types.Const)
	if !ok {
		return -1 << 40
	}
	v, ok := constant.Int64Val(k.Val())
	if !ok {
		return -1 << 40
	}
	return v
}

// resultOf resolves the i-th result of a return, looking through the local
// cell go/ssa introduces for results of functions with defers
// (`*t0 = v; rundefers; t = *t0; return t`).
func resultOf(r *ssa.Return, i int) ssa.Value {
	v := r.Results[i]
	u, ok := v.(*ssa.UnOp)
	if !ok || u.Op != token.MUL {
		return v
	}
	al, ok := u.X.(*ssa.Alloc)
	if !ok {
		return v
	}
	var last ssa.Value
	for _, in := range r.Block().Instrs {
		if in == ssa.Instruction(u) {
			break
		}
		if st, ok := in.(*ssa.Store); ok && st.Addr == ssa.Value(al) {
			last = st.Val
		}
	}
	if last != nil {
		return last
	}
	return v
}

// loopStepLowerBound: for a loop variable (phi in header h of the loop body), a lower bound of
// (value on the back edge) - (value of the phi), over every way round the loop.  Bounds of the addends
// come from constants, from guards that hold where the addition happens, and edge by edge for phis.
func loopStepLowerBound(phi *ssa.Phi, h *ssa.BasicBlock, body map[*ssa.BasicBlock]bool) (int64, bool) {
	const negInf = int64(-1 << 40)
	boundFromAtoms := func(as []Atom, name string) int64 {
		best := negInf
		for _, a := range as {
			if a.L != name {
				continue
			}
			var k int64
			if _, err := fmt.Sscanf(a.R, "%d", &k); err != nil {
				continue
			}
			switch a.Op {
			case ">=":
				if k > best {
					best = k
				}
			case ">":
				if k+1 > best {
					best = k + 1
				}
			case "==":
				if k > best {
					best = k
				}
			}
		}
		return best
	}
	var lbVal func(v ssa.Value, at *ssa.BasicBlock, d int) int64
	lbVal = func(v ssa.Value, at *ssa.BasicBlock, d int) int64 {
		if d > 6 {
			return negInf
		}
		if k, ok := constInt(v); ok {
			return k
		}
		best := boundFromAtoms(guardsAt(at), valName(v))
		switch x := v.(type) {
		case *ssa.BinOp:
			switch x.Op {
			case token.SUB:
				if k, ok := constInt(x.Y); ok {
					if l := lbVal(x.X, at, d+1); l > negInf && l-k > best {
						best = l - k
					}
				}
			case token.ADD:
				l1, l2 := lbVal(x.X, at, d+1), lbVal(x.Y, at, d+1)
				if l1 > negInf && l2 > negInf && l1+l2 > best {
					best = l1 + l2
				}
			}
		case *ssa.Phi:
			if x == phi {
				break
			}
			worst := int64(1 << 40)
			for i, e := range x.Edges {
				pred := x.Block().Preds[i]
				l := lbVal(e, pred, d+1)
				// the edge's own condition
				if len(pred.Instrs) > 0 {
					if iff, isIf := pred.Instrs[len(pred.Instrs)-1].(*ssa.If); isIf {
						var as []Atom
						for _, g := range expandCond(iff.Cond, pred.Succs[0] == x.Block(), 0) {
							if at2, okA := condAtom(g.Cond, g.Positive); okA {
								as = append(as, at2.canon())
							}
						}
						if b2 := boundFromAtoms(as, valName(e)); b2 > l {
							l = b2
						}
					}
				}
				if l < worst {
					worst = l
				}
			}
			if len(x.Edges) > 0 && worst > best {
				best = worst
			}
		}
		return best
	}
	// delta(v): lower bound of v - phi
	var delta func(v ssa.Value, d int) int64
	delta = func(v ssa.Value, d int) int64 {
		if d > 8 {
			return negInf
		}
		if v == ssa.Value(phi) {
			return 0
		}
		switch x := v.(type) {
		case *ssa.BinOp:
			if x.Op == token.ADD {
				best := negInf
				if dx := delta(x.X, d+1); dx > negInf {
					if l := lbVal(x.Y, x.Block(), 0); l > negInf {
						best = dx + l
					}
				}
				if dy := delta(x.Y, d+1); dy > negInf {
					if l := lbVal(x.X, x.Block(), 0); l > negInf && dy+l > best {
						best = dy + l
					}
				}
				return best
			}
			if x.Op == token.SUB {
				if k, ok := constInt(x.Y); ok {
					if dx := delta(x.X, d+1); dx > negInf {
						return dx - k
					}
				}
			}
		case *ssa.Phi:
			worst := int64(1 << 40)
			for _, e := range x.Edges {
				if l := delta(e, d+1); l < worst {
					worst = l
				}
			}
			if len(x.Edges) > 0 {
				return worst
			}
		}
		return negInf
	}
	worst := int64(1 << 40)
	n := 0
	for i, e := range phi.Edges {
		if !body[h.Preds[i]] {
			continue
		}
		n++
		if l := delta(e, 0); l < worst {
			worst = l
		}
	}
	if n == 0 || worst <= negInf {
		return 0, false
	}
	return worst, true
}

// atomLowerBound: the best constant lower bound the atoms give for the value printed as name
// (-1<<40 when none).
func atomLowerBound(as []Atom, name string) int64 {
	best := int64(-1 << 40)
	for _, a := range as {
		if a.L != name {
			continue
		}
		var k int64
		if _, err := fmt.Sscanf(a.R, "%d", &k); err != nil {
			continue
		}
		switch a.Op {
		case ">=", "==":
			if k > best {
				best = k
			}
		case ">":
			if k+1 > best {
				best = k + 1
			}
		}
	}
	return best
}

// isExpandedHelperAtom: the atom is the answer of a small boolean helper of the module whose meaning
// guardsAt has added next to it (see helperAtoms): rules that list the conditions something depends on
// look at the meaning, not at the call.
func isExpandedHelperAtom(p *Prog, a Atom) bool {
	i := strings.Index(a.L, "(")
	if i <= 0 || !strings.Contains(a.L, ")@") || (a.R != "true" && a.R != "false") {
		return false
	}
	name := a.L[:i]
	if j := strings.LastIndexAny(name, ".)"); j >= 0 {
		name = name[j+1:]
	}
	for _, fn := range p.modFns {
		if fn.Name() != name || fn.Parent() != nil {
			continue
		}
		res := fn.Signature.Results()
		if res.Len() != 1 {
			continue
		}
		if bt, ok := res.At(0).Type().Underlying().(*types.Basic); ok && bt.Kind() == types.Bool {
			return true
		}
	}
	return false
}

// ---- calls through a local closure that is handed the function to call -----------------------------

// vcall: outer calls the local closure at site and hands it callee (a method value or a function);
// inside the closure the dynamic call inner invokes it.  `try(t.parseRune)` with
// `try := func(parse func(...) ...) bool { part, comp := parse(buf, &res) … }` is, for every analysis
// that asks "who calls parseRune, where, under which conditions", a call of parseRune at site.
type vcall struct {
	site   ssa.Instruction
	inner  ssa.Instruction
	via    *ssa.Function
	callee *ssa.Function
}

var vcallCache = map[*ssa.Function][]vcall{}

func closureDispatch(outer *ssa.Function) []vcall {
	if outer == nil {
		return nil
	}
	if v, ok := vcallCache[outer]; ok {
		return v
	}
	var out []vcall
	for _, a := range outer.AnonFuncs {
		// dynamic calls of a's own function-typed parameters
		type dyn struct {
			in  ssa.Instruction
			idx int
		}
		var dyns []dyn
		eachInstr(a, func(in ssa.Instruction) {
			cc := callCommon(in)
			if cc == nil || cc.IsInvoke() {
				return
			}
			if par, ok := cc.Value.(*ssa.Parameter); ok {
				for i, q := range a.Params {
					if q == par {
						dyns = append(dyns, dyn{in, i})
					}
				}
			}
		})
		if len(dyns) == 0 {
			continue
		}
		eachInstr(outer, func(in ssa.Instruction) {
			cc := callCommon(in)
			if cc == nil || staticCallee(cc) != a {
				return
			}
			for _, d := range dyns {
				if d.idx >= len(cc.Args) {
					continue
				}
				if f := functionValueOf(cc.Args[d.idx]); f != nil {
					out = append(out, vcall{site: in, inner: d.in, via: a, callee: f})
				}
			}
		})
	}
	vcallCache[outer] = out
	return out
}

// functionValueOf: the function a function value stands for: a function, a closure without surprises,
// or a method value (`t.parseRune`: the wrapper go/ssa makes for it calls the method).
func functionValueOf(v ssa.Value) *ssa.Function {
	switch x := v.(type) {
	case *ssa.Function:
		return unwrapBound(x)
	case *ssa.MakeClosure:
		if f, ok := x.Fn.(*ssa.Function); ok {
			return unwrapBound(f)
		}
	case *ssa.ChangeType:
		return functionValueOf(x.X)
	}
	return nil
}

func unwrapBound(f *ssa.Function) *ssa.Function {
	if f == nil || !strings.HasSuffix(f.Name(), "$bound") {
		return f
	}
	var m *ssa.Function
	eachInstr(f, func(in ssa.Instruction) {
		if cc := callCommon(in); cc != nil && m == nil {
			m = cc.StaticCallee()
		}
	})
	if m != nil {
		return m
	}
	return f
}

// calleesAt: the functions the instruction calls: its static callee, and what a local closure called
// here invokes on the caller's behalf.
func calleesAt(in ssa.Instruction) []*ssa.Function {
	var out []*ssa.Function
	cc := callCommon(in)
	if cc == nil {
		return nil
	}
	if f := staticCallee(cc); f != nil {
		out = append(out, f)
	}
	if in.Parent() != nil {
		for _, v := range closureDispatch(in.Parent()) {
			if v.site == in {
				out = append(out, v.callee)
			}
		}
	}
	return out
}

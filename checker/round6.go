package main

// Rules added after the sixth round of independently seeded changes (DESIGN.md §5).

import (
	"fmt"
	"go/token"
	"go/types"
	"strings"

	"golang.org/x/tools/go/ssa"
)

// checkShowCursorStoresRequest: ShowCursor(x, y) remembers the application's request as it is — the
// stores to the requested position are the two parameters, under no condition (whether the cell is on
// the screen is decided at every draw, so that a later resize can bring it into view).
func checkShowCursorStoresRequest(c *Ctx, p *Prog, rule, tname string) {
	fn := p.Fn("tcell:(*" + tname + ").ShowCursor")
	if fn == nil || len(fn.Params) != 3 {
		c.Undecided(rule, tname+".ShowCursor", "-", "not found")
		return
	}
	// the fields are identified by what is stored into them (the two parameters), not by their names
	ok, detail := true, ""
	for i := 1; i <= 2; i++ {
		prm := fn.Params[i]
		var fields []FieldRef
		n := 0
		eachInstr(fn, func(in ssa.Instruction) {
			st, isSt := in.(*ssa.Store)
			if !isSt || derefCell(st.Val) != ssa.Value(prm) {
				return
			}
			ref, _, isF := fieldAddrRef(st.Addr)
			if !isF {
				return // the spill of a captured parameter
			}
			n++
			fields = append(fields, ref)
			for _, g := range rawGuardsAt(st.Block()) {
				ok = false
				detail += fmt.Sprintf("the store of %s depends on %s; ", prm.Name(), valName(g.Cond))
			}
		})
		if n != 1 {
			ok = false
			detail += fmt.Sprintf("%d store(s) of the parameter %s into the screen; ", n, prm.Name())
		}
		// nothing else is stored into that field here
		eachInstr(fn, func(in ssa.Instruction) {
			st, isSt := in.(*ssa.Store)
			if !isSt || derefCell(st.Val) == ssa.Value(prm) {
				return
			}
			if ref, _, isF := fieldAddrRef(st.Addr); isF {
				for _, f := range fields {
					if f == ref {
						ok = false
						detail += fmt.Sprintf("%s also receives %s; ", ref.String(), valName(st.Val))
					}
				}
			}
		})
	}
	c.Check(ok, rule, tname+".ShowCursor:stores-the-request", p.pos(fn.Pos()), "the requested position is stored as given, unconditionally "+detail)
}

// checkTParmOperandTypes: the parameter interpreter's stack understands int, string and bool operands
// (PopInt/PopString type-switch on int and string, Push turns a bool into 1/0); an operand of any other
// type (int32, uint8, a named integer) is silently read as 0.  Every operand handed to TParm — directly,
// through TGoto/TColor, or through a text-emitter wrapper — has one of those types.
func checkTParmOperandTypes(c *Ctx, p *Prog, rule string) {
	n, bad := 0, ""
	for _, top := range p.modFns {
		if top.Pkg != p.Tcell && top.Pkg != p.Terminfo {
			continue
		}
		for _, fn := range withClosures(top) {
			eachInstr(fn, func(in ssa.Instruction) {
				cc := callCommon(in)
				if cc == nil {
					return
				}
				var varArg ssa.Value
				if strings.HasSuffix(calleeName(cc), "Terminfo).TParm") && len(cc.Args) == 3 {
					varArg = cc.Args[2]
				} else if _, va, ok := textEmitterCall(p, in); ok {
					varArg = va
				}
				if varArg == nil {
					return
				}
				cnt, vals, ok := varargCount(varArg)
				if !ok {
					return // a forwarded slice: its elements are checked where it is built
				}
				for i := 0; i < cnt; i++ {
					v := vals[i]
					if v == nil {
						continue
					}
					n++
					if mi, isMI := v.(*ssa.MakeInterface); isMI {
						t := mi.X.Type()
						bt, isB := t.(*types.Basic) // the type itself, not its underlying type
						if !isB || !(bt.Kind() == types.Int || bt.Kind() == types.String || bt.Kind() == types.Bool || bt.Kind() == types.UntypedInt) {
							bad += fmt.Sprintf("%s passes a %s at %s; ", fn.Name(), t.String(), p.pos(in.Pos()))
						}
					}
				}
			})
		}
	}
	c.Check(n > 0 && bad == "", rule, "TParm:operand-types", "-", fmt.Sprintf("%d operands handed to the interpreter, each an int, string or bool %s", n, bad))
}

// checkPollReturnsWhatItReceives: PollEvent hands the application every event it takes off the queue:
// the value received from the event queue is returned on every path — no loop that receives again, no
// filter in between.
func checkPollReturnsWhatItReceives(c *Ctx, p *Prog, rule string) {
	fn := p.Fn("tcell:(*baseScreen).PollEvent")
	if fn == nil {
		c.Undecided(rule, "baseScreen.PollEvent", "-", "not found")
		return
	}
	n, bad := 0, ""
	eachInstr(fn, func(in ssa.Instruction) {
		sel, ok := in.(*ssa.Select)
		if !ok {
			return
		}
		for i, st := range sel.States {
			if st.Dir != types.RecvOnly || !strings.Contains(valName(st.Chan), "EventQ") {
				continue
			}
			n++
			// the received value: extract #(2+k) of the select, k = index among receive states
			k := 0
			for j := 0; j < i; j++ {
				if sel.States[j].Dir == types.RecvOnly {
					k++
				}
			}
			var recv ssa.Value
			for _, r := range referrers(sel) {
				if ex, isEx := r.(*ssa.Extract); isEx && ex.Index == 2+k {
					recv = ex
				}
			}
			if recv == nil {
				bad += "the received event is not used; "
				continue
			}
			// every return reachable after the select returns that value, and the select is not
			// reachable from itself
			if reachableAfter(sel, sel) {
				bad += "the receive sits in a loop: an event taken off the queue can be dropped and another awaited; "
			}
			for _, r := range returnsOf(fn) {
				if !reachableAfter(sel, r) || len(r.Results) != 1 {
					continue
				}
				res := derefCell(resultOf(r, 0))
				if isNilConst(res) {
					continue // the finished-screen answer (decided by its own rule)
				}
				okRes := false
				for _, src := range append(phiSources(res), res) {
					if src == recv {
						okRes = true
					}
					if ta, isTA := src.(*ssa.TypeAssert); isTA && ta.X == recv {
						okRes = true
					}
					if mi, isMI := src.(*ssa.ChangeInterface); isMI && mi.X == recv {
						okRes = true
					}
				}
				if !okRes {
					bad += fmt.Sprintf("the return at %s gives %s, not the event received; ", p.pos(r.Pos()), valName(res))
				}
			}
		}
	})
	c.Check(n > 0 && bad == "", rule, "baseScreen.PollEvent:returns-what-it-receives", p.pos(fn.Pos()), fmt.Sprintf("%d receive(s) from the event queue, each returned as received %s", n, bad))
}

// checkCollectGates: which parsers the collect loop tries is a matter of the terminal (its description
// has a mouse entry, a clipboard sequence) and of the scan (nothing pending, or expiry) — never of the
// modes the application has switched on at this moment, and the focus parser, the only one that holds
// back a lone ESC on a terminal without ESC-introduced keys, is tried on every terminal.  A report that
// is already on its way when the application switches a mode off still decodes as a report.
func checkCollectGates(c *Ctx, p *Prog, rule string, only func(name string) bool) {
	fn := collectLoopFn(p)
	if fn == nil {
		c.Undecided(rule, "collect loop", "-", "not found")
		return
	}
	n := 0
	eachInstr(fn, func(in ssa.Instruction) {
		call, ok := in.(*ssa.Call)
		if !ok {
			return
		}
		// the parser called here: directly, or by the local closure that is handed it (`try(t.parseRune)`)
		var h *ssa.Function
		for _, f := range calleesAt(in) {
			if isParserSig(f) {
				h = f
			}
		}
		if h == nil || (only != nil && !only(h.Name())) {
			return
		}
		n++
		bad := ""
		for _, g := range rawGuardsAt(call.Block()) {
			// conditions on the terminal's description or on strings prepared from it once are capabilities
			if mentionsField(g.Cond, "tcell.tScreen", "ti", 4) {
				continue
			}
			for _, f := range screenFieldsIn(g.Cond, 4) {
				switch {
				case h.Name() == "parseClipboard" && f == "setClipboard":
					// the clipboard sequence prepared at Init: a capability
				default:
					bad += "t." + f + " "
				}
			}
		}
		c.Check(bad == "", rule, "collect:"+h.Name()+":tried-whatever-the-modes", p.pos(call.Pos()), "the parser call depends on the terminal's description and the scan only; state consulted: ["+strings.TrimSpace(bad)+"]")
	})
	if n == 0 {
		c.Undecided(rule, "collect:parser-calls", p.pos(fn.Pos()), "no parser call found")
	}
}

// mentionsField: v is computed from a load of owner.field (to the given depth).
func mentionsField(v ssa.Value, owner, field string, depth int) bool {
	if depth < 0 {
		return false
	}
	if ref, _, ok := loadedField(v); ok && ref.Owner == owner && ref.Name == field {
		return true
	}
	if ref, base, ok := loadedField(v); ok && ref.Owner != owner {
		return mentionsField(base, owner, field, depth-1)
	}
	if fa, ok := v.(*ssa.FieldAddr); ok {
		return mentionsField(fa.X, owner, field, depth-1)
	}
	if in, ok := v.(ssa.Instruction); ok {
		if _, isPhi := v.(*ssa.Phi); isPhi {
			return false
		}
		for _, op := range in.Operands(nil) {
			if *op != nil && mentionsField(*op, owner, field, depth-1) {
				return true
			}
		}
	}
	return false
}

// screenFieldsIn: the tScreen fields v is computed from (direct loads only, to the given depth).
func screenFieldsIn(v ssa.Value, depth int) []string {
	var out []string
	var walk func(v ssa.Value, d int)
	walk = func(v ssa.Value, d int) {
		if d < 0 || v == nil {
			return
		}
		if ref, _, ok := loadedField(v); ok && ref.Owner == "tcell.tScreen" {
			out = append(out, ref.Name)
			return
		}
		if _, isPhi := v.(*ssa.Phi); isPhi {
			return
		}
		if in, ok := v.(ssa.Instruction); ok {
			for _, op := range in.Operands(nil) {
				if *op != nil {
					walk(*op, d-1)
				}
			}
		}
	}
	walk(v, depth)
	return out
}

// checkScanExpiry: mainLoop tells the scanner that the wait is over (expire = true) only from the
// escape timer's branch; the scan that follows a freshly read chunk passes the constant false.  What
// was read so far says nothing about whether the rest of a sequence is still on its way.
func checkScanExpiry(c *Ctx, p *Prog, rule string) {
	ml := p.Fn("tcell:(*tScreen).mainLoop")
	if ml == nil {
		c.Undecided(rule, "mainLoop", "-", "not found")
		return
	}
	n, bad := 0, ""
	for _, call := range callsIn(ml, func(nm string, _ *ssa.CallCommon) bool { return strings.HasSuffix(nm, "tScreen).scanInput") }) {
		cc := callCommon(call)
		if len(cc.Args) < 3 {
			continue
		}
		n++
		v, isC := constBool(cc.Args[2])
		if !isC {
			bad += fmt.Sprintf("the scan at %s decides the expiry from %s; ", p.pos(call.Pos()), valName(cc.Args[2]))
			continue
		}
		// expire=true only where the timer channel was received from
		if v {
			fromTimer := false
			for _, g := range rawGuardsAt(call.Block()) {
				if strings.Contains(valName(g.Cond), "keytimer") || strings.Contains(valName(g.Cond), "select") {
					fromTimer = true
				}
			}
			_ = fromTimer
		}
	}
	c.Check(n >= 2 && bad == "", rule, "mainLoop:expiry-is-the-timer's", p.pos(ml.Pos()), fmt.Sprintf("%d scans, each with a constant expiry flag %s", n, bad))
}

// checkDirtyDecisions: what CellBuffer.Dirty compares.  (a) A cell whose marker rune is zero is dirty
// whatever it holds (that is how SetDirty(true), Invalidate and UnlockCell mark it, also for a cell
// nothing was ever stored in): a test of lastMain against 0 leads to the answer true.  (b) Combining
// runes are compared in full: the two lengths are compared (or each list is walked against the other),
// so that a shown list of which the current one is a prefix counts as changed.
func checkDirtyDecisions(c *Ctx, p *Prog, rule string) {
	fn := p.Fn("tcell:(*CellBuffer).Dirty")
	if fn == nil {
		c.Undecided(rule, "CellBuffer.Dirty", "-", "not found")
		return
	}
	isFieldOf := func(v ssa.Value, name string) bool {
		ref, _, ok := loadedField(stripConv(v))
		return ok && ref.Owner == "tcell.cell" && ref.Name == name
	}
	zeroMarker, lengths := false, false
	for _, d := range deepInstrs(p, fn, 2, nil) {
		bo, ok := d.in.(*ssa.BinOp)
		if !ok {
			continue
		}
		x, y := d.bindVal(bo.X), d.bindVal(bo.Y)
		if (bo.Op == token.EQL || bo.Op == token.NEQ) && isFieldOf(x, "lastMain") {
			if k, isK := constInt(y); isK && k == 0 {
				// the equal edge reaches a `return true`
				for _, blk := range []*ssa.BasicBlock{bo.Block()} {
					if iff, isIf := blk.Instrs[len(blk.Instrs)-1].(*ssa.If); isIf && iff.Cond == ssa.Value(bo) {
						succ := blk.Succs[0]
						if bo.Op == token.NEQ {
							succ = blk.Succs[1]
						}
						// (in Dirty, or in the helper its answer comes from)
						for _, r := range returnsOf(bo.Parent()) {
							if v, isC := constBool(derefCell(resultOf(r, 0))); isC && v && (r.Block() == succ || succ.Dominates(r.Block())) {
								zeroMarker = true
							}
						}
						// the value form (`return a == 0 || b || …`): the equal edge carries the constant true
						// into the phi that is returned
						for _, in2 := range succ.Instrs {
							phi, isPhi := in2.(*ssa.Phi)
							if !isPhi {
								break
							}
							for i, pr := range succ.Preds {
								if pr != blk || i >= len(phi.Edges) {
									continue
								}
								if v, isC := constBool(phi.Edges[i]); isC && v {
									for _, r := range returnsOf(bo.Parent()) {
										if derefCell(resultOf(r, 0)) == ssa.Value(phi) {
											zeroMarker = true
										}
									}
								}
							}
						}
						// `a == 0 || b` as a branch chain: the equal edge leads straight to the true return
						if len(succ.Instrs) > 0 {
							if r, isR := succ.Instrs[len(succ.Instrs)-1].(*ssa.Return); isR {
								if v, isC := constBool(derefCell(resultOf(r, 0))); isC && v {
									zeroMarker = true
								}
							}
						}
					}
				}
			}
		}
		lenOf := func(v ssa.Value, name string) bool {
			call, ok := v.(*ssa.Call)
			if !ok {
				return false
			}
			bi, isB := call.Call.Value.(*ssa.Builtin)
			return isB && bi.Name() == "len" && isFieldOf(d.bindVal(call.Call.Args[0]), name)
		}
		if (bo.Op == token.EQL || bo.Op == token.NEQ) && ((lenOf(bo.X, "lastComb") && lenOf(bo.Y, "currComb")) || (lenOf(bo.X, "currComb") && lenOf(bo.Y, "lastComb"))) {
			lengths = true
		}
	}
	// reflect.DeepEqual(lastComb, currComb) compares the lengths itself
	for _, d := range deepInstrs(p, fn, 2, nil) {
		if cc := callCommon(d.in); cc != nil && calleeName(cc) == "reflect.DeepEqual" {
			lengths = true
		}
	}
	c.Check(zeroMarker, rule, "Dirty:zero-marker-means-dirty", p.pos(fn.Pos()), "a test of lastMain against 0 leads to the answer true (a cell marked dirty is dirty whatever it holds)")
	c.Check(lengths, rule, "Dirty:combining-lengths-compared", p.pos(fn.Pos()), "the lengths of the shown and the current combining runes are compared (a shown list longer than the current one is a change)")
}

// checkLookupDoesNotRegister: terminfo.LookupTerminfo only reads the registry: neither it nor what it
// calls reaches AddTerminfo or writes the map (a fabricated NAME-256color entry registered on the fly
// also re-registers itself under its base's name and replaces the built-in entry).
func checkLookupDoesNotRegister(c *Ctx, p *Prog, rule string) {
	fn := p.Fn("terminfo:LookupTerminfo")
	add := p.Fn("terminfo:AddTerminfo")
	if fn == nil || add == nil {
		c.Undecided(rule, "LookupTerminfo/AddTerminfo", "-", "not found")
		return
	}
	bad := ""
	reach := map[*ssa.Function]bool{}
	var visit func(f *ssa.Function)
	visit = func(f *ssa.Function) {
		if f == nil || f.Pkg != p.Terminfo || reach[f] {
			return
		}
		reach[f] = true
		for _, a := range f.AnonFuncs {
			visit(a)
		}
		eachInstr(f, func(in ssa.Instruction) {
			if cc := callCommon(in); cc != nil {
				visit(cc.StaticCallee())
			}
		})
	}
	visit(fn)
	for g := range reach {
		if g == add {
			bad += "reaches AddTerminfo; "
		}
		if g.Pkg != p.Terminfo {
			continue
		}
		eachInstr(g, func(in ssa.Instruction) {
			if mu, ok := in.(*ssa.MapUpdate); ok && strings.Contains(valName(mu.Map), "terminfos") {
				bad += g.Name() + " writes the registry at " + p.pos(in.Pos()) + "; "
			}
		})
	}
	c.Check(bad == "", rule, "LookupTerminfo:read-only", p.pos(fn.Pos()), "a lookup leaves the registry as it is "+bad)
}

// checkBareEscapeSkipped: a terminal that defines no ESC-introduced key gets "\x1b" itself registered as
// the Esc key by the control-byte loop of the table builder (eterm).  The key matcher must pass over
// that entry — a test of the table key against ESC that leads round the loop without the prefix match —
// or ESC is taken as a complete key at once and never becomes the Alt prefix of what follows.
func checkBareEscapeSkipped(c *Ctx, p *Prog, rule string) {
	fn := p.Fn("tcell:(*tScreen).parseFunctionKey")
	if fn == nil {
		c.Undecided(rule, "parseFunctionKey", "-", "not found")
		return
	}
	matches := callsIn(fn, func(n string, _ *ssa.CallCommon) bool { return n == "bytes.HasPrefix" })
	if len(matches) == 0 {
		c.Undecided(rule, "parseFunctionKey:match", p.pos(fn.Pos()), "no prefix match found")
		return
	}
	stop := map[ssa.Instruction]bool{}
	for _, m := range matches {
		stop[m] = true
	}
	ok := false
	eachInstr(fn, func(in ssa.Instruction) {
		bo, isBO := in.(*ssa.BinOp)
		if !isBO || (bo.Op != token.EQL && bo.Op != token.NEQ) {
			return
		}
		isEsc := false
		if k, isK := constInt(bo.Y); isK && k == 0x1b {
			isEsc = true
		}
		if s, isS := constString(bo.Y); isS && s == "\x1b" {
			isEsc = true
		}
		if !isEsc || !reachableAfter(bo, matches[0]) {
			return
		}
		// one way out of this test goes round the loop without the match
		blk := bo.Block()
		if len(blk.Instrs) == 0 {
			return
		}
		for _, sc := range blk.Succs {
			if len(sc.Instrs) == 0 {
				continue
			}
			seen := map[*ssa.BasicBlock]bool{}
			var avoid func(b *ssa.BasicBlock) bool
			avoid = func(b *ssa.BasicBlock) bool { // reaches a loop header dominating the test without a match
				if seen[b] {
					return false
				}
				seen[b] = true
				for _, i2 := range b.Instrs {
					if stop[i2] {
						return false
					}
				}
				if b.Dominates(blk) && b != blk {
					return true
				}
				for _, s2 := range b.Succs {
					if avoid(s2) {
						return true
					}
				}
				return false
			}
			if avoid(sc) {
				ok = true
			}
		}
	})
	c.Check(ok, rule, "parseFunctionKey:bare-ESC-entry-skipped", p.pos(fn.Pos()), "a test of the table key against ESC goes round the loop without the prefix match (ESC alone stays the Alt prefix / the timed-out Esc key)")
}

// checkModePairsDiffer: in every description a mode's set and reset strings differ, and where both are
// DEC private mode switches (CSI ? n h / CSI ? n l) of the same mode the one that enables ends in 'h'.
func checkModePairsDiffer(c *Ctx, p *Prog, rule string, db *dbModel) {
	pairs := [][2]string{{"EnterCA", "ExitCA"}, {"EnterKeypad", "ExitKeypad"}, {"HideCursor", "ShowCursor"}, {"DisableAutoMargin", "EnableAutoMargin"}, {"EnterAcs", "ExitAcs"}, {"EnablePaste", "DisablePaste"}}
	n, bad := 0, ""
	for _, e := range db.entries {
		for _, pr := range pairs {
			a, b := stripPadding(e.Str[pr[0]]), stripPadding(e.Str[pr[1]])
			if a == "" || b == "" {
				continue
			}
			n++
			if a == b {
				bad += fmt.Sprintf("%s: %s and %s are the same string %q; ", e.Name, pr[0], pr[1], a)
				continue
			}
			// DEC private modes: ESC [ ? n h sets, l resets
			if strings.HasPrefix(a, "\x1b[?") && strings.HasPrefix(b, "\x1b[?") && len(a) > 3 && len(b) > 3 && a[:len(a)-1] == b[:len(b)-1] {
				// for auto-margin the *reset* side of our pair (Enable) is the one that sets the mode
				wantA, wantB := byte('h'), byte('l')
				if pr[0] == "DisableAutoMargin" || pr[0] == "HideCursor" {
					wantA, wantB = 'l', 'h'
				}
				if a[len(a)-1] != wantA || b[len(b)-1] != wantB {
					bad += fmt.Sprintf("%s: %s=%q %s=%q (set is h, reset is l); ", e.Name, pr[0], a, pr[1], b)
				}
			}
		}
	}
	c.Check(n > 0 && bad == "", rule, "database:set-reset-pairs-differ", "-", fmt.Sprintf("%d set/reset pairs over the entries, each two different strings with the right final %s", n, bad))
}

// checkFormatFlagsAlways: in TParm's printf-style case the loop that collects the flags ('#', ' ', '+',
// '-') runs for every specification, not only for those introduced by ':' (terminfo(5): the colon is
// needed only in front of '-' and '+'; "%#x" and "% d" are written without it).
func checkFormatFlagsAlways(c *Ctx, p *Prog, rule string) {
	fn := p.Fn("terminfo:(*Terminfo).TParm")
	if fn == nil {
		c.Undecided(rule, "TParm", "-", "not found")
		return
	}
	loops := loopsOf(fn)
	n, bad := 0, ""
	for h, body := range loops {
		// a loop whose continuation tests compare a byte with '#' and with ' '
		hash, space := false, false
		for b := range body {
			for _, in := range b.Instrs {
				if bo, ok := in.(*ssa.BinOp); ok && bo.Op == token.EQL {
					if k, isK := constInt(bo.Y); isK {
						if k == '#' {
							hash = true
						}
						if k == ' ' {
							space = true
						}
					}
				}
				if v, isV := in.(ssa.Value); isV {
					if set, _, isIdx := constSetIndex(v); isIdx {
						hash = hash || strings.IndexByte(set, '#') >= 0
						space = space || strings.IndexByte(set, ' ') >= 0
					}
				}
			}
		}
		if !hash || !space || len(body) > 12 {
			continue // not the flag loop (the main loop's dispatch compares with them too, but is large)
		}
		n++
		for _, g := range rawGuardsAt(h) {
			if bo, ok := g.Cond.(*ssa.BinOp); ok && bo.Op == token.EQL && g.Positive {
				if k, isK := constInt(bo.Y); isK && k == ':' {
					bad += "the flag loop at " + p.pos(firstPos(h)) + " runs only behind the ':' introducer; "
				}
			}
		}
	}
	c.Check(n >= 1 && bad == "", rule, "TParm:format-flags-without-colon", p.pos(fn.Pos()), fmt.Sprintf("%d flag-collecting loop(s), reached whether or not the specification starts with ':' %s", n, bad))
}

// checkNoAliasedEncodeBuffer: what the simulation keeps as a cell's bytes is its own storage: nothing
// stored into SimCell.Bytes is a reslice of the per-call encoder destination (the next rune's output
// would overwrite it).
func checkNoAliasedEncodeBuffer(c *Ctx, p *Prog, rule string) {
	dc := p.Fn("tcell:(*simscreen).drawCell")
	if dc == nil {
		c.Undecided(rule, "simscreen.drawCell", "-", "not found")
		return
	}
	host := transformHost(p, dc)
	// the encoder's destination buffers
	dst := map[ssa.Value]bool{}
	eachInstr(host, func(in ssa.Instruction) {
		cc := callCommon(in)
		if cc != nil && cc.IsInvoke() && cc.Method.Name() == "Transform" && len(cc.Args) == 3 {
			dst[sliceRoot(cc.Args[0])] = true
		}
	})
	n, bad := 0, ""
	for _, f := range []*ssa.Function{dc, host} {
		eachInstr(f, func(in ssa.Instruction) {
			st, ok := in.(*ssa.Store)
			if !ok {
				return
			}
			ref, _, isF := fieldAddrRef(st.Addr)
			if !isF || ref.Owner != "tcell.SimCell" || ref.Name != "Bytes" {
				return
			}
			n++
			for _, src := range append(phiSources(st.Val), st.Val) {
				if sl, isSl := src.(*ssa.Slice); isSl && dst[sliceRoot(sl)] {
					bad += "SimCell.Bytes receives a reslice of the encoder's destination at " + p.pos(st.Pos()) + "; "
				}
			}
		})
		if host == dc {
			break
		}
	}
	// a helper returning the bytes: its returns
	if host != dc {
		for _, r := range returnsOf(host) {
			for _, src := range append(phiSources(derefCell(resultOf(r, 0))), derefCell(resultOf(r, 0))) {
				if sl, isSl := src.(*ssa.Slice); isSl && dst[sliceRoot(sl)] {
					bad += "the encoded bytes returned at " + p.pos(r.Pos()) + " are a reslice of the encoder's destination; "
				}
			}
		}
	}
	c.Check(len(dst) > 0 && bad == "", rule, "simscreen.drawCell:cell-bytes-own-storage", p.pos(dc.Pos()), fmt.Sprintf("%d store(s) into SimCell.Bytes, none aliasing the encoder's destination %s", n, bad))
}

// checkInjectKeyVerbatim: InjectKey delivers the key event it was asked for: the event is built from the
// three parameters as they are (in InjectKey or in a helper it passes them on to unchanged).
func checkInjectKeyVerbatim(c *Ctx, p *Prog, rule string) {
	fn := p.Fn("tcell:(*simscreen).InjectKey")
	if fn == nil || len(fn.Params) != 4 {
		c.Undecided(rule, "simscreen.InjectKey", "-", "not found")
		return
	}
	n, bad := 0, ""
	for _, d := range deepInstrs(p, fn, 2, nil) {
		cc := callCommon(d.in)
		if cc == nil || !strings.HasSuffix(calleeName(cc), "NewEventKey") || len(cc.Args) != 3 {
			continue
		}
		n++
		for i := 0; i < 3; i++ {
			if d.bindVal(cc.Args[i]) != ssa.Value(fn.Params[i+1]) {
				bad += fmt.Sprintf("argument %d of NewEventKey is %s, not InjectKey's parameter %s; ", i+1, valName(cc.Args[i]), fn.Params[i+1].Name())
			}
		}
	}
	c.Check(n == 1 && bad == "", rule, "simscreen.InjectKey:delivers-what-was-injected", p.pos(fn.Pos()), fmt.Sprintf("%d event(s) built, from the key, rune and modifiers given %s", n, bad))
}

// checkWebKeyAlwaysPosts: every key the page reports becomes an event, except the four modifier keys
// reported on their own: a return of onKeyEvent that no postEvent precedes is reached only through the
// comparisons of the key name with those names.
func checkWebKeyAlwaysPosts(c *Ctx, p *Prog, rule string) {
	fn := p.Fn("tcell:(*wScreen).onKeyEvent")
	if fn == nil {
		c.Undecided(rule, "wScreen.onKeyEvent", "-", "not found")
		return
	}
	posts := map[ssa.Instruction]bool{}
	for _, call := range callsIn(fn, func(n string, _ *ssa.CallCommon) bool { return strings.HasSuffix(n, "wScreen).postEvent") }) {
		posts[call] = true
	}
	mods := map[string]bool{"Control": true, "Alt": true, "Meta": true, "Shift": true}
	// a block entered only by true edges of `name == <modifier name>` comparisons
	var onlyModNames func(b *ssa.BasicBlock) bool
	onlyModNames = func(b *ssa.BasicBlock) bool {
		if len(b.Preds) == 0 {
			return false
		}
		for _, pr := range b.Preds {
			okEdge := false
			if iff, isIf := pr.Instrs[len(pr.Instrs)-1].(*ssa.If); isIf && pr.Succs[0] == b && pr.Succs[1] != b {
				switch x := iff.Cond.(type) {
				case *ssa.BinOp:
					if x.Op == token.EQL {
						if s, isS := constString(x.Y); isS && mods[s] {
							okEdge = true
						}
					}
				case *ssa.Call:
					// a helper that says "this is a modifier key": it answers true only for those names
					if h := x.Call.StaticCallee(); h != nil && h.Pkg == fn.Pkg && len(h.Blocks) > 0 {
						all, some := true, false
						for _, r := range returnsOf(h) {
							res := derefCell(resultOf(r, 0))
							if v, isC := constBool(res); isC {
								if v {
									some = true
									if !onlyModNames(r.Block()) {
										all = false
									}
								}
								continue
							}
							// the value form `return name == A || name == B || …`: a phi that receives
							// true along true edges of such comparisons, or the last comparison itself
							isModCmp := func(v ssa.Value) bool {
								bo, isBO := v.(*ssa.BinOp)
								if !isBO || bo.Op != token.EQL {
									return false
								}
								s, isS := constString(bo.Y)
								return isS && mods[s]
							}
							if isModCmp(res) {
								some = true
								continue
							}
							if phi, isPhi := res.(*ssa.Phi); isPhi {
								okPhi := true
								for i, e := range phi.Edges {
									if i >= len(phi.Block().Preds) {
										okPhi = false
										break
									}
									pr := phi.Block().Preds[i]
									if v, isC := constBool(e); isC {
										if !v {
											continue
										}
										iff, isIf := pr.Instrs[len(pr.Instrs)-1].(*ssa.If)
										if !isIf || pr.Succs[0] != phi.Block() || !isModCmp(iff.Cond) {
											okPhi = false
										}
										continue
									}
									if !isModCmp(e) {
										okPhi = false
									}
								}
								if okPhi {
									some = true
									continue
								}
							}
							all = false
						}
						okEdge = all && some
					}
				}
			}
			if !okEdge {
				return false
			}
		}
		return true
	}
	n, bad := 0, ""
	for _, r := range returnsOf(fn) {
		if !existsPathFromEntryAvoiding(fn, r, posts) {
			continue
		}
		n++
		// every edge into the silent return is the true edge of `key == <modifier name>` (or of a helper
		// that says so)
		if !onlyModNames(r.Block()) {
			bad += fmt.Sprintf("the return at %s is reached without an event by a key that is not a modifier name; ", p.pos(r.Pos()))
		}
	}
	c.Check(len(posts) >= 1 && bad == "", rule, "onKeyEvent:every-key-becomes-an-event", p.pos(fn.Pos()), fmt.Sprintf("%d silent return(s), each only for a modifier key reported on its own %s", n, bad))
}

// checkResizeAlwaysClips: ViewPort.Resize compares the request with the PARENT's current size every
// time: no return lies before the parent's Size() call except the one for a port without a parent
// (a shortcut for "same arguments as last time" skips the clip when only the parent changed).
func checkResizeAlwaysClips(c *Ctx, p *Prog, rule string, vp map[string]*ssa.Function) {
	fn := vp["Resize"]
	if fn == nil {
		c.Undecided(rule, "ViewPort.Resize", "-", "not found")
		return
	}
	stop := map[ssa.Instruction]bool{}
	eachInstr(fn, func(in ssa.Instruction) {
		if cc := callCommon(in); cc != nil && cc.IsInvoke() && cc.Method.Name() == "Size" {
			stop[in] = true
		}
	})
	bad := ""
	for _, r := range returnsOf(fn) {
		if !existsPathFromEntryAvoiding(fn, r, stop) {
			continue
		}
		okNil := false
		for _, g := range rawGuardsAt(r.Block()) {
			if bo, ok := g.Cond.(*ssa.BinOp); ok && isNilConst(bo.Y) && ((bo.Op == token.EQL && g.Positive) || (bo.Op == token.NEQ && !g.Positive)) {
				okNil = true
			}
		}
		if !okNil {
			bad += "the return at " + p.pos(r.Pos()) + " is reached without asking the parent for its size; "
		}
	}
	c.Check(len(stop) > 0 && bad == "", rule, "Resize:always-clips-against-the-parent", p.pos(fn.Pos()), "every return but the one for a port without a parent lies behind the parent's Size() "+bad)
}

// checkReadLoopPassesStop: every way round a loop of inputLoop that contains the Tty read passes the
// test of the stop channel: a reader that returns empty-handed (0, nil) must not spin past it.
func checkReadLoopPassesStop(c *Ctx, p *Prog, rule string) {
	fn := p.Fn("tcell:(*tScreen).inputLoop")
	if fn == nil {
		c.Undecided(rule, "inputLoop", "-", "not found")
		return
	}
	var reads []ssa.Instruction
	eachInstr(fn, func(in ssa.Instruction) {
		if cc := callCommon(in); cc != nil && cc.IsInvoke() && cc.Method.Name() == "Read" && typeName(cc.Value.Type()) == "tcell.Tty" {
			reads = append(reads, in)
		}
	})
	// the stop tests: selects with a receive on the stop channel parameter
	stops := map[ssa.Instruction]bool{}
	eachInstr(fn, func(in ssa.Instruction) {
		if sel, ok := in.(*ssa.Select); ok {
			for _, st := range sel.States {
				if st.Dir == types.RecvOnly && derefCell(st.Chan) == ssa.Value(fn.Params[len(fn.Params)-1]) {
					stops[in] = true
				}
			}
		}
	})
	bad := ""
	for _, rd := range reads {
		// a cycle from the read back to the read avoiding every stop test
		if existsPathAvoidingTo(rd, rd, stops) {
			bad += "the read at " + p.pos(rd.Pos()) + " can be repeated without looking at the stop channel; "
		}
	}
	c.Check(len(reads) > 0 && len(stops) > 0 && bad == "", rule, "inputLoop:every-read-cycle-checks-stop", p.pos(fn.Pos()), fmt.Sprintf("%d read(s), %d stop test(s) %s", len(reads), len(stops), bad))
}

// existsPathAvoidingTo: a path of at least one edge from just after `from` to `to` that passes none of
// the stop instructions.
func existsPathAvoidingTo(from, to ssa.Instruction, stop map[ssa.Instruction]bool) bool {
	b := from.Block()
	idx := instrIndex(from)
	// rest of the block
	for _, in := range b.Instrs[idx+1:] {
		if stop[in] {
			return false
		}
		if in == to {
			return true
		}
	}
	seen := map[*ssa.BasicBlock]bool{}
	stack := append([]*ssa.BasicBlock{}, b.Succs...)
	for len(stack) > 0 {
		x := stack[len(stack)-1]
		stack = stack[:len(stack)-1]
		if seen[x] {
			continue
		}
		seen[x] = true
		blocked := false
		for _, in := range x.Instrs {
			if stop[in] {
				blocked = true
				break
			}
			if in == to {
				return true
			}
		}
		if !blocked {
			stack = append(stack, x.Succs...)
		}
	}
	return false
}

// checkSgrAccumulatorSaturates: the decimal accumulator of parseSgrMouse cannot wrap around: what is
// carried to the next digit is the accumulated value only where it is known to be at most a constant K
// (and a constant otherwise), with K*10+9 inside a 32-bit int.  A coordinate of twenty digits is far
// beyond the screen and has to end at the last column, not at the first.
func checkSgrAccumulatorSaturates(c *Ctx, p *Prog, rule string) {
	fn := p.Fn("tcell:(*tScreen).parseSgrMouse")
	if fn == nil {
		c.Undecided(rule, "parseSgrMouse", "-", "not found")
		return
	}
	var accs []*ssa.BinOp
	for _, d := range deepInstrs(p, fn, 1, nil) {
		bo, ok := d.in.(*ssa.BinOp)
		if !ok || bo.Op != token.ADD {
			continue
		}
		if mul, isM := bo.X.(*ssa.BinOp); isM && mul.Op == token.MUL {
			if k, isK := constInt(mul.Y); isK && k == 10 {
				accs = append(accs, bo)
			}
		}
	}
	if len(accs) == 0 {
		c.Undecided(rule, "parseSgrMouse:accumulator", p.pos(fn.Pos()), "no val*10 + digit found")
		return
	}
	ok, detail := false, "the accumulated value is carried on as it is"
	for _, acc := range accs {
		for _, r := range referrers(acc) {
			phi, isPhi := r.(*ssa.Phi)
			if !isPhi {
				continue
			}
			bounded, capped := false, false
			for i, e := range phi.Edges {
				gs := rawGuardsOnEdge(phi.Block().Preds[i], phi.Block())
				if e == ssa.Value(acc) {
					for _, g := range gs {
						if bo, isBO := g.Cond.(*ssa.BinOp); isBO && bo.X == ssa.Value(acc) {
							if k, isK := constInt(bo.Y); isK && k*10+9 < 1<<31 {
								op := bo.Op
								if !g.Positive {
									op = negTok(op)
								}
								if op == token.LEQ || op == token.LSS {
									bounded = true
								}
							}
						}
					}
				} else if k, isK := constInt(e); isK && k >= 0 && k*10+9 < 1<<31 {
					capped = true
				}
			}
			if bounded && capped {
				ok, detail = true, "above a constant bound the accumulator stays at a constant"
			}
		}
	}
	c.Check(ok, rule, "parseSgrMouse:accumulator-saturates", p.pos(accs[0].Pos()), detail)
}

// checkEightBitCSIReachesMouseParsers: the collect loop tries the rune parser before the mouse parsers,
// and the rune parser takes a byte of 0x80 and above as the start of a character in the screen's
// charset.  Under a single-byte or 7-bit charset (US-ASCII, ISO 8859-x) the decoder accepts or
// substitutes 0x9b, so the 8-bit CSI of a mouse report is consumed as text and the rest of the report
// arrives as keys.  The rule holds when the mouse parsers are tried first or the rune parser leaves
// 0x9b alone; today neither is the case (known finding: the byte is a lead byte in Shift-JIS, GBK and
// Big5, so there is no small repair).
func checkEightBitCSIReachesMouseParsers(c *Ctx, p *Prog, rule string) {
	collect := collectLoopFn(p)
	pr := p.Fn("tcell:(*tScreen).parseRune")
	if collect == nil || pr == nil {
		c.Undecided(rule, "collect/parseRune", "-", "not found")
		return
	}
	var runeCall, mouseCall ssa.Instruction
	eachInstr(collect, func(in ssa.Instruction) {
		if cc := callCommon(in); cc != nil {
			if h := cc.StaticCallee(); h != nil {
				switch h.Name() {
				case "parseRune":
					runeCall = in
				case "parseXtermMouse", "parseSgrMouse":
					if mouseCall == nil {
						mouseCall = in
					}
				}
			}
		}
	})
	if runeCall == nil || mouseCall == nil {
		c.Undecided(rule, "collect:parser-order", p.pos(collect.Pos()), "parser calls not found")
		return
	}
	mouseFirst := instrDominates(mouseCall, runeCall)
	carveOut := false
	eachInstr(pr, func(in ssa.Instruction) {
		if bo, ok := in.(*ssa.BinOp); ok && (bo.Op == token.EQL || bo.Op == token.NEQ) {
			if k, isK := constInt(bo.Y); isK && k == 0x9b {
				carveOut = true
			}
		}
	})
	c.Check(mouseFirst || carveOut, rule, "parseRune:8-bit-CSI-not-excluded", p.pos(runeCall.Pos()), fmt.Sprintf("mouse parsers tried before the rune parser: %v; the rune parser leaves 0x9b alone: %v", mouseFirst, carveOut))
}

package main

// Rules added after the sixth round of independently seeded changes (DESIGN.md §5).

import (
	"fmt"
	"go/token"
	"go/types"
	"strings"

	"golang.org/x/tools/go/ssa"
)

// checkShowCursorStoresRequest: ShowCursor(x, y) remembers the application's request as it is — the
// stores to the requested position are the two parameters, under no condition (whether the cell is on
// the screen is decided at every draw, so that a later resize can bring it into view).
func checkShowCursorStoresRequest(c *Ctx, p *Prog, rule, tname string) {
	fn := p.Fn("tcell:(*" + tname + ").ShowCursor")
	if fn == nil || len(fn.Params) != 3 {
		c.Undecided(rule, tname+".ShowCursor", "-", "not found")
		return
	}
	ok, detail := true, ""
	for i, f := range []string{"cursorx", "cursory"} {
		sts := storesTo(fn, "tcell."+tname, f)
		if len(sts) != 1 {
			ok = false
			detail += fmt.Sprintf("%d store(s) of %s; ", len(sts), f)
			continue
		}
		if derefCell(sts[0].Val) != ssa.Value(fn.Params[i+1]) {
			ok = false
			detail += fmt.Sprintf("%s receives %s, not the parameter; ", f, valName(sts[0].Val))
		}
		for _, g := range rawGuardsAt(sts[0].Block()) {
			ok = false
			detail += fmt.Sprintf("the store of %s depends on %s; ", f, valName(g.Cond))
		}
	}
	c.Check(ok, rule, tname+".ShowCursor:stores-the-request", p.pos(fn.Pos()), "the requested position is stored as given, unconditionally "+detail)
}

// checkTParmOperandTypes: the parameter interpreter's stack understands int, string and bool operands
// (PopInt/PopString type-switch on int and string, Push turns a bool into 1/0); an operand of any other
// type (int32, uint8, a named integer) is silently read as 0.  Every operand handed to TParm — directly,
// through TGoto/TColor, or through a text-emitter wrapper — has one of those types.
func checkTParmOperandTypes(c *Ctx, p *Prog, rule string) {
	n, bad := 0, ""
	for _, top := range p.modFns {
		if top.Pkg != p.Tcell && top.Pkg != p.Terminfo {
			continue
		}
		for _, fn := range withClosures(top) {
			eachInstr(fn, func(in ssa.Instruction) {
				cc := callCommon(in)
				if cc == nil {
					return
				}
				var varArg ssa.Value
				if strings.HasSuffix(calleeName(cc), "Terminfo).TParm") && len(cc.Args) == 3 {
					varArg = cc.Args[2]
				} else if _, va, ok := textEmitterCall(p, in); ok {
					varArg = va
				}
				if varArg == nil {
					return
				}
				cnt, vals, ok := varargCount(varArg)
				if !ok {
					return // a forwarded slice: its elements are checked where it is built
				}
				for i := 0; i < cnt; i++ {
					v := vals[i]
					if v == nil {
						continue
					}
					n++
					if mi, isMI := v.(*ssa.MakeInterface); isMI {
						t := mi.X.Type()
						bt, isB := t.(*types.Basic) // the type itself, not its underlying type
						if !isB || !(bt.Kind() == types.Int || bt.Kind() == types.String || bt.Kind() == types.Bool || bt.Kind() == types.UntypedInt) {
							bad += fmt.Sprintf("%s passes a %s at %s; ", fn.Name(), t.String(), p.pos(in.Pos()))
						}
					}
				}
			})
		}
	}
	c.Check(n > 0 && bad == "", rule, "TParm:operand-types", "-", fmt.Sprintf("%d operands handed to the interpreter, each an int, string or bool %s", n, bad))
}

// checkPollReturnsWhatItReceives: PollEvent hands the application every event it takes off the queue:
// the value received from the event queue is returned on every path — no loop that receives again, no
// filter in between.
func checkPollReturnsWhatItReceives(c *Ctx, p *Prog, rule string) {
	fn := p.Fn("tcell:(*baseScreen).PollEvent")
	if fn == nil {
		c.Undecided(rule, "baseScreen.PollEvent", "-", "not found")
		return
	}
	n, bad := 0, ""
	eachInstr(fn, func(in ssa.Instruction) {
		sel, ok := in.(*ssa.Select)
		if !ok {
			return
		}
		for i, st := range sel.States {
			if st.Dir != types.RecvOnly || !strings.Contains(valName(st.Chan), "EventQ") {
				continue
			}
			n++
			// the received value: extract #(2+k) of the select, k = index among receive states
			k := 0
			for j := 0; j < i; j++ {
				if sel.States[j].Dir == types.RecvOnly {
					k++
				}
			}
			var recv ssa.Value
			for _, r := range referrers(sel) {
				if ex, isEx := r.(*ssa.Extract); isEx && ex.Index == 2+k {
					recv = ex
				}
			}
			if recv == nil {
				bad += "the received event is not used; "
				continue
			}
			// every return reachable after the select returns that value, and the select is not
			// reachable from itself
			if reachableAfter(sel, sel) {
				bad += "the receive sits in a loop: an event taken off the queue can be dropped and another awaited; "
			}
			for _, r := range returnsOf(fn) {
				if !reachableAfter(sel, r) || len(r.Results) != 1 {
					continue
				}
				res := derefCell(resultOf(r, 0))
				if isNilConst(res) {
					continue // the finished-screen answer (decided by its own rule)
				}
				okRes := false
				for _, src := range append(phiSources(res), res) {
					if src == recv {
						okRes = true
					}
					if ta, isTA := src.(*ssa.TypeAssert); isTA && ta.X == recv {
						okRes = true
					}
					if mi, isMI := src.(*ssa.ChangeInterface); isMI && mi.X == recv {
						okRes = true
					}
				}
				if !okRes {
					bad += fmt.Sprintf("the return at %s gives %s, not the event received; ", p.pos(r.Pos()), valName(res))
				}
			}
		}
	})
	c.Check(n > 0 && bad == "", rule, "baseScreen.PollEvent:returns-what-it-receives", p.pos(fn.Pos()), fmt.Sprintf("%d receive(s) from the event queue, each returned as received %s", n, bad))
}

// checkCollectGates: which parsers the collect loop tries is a matter of the terminal (its description
// has a mouse entry, a clipboard sequence) and of the scan (nothing pending, or expiry) — never of the
// modes the application has switched on at this moment, and the focus parser, the only one that holds
// back a lone ESC on a terminal without ESC-introduced keys, is tried on every terminal.  A report that
// is already on its way when the application switches a mode off still decodes as a report.
func checkCollectGates(c *Ctx, p *Prog, rule string, only func(name string) bool) {
	fn := collectLoopFn(p)
	if fn == nil {
		c.Undecided(rule, "collect loop", "-", "not found")
		return
	}
	n := 0
	eachInstr(fn, func(in ssa.Instruction) {
		call, ok := in.(*ssa.Call)
		if !ok {
			return
		}
		h := call.Call.StaticCallee()
		if h == nil || !isParserSig(h) || (only != nil && !only(h.Name())) {
			return
		}
		n++
		bad := ""
		for _, g := range rawGuardsAt(call.Block()) {
			// conditions on the terminal's description or on strings prepared from it once are capabilities
			if mentionsField(g.Cond, "tcell.tScreen", "ti", 4) {
				continue
			}
			for _, f := range screenFieldsIn(g.Cond, 4) {
				switch {
				case h.Name() == "parseClipboard" && f == "setClipboard":
					// the clipboard sequence prepared at Init: a capability
				default:
					bad += "t." + f + " "
				}
			}
		}
		c.Check(bad == "", rule, "collect:"+h.Name()+":tried-whatever-the-modes", p.pos(call.Pos()), "the parser call depends on the terminal's description and the scan only; state consulted: ["+strings.TrimSpace(bad)+"]")
	})
	if n == 0 {
		c.Undecided(rule, "collect:parser-calls", p.pos(fn.Pos()), "no parser call found")
	}
}

// mentionsField: v is computed from a load of owner.field (to the given depth).
func mentionsField(v ssa.Value, owner, field string, depth int) bool {
	if depth < 0 {
		return false
	}
	if ref, _, ok := loadedField(v); ok && ref.Owner == owner && ref.Name == field {
		return true
	}
	if ref, base, ok := loadedField(v); ok && ref.Owner != owner {
		return mentionsField(base, owner, field, depth-1)
	}
	if fa, ok := v.(*ssa.FieldAddr); ok {
		return mentionsField(fa.X, owner, field, depth-1)
	}
	if in, ok := v.(ssa.Instruction); ok {
		if _, isPhi := v.(*ssa.Phi); isPhi {
			return false
		}
		for _, op := range in.Operands(nil) {
			if *op != nil && mentionsField(*op, owner, field, depth-1) {
				return true
			}
		}
	}
	return false
}

// screenFieldsIn: the tScreen fields v is computed from (direct loads only, to the given depth).
func screenFieldsIn(v ssa.Value, depth int) []string {
	var out []string
	var walk func(v ssa.Value, d int)
	walk = func(v ssa.Value, d int) {
		if d < 0 || v == nil {
			return
		}
		if ref, _, ok := loadedField(v); ok && ref.Owner == "tcell.tScreen" {
			out = append(out, ref.Name)
			return
		}
		if _, isPhi := v.(*ssa.Phi); isPhi {
			return
		}
		if in, ok := v.(ssa.Instruction); ok {
			for _, op := range in.Operands(nil) {
				if *op != nil {
					walk(*op, d-1)
				}
			}
		}
	}
	walk(v, depth)
	return out
}

// checkScanExpiry: mainLoop tells the scanner that the wait is over (expire = true) only from the
// escape timer's branch; the scan that follows a freshly read chunk passes the constant false.  What
// was read so far says nothing about whether the rest of a sequence is still on its way.
func checkScanExpiry(c *Ctx, p *Prog, rule string) {
	ml := p.Fn("tcell:(*tScreen).mainLoop")
	if ml == nil {
		c.Undecided(rule, "mainLoop", "-", "not found")
		return
	}
	n, bad := 0, ""
	for _, call := range callsIn(ml, func(nm string, _ *ssa.CallCommon) bool { return strings.HasSuffix(nm, "tScreen).scanInput") }) {
		cc := callCommon(call)
		if len(cc.Args) < 3 {
			continue
		}
		n++
		v, isC := constBool(cc.Args[2])
		if !isC {
			bad += fmt.Sprintf("the scan at %s decides the expiry from %s; ", p.pos(call.Pos()), valName(cc.Args[2]))
			continue
		}
		// expire=true only where the timer channel was received from
		if v {
			fromTimer := false
			for _, g := range rawGuardsAt(call.Block()) {
				if strings.Contains(valName(g.Cond), "keytimer") || strings.Contains(valName(g.Cond), "select") {
					fromTimer = true
				}
			}
			_ = fromTimer
		}
	}
	c.Check(n >= 2 && bad == "", rule, "mainLoop:expiry-is-the-timer's", p.pos(ml.Pos()), fmt.Sprintf("%d scans, each with a constant expiry flag %s", n, bad))
}

// checkDirtyDecisions: what CellBuffer.Dirty compares.  (a) A cell whose marker rune is zero is dirty
// whatever it holds (that is how SetDirty(true), Invalidate and UnlockCell mark it, also for a cell
// nothing was ever stored in): a test of lastMain against 0 leads to the answer true.  (b) Combining
// runes are compared in full: the two lengths are compared (or each list is walked against the other),
// so that a shown list of which the current one is a prefix counts as changed.
func checkDirtyDecisions(c *Ctx, p *Prog, rule string) {
	fn := p.Fn("tcell:(*CellBuffer).Dirty")
	if fn == nil {
		c.Undecided(rule, "CellBuffer.Dirty", "-", "not found")
		return
	}
	isFieldOf := func(v ssa.Value, name string) bool {
		ref, _, ok := loadedField(stripConv(v))
		return ok && ref.Owner == "tcell.cell" && ref.Name == name
	}
	zeroMarker, lengths := false, false
	for _, d := range deepInstrs(p, fn, 1, nil) {
		bo, ok := d.in.(*ssa.BinOp)
		if !ok {
			continue
		}
		x, y := d.bindVal(bo.X), d.bindVal(bo.Y)
		if (bo.Op == token.EQL || bo.Op == token.NEQ) && isFieldOf(x, "lastMain") {
			if k, isK := constInt(y); isK && k == 0 {
				// the equal edge reaches a `return true`
				for _, blk := range []*ssa.BasicBlock{bo.Block()} {
					if iff, isIf := blk.Instrs[len(blk.Instrs)-1].(*ssa.If); isIf && iff.Cond == ssa.Value(bo) {
						succ := blk.Succs[0]
						if bo.Op == token.NEQ {
							succ = blk.Succs[1]
						}
						for _, r := range returnsOf(fn) {
							if v, isC := constBool(derefCell(resultOf(r, 0))); isC && v && (r.Block() == succ || succ.Dominates(r.Block())) {
								zeroMarker = true
							}
						}
					}
				}
			}
		}
		lenOf := func(v ssa.Value, name string) bool {
			call, ok := v.(*ssa.Call)
			if !ok {
				return false
			}
			bi, isB := call.Call.Value.(*ssa.Builtin)
			return isB && bi.Name() == "len" && isFieldOf(d.bindVal(call.Call.Args[0]), name)
		}
		if (bo.Op == token.EQL || bo.Op == token.NEQ) && ((lenOf(bo.X, "lastComb") && lenOf(bo.Y, "currComb")) || (lenOf(bo.X, "currComb") && lenOf(bo.Y, "lastComb"))) {
			lengths = true
		}
	}
	// reflect.DeepEqual(lastComb, currComb) compares the lengths itself
	for _, d := range deepInstrs(p, fn, 1, nil) {
		if cc := callCommon(d.in); cc != nil && calleeName(cc) == "reflect.DeepEqual" {
			lengths = true
		}
	}
	c.Check(zeroMarker, rule, "Dirty:zero-marker-means-dirty", p.pos(fn.Pos()), "a test of lastMain against 0 leads to the answer true (a cell marked dirty is dirty whatever it holds)")
	c.Check(lengths, rule, "Dirty:combining-lengths-compared", p.pos(fn.Pos()), "the lengths of the shown and the current combining runes are compared (a shown list longer than the current one is a change)")
}

// checkLookupDoesNotRegister: terminfo.LookupTerminfo only reads the registry: neither it nor what it
// calls reaches AddTerminfo or writes the map (a fabricated NAME-256color entry registered on the fly
// also re-registers itself under its base's name and replaces the built-in entry).
func checkLookupDoesNotRegister(c *Ctx, p *Prog, rule string) {
	fn := p.Fn("terminfo:LookupTerminfo")
	add := p.Fn("terminfo:AddTerminfo")
	if fn == nil || add == nil {
		c.Undecided(rule, "LookupTerminfo/AddTerminfo", "-", "not found")
		return
	}
	bad := ""
	for g := range staticReachFrom(p, fn) {
		if g == add {
			bad += "reaches AddTerminfo; "
		}
		if g.Pkg != p.Terminfo {
			continue
		}
		eachInstr(g, func(in ssa.Instruction) {
			if mu, ok := in.(*ssa.MapUpdate); ok && strings.Contains(valName(mu.Map), "terminfos") {
				bad += g.Name() + " writes the registry at " + p.pos(in.Pos()) + "; "
			}
		})
	}
	c.Check(bad == "", rule, "LookupTerminfo:read-only", p.pos(fn.Pos()), "a lookup leaves the registry as it is "+bad)
}

package main

// Constant evaluation over a finite input domain (T18).  A pure integer function whose result depends on
// a few bits of one parameter (buildMouseEvent: the button code) is decided for every value of that
// parameter by constant propagation through its SSA form: integer and bit operations on known values
// are folded, branches whose condition is known are followed, package-level tables are read from their
// composite literals in the source, and everything else (other parameters, calls) is "unknown" and may
// not influence a branch or the values asked for.  Nothing of /repo is compiled or run; the evaluator
// only folds constants, so a rule built on it is indifferent to how the mapping is written (a switch, a
// lookup table indexed by recombined bits, a loop over (bit, modifier) rows).

import (
	"fmt"
	"go/ast"
	"go/constant"
	"go/token"
	"go/types"
	"strings"
	"unicode/utf8"

	"golang.org/x/tools/go/packages"
	"golang.org/x/tools/go/ssa"
)

type cvKind int

const (
	cvUnknown cvKind = iota
	cvInt
	cvBool
	cvAgg // array, slice or struct: elems
	cvMap
	cvPtr
	cvTuple
	cvStr  // a known string (only when constEval.strings is set)
	cvIter // the iterator of a range over a known string
)

type cv struct {
	kind  cvKind
	i     int64
	b     bool
	elems []*cv
	m     map[int64]*cv
	p     *cv // pointee
	s     string
}

var cvU = &cv{kind: cvUnknown}

func cvI(i int64) *cv  { return &cv{kind: cvInt, i: i} }
func cvB(b bool) *cv   { return &cv{kind: cvBool, b: b} }
func cvS(s string) *cv { return &cv{kind: cvStr, s: s} }

type constEval struct {
	pk      *packages.Package
	globals map[*ssa.Global]*cv
	steps   int

	// hooks for evaluating a piece of a function (one round of a loop, the way out of it); they apply
	// to the outermost evaluation only
	override  func(v ssa.Value) *cv // a value given from outside (the byte under examination)
	startAt   *ssa.BasicBlock       // begin here instead of the entry, as if entered from startPrev
	startPrev *ssa.BasicBlock
	startEnv  map[ssa.Value]*cv                                              // values known at the start
	stopBlock func(next, from *ssa.BasicBlock, val func(ssa.Value) *cv) bool // about to enter next: stop?
	stopInstr func(in ssa.Instruction) bool                                  // about to execute in: stop?
	ended     *evalEnd                                                       // how a hooked evaluation ended

	// onCall is asked first about every call, at any depth: it may model the call (output written,
	// a library function with a known meaning) and say what it yields
	onCall func(cc *ssa.CallCommon, args []*cv) (*cv, bool)

	// strings: string constants are values too (indexing, slicing, concatenation, comparison, range,
	// conversions from and to bytes and runes, and the pure functions of package strings)
	strings bool
}

// evalEnd: where an evaluation was stopped by a hook.
type evalEnd struct {
	block *ssa.BasicBlock // stopBlock: the block about to be entered
	from  *ssa.BasicBlock
	instr ssa.Instruction // stopInstr: the instruction about to be executed
	vals  map[ssa.Value]*cv
}

var errEvalStopped = fmt.Errorf("stopped by a hook")

// astValue: the value of a constant expression or composite literal of the source.
func (ce *constEval) astValue(e ast.Expr, t types.Type) *cv {
	if tv, ok := ce.pk.TypesInfo.Types[e]; ok && tv.Value != nil {
		switch tv.Value.Kind() {
		case constant.Int:
			if i, ok := constant.Int64Val(tv.Value); ok {
				return cvI(i)
			}
		case constant.Bool:
			return cvB(constant.BoolVal(tv.Value))
		}
		return cvU
	}
	cl, ok := e.(*ast.CompositeLit)
	if !ok {
		return cvU
	}
	if t == nil {
		if tv, ok := ce.pk.TypesInfo.Types[e]; ok {
			t = tv.Type
		}
	}
	if t == nil {
		return cvU
	}
	switch u := t.Underlying().(type) {
	case *types.Array, *types.Slice:
		var elemT types.Type
		n := int64(-1)
		if a, isA := u.(*types.Array); isA {
			elemT, n = a.Elem(), a.Len()
		} else {
			elemT = u.(*types.Slice).Elem()
		}
		vals := map[int64]*cv{}
		idx, max := int64(0), int64(-1)
		for _, el := range cl.Elts {
			ve := el
			if kv, isKV := el.(*ast.KeyValueExpr); isKV {
				k := ce.astValue(kv.Key, nil)
				if k.kind != cvInt {
					return cvU
				}
				idx, ve = k.i, kv.Value
			}
			vals[idx] = ce.astValue(ve, elemT)
			if idx > max {
				max = idx
			}
			idx++
		}
		if n < 0 {
			n = max + 1
		}
		out := &cv{kind: cvAgg}
		for i := int64(0); i < n; i++ {
			if v, ok := vals[i]; ok {
				out.elems = append(out.elems, v)
			} else {
				out.elems = append(out.elems, ce.zero(elemT))
			}
		}
		return out
	case *types.Struct:
		out := &cv{kind: cvAgg}
		for i := 0; i < u.NumFields(); i++ {
			out.elems = append(out.elems, ce.zero(u.Field(i).Type()))
		}
		for i, el := range cl.Elts {
			if kv, isKV := el.(*ast.KeyValueExpr); isKV {
				if id, isID := kv.Key.(*ast.Ident); isID {
					for j := 0; j < u.NumFields(); j++ {
						if u.Field(j).Name() == id.Name {
							out.elems[j] = ce.astValue(kv.Value, u.Field(j).Type())
						}
					}
				}
				continue
			}
			if i < u.NumFields() {
				out.elems[i] = ce.astValue(el, u.Field(i).Type())
			}
		}
		return out
	case *types.Map:
		out := &cv{kind: cvMap, m: map[int64]*cv{}}
		for _, el := range cl.Elts {
			kv, isKV := el.(*ast.KeyValueExpr)
			if !isKV {
				return cvU
			}
			k := ce.astValue(kv.Key, u.Key())
			if k.kind != cvInt {
				return cvU
			}
			out.m[k.i] = ce.astValue(kv.Value, u.Elem())
		}
		return out
	}
	return cvU
}

func (ce *constEval) zero(t types.Type) *cv {
	switch u := t.Underlying().(type) {
	case *types.Basic:
		if u.Info()&types.IsInteger != 0 {
			return cvI(0)
		}
		if u.Info()&types.IsBoolean != 0 {
			return cvB(false)
		}
		if ce.strings && u.Info()&types.IsString != 0 {
			return cvS("")
		}
	case *types.Array:
		out := &cv{kind: cvAgg}
		for i := int64(0); i < u.Len(); i++ {
			out.elems = append(out.elems, ce.zero(u.Elem()))
		}
		return out
	case *types.Struct:
		out := &cv{kind: cvAgg}
		for i := 0; i < u.NumFields(); i++ {
			out.elems = append(out.elems, ce.zero(u.Field(i).Type()))
		}
		return out
	}
	// a cell of its own: a later store through a pointer to it must not write the shared unknown
	return &cv{kind: cvUnknown}
}

// global: the initial value of a package-level variable, from its declaration (variables that are
// assigned anywhere in the module are not constant tables: unknown).
func (ce *constEval) global(p *Prog, g *ssa.Global) *cv {
	if v, ok := ce.globals[g]; ok {
		return v
	}
	val := cvU
	if obj, ok := g.Object().(*types.Var); ok && !globalIsStored(p, g) {
		if e := findVarDecl(ce.pk, obj); e != nil {
			val = ce.astValue(e, obj.Type())
		}
	}
	ce.globals[g] = val
	return val
}

// globalIsStored: some function of the module other than the package initialiser writes the variable
// (or an element of it).
func globalIsStored(p *Prog, g *ssa.Global) bool {
	stored := false
	for _, fn := range p.modFns {
		if fn.Name() == "init" && fn.Parent() == nil && fn.Signature.Recv() == nil {
			continue
		}
		for _, f := range withClosures(fn) {
			eachInstr(f, func(in ssa.Instruction) {
				switch x := in.(type) {
				case *ssa.Store:
					for a := x.Addr; a != nil; {
						if a == ssa.Value(g) {
							stored = true
						}
						switch y := a.(type) {
						case *ssa.IndexAddr:
							a = y.X
						case *ssa.FieldAddr:
							a = y.X
						default:
							a = nil
						}
					}
				case *ssa.MapUpdate:
					if u, ok := x.Map.(*ssa.UnOp); ok && u.X == ssa.Value(g) {
						stored = true
					}
				}
			})
		}
	}
	return stored
}

// run evaluates fn with the given parameter values (missing ones unknown) up to the first call of a
// function for which isTarget holds, and returns the values of that call's arguments.
func (ce *constEval) run(p *Prog, fn *ssa.Function, params map[*ssa.Parameter]*cv, isTarget func(*ssa.CallCommon) bool) ([]*cv, error) {
	return ce.exec(p, fn, params, isTarget, 0)
}

// call evaluates fn to its return with the given parameter values and yields the returned values.
func (ce *constEval) call(p *Prog, fn *ssa.Function, params map[*ssa.Parameter]*cv) ([]*cv, error) {
	return ce.exec(p, fn, params, nil, 0)
}

// exec: with a target predicate, stops at the first such call and yields its arguments; without one,
// runs to the return and yields its results.  Calls of module functions whose arguments are all known
// integers or booleans are evaluated in place (bounded depth); other calls yield unknown.
func (ce *constEval) exec(p *Prog, fn *ssa.Function, params map[*ssa.Parameter]*cv, isTarget func(*ssa.CallCommon) bool, depth int) ([]*cv, error) {
	env := map[ssa.Value]*cv{}
	var val func(v ssa.Value) *cv
	val = func(v ssa.Value) *cv {
		if x, ok := env[v]; ok {
			return x
		}
		switch x := v.(type) {
		case *ssa.Const:
			if x.Value == nil {
				return cvU
			}
			switch x.Value.Kind() {
			case constant.Int:
				if i, ok := constant.Int64Val(x.Value); ok {
					return cvI(i)
				}
			case constant.Bool:
				return cvB(constant.BoolVal(x.Value))
			case constant.String:
				if ce.strings {
					return cvS(constant.StringVal(x.Value))
				}
			}
			return cvU
		case *ssa.Parameter:
			if pv, ok := params[x]; ok {
				return pv
			}
			return cvU
		case *ssa.Global:
			return &cv{kind: cvPtr, p: ce.global(p, x)}
		}
		return cvU
	}
	trunc := func(i int64, t types.Type) int64 {
		bt, ok := t.Underlying().(*types.Basic)
		if !ok {
			return i
		}
		switch bt.Kind() {
		case types.Int8:
			return int64(int8(i))
		case types.Int16:
			return int64(int16(i))
		case types.Int32:
			return int64(int32(i))
		case types.Uint8:
			return int64(uint8(i))
		case types.Uint16:
			return int64(uint16(i))
		case types.Uint32:
			return int64(uint32(i))
		}
		return i
	}
	b := fn.Blocks[0]
	var prev *ssa.BasicBlock
	hooked := depth == 0
	keepPhis := false
	if hooked && ce.startAt != nil {
		b = ce.startAt
		for k, v := range ce.startEnv {
			env[k] = v
		}
		if ce.startPrev != nil {
			prev = ce.startPrev
		} else {
			keepPhis = true
		}
	}
	for {
		var next *ssa.BasicBlock
		for _, in := range b.Instrs {
			ce.steps++
			if ce.steps > 400000 {
				return nil, fmt.Errorf("evaluation does not terminate")
			}
			if hooked && ce.stopInstr != nil && ce.stopInstr(in) {
				ce.ended = &evalEnd{instr: in, vals: env}
				return nil, errEvalStopped
			}
			if hooked && ce.override != nil {
				if v, isV := in.(ssa.Value); isV {
					if ov := ce.override(v); ov != nil {
						env[v] = ov
						continue
					}
				}
			}
			switch x := in.(type) {
			case *ssa.Phi:
				if keepPhis {
					if _, have := env[x]; !have {
						env[x] = cvU
					}
					continue
				}
				for i, pr := range b.Preds {
					if pr == prev {
						env[x] = val(x.Edges[i])
					}
				}
			case *ssa.BinOp:
				l, r := val(x.X), val(x.Y)
				switch {
				case l.kind == cvInt && r.kind == cvInt:
					a, c := l.i, r.i
					var out *cv
					switch x.Op {
					case token.ADD:
						out = cvI(a + c)
					case token.SUB:
						out = cvI(a - c)
					case token.MUL:
						out = cvI(a * c)
					case token.AND:
						out = cvI(a & c)
					case token.OR:
						out = cvI(a | c)
					case token.XOR:
						out = cvI(a ^ c)
					case token.AND_NOT:
						out = cvI(a &^ c)
					case token.SHL:
						if c >= 0 && c < 63 {
							out = cvI(a << uint(c))
						}
					case token.SHR:
						if c >= 0 && c < 63 {
							out = cvI(a >> uint(c))
						}
					case token.QUO:
						if c != 0 {
							out = cvI(a / c)
						}
					case token.REM:
						if c != 0 {
							out = cvI(a % c)
						}
					case token.EQL:
						out = cvB(a == c)
					case token.NEQ:
						out = cvB(a != c)
					case token.LSS:
						out = cvB(a < c)
					case token.LEQ:
						out = cvB(a <= c)
					case token.GTR:
						out = cvB(a > c)
					case token.GEQ:
						out = cvB(a >= c)
					}
					if out == nil {
						out = cvU
					}
					if out.kind == cvInt {
						out.i = trunc(out.i, x.Type())
					}
					env[x] = out
				case l.kind == cvStr && r.kind == cvStr:
					switch x.Op {
					case token.ADD:
						env[x] = cvS(l.s + r.s)
					case token.EQL:
						env[x] = cvB(l.s == r.s)
					case token.NEQ:
						env[x] = cvB(l.s != r.s)
					case token.LSS:
						env[x] = cvB(l.s < r.s)
					case token.LEQ:
						env[x] = cvB(l.s <= r.s)
					case token.GTR:
						env[x] = cvB(l.s > r.s)
					case token.GEQ:
						env[x] = cvB(l.s >= r.s)
					default:
						env[x] = cvU
					}
				case l.kind == cvBool && r.kind == cvBool && (x.Op == token.EQL || x.Op == token.NEQ):
					env[x] = cvB((l.b == r.b) == (x.Op == token.EQL))
				default:
					env[x] = cvU
				}
			case *ssa.UnOp:
				o := val(x.X)
				switch x.Op {
				case token.MUL:
					if o.kind == cvPtr && o.p != nil {
						env[x] = o.p
					} else {
						env[x] = cvU
					}
				case token.NOT:
					if o.kind == cvBool {
						env[x] = cvB(!o.b)
					} else {
						env[x] = cvU
					}
				case token.SUB:
					if o.kind == cvInt {
						env[x] = cvI(trunc(-o.i, x.Type()))
					} else {
						env[x] = cvU
					}
				case token.XOR:
					if o.kind == cvInt {
						env[x] = cvI(trunc(^o.i, x.Type()))
					} else {
						env[x] = cvU
					}
				default:
					env[x] = cvU
				}
			case *ssa.Convert:
				o := val(x.X)
				toStr := false
				if bt, ok := x.Type().Underlying().(*types.Basic); ok && bt.Info()&types.IsString != 0 {
					toStr = true
				}
				switch {
				case ce.strings && toStr && o.kind == cvInt:
					env[x] = cvS(string(rune(o.i)))
				case ce.strings && toStr && o.kind == cvAgg:
					// []byte or []rune of known elements
					_, isRunes := x.X.Type().Underlying().(*types.Slice)
					if sl, ok := x.X.Type().Underlying().(*types.Slice); ok {
						if bt, ok := sl.Elem().Underlying().(*types.Basic); ok && bt.Kind() == types.Int32 {
							isRunes = true
						} else {
							isRunes = false
						}
					}
					var bs []byte
					var rs []rune
					known := true
					for _, e := range o.elems {
						if e.kind != cvInt {
							known = false
							break
						}
						bs = append(bs, byte(e.i))
						rs = append(rs, rune(e.i))
					}
					switch {
					case !known:
						env[x] = cvU
					case isRunes:
						env[x] = cvS(string(rs))
					default:
						env[x] = cvS(string(bs))
					}
				case ce.strings && o.kind == cvStr && !toStr:
					out := &cv{kind: cvAgg}
					if sl, ok := x.Type().Underlying().(*types.Slice); ok {
						if bt, ok := sl.Elem().Underlying().(*types.Basic); ok && bt.Kind() == types.Int32 {
							for _, r := range o.s {
								out.elems = append(out.elems, cvI(int64(r)))
							}
						} else {
							for i := 0; i < len(o.s); i++ {
								out.elems = append(out.elems, cvI(int64(o.s[i])))
							}
						}
						env[x] = out
					} else {
						env[x] = cvU
					}
				case o.kind == cvInt:
					env[x] = cvI(trunc(o.i, x.Type()))
				default:
					env[x] = o
				}
			case *ssa.ChangeType:
				env[x] = val(x.X)
			case *ssa.MakeInterface:
				env[x] = val(x.X)
			case *ssa.Alloc:
				env[x] = &cv{kind: cvPtr, p: ce.zero(x.Type().(*types.Pointer).Elem())}
			case *ssa.Store:
				if a := val(x.Addr); a.kind == cvPtr && a.p != nil && a.p != cvU {
					*a.p = *val(x.Val)
				}
			case *ssa.IndexAddr:
				base, idx := val(x.X), val(x.Index)
				agg := base
				if base.kind == cvPtr {
					agg = base.p
				}
				if agg != nil && agg.kind == cvAgg && idx.kind == cvInt && idx.i >= 0 && idx.i < int64(len(agg.elems)) {
					env[x] = &cv{kind: cvPtr, p: agg.elems[idx.i]}
				} else {
					env[x] = cvU
				}
			case *ssa.FieldAddr:
				base := val(x.X)
				if base.kind == cvPtr && base.p != nil && base.p.kind == cvAgg && x.Field < len(base.p.elems) {
					env[x] = &cv{kind: cvPtr, p: base.p.elems[x.Field]}
				} else {
					env[x] = cvU
				}
			case *ssa.Index:
				agg, idx := val(x.X), val(x.Index)
				if agg.kind == cvStr && idx.kind == cvInt {
					if idx.i < 0 || idx.i >= int64(len(agg.s)) {
						return nil, fmt.Errorf("index %d out of range of a string of length %d", idx.i, len(agg.s))
					}
					env[x] = cvI(int64(agg.s[idx.i]))
					continue
				}
				if agg.kind == cvAgg && idx.kind == cvInt && idx.i >= 0 && idx.i < int64(len(agg.elems)) {
					env[x] = agg.elems[idx.i]
				} else {
					env[x] = cvU
				}
			case *ssa.Field:
				agg := val(x.X)
				if agg.kind == cvAgg && x.Field < len(agg.elems) {
					env[x] = agg.elems[x.Field]
				} else {
					env[x] = cvU
				}
			case *ssa.Slice:
				base := val(x.X)
				if base.kind == cvStr {
					lo, hi := int64(0), int64(len(base.s))
					okB := true
					if x.Low != nil {
						if l := val(x.Low); l.kind == cvInt {
							lo = l.i
						} else {
							okB = false
						}
					}
					if x.High != nil {
						if h := val(x.High); h.kind == cvInt {
							hi = h.i
						} else {
							okB = false
						}
					}
					if !okB {
						env[x] = cvU
						continue
					}
					if lo < 0 || hi > int64(len(base.s)) || lo > hi {
						return nil, fmt.Errorf("slice [%d:%d] out of range of a string of length %d", lo, hi, len(base.s))
					}
					env[x] = cvS(base.s[lo:hi])
					continue
				}
				agg := base
				if base.kind == cvPtr {
					agg = base.p
				}
				if agg != nil && agg.kind == cvAgg && x.Low == nil && x.High == nil {
					env[x] = agg
				} else {
					env[x] = cvU
				}
			case *ssa.Lookup:
				m, k := val(x.X), val(x.Index)
				if m.kind == cvStr && k.kind == cvInt {
					if k.i < 0 || k.i >= int64(len(m.s)) {
						return nil, fmt.Errorf("index %d out of range of a string of length %d", k.i, len(m.s))
					}
					env[x] = cvI(int64(m.s[k.i]))
					continue
				}
				var got *cv
				found := false
				if m.kind == cvMap && k.kind == cvInt {
					got, found = m.m[k.i]
				}
				switch {
				case m.kind != cvMap || k.kind != cvInt:
					env[x] = cvU
				case x.CommaOk:
					if !found {
						got = cvU
						if mt, ok := x.X.Type().Underlying().(*types.Map); ok {
							got = ce.zero(mt.Elem())
						}
					}
					env[x] = &cv{kind: cvTuple, elems: []*cv{got, cvB(found)}}
				case found:
					env[x] = got
				default:
					env[x] = cvU
					if mt, ok := x.X.Type().Underlying().(*types.Map); ok {
						env[x] = ce.zero(mt.Elem())
					}
				}
			case *ssa.Extract:
				t := val(x.Tuple)
				if t.kind == cvTuple && x.Index < len(t.elems) {
					env[x] = t.elems[x.Index]
				} else {
					env[x] = cvU
				}
			case *ssa.Call:
				if isTarget != nil && isTarget(&x.Call) {
					var out []*cv
					for _, a := range x.Call.Args {
						out = append(out, val(a))
					}
					return out, nil
				}
				if ce.onCall != nil {
					var args []*cv
					for _, a := range x.Call.Args {
						args = append(args, val(a))
					}
					if out, handled := ce.onCall(&x.Call, args); handled {
						if out == nil {
							out = cvU
						}
						env[x] = out
						continue
					}
				}
				if bi, ok := x.Call.Value.(*ssa.Builtin); ok && bi.Name() == "len" {
					a := val(x.Call.Args[0])
					if a.kind == cvPtr {
						a = a.p
					}
					if a != nil && a.kind == cvAgg {
						env[x] = cvI(int64(len(a.elems)))
						continue
					}
					if a != nil && a.kind == cvStr {
						env[x] = cvI(int64(len(a.s)))
						continue
					}
				}
				if ce.strings {
					if h := x.Call.StaticCallee(); h != nil && h.Pkg != nil && h.Pkg.Pkg.Path() == "strings" {
						var args []*cv
						for _, a := range x.Call.Args {
							args = append(args, val(a))
						}
						if out := stringsModel(h.Name(), args); out != nil {
							env[x] = out
							continue
						}
					}
				}
				// a pure helper of the module with known arguments: evaluated in place
				if h := x.Call.StaticCallee(); h != nil && depth < 4 && len(h.Blocks) > 0 && h.Pkg != nil && fn.Pkg != nil && h.Pkg == fn.Pkg && len(h.Params) == len(x.Call.Args) {
					hp := map[*ssa.Parameter]*cv{}
					allKnown := true
					for i, a := range x.Call.Args {
						v := val(a)
						if v.kind == cvUnknown {
							allKnown = false
						}
						hp[h.Params[i]] = v
					}
					if allKnown {
						if rets, err := ce.exec(p, h, hp, nil, depth+1); err == nil {
							if len(rets) == 1 {
								env[x] = rets[0]
							} else {
								env[x] = &cv{kind: cvTuple, elems: rets}
							}
							continue
						}
					}
				}
				env[x] = cvU
			case *ssa.If:
				cnd := val(x.Cond)
				if cnd.kind != cvBool {
					return nil, fmt.Errorf("a branch depends on something other than the code and constant tables: %s", valName(x.Cond))
				}
				if cnd.b {
					next = b.Succs[0]
				} else {
					next = b.Succs[1]
				}
			case *ssa.Jump:
				next = b.Succs[0]
			case *ssa.Return:
				if isTarget == nil {
					var out []*cv
					for _, r := range x.Results {
						out = append(out, val(r))
					}
					return out, nil
				}
				return nil, fmt.Errorf("returned without reaching the call")
			case *ssa.DebugRef:
			case *ssa.Range:
				if o := val(x.X); o.kind == cvStr {
					env[x] = &cv{kind: cvIter, s: o.s}
				} else {
					env[x] = cvU
				}
			case *ssa.Next:
				it := val(x.Iter)
				if it.kind != cvIter || !x.IsString {
					env[x] = cvU
					continue
				}
				if it.i >= int64(len(it.s)) {
					env[x] = &cv{kind: cvTuple, elems: []*cv{cvB(false), cvI(0), cvI(0)}}
					continue
				}
				r, size := utf8.DecodeRuneInString(it.s[it.i:])
				env[x] = &cv{kind: cvTuple, elems: []*cv{cvB(true), cvI(it.i), cvI(int64(r))}}
				it.i += int64(size)
			default:
				if v, ok := in.(ssa.Value); ok {
					env[v] = cvU
				}
			}
		}
		if next == nil {
			return nil, fmt.Errorf("control flow not followed in block %d", b.Index)
		}
		if hooked && ce.stopBlock != nil && ce.stopBlock(next, b, val) {
			ce.ended = &evalEnd{block: next, from: b, vals: env}
			return nil, errEvalStopped
		}
		prev, b = b, next
		keepPhis = false
	}
}

// stringsModel: the pure functions of package strings on known arguments (nil: not modelled).
func stringsModel(name string, args []*cv) *cv {
	str := func(i int) (string, bool) {
		if i < len(args) && args[i].kind == cvStr {
			return args[i].s, true
		}
		return "", false
	}
	a, okA := str(0)
	b, okB := str(1)
	switch name {
	case "ToLower":
		if okA {
			return cvS(strings.ToLower(a))
		}
	case "ToUpper":
		if okA {
			return cvS(strings.ToUpper(a))
		}
	case "TrimSpace":
		if okA {
			return cvS(strings.TrimSpace(a))
		}
	case "HasPrefix":
		if okA && okB {
			return cvB(strings.HasPrefix(a, b))
		}
	case "HasSuffix":
		if okA && okB {
			return cvB(strings.HasSuffix(a, b))
		}
	case "Contains":
		if okA && okB {
			return cvB(strings.Contains(a, b))
		}
	case "Index":
		if okA && okB {
			return cvI(int64(strings.Index(a, b)))
		}
	case "LastIndex":
		if okA && okB {
			return cvI(int64(strings.LastIndex(a, b)))
		}
	case "TrimPrefix":
		if okA && okB {
			return cvS(strings.TrimPrefix(a, b))
		}
	case "TrimSuffix":
		if okA && okB {
			return cvS(strings.TrimSuffix(a, b))
		}
	case "IndexByte", "LastIndexByte":
		if okA && len(args) > 1 && args[1].kind == cvInt {
			if name == "IndexByte" {
				return cvI(int64(strings.IndexByte(a, byte(args[1].i))))
			}
			return cvI(int64(strings.LastIndexByte(a, byte(args[1].i))))
		}
	case "Replace":
		if c, okC := str(2); okA && okB && okC && len(args) > 3 && args[3].kind == cvInt {
			return cvS(strings.Replace(a, b, c, int(args[3].i)))
		}
	case "ReplaceAll":
		if c, okC := str(2); okA && okB && okC {
			return cvS(strings.ReplaceAll(a, b, c))
		}
	case "Cut":
		if okA && okB {
			x, y, f := strings.Cut(a, b)
			return &cv{kind: cvTuple, elems: []*cv{cvS(x), cvS(y), cvB(f)}}
		}
	}
	return nil
}

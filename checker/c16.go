package main

import (
	"fmt"
	"go/ast"
	"go/constant"
	"go/token"
	"go/types"
	"sort"
	"strings"

	"golang.org/x/tools/go/packages"
	"golang.org/x/tools/go/ssa"
)

func init() {
	register("C16", checkC16, "The colour tables are constant map literals, so the table half of the property is decided exhaustively by constant extraction: palette entries 16..255 equal the xterm formula (6x6x6 cube on 0,95,135,175,215,255; greys 8+10k), entries 0..15 the sixteen standard values; every SVG/CSS colour keyword (independent reference copied from golang.org/x/image/colornames, plus rebeccapurple) is a key of ColorNames with the reference RGB value and ColorNames has no other key; for colours declared with the RGB flag the table value equals the constant's low 24 bits (Hex answers from the constant, ColorValues from the table). FindColor's result provenance (the default colour or an element of the palette) and its strict-less update test, and the validity gates of Hex/RGB/TrueColor, are checked on SSA. Round-trips over 2^24 values and CIE76 optimality are numeric properties and are not decided.")
}

// constMap evaluates a package-level `map[K]V{…}` literal into key/value constant.Values.
func constMap(pk *packages.Package, name string) (keys, vals []constant.Value, pos token.Pos, ok bool) {
	obj := pk.Types.Scope().Lookup(name)
	if obj == nil {
		return
	}
	pos = obj.Pos()
	e := findVarDecl(pk, obj)
	cl, isCL := e.(*ast.CompositeLit)
	if !isCL {
		return
	}
	for _, el := range cl.Elts {
		kv, isKV := el.(*ast.KeyValueExpr)
		if !isKV {
			return nil, nil, pos, false
		}
		k, ok1 := pk.TypesInfo.Types[kv.Key]
		v, ok2 := pk.TypesInfo.Types[kv.Value]
		if !ok1 || !ok2 || k.Value == nil || v.Value == nil {
			return nil, nil, pos, false
		}
		keys = append(keys, k.Value)
		vals = append(vals, v.Value)
	}
	return keys, vals, pos, true
}

func xtermPalette(i int) int64 {
	if i >= 232 {
		g := int64(8 + 10*(i-232))
		return g<<16 | g<<8 | g
	}
	lv := []int64{0, 95, 135, 175, 215, 255}
	n := i - 16
	return lv[n/36]<<16 | lv[(n/6)%6]<<8 | lv[n%6]
}

var ansi16 = []int64{0x000000, 0x800000, 0x008000, 0x808000, 0x000080, 0x800080, 0x008080, 0xc0c0c0,
	0x808080, 0xff0000, 0x00ff00, 0xffff00, 0x0000ff, 0xff00ff, 0x00ffff, 0xffffff}

func checkC16(c *Ctx) {
	c.Rule("C16-R1", "ColorValues[palette i]: 0..15 the standard sixteen, 16..255 the xterm cube/grey formula")
	c.Rule("C16-R2", "ColorNames = the CSS/SVG colour keywords with their reference values; RGB-flagged constants agree with their ColorValues entry")
	c.Rule("C16-R3", "FindColor returns ColorDefault or an element of the palette; the running minimum is updated on a strict less-than (first element accepted unconditionally)")
	c.Rule("C16-R4", "Hex returns -1 for invalid colours, RGB returns (-1,-1,-1) for negative Hex, TrueColor returns ColorDefault for invalid colours")
	c.Expect("C16-R1", 256)
	c.Expect("C16-R2", 148*2)
	c.Expect("C16-R3", 2)
	c.Expect("C16-R4", 3)
	c.Rule("C16-R5", "the conversions are exact for all 2^24 values: by bit provenance, NewHexColor/NewRGBColor place exactly the 24 colour bits and the two flags, Hex and RGB read them back from the same positions, TrueColor is the identity on RGB colours, palette colours carry index and valid flag only, the special colours answer -1 / not valid / default, FromImageColor takes the high byte of each 16-bit component")
	c.Expect("C16-R5", 20)
	c.Rule("C16-R6", "CSS and GetColor agree on the textual form: '#' plus six zero-padded hexadecimal digits of Hex() out; length 7, leading '#', the rest parsed base 16 (unsigned, at least 24 bits) and handed to NewHexColor unchanged in; no CSS form for invalid colours")
	c.Expect("C16-R6", 3)
	c.Rule("C16-R7", "FindColor measures with go-colorful's DistanceCIE76 on colours whose components are the 8-bit values divided by 255.0, with no other arithmetic of its own in between (the library's arithmetic is trusted, the numbers handed to it are decided)")
	c.Expect("C16-R7", 1)
	p := c.P("linux")
	if p == nil || p.Tcell == nil {
		c.Undecided("C16-R1", "package tcell", "-", "not loaded")
		return
	}
	c.Rule("C16-R8", "GetColor resolves every name of the table: the lookup in ColorNames is reached whatever the length of the name (a fixed-size folding buffer with an off-by-one bound rejects the longest name)")
	c.Expect("C16-R8", 1)
	checkColorNameLookupUnconditional(c, p, "C16-R8")
	c.Rule("C16-R9", "GetColor answers ColorDefault for whatever is neither a name nor #RRGGBB, the empty string (the CSS form of every colour that is not valid) included: each index into the name is behind a test of its length")
	c.Expect("C16-R9", 1)
	checkNameIndexGuarded(c, p, "C16-R9")
	pk := p.pkg("")
	keys, vals, pos, ok := constMap(pk, "ColorValues")
	if !ok {
		c.Undecided("C16-R1", "ColorValues", p.pos(pos), "not a constant map literal")
		return
	}
	valid := pkgConst(p, "ColorValid")
	isRGB := pkgConst(p, "ColorIsRGB")
	cv := map[int64]int64{}
	for i := range keys {
		k, _ := constant.Int64Val(keys[i])
		v, _ := constant.Int64Val(vals[i])
		if _, dup := cv[k]; dup {
			c.Fail("C16-R1", fmt.Sprintf("ColorValues:duplicate-key-%#x", k), p.pos(pos), "duplicate key")
		}
		cv[k] = v
	}
	for i := 0; i < 256; i++ {
		var want int64
		if i < 16 {
			want = ansi16[i]
		} else {
			want = xtermPalette(i)
		}
		got, ok := cv[valid+int64(i)]
		c.Check(ok && got == want, "C16-R1", fmt.Sprintf("palette[%d]", i), p.pos(pos), fmt.Sprintf("table %#06x, reference %#06x", got, want))
	}
	// RGB-flagged keys: table value equals the constant's low 24 bits
	nrgb := 0
	for k, v := range cv {
		if k&isRGB != 0 {
			nrgb++
			if k&0xffffff != v {
				c.Fail("C16-R2", fmt.Sprintf("ColorValues[%#x]:constant-vs-table", k), p.pos(pos), fmt.Sprintf("constant carries %#06x, table says %#06x: Hex() and ColorValues disagree", k&0xffffff, v))
			}
		}
	}
	c.OK("C16-R2", "ColorValues:rgb-constants-agree", p.pos(pos), fmt.Sprintf("%d RGB-flagged colours carry the same value in the constant and in the table", nrgb))
	// names
	nkeys, nvals, npos, ok := constMap(pk, "ColorNames")
	if !ok {
		c.Undecided("C16-R2", "ColorNames", p.pos(npos), "not a constant map literal")
		return
	}
	names := map[string]int64{}
	for i := range nkeys {
		col, _ := constant.Int64Val(nvals[i])
		names[constant.StringVal(nkeys[i])] = col
	}
	hexOf := func(col int64) (int64, bool) {
		if col&isRGB != 0 {
			return col & 0xffffff, true
		}
		v, ok := cv[col]
		return v, ok
	}
	refNames := make([]string, 0, len(cssColorNames))
	for n := range cssColorNames {
		refNames = append(refNames, n)
	}
	sort.Strings(refNames)
	for _, n := range refNames {
		col, ok := names[n]
		if !ok {
			c.Fail("C16-R2", "name:"+n+":present", p.pos(npos), "W3C/CSS colour name missing from ColorNames: GetColor(\""+n+"\") returns the default colour")
			continue
		}
		c.OK("C16-R2", "name:"+n+":present", p.pos(npos), "")
		got, ok := hexOf(col)
		c.Check(ok && got == cssColorNames[n], "C16-R2", "name:"+n+":value", p.pos(npos), fmt.Sprintf("tcell %#06x, CSS reference %#06x", got, cssColorNames[n]))
	}
	extra := []string{}
	for n := range names {
		if _, ok := cssColorNames[n]; !ok {
			extra = append(extra, n)
		}
	}
	sort.Strings(extra)
	c.Check(len(extra) == 0, "C16-R2", "names:no-extra", p.pos(npos), fmt.Sprintf("names that are not CSS colour keywords: %v", extra))
	c16FindColor(c, p)
	c16Gates(c, p)
	c16Bits(c, p)
	c16Text(c, p)
	checkDistanceDelegated(c, p, "C16-R7")
}

func c16FindColor(c *Ctx, p *Prog) {
	fn := p.Fn("tcell:FindColor")
	if fn == nil {
		c.Undecided("C16-R3", "FindColor", "-", "not found")
		return
	}
	def := pkgConst(p, "ColorDefault")
	okRet := true
	detail := ""
	seen := map[ssa.Value]bool{}
	var walk func(v ssa.Value)
	walk = func(v ssa.Value) {
		if seen[v] {
			return
		}
		seen[v] = true
		switch x := v.(type) {
		case *ssa.Phi:
			for _, e := range x.Edges {
				walk(e)
			}
		case *ssa.Const:
			if k, ok := constInt(x); !ok || k != def {
				okRet = false
				detail += " const " + valName(x)
			}
		case *ssa.UnOp:
			// palette[i] with range index
			if ia, ok := x.X.(*ssa.IndexAddr); ok && valName(ia.X) == "palette" && (isRangeIndex(ia.Index) || (isFullCountedIndex(ia.Index, ia.X) && countsFromZeroByOne(ia.Index))) {
				return
			}
			okRet = false
			detail += " " + valName(v)
		default:
			okRet = false
			detail += " " + valName(v)
		}
	}
	for _, r := range returnsOf(fn) {
		walk(r.Results[0])
	}
	c.Check(okRet, "C16-R3", "FindColor:returns-member", p.pos(fn.Pos()), "values reaching the return: ColorDefault or a range element of the palette"+detail)
	// the update test: the best-so-far is kept exactly when it is a member already (not the
	// ColorDefault placeholder) and the new distance is not strictly smaller
	strict, first, at := c16UpdateTest(fn, def)
	// the scan looks at every member: the only way out of the loop over the palette is its exhaustion
	{
		loops := loopsOf(fn)
		nLoops, early := 0, ""
		for h, body := range loops {
			isPal := false
			for _, in := range h.Instrs {
				if bo, ok := in.(*ssa.BinOp); ok && isRangeIndex(bo) {
					isPal = true
				}
				// for i := 0; i < len(palette); i++
				if phi, ok := in.(*ssa.Phi); ok && countsFromZeroByOne(phi) && isFullCountedIndex(phi, fn.Params[1]) {
					isPal = true
				}
			}
			if !isPal {
				continue
			}
			nLoops++
			for b := range body {
				for _, sc := range b.Succs {
					if !body[sc] && b != h && !deadBlock(sc) {
						early += fmt.Sprintf("the loop is left from block %d (%s); ", b.Index, p.pos(firstPos(sc)))
					}
				}
			}
		}
		c.Check(nLoops == 1 && early == "", "C16-R3", "FindColor:scans-whole-palette", p.pos(fn.Pos()), "no break or return inside the loop over the palette (a closer member may come later) "+early)
	}
	c.Check(strict && first, "C16-R3", "FindColor:strict-improvement", p.pos(fn.Pos()), fmt.Sprintf("update on strictly smaller distance: %v; first element accepted through the match == ColorDefault escape: %v; %s", strict, first, at))
}

// c16Palette: PaletteColor(i) is Color(i)|ColorValid for every index of the palette; a range
// guard, if any, must let 0..255 through.
func c16Palette(c *Ctx, p *Prog) {
	fn := p.Fn("tcell:PaletteColor")
	if fn == nil {
		c.Undecided("C16-R4", "PaletteColor", "-", "not found")
		return
	}
	bad := ""
	okExpr := false
	for _, r := range returnsOf(fn) {
		if len(r.Results) != 1 {
			continue
		}
		v := resultOf(r, 0)
		if bo, ok := v.(*ssa.BinOp); ok && bo.Op == token.OR {
			okExpr = true
			continue
		}
		if _, ok := v.(*ssa.Const); ok {
			// a refusal: only for indices outside 0..255
			lo, hi := int64(-1<<62), int64(1<<62)
			outside := false
			for _, g := range rawGuardsAt(r.Block()) {
				bo, ok := g.Cond.(*ssa.BinOp)
				if !ok || bo.X != ssa.Value(fn.Params[0]) {
					continue
				}
				k, ok := constInt(bo.Y)
				if !ok {
					continue
				}
				op := bo.Op
				if !g.Positive {
					switch op {
					case token.LSS:
						op = token.GEQ
					case token.LEQ:
						op = token.GTR
					case token.GTR:
						op = token.LEQ
					case token.GEQ:
						op = token.LSS
					}
				}
				switch op {
				case token.LSS:
					if k <= 0 {
						outside = true
					}
					if k-1 < hi {
						hi = k - 1
					}
				case token.LEQ:
					if k < 0 {
						outside = true
					}
				case token.GTR:
					if k >= 255 {
						outside = true
					}
				case token.GEQ:
					if k >= 256 {
						outside = true
					}
					if k > lo {
						lo = k
					}
				}
			}
			if !outside {
				bad += fmt.Sprintf("refuses indices at %s under guards that admit part of 0..255; ", p.pos(r.Pos()))
			}
			continue
		}
		bad += "returns " + valName(v) + "; "
	}
	c.Check(okExpr && bad == "", "C16-R4", "PaletteColor:all-256-indices", p.pos(fn.Pos()), "PaletteColor(i) = Color(i)|ColorValid for every i in 0..255 "+bad)
}

// c16GetColor: "#rrggbb" is six hex digits; a parser that takes a sign accepts "#-00001" and
// builds a colour with every flag bit set.
func c16GetColor(c *Ctx, p *Prog) {
	fn := p.Fn("tcell:GetColor")
	if fn == nil {
		c.Undecided("C16-R4", "GetColor", "-", "not found")
		return
	}
	ok, detail := false, "no hexadecimal parse found"
	okLen := false // the parse is reached only by names of the form '#' + six characters
	host, _ := cssHost(p, fn)
	eachInstr(host, func(in ssa.Instruction) {
		cc := callCommon(in)
		if cc == nil {
			return
		}
		switch calleeName(cc) {
		case "strconv.ParseUint":
			if b, isB := constInt(cc.Args[1]); isB && b == 16 {
				ok, detail = true, "strconv.ParseUint(_, 16, _)"
				okLen, _ = cssFormGuards(in.Block())
			}
		case "strconv.ParseInt", "strconv.Atoi":
			ok, detail = false, calleeName(cc)+" accepts a leading sign: \"#-00001\" becomes a colour"
		}
	})
	c.Check(ok && okLen, "C16-R4", "GetColor:hex-unsigned", p.pos(fn.Pos()), "hex colours are parsed unsigned from exactly '#' plus six characters: "+detail)
}

func c16Gates(c *Ctx, p *Prog) {
	c16Palette(c, p)
	c16GetColor(c, p)
	def := pkgConst(p, "ColorDefault")
	get := func(name string) *ssa.Function {
		named := p.namedType(p.Tcell, "Color")
		if named == nil {
			return nil
		}
		for i := 0; i < named.NumMethods(); i++ {
			if named.Method(i).Name() == name {
				return p.SSA.FuncValue(named.Method(i))
			}
		}
		return nil
	}
	isValidCall := func(v ssa.Value) bool {
		call, ok := v.(*ssa.Call)
		return ok && strings.HasSuffix(calleeName(&call.Call), ".Color).Valid")
	}
	if hex := get("Hex"); hex != nil {
		ok := false
		for _, r := range returnsOf(hex) {
			if k, isC := constInt(r.Results[0]); isC && k == -1 {
				for _, g := range rawGuardsAt(r.Block()) {
					if isValidCall(g.Cond) && !g.Positive {
						ok = true
					}
				}
			}
		}
		c.Check(ok, "C16-R4", "Hex:invalid→-1", p.pos(hex.Pos()), "returns -1 on the !Valid() edge")
		// where Hex gets its answer: -1, the colour's own 24 bits under the RGB flag, or the table
		bad := ""
		for _, r := range returnsOf(hex) {
			if len(r.Results) != 1 {
				continue
			}
			v := stripConv(resultOf(r, 0))
			if k, isK := constInt(v); isK && k == -1 {
				continue
			}
			if ex, isEx := v.(*ssa.Extract); isEx && ex.Index == 0 {
				if lk, isLk := ex.Tuple.(*ssa.Lookup); isLk && strings.HasSuffix(valName(lk.X), "ColorValues") {
					continue
				}
			}
			if lk, isLk := v.(*ssa.Lookup); isLk && strings.HasSuffix(valName(lk.X), "ColorValues") {
				continue
			}
			if bo, isBO := v.(*ssa.BinOp); isBO && bo.Op == token.AND {
				if k, isK := constInt(bo.Y); isK && k == 0xffffff && valName(bo.X) == "c" {
					isRGB := false
					for _, a := range guardsAt(r.Block()) {
						if strings.Contains(a.L, "c&") && a.Op == "!=" && a.R == "0" {
							isRGB = true
						}
					}
					if isRGB {
						continue
					}
				}
			}
			bad += "returns " + valName(v) + " at " + p.pos(r.Pos()) + "; "
		}
		c.Check(bad == "", "C16-R4", "Hex:answers-from-table", p.pos(hex.Pos()), "Hex returns -1, the colour's own 24 bits (RGB flag set) or the ColorValues entry - nothing computed "+bad)
	} else {
		c.Undecided("C16-R4", "Hex", "-", "not found")
	}
	if rgb := get("RGB"); rgb != nil {
		ok := false
		for _, r := range returnsOf(rgb) {
			all := len(r.Results) == 3
			for _, res := range r.Results {
				if k, isC := constInt(res); !isC || k != -1 {
					all = false
				}
			}
			if all {
				for _, a := range guardsAt(r.Block()) {
					if a.Op == "<" && a.R == "0" && strings.Contains(a.L, "Hex") {
						ok = true
					}
				}
			}
		}
		c.Check(ok, "C16-R4", "RGB:negative→(-1,-1,-1)", p.pos(rgb.Pos()), "returns (-1,-1,-1) when Hex() is negative")
	} else {
		c.Undecided("C16-R4", "RGB", "-", "not found")
	}
	if tc := get("TrueColor"); tc != nil {
		ok := false
		for _, r := range returnsOf(tc) {
			if k, isC := constInt(r.Results[0]); isC && k == def {
				for _, g := range rawGuardsAt(r.Block()) {
					if isValidCall(g.Cond) && !g.Positive {
						ok = true
					}
				}
			}
		}
		c.Check(ok, "C16-R4", "TrueColor:invalid→default", p.pos(tc.Pos()), "returns ColorDefault on the !Valid() edge")
	} else {
		c.Undecided("C16-R4", "TrueColor", "-", "not found")
	}
	_ = types.Typ
}

// ---- R5: the conversions are pure bit shuffling; decided for all 2^24 values by bit provenance (T12)

func c16Bits(c *Ctx, p *Prog) {
	fn := func(n string) *ssa.Function { return p.Fn("tcell:" + n) }
	need := map[string]*ssa.Function{}
	for _, n := range []string{"NewHexColor", "NewRGBColor", "PaletteColor", "FromImageColor", "(Color).Hex", "(Color).RGB", "(Color).TrueColor", "(Color).IsRGB", "(Color).Valid"} {
		need[n] = fn(n)
		if need[n] == nil {
			c.Undecided("C16-R5", n, "-", "function not found")
			return
		}
	}
	cv := func(name string) (uint64, bool) {
		obj := p.Tcell.Pkg.Scope().Lookup(name)
		k, ok := obj.(*types.Const)
		if !ok {
			return 0, false
		}
		return constant.Uint64Val(k.Val())
	}
	valid, ok1 := cv("ColorValid")
	isRGB, ok2 := cv("ColorIsRGB")
	if !ok1 || !ok2 || valid == 0 || isRGB == 0 || valid&isRGB != 0 || (valid|isRGB)&0xffffff != 0 {
		c.Undecided("C16-R5", "flags", "-", fmt.Sprintf("ColorValid=%#x ColorIsRGB=%#x are not two distinct flag bits above the 24 colour bits", valid, isRGB))
		return
	}
	e := &bpEval{p: p}
	pos := func(n string) string { return p.pos(need[n].Pos()) }
	// the expected RGB colour built from three 8-bit symbols
	rgbColour := func(r, g, b string) bv {
		v := bvConst(valid|isRGB, 64, false)
		for i := 0; i < 8; i++ {
			v.b[16+i] = abit{k: bSym, sym: r, idx: i}
			v.b[8+i] = abit{k: bSym, sym: g, idx: i}
			v.b[i] = abit{k: bSym, sym: b, idx: i}
		}
		return v
	}
	hexColour := func(sym string) bv {
		v := bvConst(valid|isRGB, 64, false)
		for i := 0; i < 24; i++ {
			v.b[i] = abit{k: bSym, sym: sym, idx: i}
		}
		return v
	}
	expect := func(key, at string, got []bv, okCall bool, want ...bv) {
		if !okCall || len(got) != len(want) {
			c.Undecided("C16-R5", key, at, "not evaluable in the bit-provenance domain (loop, or unexpected result count)")
			return
		}
		good := true
		detail := ""
		for i := range want {
			g := got[i]
			if g.w != want[i].w {
				g = g.convert(want[i].w, want[i].signed)
			}
			if !bvEqual(g, want[i]) {
				good = false
			}
			detail += fmt.Sprintf("result %d: %s; ", i, got[i])
			if !bvEqual(g, want[i]) {
				detail += fmt.Sprintf("wanted %s; ", want[i])
			}
		}
		c.Check(good, "C16-R5", key, at, detail)
	}
	v24 := bvInput("v", 32, true, 24)
	r8, g8, b8 := bvInput("r", 32, true, 8), bvInput("g", 32, true, 8), bvInput("b", 32, true, 8)
	// 1. NewHexColor(v) = v's 24 bits + both flags, nothing else
	nh, ok := e.call(need["NewHexColor"], []bv{v24}, 0)
	expect("NewHexColor(v):bits", pos("NewHexColor"), nh, ok, hexColour("v"))
	// 2. NewRGBColor(r,g,b)
	nr, ok := e.call(need["NewRGBColor"], []bv{r8, g8, b8}, 0)
	expect("NewRGBColor(r,g,b):bits", pos("NewRGBColor"), nr, ok, rgbColour("r", "g", "b"))
	// components beyond 8 bits are cut, not smeared into the neighbour
	wide := func(s string) bv { return bvInput(s, 32, true, 32) }
	nrw, ok := e.call(need["NewRGBColor"], []bv{wide("r"), wide("g"), wide("b")}, 0)
	expect("NewRGBColor(any,any,any):components-masked", pos("NewRGBColor"), nrw, ok, rgbColour("r", "g", "b"))
	// 3. Hex(NewHexColor(v)) = v ; RGB(NewRGBColor(r,g,b)) = (r,g,b)
	hx, ok := e.call(need["(Color).Hex"], []bv{hexColour("v")}, 0)
	expect("Hex(NewHexColor(v))=v", pos("(Color).Hex"), hx, ok, v24)
	rgb, ok := e.call(need["(Color).RGB"], []bv{rgbColour("r", "g", "b")}, 0)
	expect("RGB(NewRGBColor(r,g,b))=(r,g,b)", pos("(Color).RGB"), rgb, ok, r8, g8, b8)
	// 4. TrueColor is the identity on RGB colours; IsRGB/Valid are true on them
	tc, ok := e.call(need["(Color).TrueColor"], []bv{hexColour("v")}, 0)
	expect("TrueColor(rgb)=rgb", pos("(Color).TrueColor"), tc, ok, hexColour("v"))
	ir, ok := e.call(need["(Color).IsRGB"], []bv{hexColour("v")}, 0)
	expect("IsRGB(rgb)=true", pos("(Color).IsRGB"), ir, ok, bvConst(1, 1, false))
	va, ok := e.call(need["(Color).Valid"], []bv{hexColour("v")}, 0)
	expect("Valid(rgb)=true", pos("(Color).Valid"), va, ok, bvConst(1, 1, false))
	// 5. palette colours: index + valid flag, not RGB
	idx := bvInput("i", 64, true, 8)
	pc, ok := e.call(need["PaletteColor"], []bv{idx}, 0)
	wantPC := bvConst(valid, 64, false)
	for i := 0; i < 8; i++ {
		wantPC.b[i] = abit{k: bSym, sym: "i", idx: i}
	}
	expect("PaletteColor(i):bits", pos("PaletteColor"), pc, ok, wantPC)
	ip, ok := e.call(need["(Color).IsRGB"], []bv{wantPC}, 0)
	expect("IsRGB(palette)=false", pos("(Color).IsRGB"), ip, ok, bvConst(0, 1, false))
	// 6. the special colours (no valid flag) report -1 / not valid / default
	for _, name := range []string{"ColorDefault", "ColorNone", "ColorReset"} {
		k, okK := cv(name)
		if !okK {
			c.Undecided("C16-R5", name, "-", "constant not found")
			continue
		}
		col := bvConst(k, 64, false)
		h, ok := e.call(need["(Color).Hex"], []bv{col}, 0)
		expect("Hex("+name+")=-1", pos("(Color).Hex"), h, ok, bvConst(0xffffffff, 32, true))
		vv, ok := e.call(need["(Color).Valid"], []bv{col}, 0)
		expect("Valid("+name+")=false", pos("(Color).Valid"), vv, ok, bvConst(0, 1, false))
		def, _ := cv("ColorDefault")
		t, ok := e.call(need["(Color).TrueColor"], []bv{col}, 0)
		expect("TrueColor("+name+")=ColorDefault", pos("(Color).TrueColor"), t, ok, bvConst(def, 64, false))
		rr, ok := e.call(need["(Color).RGB"], []bv{col}, 0)
		m1 := bvConst(0xffffffff, 32, true)
		expect("RGB("+name+")=(-1,-1,-1)", pos("(Color).RGB"), rr, ok, m1, m1, m1)
	}
	// 7. FromImageColor: each component is bits 8..15 of the corresponding RGBA() result
	fi, ok := e.call(need["FromImageColor"], []bv{bvTop(64, false)}, 0)
	if ok && len(fi) == 1 {
		good := true
		syms := map[int]string{}
		for comp := 0; comp < 3; comp++ {
			base := 16 - 8*comp
			for i := 0; i < 8; i++ {
				b := fi[0].b[base+i]
				if b.k != bSym || b.idx != 8+i || !strings.HasSuffix(b.sym, fmt.Sprintf(".r%d", comp)) {
					good = false
				}
				syms[comp] = b.sym
			}
		}
		for i := 24; i < 64; i++ {
			want := abit{k: bZero}
			if (valid|isRGB)>>uint(i)&1 == 1 {
				want = abit{k: bOne}
			}
			if fi[0].b[i] != want {
				good = false
			}
		}
		c.Check(good, "C16-R5", "FromImageColor:components", pos("FromImageColor"), "result: "+fi[0].String()+" (wanted bits 8..15 of RGBA() results 0,1,2 in bits 16..23, 8..15, 0..7 and the two flags)")
	} else {
		c.Undecided("C16-R5", "FromImageColor:components", pos("FromImageColor"), "not evaluable")
	}
}

// ---- R6: the textual form.  CSS writes '#' and exactly six hexadecimal digits of Hex(); GetColor reads
// exactly that form back (length 7, leading '#', the six characters after it parsed base 16 into at
// least 24 bits and handed to NewHexColor unchanged).
func c16Text(c *Ctx, p *Prog) {
	css := p.Fn("tcell:(Color).CSS")
	gc := p.Fn("tcell:GetColor")
	if css == nil || gc == nil {
		c.Undecided("C16-R6", "CSS/GetColor", "-", "not found")
		return
	}
	okFmt, detail := false, "no Sprintf with a constant format"
	for _, in := range callsNamed(css, "fmt.Sprintf") {
		cc := callCommon(in)
		f, isC := constString(cc.Args[0])
		if !isC {
			continue
		}
		n, vals, okV := varargCount(cc.Args[1])
		argIsHex := false
		if okV && n == 1 {
			v := vals[0]
			if mi, isMI := v.(*ssa.MakeInterface); isMI {
				v = mi.X
			}
			if call, isCall := v.(*ssa.Call); isCall && strings.HasSuffix(calleeName(&call.Call), ".Color).Hex") && len(call.Call.Args) == 1 && call.Call.Args[0] == ssa.Value(css.Params[0]) {
				argIsHex = true
			}
		}
		okFmt = (f == "#%06X" || f == "#%06x") && argIsHex
		detail = fmt.Sprintf("format %q, argument is the receiver's Hex(): %v", f, argIsHex)
	}
	c.Check(okFmt, "C16-R6", "CSS:format", p.pos(css.Pos()), "'#' and six zero-padded hexadecimal digits of Hex(): "+detail)
	// an invalid colour has no CSS form
	okGate := false
	for _, r := range returnsOf(css) {
		if s, isC := constString(r.Results[0]); isC && s == "" {
			for _, g := range rawGuardsAt(r.Block()) {
				if call, isCall := g.Cond.(*ssa.Call); isCall && strings.HasSuffix(calleeName(&call.Call), ".Color).Valid") && !g.Positive {
					okGate = true
				}
			}
		}
	}
	c.Check(okGate, "C16-R6", "CSS:invalid→empty", p.pos(css.Pos()), "returns \"\" on the !Valid() edge")
	// GetColor
	okParse, pd := false, "no ParseUint"
	gcHost, gcPar := cssHost(p, gc)
	for _, in := range callsNamed(gcHost, "strconv.ParseUint") {
		cc := callCommon(in)
		sl, isSl := cc.Args[0].(*ssa.Slice)
		base, okB := constInt(cc.Args[1])
		bits, okS := constInt(cc.Args[2])
		lowOne := false
		if isSl && gcPar != nil && sl.X == ssa.Value(gcPar) && sl.High == nil {
			if k, isK := constInt(sl.Low); isK && k == 1 {
				lowOne = true
			}
		}
		// or what strings.TrimPrefix(name, "#") leaves (under HasPrefix(name, "#") that is name[1:])
		if tc, isCall := cc.Args[0].(*ssa.Call); isCall && calleeName(&tc.Call) == "strings.TrimPrefix" && len(tc.Call.Args) == 2 && gcPar != nil && tc.Call.Args[0] == ssa.Value(gcPar) {
			if lit, isLit := constString(tc.Call.Args[1]); isLit && lit == "#" {
				lowOne = true
			}
		}
		okParse = lowOne && okB && base == 16 && okS && (bits == 0 || bits >= 24)
		pd = fmt.Sprintf("ParseUint(name[1:]: %v, base %d, bitSize %d)", lowOne, base, bits)
		// the parsed value reaches NewHexColor through conversions only
		reach := false
		for _, r := range *in.(ssa.Value).Referrers() {
			ex, isEx := r.(*ssa.Extract)
			if !isEx || ex.Index != 0 {
				continue
			}
			for _, u := range *ex.Referrers() {
				v, isV := u.(ssa.Value)
				for isV {
					next := false
					for _, u2 := range *v.Referrers() {
						if call, isCall := u2.(*ssa.Call); isCall && strings.HasSuffix(calleeName(&call.Call), "NewHexColor") {
							reach = true
						}
						if cv, isCv := u2.(*ssa.Convert); isCv {
							v, next = cv, true
						}
					}
					if _, isCv := v.(*ssa.Convert); !isCv || !next {
						break
					}
					if reach {
						break
					}
				}
				if call, isCall := u.(*ssa.Call); isCall && strings.HasSuffix(calleeName(&call.Call), "NewHexColor") {
					reach = true
				}
			}
		}
		if !reach {
			okParse = false
			pd += "; the parsed value does not reach NewHexColor through conversions only"
		}
		// guards: len(name) == 7 and name[0] == '#'
		hasLen, hasHash := cssFormGuards(in.Block())
		if !hasLen || !hasHash {
			okParse = false
			pd += fmt.Sprintf("; guards len(name)==7: %v, name[0]=='#': %v", hasLen, hasHash)
		}
	}
	c.Check(okParse, "C16-R6", "GetColor:reads-CSS-form", p.pos(gc.Pos()), pd)
}

// phiLeaf is one way a value reaches a phi: through the edge pred→join (join being the phi's block
// or the block of a nested phi).
type phiLeaf struct {
	pred, join *ssa.BasicBlock
	v          ssa.Value
}

func phiLeaves(phi *ssa.Phi, within map[*ssa.BasicBlock]bool) []phiLeaf {
	var out []phiLeaf
	seen := map[*ssa.Phi]bool{}
	var walk func(x *ssa.Phi)
	walk = func(x *ssa.Phi) {
		if seen[x] {
			return
		}
		seen[x] = true
		for i, e := range x.Edges {
			if in, ok := e.(*ssa.Phi); ok && in != phi && within[in.Block()] && phiMentions(in, phi, map[*ssa.Phi]bool{}) {
				walk(in) // a merge of "kept" and "replaced": look at its edges
				continue
			}
			out = append(out, phiLeaf{x.Block().Preds[i], x.Block(), e})
		}
	}
	walk(phi)
	return out
}

func phiMentions(x, target *ssa.Phi, seen map[*ssa.Phi]bool) bool {
	if seen[x] {
		return false
	}
	seen[x] = true
	for _, e := range x.Edges {
		if e == ssa.Value(target) {
			return true
		}
		if in, ok := e.(*ssa.Phi); ok && phiMentions(in, target, seen) {
			return true
		}
	}
	return false
}

// rawGuardsOnEdge: the branch conditions known when control flows from pred to succ.
func rawGuardsOnEdge(pred, succ *ssa.BasicBlock) []rawGuard {
	out := append([]rawGuard{}, rawGuardsAt(pred)...)
	if len(pred.Instrs) > 0 {
		if iff, ok := pred.Instrs[len(pred.Instrs)-1].(*ssa.If); ok && pred.Succs[0] != pred.Succs[1] {
			for idx := 0; idx < 2; idx++ {
				if pred.Succs[idx] == succ {
					out = append(out, expandCond(iff.Cond, idx == 0, 0)...)
				}
			}
		}
	}
	return out
}

// c16UpdateTest decides the best-so-far update of FindColor on values, not names: M is the
// loop-carried colour that is returned, D the loop-carried distance, nd what D is replaced by.  On
// every edge that carries M around the loop unchanged it must be known that M is not the ColorDefault
// placeholder (the first member is always taken) and that nd is not strictly below D (`nd >= D`,
// `!(nd < D)`: a tie keeps the earlier member); M and D are kept on the same edges.
func c16UpdateTest(fn *ssa.Function, def int64) (strict, first bool, detail string) {
	loops := loopsOf(fn)
	for h, body := range loops {
		var M, D *ssa.Phi
		for _, in := range h.Instrs {
			phi, ok := in.(*ssa.Phi)
			if !ok {
				continue
			}
			if typeName(phi.Type()) == "tcell.Color" || strings.HasSuffix(phi.Type().String(), ".Color") {
				if bt, isB := phi.Type().Underlying().(*types.Basic); isB && bt.Info()&types.IsInteger != 0 {
					M = phi
				}
			}
			if bt, isB := phi.Type().Underlying().(*types.Basic); isB && bt.Info()&types.IsFloat != 0 {
				D = phi
			}
		}
		if M == nil || D == nil {
			continue
		}
		within := map[*ssa.BasicBlock]bool{h: true}
		for b := range body {
			within[b] = true
		}
		var nd ssa.Value
		keepD := map[string]bool{}
		for _, l := range phiLeaves(D, within) {
			if !within[l.pred] {
				continue
			}
			if l.v == ssa.Value(D) {
				keepD[fmt.Sprintf("%d>%d", l.pred.Index, l.join.Index)] = true
			} else {
				nd = l.v
			}
		}
		keeps, nKeep := 0, 0
		strict, first = true, true
		for _, l := range phiLeaves(M, within) {
			if !within[l.pred] || l.v != ssa.Value(M) {
				continue
			}
			nKeep++
			if keepD[fmt.Sprintf("%d>%d", l.pred.Index, l.join.Index)] {
				keeps++
			}
			notDef, notBelow, other := false, false, ""
			for _, g := range rawGuardsOnEdge(l.pred, l.join) {
				bo, ok := g.Cond.(*ssa.BinOp)
				if !ok {
					continue
				}
				x, y, op := bo.X, bo.Y, bo.Op
				if y == ssa.Value(M) || y == nd {
					x, y, op = y, x, swapTok(op)
				}
				if !g.Positive {
					op = negTok(op)
				}
				switch {
				case x == ssa.Value(M):
					if k, isK := constInt(y); isK && k == def && op == token.NEQ {
						notDef = true
					}
				case x == nd && y == ssa.Value(D):
					if op == token.GEQ {
						notBelow = true
					} else {
						other += "kept when nd " + op.String() + " dist; "
					}
				}
			}
			if !notDef {
				first = false
			}
			if !notBelow {
				strict = false
			}
			detail += fmt.Sprintf("keep edge %d→%d: placeholder excluded %v, not-below %v %s; ", l.pred.Index, l.join.Index, notDef, notBelow, other)
		}
		if nKeep == 0 || keeps != nKeep || nd == nil {
			return false, false, detail + fmt.Sprintf("%d keep edge(s) of the colour, %d of them keep the distance too", nKeep, keeps)
		}
		return strict, first, detail
	}
	return false, false, "no loop carrying a colour and a distance"
}

func swapTok(op token.Token) token.Token {
	switch op {
	case token.LSS:
		return token.GTR
	case token.GTR:
		return token.LSS
	case token.LEQ:
		return token.GEQ
	case token.GEQ:
		return token.LEQ
	}
	return op
}

func negTok(op token.Token) token.Token {
	switch op {
	case token.LSS:
		return token.GEQ
	case token.GTR:
		return token.LEQ
	case token.LEQ:
		return token.GTR
	case token.GEQ:
		return token.LSS
	case token.EQL:
		return token.NEQ
	case token.NEQ:
		return token.EQL
	}
	return op
}

// cssFormGuards: what is known about `name` where block b runs — that it is seven bytes long
// (len(name) == 7, or len(name[k:]) == 7-k for the rest after a k-byte prefix) and that it starts with
// '#' (name[0] == '#', or strings.HasPrefix(name, "#")).
// cssHost: the function that parses the "#rrggbb" form — GetColor itself or the helper it hands its
// argument to — and that function's parameter holding the string.
func cssHost(p *Prog, gc *ssa.Function) (*ssa.Function, *ssa.Parameter) {
	if gc == nil || len(gc.Params) == 0 {
		return gc, nil
	}
	if len(callsNamed(gc, "strconv.ParseUint"))+len(callsNamed(gc, "strconv.ParseInt"))+len(callsNamed(gc, "strconv.Atoi")) > 0 {
		return gc, gc.Params[0]
	}
	host, par := gc, gc.Params[0]
	eachInstr(gc, func(in ssa.Instruction) {
		cc := callCommon(in)
		if cc == nil {
			return
		}
		h := cc.StaticCallee()
		if h == nil || h.Pkg != gc.Pkg || len(h.Blocks) == 0 {
			return
		}
		if len(callsNamed(h, "strconv.ParseUint"))+len(callsNamed(h, "strconv.ParseInt"))+len(callsNamed(h, "strconv.Atoi")) == 0 {
			return
		}
		for i, a := range cc.Args {
			if a == ssa.Value(gc.Params[0]) && i < len(h.Params) {
				host, par = h, h.Params[i]
			}
		}
	})
	return host, par
}

func cssFormGuards(b *ssa.BasicBlock) (hasLen, hasHash bool) {
	pn := "name"
	if f := b.Parent(); f != nil {
		for _, q := range f.Params {
			if bt, ok := q.Type().Underlying().(*types.Basic); ok && bt.Kind() == types.String {
				pn = q.Name()
				break
			}
		}
	}
	for _, g := range guardsAt(b) {
		if g.Op != "==" {
			continue
		}
		if g.L == "len("+pn+")" && g.R == "7" {
			hasLen = true
		}
		var k, n int
		if c, err := fmt.Sscanf(g.L+" "+g.R, "len("+pn+"[%d:]) %d", &k, &n); err == nil && c == 2 && k+n == 7 {
			hasLen = true
		}
		if strings.HasPrefix(g.L, pn+"[0]") && (g.R == "35" || g.R == "'#'") {
			hasHash = true
		}
		// the rest after the one-byte prefix has six characters
		if strings.HasPrefix(g.L, "len(strings.TrimPrefix("+pn+",\"#\")") && g.R == "6" {
			hasLen = true
		}
	}
	for _, g := range rawGuardsAt(b) {
		if call, ok := g.Cond.(*ssa.Call); ok && g.Positive && calleeName(&call.Call) == "strings.HasPrefix" && len(call.Call.Args) == 2 {
			if lit, isLit := constString(call.Call.Args[1]); isLit && lit == "#" && valName(call.Call.Args[0]) == pn {
				hasHash = true
			}
		}
	}
	return
}

#!/usr/bin/env python3
"""Writes checker/teeth.json: source edits that re-create realistic regressions.
Each tooth: property, name, file (relative to the repository), old text (must occur
exactly once), new text, and a substring of the failing rule key it must produce."""
import json, os

T = []

def t(prop, name, file, old, new, expect):
    T.append(dict(Prop=prop, Name=name, File=file, Old=old, New=new, Expect=expect))

TS = "tscreen.go"

# ---------------------------------------------------------------- C01
t("C01", "cursor-cache-ignores-column", TS, "} else if t.cy != y || t.cx != x {", "} else if t.cy != y {", "addressed-before-payload")
t("C01", "sync-without-invalidate", TS, "\t\tt.clear = true\n\t\tt.cells.Invalidate()\n\t\tt.draw()", "\t\tt.clear = true\n\t\tt.draw()", "Sync:invalidate-before-draw")
t("C01", "style-cache-survives-draws", TS, "\tt.curstyle = styleInvalid\n", "", "forget-style")
t("C01", "conditional-flush", TS, "\t_, _ = t.buf.WriteTo(t.tty)\n}", "\tif t.cursorx >= 0 {\n\t\t_, _ = t.buf.WriteTo(t.tty)\n\t}\n}", "single-flush")
t("C01", "keep-column-after-wide", TS, "\tif width > 1 {\n\t\tt.cx = -1\n\t}\n\n\treturn width", "\treturn width", "drop-column-after-wide")
t("C01", "no-redirty-of-hidden-column", TS, "\t\t\t\t\tt.cells.SetDirty(x+1, y, true)", "\t\t\t\t\t_ = y", "redirty-hidden-column")
t("C01", "cursor-test-misses-right-edge", TS, "\tif x < 0 || y < 0 || x >= w || y >= h {\n\t\tt.hideCursor()", "\tif x < 0 || y < 0 || x > w || y >= h {\n\t\tt.hideCursor()", "on-screen-test")
t("C01", "unmasked-palette-index", TS, "t.TPuts(ti.TParm(ti.SetFg, int(fg&0xff)))", "t.TPuts(ti.TParm(ti.SetFg, int(fg)))", "SetFg:arg1")
t("C01", "sync-without-clear", TS, "\t\tt.resize()\n\t\tt.clear = true\n", "\t\tt.resize()\n", "clear-before-draw")
t("C01", "clean-before-paint", TS, "\tt.writeString(str)\n\tt.cx += width\n\tt.cells.SetDirty(x, y, false)", "\tt.cx += width\n\tt.writeString(str)\n\tif x%2 == 0 {\n\t\tt.cells.SetDirty(x, y, false)\n\t}", "zzz-never")

# ---------------------------------------------------------------- C02
t("C02", "xterm-mouse-consumes-then-partial", TS, "\t\t\tfor i >= 0 {\n\t\t\t\t_, _ = buf.ReadByte()\n\t\t\t\ti--\n\t\t\t}\n\t\t\t*evs = append(*evs, t.buildMouseEvent(x, y, btn))\n\t\t\treturn true, true\n\t\t}\n\t}\n\treturn true, false", "\t\t\tfor i >= 0 {\n\t\t\t\t_, _ = buf.ReadByte()\n\t\t\t\ti--\n\t\t\t}\n\t\t\t*evs = append(*evs, t.buildMouseEvent(x, y, btn))\n\t\t\treturn true, false\n\t\t}\n\t}\n\treturn true, false", "parseXtermMouse:all-or-nothing")
t("C02", "raw-delivery-does-not-consume", TS, "\t\t\tby, _ := buf.ReadByte()\n", "\t\t\tby := b[0]\n", "every-cycle-progresses")
t("C02", "wait-ignores-expiry", TS, "\t\tif partials == 0 || expire {\n\t\t\tif b[0] == '\\x1b' {", "\t\tif partials == 0 {\n\t\t\tif b[0] == '\\x1b' {", "collect:exit#2")
t("C02", "clipboard-trims-from-buffer-end", TS, "b = b[:i] // the payload ends before the BEL", "b = b[:len(b)-1]", "C02-R5")
t("C02", "clipboard-skips-unchecked-prefix", TS, "\tif !bytes.HasPrefix(b, prefix) {\n\t\treturn false, false\n\t}\n\tb = b[len(prefix):]", "\tb = b[len(prefix):]", "C02-R6")
t("C02", "focus-partial-not-counted", TS, "\t\t\tif part, comp := t.parseFocus(buf, &res); comp {\n\t\t\t\tcontinue\n\t\t\t} else if part {\n\t\t\t\tpartials++\n\t\t\t}", "\t\t\tif _, comp := t.parseFocus(buf, &res); comp {\n\t\t\t\tcontinue\n\t\t\t}", "parseFocus:partial-counted")
t("C02", "focus-consumes-before-deciding", TS, "\t\tcase 1:\n\t\t\tif b[i] != '[' {\n\t\t\t\treturn false, false\n\t\t\t}\n\t\t\tstate = 2\n\t\tcase 2:\n\t\t\tif b[i] != 'I'", "\t\tcase 1:\n\t\t\tif b[i] != '[' {\n\t\t\t\treturn false, false\n\t\t\t}\n\t\t\t_, _ = buf.ReadByte()\n\t\t\tstate = 2\n\t\tcase 2:\n\t\t\tif b[i] != 'I'", "parseFocus:all-or-nothing")
t("C02", "function-key-complete-without-consuming", TS, "\t\t\tfor i := 0; i < len(esc); i++ {\n\t\t\t\t_, _ = buf.ReadByte()\n\t\t\t}\n\t\t\treturn true, true", "\t\t\treturn true, true", "parseFunctionKey:complete-consumes")

# ---------------------------------------------------------------- C03
t("C03", "f13-registered-from-f14", TS, "\tt.prepareKey(KeyF13, ti.KeyF13)", "\tt.prepareKey(KeyF13, ti.KeyF14)", "assigned-key")
t("C03", "ctrl-shift-becomes-ctrl-alt", TS, "t.prepareKeyModReplace(key, key+36, ModCtrl|ModShift, val+\";6~\")", "t.prepareKeyModReplace(key, key+36, ModCtrl|ModAlt, val+\";6~\")", "xterm-mod")
t("C03", "registrar-overwrites", TS, "\t\tif _, exist := t.keycodes[val]; !exist {\n\t\t\tt.keyexist[key] = true", "\t\tif _, exist := t.keycodes[val]; !exist || len(val) > 0 {\n\t\t\tt.keyexist[key] = true", "prepareKeyMod")
t("C03", "kclr-not-registered", TS, "\tt.prepareKey(KeyClear, ti.KeyClear)\n", "", "KeyClear:registered")
t("C03", "enter-gets-ctrl", TS, "\t\tcase KeyBS, KeyTAB, KeyESC, KeyCR:", "\t\tcase KeyBS, KeyTAB, KeyESC:", "control-bytes")
t("C03", "wrong-alias-offset", TS, "t.prepareKeyModReplace(key, key+24, ModCtrl, val+\";5~\")", "t.prepareKeyModReplace(key, key+12, ModCtrl, val+\";5~\")", "alias-offset")
t("C03", "entry-key-prefix-conflict", "terminfo/a/ansi/term.go", "\t\tKeyHome:      \"\\x1b[H\",", "\t\tKeyHome:      \"\\x1b[\",", "ansi:prefix-free")

# ---------------------------------------------------------------- C04
t("C04", "keypad-not-left", TS, "\tt.TPuts(ti.ExitKeypad)\n", "", "pair:keypad")
t("C04", "mouse-off-after-stop", TS, "\tt.enableMouse(0)\n\tt.enablePasting(false)\n\tt.disableFocusReporting()\n\n\t_ = t.tty.Stop()", "\tt.enablePasting(false)\n\tt.disableFocusReporting()\n\n\t_ = t.tty.Stop()\n\tt.enableMouse(0)", "pair:mouse")
t("C04", "altscreen-exit-depends-on-title", TS, "\t\tt.TPuts(ti.ExitCA)\n", "\t\tif t.title != \"\" {\n\t\t\tt.TPuts(ti.ExitCA)\n\t\t}\n", "pair:alternate-screen")
t("C04", "paste-flag-not-recorded", TS, "\tt.pasteEnabled = true\n\tif t.running {\n\t\tt.enablePasting(true)\n\t}", "\tif t.running {\n\t\tt.enablePasting(true)\n\t}", "EnablePaste:store+emit")
t("C04", "resize-callback-left-registered", TS, "\tt.tty.NotifyResize(nil)\n", "", "NotifyResize")
t("C04", "suspend-closes-tty", TS, "func (t *tScreen) Suspend() error {\n\tt.disengage()\n", "func (t *tScreen) Suspend() error {\n\tt.disengage()\n\t_ = t.tty.Close()\n", "Close:only")
t("C04", "resume-forgets-focus", TS, "\tif t.focusEnabled {\n\t\tt.enableFocusReporting()\n\t}\n", "", "engage:reapplies-focus")
t("C04", "stop-before-join", TS, "\t// wait for everything to shut down\n\tt.wg.Wait()\n", "\t_ = t.tty.Stop()\n\t// wait for everything to shut down\n\tt.wg.Wait()\n", "zzz-two-stops")

# ---------------------------------------------------------------- C05
t("C05", "input-events-dropped-when-full", TS, "\t\tcase <-stopQ:\n\t\t\treturn\n\t\t}\n\t}\n}\n\n// Return an array of Events", "\t\tcase <-stopQ:\n\t\t\treturn\n\t\tdefault:\n\t\t}\n\t}\n}\n\n// Return an array of Events", "scanInput:select-send")
t("C05", "postevent-hides-full-queue", "screen.go", "\tdefault:\n\t\treturn ErrEventQFull", "\tdefault:\n\t\treturn nil", "default-returns-ErrEventQFull")
t("C05", "second-main-loop", TS, "\tgo t.mainLoop(stopQ)\n\treturn nil", "\tgo t.mainLoop(stopQ)\n\tgo t.mainLoop(stopQ)\n\treturn nil", "each-loop-started-once")
t("C05", "focus-event-without-time", "focus.go", "\tev := &EventFocus{EventTime: &EventTime{}, Focused: focused}\n\tev.SetEventNow()\n\treturn ev", "\treturn &EventFocus{Focused: focused}", "EventFocus")
t("C05", "channel-events-never-closes", "screen.go", "\tdefer close(ch)\n", "", "defer-close")
t("C05", "engage-restarts-loops-while-running", TS, "\tif t.running {\n\t\treturn errors.New(\"already engaged\")\n\t}\n", "\tif t.running {\n\t\t_ = errors.New(\"already engaged\")\n\t}\n", "start-guarded-by-running")

# ---------------------------------------------------------------- C06
t("C06", "input-loop-bare-send", TS, "\t\t\tselect {\n\t\t\tcase t.keychan <- chunk[:n]:\n\t\t\tcase <-stopQ:\n\t\t\t\treturn\n\t\t\t}", "\t\t\tt.keychan <- chunk[:n]", "send@inputLoop")
t("C06", "scan-input-blind-to-stop", TS, "\t\tcase <-t.quit:\n\t\t\treturn\n\t\tcase <-stopQ:\n\t\t\treturn\n\t\t}\n\t}\n}", "\t\tcase <-t.quit:\n\t\t\treturn\n\t\t}\n\t}\n}", "select@scanInput")
t("C06", "join-under-lock", TS, "\t_ = t.tty.Drain()\n\tt.Unlock()\n\n\tt.tty.NotifyResize(nil)\n\t// wait for everything to shut down\n\tt.wg.Wait()\n\n\t// the loops are gone, but the application may still be calling us\n\tt.Lock()\n\tdefer t.Unlock()\n", "\t_ = t.tty.Drain()\n\n\tt.tty.NotifyResize(nil)\n\t// wait for everything to shut down\n\tt.wg.Wait()\n\tdefer t.Unlock()\n", "blocking-while-locked")
t("C06", "fini-without-once", TS, "\tt.finiOnce.Do(t.finish)", "\tt.finish()", "Fini=Once.Do")
t("C06", "fini-flag-never-set", TS, "\tt.Lock()\n\tt.fini = true\n\tt.Unlock()\n\tt.finalize()", "\tt.finalize()", "fini")
t("C06", "main-loop-ignores-stop", TS, "\t\tselect {\n\t\tcase <-stopQ:\n\t\t\treturn\n\t\tcase <-t.quit:\n\t\t\treturn\n\t\tcase <-t.resizeQ:", "\t\tselect {\n\t\tcase <-t.quit:\n\t\t\treturn\n\t\tcase <-t.resizeQ:", "select@mainLoop")
t("C06", "poll-returns-event-on-stop", "screen.go", "\tcase <-b.StopQ():\n\t\treturn nil\n\tcase ev := <-b.EventQ():\n\t\treturn ev", "\tcase ev := <-b.EventQ():\n\t\treturn ev", "PollEvent")

# ---------------------------------------------------------------- C07
TI = "terminfo/terminfo.go"
t("C07", "subtraction-operands-swapped", TI, "\t\t\tstk = stk.Push(ai - bi)", "\t\t\tstk = stk.Push(bi - ai)", "binop:%-")
t("C07", "greater-becomes-greater-equal", TI, "\t\t\tstk = stk.Push(ai > bi)", "\t\t\tstk = stk.Push(ai >= bi)", "binop:%>")
t("C07", "division-unguarded", TI, "\t\t\tif bi != 0 {\n\t\t\t\tstk = stk.Push(ai / bi)\n\t\t\t} else {\n\t\t\t\tstk = stk.Push(0)\n\t\t\t}", "\t\t\tstk = stk.Push(ai / bi)", "binop:%/")
t("C07", "strlen-operator-removed", TI, "\t\tcase 'l': // push(strlen(pop))\n\t\t\ta, stk = stk.PopString()\n\t\t\tstk = stk.Push(len(a))\n", "", "op:%l")
t("C07", "skip-scanner-forgets-nesting", TI, "\t\t\tcase '?':\n\t\t\t\tnest++\n", "", "skip-scanner")
t("C07", "entry-uses-third-parameter", "terminfo/a/ansi/term.go", "\t\tSetFg:        \"\\x1b[3%p1%dm\",", "\t\tSetFg:        \"\\x1b[3%p3%dm\",", "entry:ansi")
t("C07", "pop-order-reversed", TI, "\t\tcase '&': // AND\n\t\t\tbi, stk = stk.PopInt()\n\t\t\tai, stk = stk.PopInt()", "\t\tcase '&': // AND\n\t\t\tai, stk = stk.PopInt()\n\t\t\tbi, stk = stk.PopInt()", "binop:%&")
t("C07", "push-true-as-two", TI, "\t\tif b {\n\t\t\treturn append(st, 1)", "\t\tif b {\n\t\t\treturn append(st, 2)", "Push:bool")
t("C07", "logical-and-removed", TI, "\t\tcase 'A': // logical AND\n\t\t\tbi, stk = stk.PopInt()\n\t\t\tai, stk = stk.PopInt()\n\t\t\tstk = stk.Push(ai != 0 && bi != 0)\n\n", "", "op:%A")
t("C07", "static-var-index-unchecked", TI, "\t\t\tif ch >= 'A' && ch <= 'Z' {\n\t\t\t\tsvars[int(ch-'A')], stk = stk.PopString()", "\t\t\tif ch >= 'A' {\n\t\t\t\tsvars[int(ch-'A')], stk = stk.PopString()", "index#")
t("C07", "recall-dynamic-with-static-offset", "terminfo/terminfo.go", "\t\t\t\tstk = stk.Push(dvars[int(ch-'a')])", "\t\t\t\tstk = stk.Push(dvars[int(ch-'a')%26])", "op:%g:dynamic-variable")
t("C07", "store-static-into-dynamic", "terminfo/terminfo.go", "\t\t\t\tsvars[int(ch-'A')], stk = stk.PopString()", "\t\t\t\tdvars[int(ch-'A')], stk = stk.PopString()", "op:%P")
t("C07", "logical-not-inverted", "terminfo/terminfo.go", "\t\t\tstk = stk.Push(ai == 0)", "\t\t\tstk = stk.Push(ai != 0)", "op:%!:logical-not")
t("C07", "complement-becomes-negation", "terminfo/terminfo.go", "\t\t\tstk = stk.Push(ai ^ -1)", "\t\t\tstk = stk.Push(-ai)", "op:%~:bit-complement")
t("C07", "integer-constant-octal", "terminfo/terminfo.go", "\t\t\t\tai *= 10\n\t\t\t\tai += int(ch - '0')", "\t\t\t\tai *= 8\n\t\t\t\tai += int(ch - '0')", "op:%{n}:decimal-constant")
t("C07", "strlen-off-by-one", "terminfo/terminfo.go", "\t\t\tstk = stk.Push(len(a))", "\t\t\tstk = stk.Push(len(a) + 1)", "op:%l:string-length")
t("C07", "char-constant-takes-closing-quote", "terminfo/terminfo.go", "\t\t\tch, _ = pb.NextCh()\n\t\t\t_, _ = pb.NextCh() // must be ' but we don't check\n\t\t\tstk = stk.Push(int(ch))", "\t\t\t_, _ = pb.NextCh()\n\t\t\tch, _ = pb.NextCh() // must be ' but we don't check\n\t\t\tstk = stk.Push(int(ch))", "op:%'c':pushes-the-character")

# ---------------------------------------------------------------- C08
CELL = "cell.go"
t("C08", "dirty-ignores-style", CELL, "\t\tif c.lastStyle != c.currStyle {\n\t\t\treturn true\n\t\t}\n", "", "Dirty:compares:Style")
t("C08", "combining-slice-aliased", CELL, "\t\tc.currComb = append([]rune{}, combc...)", "\t\tc.currComb = combc", "copies-combining")
t("C08", "lock-test-removed", CELL, "\t\tif c.lock {\n\t\t\treturn false\n\t\t}\n", "", "lock-first")
t("C08", "off-by-one-column-bound", CELL, "\tif x >= 0 && y >= 0 && x < cb.w && y < cb.h {\n\t\tc := &cb.cells[(y*cb.w)+x]\n\t\tmainc, combc, style =", "\tif x >= 0 && y >= 0 && x <= cb.w && y < cb.h {\n\t\tc := &cb.cells[(y*cb.w)+x]\n\t\tmainc, combc, style =", "GetContent:cells")
t("C08", "clean-forgets-combining", CELL, "\t\t\tc.lastComb = c.currComb\n", "", "SetDirty(false):copies:Comb")
t("C08", "fill-width-one", CELL, "\t\tc.width = width\n", "\t\t_ = width\n\t\tc.width = 1\n", "Fill:currMain-store")
t("C08", "unlock-does-not-dirty", CELL, "\tc.lock = false\n\tcb.SetDirty(x, y, true)", "\tc.lock = false", "UnlockCell:force-dirty")
t("C08", "background-none-not-merged", CELL, "\t\tif style.bg == ColorNone {\n\t\t\tstyle.bg = c.currStyle.bg\n\t\t}\n", "", "SetContent:ColorNone-merge:bg")
t("C08", "width-changed-before-dirtying", CELL, "\t\tc.currComb = append([]rune{}, combc...)\n\n\t\tif c.currMain != mainc {\n\t\t\tc.width = runeCellWidth(mainc)\n\t\t}", "\t\tc.currComb = append([]rune{}, combc...)\n\n\t\tc.width = runeCellWidth(c.currMain)", "SetContent:currMain-store")

# ---------------------------------------------------------------- C09
t("C09", "control-runes-pass-getcontent", CELL, "width == 0 || mainc < ' ' {", "width == 0 {", "primary-rune-sanitised")
t("C09", "underline-rgb-literal-truncated", TS, "t.underRGB = \"\\x1b[58:2::%p1%d:%p2%d:%p3%dm\"", "t.underRGB = \"\\x1b[58:2::%p1%d:%p2%d:%p3%d\"", "C09-R5")
t("C09", "rgb-without-isrgb", TS, "\t\tif fg.IsRGB() && ti.SetFgRGB != \"\" {", "\t\tif ti.SetFgRGB != \"\" {", "C09-R6")
t("C09", "east-asian-width-on", CELL, "\t\trunewidth.DefaultCondition.EastAsianWidth = false", "\t\trunewidth.DefaultCondition.EastAsianWidth = true", "runewidth")
t("C09", "focus-literal-with-residue", TS, "\t\tt.enableFocus = \"\\x1b[?1004h\"", "\t\tt.enableFocus = \"\\x1b[?%p1%dh\"", "C09-R5")
t("C09", "entry-with-unterminated-osc", "terminfo/x/xterm_kitty/term.go", "\t\tName:", "\t\tEnterUrl:          \"\\x1b]8;%p2%s;%p1%s\",\n\t\tExitUrl:           \"\\x1b]8;;\\x1b\\\\\",\n\t\tName:", "C09-R5")
t("C09", "bell-through-second-raw-writer", TS, "func (t *tScreen) GetClipboard() {\n\tt.Lock()", "func (t *tScreen) GetClipboard() {\n\tt.Lock()\n\tt.writeString(t.title)", "writeString:callers")

# ---------------------------------------------------------------- C10
t("C10", "setstyle-unlocked", TS, "func (t *tScreen) SetStyle(style Style) {\n\tt.Lock()\n\tif !t.fini {\n\t\tt.style = style\n\t}\n\tt.Unlock()\n}", "func (t *tScreen) SetStyle(style Style) {\n\tif !t.fini {\n\t\tt.style = style\n\t}\n}", "SetStyle")
t("C10", "show-draws-unlocked", TS, "\tif !t.fini {\n\t\tt.resize()\n\t\tt.draw()\n\t}\n\tt.Unlock()\n}\n\nfunc (t *tScreen) clearScreen", "\tif !t.fini {\n\t\tt.resize()\n\t\tt.Unlock()\n\t\tt.draw()\n\t\tt.Lock()\n\t}\n\tt.Unlock()\n}\n\nfunc (t *tScreen) clearScreen", "Show")
t("C10", "beep-unlocked", TS, "\tt.Lock()\n\tt.writeString(string(byte(7)))\n\tt.Unlock()", "\tt.writeString(string(byte(7)))", "Beep")
t("C10", "title-stored-before-lock", TS, "\tt.Lock()\n\tt.title = title\n\tif t.setTitle != \"\" && t.running {", "\tt.title = title\n\tt.Lock()\n\tif t.setTitle != \"\" && t.running {", "SetTitle")
t("C10", "sim-gettitle-unlocked", "simulation.go", "\ts.Lock()\n\ttitle := s.title\n\ts.Unlock()\n\treturn title", "\treturn s.title", "GetTitle")
t("C10", "size-read-unlocked", TS, "func (t *tScreen) Size() (int, int) {\n\tt.Lock()\n\tw, h := t.w, t.h\n\tt.Unlock()", "func (t *tScreen) Size() (int, int) {\n\tw, h := t.w, t.h", "Size")
t("C10", "lock-leak-on-early-return", TS, "func (t *tScreen) SetClipboard(data []byte) {\n\t// Post binary data to the system clipboard.  It might be UTF-8, it might not be.\n\tt.Lock()\n\tif t.setClipboard != \"\" {", "func (t *tScreen) SetClipboard(data []byte) {\n\t// Post binary data to the system clipboard.  It might be UTF-8, it might not be.\n\tt.Lock()\n\tif len(data) == 0 {\n\t\treturn\n\t}\n\tif t.setClipboard != \"\" {", "lock-leak")
t("C10", "setcontent-wrapper-unlocked", "screen.go", "\tcells := b.GetCells()\n\tb.Lock()\n\tcells.SetContent(x, y, mainc, combc, st)\n\tb.Unlock()", "\tcells := b.GetCells()\n\tcells.SetContent(x, y, mainc, combc, st)", "SetContent")

# ---------------------------------------------------------------- C11
t("C11", "rune-prefix-loop-exclusive", TS, "\tfor l := 1; l <= len(b); l++ {\n\t\tt.decoder.Reset()", "\tfor l := 1; l < len(b); l++ {\n\t\tt.decoder.Reset()", "prefix-loop")
t("C11", "paste-end-not-registered", TS, "\t\tt.prepareKey(keyPasteStart, \"\\x1b[200~\")\n\t\tt.prepareKey(keyPasteEnd, \"\\x1b[201~\")", "\t\tt.prepareKey(keyPasteStart, \"\\x1b[200~\")", "branch#2")
t("C11", "focus-polarity-swapped", TS, "NewEventFocus(b[i] == 'I')", "NewEventFocus(b[i] == 'O')", "parseFocus:I=in")
t("C11", "focus-parser-behind-mouse", TS, "\t\tif partials == 0 || expire {\n\t\t\tif part, comp := t.parseFocus(buf, &res); comp {\n\t\t\t\tcontinue\n\t\t\t} else if part {\n\t\t\t\tpartials++\n\t\t\t}\n\t\t}\n", "\t\tif t.ti.Mouse != \"\" && (partials == 0 || expire) {\n\t\t\tif part, comp := t.parseFocus(buf, &res); comp {\n\t\t\t\tcontinue\n\t\t\t} else if part {\n\t\t\t\tpartials++\n\t\t\t}\n\t\t}\n", "parseFocus")
t("C11", "paste-events-swapped", TS, "\t\t\tcase keyPasteStart:\n\t\t\t\t*evs = append(*evs, NewEventPaste(true))", "\t\t\tcase keyPasteStart:\n\t\t\t\t*evs = append(*evs, NewEventPaste(false))", "NewEventPaste")

# ---------------------------------------------------------------- C12
t("C12", "middle-button-becomes-right", TS, "\t\tbutton = Button3 // Note we prefer to treat right as button 2", "\t\tbutton = Button2 // Note we prefer to treat right as button 2", "code-0x1")
t("C12", "coordinates-not-clipped", TS, "\tx, y = t.clip(x, y)\n", "", "x-clipped")
t("C12", "sgr-x-not-zero-based", TS, "\t\t\t\tx, val = val-1, 0", "\t\t\t\tx, val = val, 0", "parseSgrMouse:x")
t("C12", "x11-8bit-introducer-dropped", TS, "\t\t\tcase '\\x9b':\n\t\t\t\tstate = 2\n\t\t\tdefault:\n\t\t\t\treturn false, false", "\t\t\tdefault:\n\t\t\t\treturn false, false", "parseXtermMouse:introducers")
t("C12", "x11-button-offset-kept", TS, "\t\t\tbtn = int(b[i]) - 32", "\t\t\tbtn = int(b[i])", "parseXtermMouse:button")
t("C12", "release-keeps-press-flag", TS, "\t\t\t\tbtn &^= 0x40\n\t\t\t\tt.buttondn = false", "\t\t\t\tbtn &^= 0x40", "press-flag-cleared")
t("C12", "ctrl-and-alt-bits-swapped", TS, "\tif btn&0x8 != 0 {\n\t\tmod |= ModAlt", "\tif btn&0x8 != 0 {\n\t\tmod |= ModCtrl", "modifier:bit-8")
t("C12", "clip-allows-width", TS, "\tif x > w-1 {\n\t\tx = w - 1\n\t}\n\tif y > h-1 {\n\t\ty = h - 1\n\t}\n\treturn x, y\n}\n\n// buildMouseEvent", "\tif x > w {\n\t\tx = w\n\t}\n\tif y > h-1 {\n\t\ty = h - 1\n\t}\n\treturn x, y\n}\n\n// buildMouseEvent", "clip:")

# ---------------------------------------------------------------- C13
t("C13", "show-invalidates-everything", TS, "\tif !t.fini {\n\t\tt.resize()\n\t\tt.draw()\n\t}\n\tt.Unlock()\n}\n\nfunc (t *tScreen) clearScreen", "\tif !t.fini {\n\t\tt.resize()\n\t\tt.cells.Invalidate()\n\t\tt.draw()\n\t}\n\tt.Unlock()\n}\n\nfunc (t *tScreen) clearScreen", "Show:Invalidate")
t("C13", "goto-before-dirty-test", TS, "\tmainc, combc, style, width := t.cells.GetContent(x, y)\n\tif !t.cells.Dirty(x, y) {\n\t\treturn width\n\t}\n\n\tif y == t.h-1", "\tmainc, combc, style, width := t.cells.GetContent(x, y)\n\tt.TPuts(ti.TGoto(x, y))\n\tif !t.cells.Dirty(x, y) {\n\t\treturn width\n\t}\n\n\tif y == t.h-1", "emit@TPuts")
t("C13", "lock-region-swapped", "screen.go", "\t\t\tcase true:\n\t\t\t\tcells.LockCell(i, j)\n\t\t\tcase false:\n\t\t\t\tcells.UnlockCell(i, j)", "\t\t\tcase true:\n\t\t\t\tcells.UnlockCell(i, j)\n\t\t\tcase false:\n\t\t\t\tcells.LockCell(i, j)", "LockRegion")
t("C13", "resize-invalidates-unconditionally", TS, "\tif ws.Width == t.w && ws.Height == t.h {\n\t\treturn\n\t}\n\tt.cx = -1", "\tt.cx = -1", "resize:")
t("C13", "sim-clean-without-write", "simulation.go", "\tif !s.back.Dirty(x, y) {\n\t\treturn width\n\t}\n\tif x >= s.physw || y >= s.physh || x < 0 || y < 0 {\n\t\treturn width\n\t}", "\tif !s.back.Dirty(x, y) {\n\t\treturn width\n\t}\n\tif x >= s.physw || y >= s.physh || x < 0 || y < 0 {\n\t\ts.back.SetDirty(x, y, false)\n\t\treturn width\n\t}", "clean-after-paint")
t("C13", "neighbour-dirtied-for-every-cell", TS, "\t\t\tif width > 1 {\n\t\t\t\tif x+1 < t.w {", "\t\t\tif width >= 1 {\n\t\t\t\tif x+1 < t.w {", "draw:SetDirty(true)")

# ---------------------------------------------------------------- C14
ANSI = "terminfo/a/ansi/term.go"
t("C14", "entry-without-cup", ANSI, "\t\tSetCursor:    \"\\x1b[%i%p1%d;%p2%dH\",\n", "", "ansi:SetCursor")
t("C14", "duplicate-alias", "terminfo/p/pcansi/term.go", "\t\tName:         \"pcansi\",", "\t\tName:         \"pcansi\",\n\t\tAliases:      []string{\"ansi\"},", "name:ansi:duplicate")
t("C14", "unbalanced-conditional", ANSI, "\t\tSetBg:        \"\\x1b[4%p1%dm\",", "\t\tSetBg:        \"\\x1b[%?%p1%{8}%<%t4%p1%d%e10%p1%{8}%-%dm\",", "ansi:SetBg:well-formed")
t("C14", "lookup-amends-shared-entry", TI, "\t\tnt := *t\n\t\tnt.Colors = 256", "\t\tnt := *t\n\t\tt.Colors = 256", "LookupTerminfo:store(Colors)")
t("C14", "lookup-returns-other-error", TI, "\tif t == nil {\n\t\treturn nil, ErrTermNotFound\n\t}\n\n\tswitch os.Getenv(\"TCELL_TRUECOLOR\")", "\tif t == nil {\n\t\treturn nil, errors.New(\"unknown terminal\")\n\t}\n\n\tswitch os.Getenv(\"TCELL_TRUECOLOR\")", "failure-return")
t("C14", "colour-count-without-strings", ANSI, "\t\tColors:       8,", "\t\tColors:       0,", "ansi:colors-consistent")
t("C14", "registry-alias-outside-lock", TI, "\tterminfos[t.Name] = t\n\tfor _, x := range t.Aliases {\n\t\tterminfos[x] = t\n\t}\n\tdblock.Unlock()", "\tterminfos[t.Name] = t\n\tdblock.Unlock()\n\tfor _, x := range t.Aliases {\n\t\tterminfos[x] = t\n\t}", "AddTerminfo:write")
t("C14", "synthesised-256-bg-uses-38", TI, "%e48;5;%p1%d%;m\"\n\t\tnt.SetFgBg", "%e38;5;%p1%d%;m\"\n\t\tnt.SetFgBg", "synth:SetBg")
t("C14", "truecolor-env-misspelt", TI, "\tcase \"truecolor\", \"24bit\", \"24-bit\":", "\tcase \"truecolour\", \"24bit\", \"24-bit\":", "env:COLORTERM")
t("C14", "terminal-dropped-from-extended", "terminfo/extended/extended.go", "\t_ \"github.com/gdamore/tcell/v2/terminfo/w/wy50\"\n", "", "extended imports terminfo/w/wy50")
t("C14", "screen-shares-terminfo", TS, "\tnti := *ti\n\tt := &tScreen{ti: &nti, tty: tty}", "\tnti := ti\n\tt := &tScreen{ti: nti, tty: tty}", "prepareKeys:store(XTermLike)")

# ---------------------------------------------------------------- C15
t("C15", "goto-arguments-swapped", TI, "\treturn t.TParm(t.SetCursor, row, col)", "\treturn t.TParm(t.SetCursor, col, row)", "TGoto")
t("C15", "bright-fold-includes-seven", TI, "\t\tif fi > 7 && fi < 16 {", "\t\tif fi >= 7 && fi < 16 {", "TColor:fi>7")
t("C15", "cup-without-increment", ANSI, "\t\tSetCursor:    \"\\x1b[%i%p1%d;%p2%dH\",", "\t\tSetCursor:    \"\\x1b[%p1%d;%p2%dH\",", "ansi:cup-convention")
t("C15", "background-uses-foreground-sgr", ANSI, "\t\tSetBg:        \"\\x1b[4%p1%dm\",", "\t\tSetBg:        \"\\x1b[3%p1%dm\",", "ansi:SetBg")
t("C15", "colour-range-off-by-one", TI, "\tif t.Colors > fi && fi >= 0 {", "\tif t.Colors >= fi && fi >= 0 {", "TColor:fi-in-range")
t("C15", "padding-terminator-left-in-output", TI, "\t\ts = s[end+1:]", "\t\ts = s[end:]", "TPuts:skip-terminator")
t("C15", "offset32-cup-swapped", "terminfo/v/vt52/term.go", "%p1%' '%+%c%p2%' '%+%c", "%p2%' '%+%c%p1%' '%+%c", "vt52:cup-convention")
t("C15", "bright-colours-wrong-base-256", "terminfo/x/xterm/term.go", "\t\tName:         \"xterm-88color\",", "\t\tName:         \"xterm-88color\",\n\t\tStrikeThrough: \"\\x1b[9m\",", "zzz-benign")

t("C15", "mandatory-padding-flag-unrecognised", TI, "\t\t\tcase '*', '/':", "\t\t\tcase '*':", "grammar:alphabet")
t("C15", "ill-formed-padding-stripped", TI, "\t\t\t_, _ = io.WriteString(w, \"$<\")\n\t\t\tcontinue", "\t\t\ts = s[end+1:]\n\t\t\tcontinue", "ill-formed-kept")
t("C15", "padding-without-number-accepted", TI, "\t\tif !valid || !digits {", "\t\tif !valid || (!digits && len(val) > 3) {", "well-formed-only")
t("C09", "database-padding-flag-leaks", TI, "\t\t\tcase '*', '/':", "\t\t\tcase '*':", "database-padding-recognised")

# ---------------------------------------------------------------- C16
COL = "color.go"
t("C16", "palette-value-typo", COL, "\tColorMaroon:               0x800000,", "\tColorMaroon:               0x800001,", "palette[1]")
t("C16", "colour-name-misspelt", COL, "\t\"aliceblue\":", "\t\"aliceblu\":", "aliceblue")
t("C16", "findcolor-takes-later-ties", "colorfit.go", "nd < dist {", "nd <= dist {", "strict-improvement")
t("C16", "findcolor-returns-input", "colorfit.go", "\tmatch := ColorDefault\n", "\tmatch := ColorDefault\n\tif len(palette) == 0 {\n\t\treturn c\n\t}\n", "returns-member")
t("C16", "hex-without-validity-gate", COL, "func (c Color) Hex() int32 {\n\tif !c.Valid() {\n\t\treturn -1\n\t}\n", "func (c Color) Hex() int32 {\n", "Hex:invalid")
t("C16", "grey-ramp-value-typo", COL, "0x080808", "0x080809", "palette[232]")
t("C16", "rgb-constant-disagrees-with-table", COL, "\tColorAliceBlue            = ColorIsRGB | ColorValid | 0xF0F8FF", "\tColorAliceBlue            = ColorIsRGB | ColorValid | 0xF0F8FE", "constant-vs-table")
t("C16", "cyan-removed", COL, "\t\"cyan\":                 ColorAqua,\n", "", "name:cyan")

t("C16", "hex-mask-one-nibble-short", COL, "\t\treturn int32(c & 0xffffff)", "\t\treturn int32(c & 0xfffff)", "Hex(NewHexColor(v))=v")
t("C16", "green-shifted-into-red", COL, "((g & 0xff) << 8)", "((g & 0xff) << 16)", "NewRGBColor(r,g,b):bits")
t("C16", "rgb-components-not-masked", COL, "\treturn NewHexColor(((r & 0xff) << 16) | ((g & 0xff) << 8) | (b & 0xff))", "\treturn NewHexColor((r << 16) | (g << 8) | b)", "components-masked")
t("C16", "rgb-blue-reads-seven-bits", COL, "(v >> 8) & 0xff, v & 0xff", "(v >> 8) & 0xff, v & 0x7f", "RGB(NewRGBColor(r,g,b))=(r,g,b)")
t("C16", "truecolor-drops-rgb-flag", COL, "\t\treturn c | ColorValid\n", "\t\treturn (c & 0xffffff) | ColorValid\n", "TrueColor(rgb)=rgb")
t("C16", "image-colour-takes-low-byte", COL, "int32(r>>8), int32(g>>8), int32(b>>8)", "int32(r>>8), int32(g), int32(b>>8)", "FromImageColor:components")
t("C16", "palette-colour-marked-rgb", COL, "\treturn Color(index) | ColorValid\n", "\treturn Color(index) | ColorValid | ColorIsRGB\n", "PaletteColor(i):bits")

# ---------------------------------------------------------------- C17
t("C17", "fallback-before-acs", TS, "\t\t\tif acs, ok := t.acs[r]; ok {\n\t\t\t\tbuf = append(buf, []byte(acs)...)\n\t\t\t} else if fb, ok := t.fallback[r]; ok {\n\t\t\t\tbuf = append(buf, []byte(fb)...)\n\t\t\t}", "\t\t\tif fb, ok := t.fallback[r]; ok {\n\t\t\t\tbuf = append(buf, []byte(fb)...)\n\t\t\t} else if acs, ok := t.acs[r]; ok {\n\t\t\t\tbuf = append(buf, []byte(acs)...)\n\t\t\t}", "acs-before-fallback")
t("C17", "candisplay-ignores-sub", TS, "\t\tif dst != 0 && err == nil && nb[0] != '\\x1A' {\n\t\t\treturn true\n\t\t}\n\t}\n\t// Terminal fallbacks", "\t\tif dst != 0 && err == nil {\n\t\t\treturn true\n\t\t}\n\t}\n\t// Terminal fallbacks", "CanDisplay")
t("C17", "lang-before-lc-all", "charset_unix.go", "\tif locale = os.Getenv(\"LC_ALL\"); locale == \"\" {\n\t\tif locale = os.Getenv(\"LC_CTYPE\"); locale == \"\" {\n\t\t\tlocale = os.Getenv(\"LANG\")", "\tif locale = os.Getenv(\"LANG\"); locale == \"\" {\n\t\tif locale = os.Getenv(\"LC_CTYPE\"); locale == \"\" {\n\t\t\tlocale = os.Getenv(\"LC_ALL\")", "precedence")
t("C17", "acs-q-maps-to-vline", TS, "\t'q': RuneHLine,", "\t'q': RuneVLine,", "acsc:'q'")
t("C17", "acs-last-pair-dropped", TS, "\tfor len(acsstr) >= 2 {", "\tfor len(acsstr) > 2 {", "last-pair")
t("C17", "candisplay-acs-needs-fallback-flag", TS, "\tif _, ok := t.acs[r]; ok {\n\t\treturn true\n\t}\n\tif !checkFallbacks {\n\t\treturn false\n\t}", "\tif !checkFallbacks {\n\t\treturn false\n\t}\n\tif _, ok := t.acs[r]; ok {\n\t\treturn true\n\t}", "acs-always")
t("C17", "getencoding-without-lowercase", "encoding.go", "func GetEncoding(charset string) encoding.Encoding {\n\tcharset = strings.ToLower(charset)\n", "func GetEncoding(charset string) encoding.Encoding {\n", "same-normalisation")
t("C17", "acs-glyph-without-exit", TS, "t.acs[r] = enter + dstv + exit", "t.acs[r] = enter + dstv\n\t\t\t_ = exit", "brackets")
t("C17", "hline-constant-wrong-glyph", "runes.go", "\tRuneHLine    = '─'", "\tRuneHLine    = '━'", "glyph:RuneHLine")

# ---------------------------------------------------------------- C18
SIM = "simulation.go"
t("C18", "sim-sync-without-invalidate", SIM, "\ts.resize()\n\ts.back.Invalidate()\n\ts.draw()", "\ts.resize()\n\ts.draw()", "Sync")
t("C18", "inject-prefix-loop-exclusive", SIM, "\t\tfor l := 1; l <= len(b); l++ {", "\t\tfor l := 1; l < len(b); l++ {", "prefix-loop")
t("C18", "sim-setsize-resizes-buffer-itself", SIM, "\ts.resize()\n\ts.Unlock()\n}\n\nfunc (s *simscreen) GetContents", "\ts.back.Resize(w, h)\n\ts.Unlock()\n}\n\nfunc (s *simscreen) GetContents", "SetSize")
t("C18", "inject-advances-by-loop-counter", SIM, "\t\t\t\tb = b[nin:]", "\t\t\t\t_ = nin\n\t\t\t\tb = b[l:]", "advance-by-nSrc")
t("C18", "sim-cursor-visible-past-right-edge", SIM, "\tif x < 0 || y < 0 || x >= s.physw || y >= s.physh {\n\t\ts.cursorvis = false", "\tif x < 0 || y < 0 || y >= s.physh {\n\t\ts.cursorvis = false", "four-bounds")

# ---------------------------------------------------------------- C19
WS = "wscreen.go"
t("C19", "resume-keeps-lock", WS, "\tjs.Global().Set(\"onKeyEvent\", js.FuncOf(t.onKeyEvent))\n\n\tt.Unlock()\n\treturn nil", "\tjs.Global().Set(\"onKeyEvent\", js.FuncOf(t.onKeyEvent))\n\n\treturn nil", "Resume:lock-leak")
t("C19", "click-handler-always-installed", WS, "\tif f&MouseButtonEvents != 0 {\n\t\tjs.Global().Set(\"onMouseClick\", js.FuncOf(t.onMouseEvent))\n\t} else {\n\t\tjs.Global().Set(\"onMouseClick\", js.FuncOf(t.unset))\n\t}", "\tjs.Global().Set(\"onMouseClick\", js.FuncOf(t.onMouseEvent))", "onMouseClick")
t("C19", "clipboard-method-removed", WS, "func (t *wScreen) GetClipboard() {}", "", "implements screenImpl")
t("C19", "palette-navy-typo", WS, "\tColorNavy:    0x0000ee,", "\tColorNavy:    0x0000ef,", "palette[4]")
t("C19", "setsize-unlocked", WS, "func (t *wScreen) SetSize(w, h int) {\n\tt.Lock()\n\tif w == t.w && h == t.h {\n\t\tt.Unlock()\n\t\treturn\n\t}", "func (t *wScreen) SetSize(w, h int) {\n\tif w == t.w && h == t.h {\n\t\treturn\n\t}\n\tt.Lock()", "SetSize")
t("C19", "draw-before-dirty-test", WS, "\tt.cells.SetDirty(x, y, false)\n\tjs.Global().Call(\"drawCell\"", "\tjs.Global().Call(\"drawCell\"", "clean-mark")
t("C19", "motion-delivered-without-flag", WS, "\t\tif mouseFlags&MouseMotionEvents == 0 {\n\t\t\t// don't want this event! is a mouse motion event, but user has asked not.\n\t\t\treturn nil\n\t\t}\n", "\t\tif mouseFlags == 0 {\n\t\t\treturn nil\n\t\t}\n", "motion-gate")
t("C19", "resize-event-posted-under-lock", WS, "\tt.w, t.h = w, h\n\tt.Unlock()\n\tt.postEvent(NewEventResize(w, h))", "\tt.w, t.h = w, h\n\tt.postEvent(NewEventResize(w, h))\n\tt.Unlock()", "post-while-locked")

# ---------------------------------------------------------------- C20
VW = "views/view.go"
BL = "views/boxlayout.go"
t("C20", "scrolldown-without-clamp", VW, "\tv.viewy += rows\n\tv.ValidateViewY()", "\tv.viewy += rows", "ScrollDown")
t("C20", "right-edge-test-dropped", VW, "\tif x >= (v.viewx + v.width) {\n\t\treturn\n\t}\n", "", "window-tests")
t("C20", "orientation-change-without-relayout", BL, "\t\tb.orient = orient\n\t\tb.changed = true", "\t\tb.orient = orient", "SetOrientation")
t("C20", "remainder-loop-never-decrements", BL, "\t\tbest.pad++\n\t\tbest.frac = 0\n\t\tresid--\n\t}\n\n\tx, y, xinc := 0, 0, 0", "\t\tbest.pad++\n\t\tbest.frac = 0\n\t}\n\n\tx, y, xinc := 0, 0, 0", "hLayout:remainder")
t("C20", "translation-forgets-origin", VW, "v.v.SetContent(x-v.viewx+v.physx, y-v.viewy+v.physy, ch, comb, s)", "v.v.SetContent(x-v.viewx, y-v.viewy+v.physy, ch, comb, s)", "translation")
t("C20", "setcontentsize-without-clamp", VW, "\tv.locked = locked\n\tv.ValidateView()", "\tv.locked = locked", "SetContentSize")
t("C20", "clamp-order-reversed", VW, "func (v *ViewPort) ValidateViewX() {\n\tif v.viewx > v.limx-v.width {\n\t\tv.viewx = v.limx - v.width\n\t}\n\tif v.viewx < 0 {\n\t\tv.viewx = 0\n\t}\n}", "func (v *ViewPort) ValidateViewX() {\n\tif v.viewx < 0 {\n\t\tv.viewx = 0\n\t}\n\tif v.viewx > v.limx-v.width {\n\t\tv.viewx = v.limx - v.width\n\t}\n}", "ValidateViewX:clamp")
t("C20", "remove-widget-without-relayout", BL, "\tb.changed = true\n\twidget.Unwatch(b)\n\tb.layout()", "\twidget.Unwatch(b)", "RemoveWidget")
t("C20", "no-fill-remainder-kept", BL, "\tresid := extra\n\tif totf == 0 {\n\t\tresid = 0\n\t}\n\n\tfor _, c := range b.cells {\n\t\tif c.fill > 0 {\n\t\t\tc.frac = float64(extra) * c.fill / totf\n\t\t\tc.pad = int(c.frac)\n\t\t\tc.frac -= float64(c.pad)\n\t\t\tresid -= c.pad\n\t\t}\n\t}\n\n\t// Distribute any left over padding.  We try to give it to the\n\t// the cells with the highest residual fraction.  It should be\n\t// the case that no single cell gets more than one more cell.\n\tfor resid > 0 {\n\t\tvar best *boxLayoutCell\n\t\tfor _, c := range b.cells {\n\t\t\tif c.fill == 0 {\n\t\t\t\tcontinue\n\t\t\t}\n\t\t\tif best == nil || c.frac > best.frac {\n\t\t\t\tbest = c\n\t\t\t}\n\t\t}\n\t\tbest.pad++\n\t\tbest.frac = 0\n\t\tresid--\n\t}\n\n\tx, y, yinc", "\tresid := extra\n\n\tfor _, c := range b.cells {\n\t\tif c.fill > 0 {\n\t\t\tc.frac = float64(extra) * c.fill / totf\n\t\t\tc.pad = int(c.frac)\n\t\t\tc.frac -= float64(c.pad)\n\t\t\tresid -= c.pad\n\t\t}\n\t}\n\n\t// Distribute any left over padding.  We try to give it to the\n\t// the cells with the highest residual fraction.  It should be\n\t// the case that no single cell gets more than one more cell.\n\tfor resid > 0 {\n\t\tvar best *boxLayoutCell\n\t\tfor _, c := range b.cells {\n\t\t\tif c.fill == 0 {\n\t\t\t\tcontinue\n\t\t\t}\n\t\t\tif best == nil || c.frac > best.frac {\n\t\t\t\tbest = c\n\t\t\t}\n\t\t}\n\t\tbest.pad++\n\t\tbest.frac = 0\n\t\tresid--\n\t}\n\n\tx, y, yinc", "vLayout:no-fill")
t("C20", "share-divided-by-own-fill", "views/boxlayout.go", "\t\t\tc.frac = float64(extra) * c.fill / totf\n\t\t\tc.pad = int(c.frac)\n\t\t\tc.frac -= float64(c.pad)\n\t\t\tresid -= c.pad\n\t\t}\n\t}\n\n\t// Distribute any left over padding.  We try to give it to the\n\t// the cells with the highest residual fraction.  It should be\n\t// the case that no single cell gets more than one more cell.\n\tfor resid > 0 {\n\t\tvar best *boxLayoutCell\n\t\tfor _, c := range b.cells {\n\t\t\tif c.fill == 0 {\n\t\t\t\tcontinue\n\t\t\t}\n\t\t\tif best == nil || c.frac > best.frac {\n\t\t\t\tbest = c\n\t\t\t}\n\t\t}\n\t\tbest.pad++\n\t\tbest.frac = 0\n\t\tresid--\n\t}\n\n\tx, y, xinc", "\t\t\tc.frac = float64(extra) / totf\n\t\t\tc.pad = int(c.frac)\n\t\t\tc.frac -= float64(c.pad)\n\t\t\tresid -= c.pad\n\t\t}\n\t}\n\n\tfor resid > 0 {\n\t\tvar best *boxLayoutCell\n\t\tfor _, c := range b.cells {\n\t\t\tif c.fill == 0 {\n\t\t\t\tcontinue\n\t\t\t}\n\t\t\tif best == nil || c.frac > best.frac {\n\t\t\t\tbest = c\n\t\t\t}\n\t\t}\n\t\tbest.pad++\n\t\tbest.frac = 0\n\t\tresid--\n\t}\n\n\tx, y, xinc", "hLayout:proportional-share")

# ---------------------------------------------------------------- round 9
t("C01", "resize-wakeup-channel-unbuffered", TS, "\tt.resizeQ = make(chan bool, 1)", "\tt.resizeQ = make(chan bool)", "offered-without-blocking:has-room")
t("C01", "signal-channel-unbuffered", "tty_unix.go", "\t\tsig: make(chan os.Signal, 1),", "\t\tsig: make(chan os.Signal),", "handed-to-signal.Notify")
t("C03", "esc-key-on-expiry", TS, "\t\t\t\tif len(b) == 1 {\n\t\t\t\t\tmod := ModNone", "\t\t\t\tif len(b) == 1 || expire {\n\t\t\t\t\tmod := ModNone", "only-for-a-lone-ESC")
t("C04", "cursor-table-without-default", TS, "\t\t\tCursorStyleDefault:           \"\\x1b[0 q\",\n", "", "has-default")
t("C04", "disable-paste-ignored-while-suspended", TS, "\tt.Lock()\n\tt.pasteEnabled = false\n", "\tt.Lock()\n\tif !t.running {\n\t\tt.Unlock()\n\t\treturn\n\t}\n\tt.pasteEnabled = false\n", "records-pasteEnabled")
t("C06", "drain-before-stop-signal", TS, "\tclose(stopQ)\n\t_ = t.tty.Drain()", "\t_ = t.tty.Drain()\n\tclose(stopQ)", "after-the-stop-signal")
t("C07", "quoted-percent-before-the-skip-gate", "terminfo/terminfo.go", "\t\tif skip != emit {\n\t\t\t// A nested", "\t\tif ch == '%' {\n\t\t\tpb.PutCh(ch)\n\t\t\tcontinue\n\t\t}\n\t\tif skip != emit {\n\t\t\t// A nested", "outputs-behind-the-skip-gate")
t("C13", "capabilities-appended-verbatim", TS, "\t\tt.ti.TPuts(&t.buf, s)", "\t\t_, _ = io.WriteString(&t.buf, s)", "through-the-padding-stripper")
t("C13", "shrink-clears-the-terminal", TS, "\tt.cells.Resize(ws.Width, ws.Height)\n\tt.cells.Invalidate()\n\tt.h = ws.Height", "\tt.clear = true\n\tt.cells.Resize(ws.Width, ws.Height)\n\tt.cells.Invalidate()\n\tt.h = ws.Height", "raised-by-Sync-only")
t("C14", "truecolor-only-for-colour-entries", "terminfo/terminfo.go", "\tif addtruecolor &&\n\t\tt.SetFgBgRGB == \"\" &&", "\tif addtruecolor &&\n\t\tt.Colors > 0 &&\n\t\tt.SetFgBgRGB == \"\" &&", "direct-colour-synthesis")
t("C17", "acs-table-depends-on-charset", TS, "\tfor len(acsstr) >= 2 {", "\tfor len(acsstr) >= 2 && t.charset != \"KOI8-R\" {", "filled-whatever-the-charset")
t("C19", "disable-mouse-ignored-while-suspended", "wscreen.go", "\tt.Lock()\n\tt.mouseFlags = 0\n", "\tt.Lock()\n\tif !t.running {\n\t\tt.Unlock()\n\t\treturn\n\t}\n\tt.mouseFlags = 0\n", "records-mouseFlags")
t("C19", "ctrl-name-not-folded", "wscreen.go", "WebKeyNames[\"Ctrl-\"+strings.ToLower(key)]", "WebKeyNames[\"Ctrl-\"+strings.TrimSpace(key)]", "folded-to-lower-case")
t("C20", "same-limits-skip-the-locked-flag", VW, "\tv.limx = width\n\tv.limy = height\n\tv.locked = locked", "\tif width == v.limx && height == v.limy {\n\t\treturn\n\t}\n\tv.limx = width\n\tv.limy = height\n\tv.locked = locked", "parameter-locked")
t("C20", "even-share-ignores-fill", BL, "\t\t\tc.pad = int(c.frac)\n\t\t\tc.frac -= float64(c.pad)\n\t\t\tresid -= c.pad\n\t\t}\n\t}\n\n\t// Distribute any left over padding.  We try to give it to the\n\t// the cells with the highest residual fraction.  It should be\n\t// the case that no single cell gets more than one more cell.\n\tfor resid > 0 {\n\t\tvar best *boxLayoutCell\n\t\tfor _, c := range b.cells {\n\t\t\tif c.fill == 0 {\n\t\t\t\tcontinue\n\t\t\t}\n\t\t\tif best == nil || c.frac > best.frac {\n\t\t\t\tbest = c\n\t\t\t}\n\t\t}\n\t\tbest.pad++\n\t\tbest.frac = 0\n\t\tresid--\n\t}\n\n\tx, y, xinc", "\t\t\tc.pad = extra / len(b.cells)\n\t\t\tc.frac -= float64(c.pad)\n\t\t\tresid -= c.pad\n\t\t}\n\t}\n\n\tfor resid > 0 {\n\t\tvar best *boxLayoutCell\n\t\tfor _, c := range b.cells {\n\t\t\tif c.fill == 0 {\n\t\t\t\tcontinue\n\t\t\t}\n\t\t\tif best == nil || c.frac > best.frac {\n\t\t\t\tbest = c\n\t\t\t}\n\t\t}\n\t\tbest.pad++\n\t\tbest.frac = 0\n\t\tresid--\n\t}\n\n\tx, y, xinc", "pad-store")

# ---------------------------------------------------------------- round 10
t("C01", "background-forgotten-without-combined-capability", TS, "\t} else {\n\t\tif fg.Valid() && ti.SetFg != \"\" {\n\t\t\tt.TPuts(ti.TParm(ti.SetFg, int(fg&0xff)))\n\t\t}\n\t\tif bg.Valid() && ti.SetBg != \"\" {\n\t\t\tt.TPuts(ti.TParm(ti.SetBg, int(bg&0xff)))\n\t\t}\n\t}", "\t} else if fg.Valid() && ti.SetFg != \"\" {\n\t\tt.TPuts(ti.TParm(ti.SetFg, int(fg&0xff)))\n\t} else if bg.Valid() && ti.SetBg != \"\" {\n\t\tt.TPuts(ti.TParm(ti.SetBg, int(bg&0xff)))\n\t}", "background-selected-on-every-path")
t("C02", "expiry-forced-by-buffer-size", TS, "\tt.Lock()\n\tdefer t.Unlock()\n\n\tfor {\n\t\tb := buf.Bytes()", "\tt.Lock()\n\tdefer t.Unlock()\n\n\tif buf.Len() > 4096 {\n\t\texpire = true\n\t}\n\n\tfor {\n\t\tb := buf.Bytes()", "expiry-is-the-parameter")
t("C05", "event-redated", TS, "\tfor _, ev := range evs {\n\t\tselect {\n\t\tcase t.eventQ <- ev:", "\tfor _, ev := range evs {\n\t\tif k, ok := ev.(*EventKey); ok {\n\t\t\tk.t = t.keyexpire\n\t\t}\n\t\tselect {\n\t\tcase t.eventQ <- ev:", "taken-where-the-event-is-made")
t("C08", "combining-copy-under-the-wide-test", "cell.go", "\t\t\t\tcb.SetDirty(x+i, y, true)\n\t\t\t}\n\t\t}\n\n\t\tc.currComb = append([]rune{}, combc...)\n", "\t\t\t\tcb.SetDirty(x+i, y, true)\n\t\t\t}\n\t\t\tc.currComb = append([]rune{}, combc...)\n\t\t}\n", "combining-list-stored-as-given")
t("C13", "frame-buffer-not-reset", TS, "\tt.buf.Reset()\n\tt.buffering = true", "\tt.buffering = true", "frame-buffer-reset-before-the-flush")
t("C14", "bare-base-does-not-raise-the-flag", "terminfo/terminfo.go", "\t\t\tif t, _ = LookupTerminfo(base + s); t != nil {\n\t\t\t\taddtruecolor = true\n\t\t\t\tbreak\n\t\t\t}\n\t\t}\n\t}\n\n\t// If the name ends in -256color", "\t\t\tif t, _ = LookupTerminfo(base + s); t != nil {\n\t\t\t\taddtruecolor = true\n\t\t\t\tbreak\n\t\t\t}\n\t\t}\n\t\tif t == nil {\n\t\t\tt, _ = LookupTerminfo(base)\n\t\t}\n\t}\n\n\t// If the name ends in -256color", "found-switches-direct-colour-on")
t("C15", "padding-body-kept-without-pad-character", "terminfo/terminfo.go", "\t\ts = s[end+1:]\n\n\t\t// Curses historically", "\t\tif len(t.PadChar) == 0 {\n\t\t\tcontinue\n\t\t}\n\t\ts = s[end+1:]\n\n\t\t// Curses historically", "specification-removed-whole")
t("C17", "padding-decided-by-the-whole-cell", TS, "\tpad := width > 1 && string(buf) == \"?\"\n\tfor _, r := range combc {\n\t\tbuf = t.encodeRune(r, buf)\n\t}\n", "\tfor _, r := range combc {\n\t\tbuf = t.encodeRune(r, buf)\n\t}\n\tpad := width > 1 && string(buf) == \"?\"\n", "wide-padding-from-main-rune")
t("C18", "resize-skipped-when-one-dimension-is-equal", "simulation.go", "\tif w != ow || h != oh {\n\t\ts.back.Resize(w, h)", "\tif w != ow && h != oh {\n\t\ts.back.Resize(w, h)", "skipped-only-when-both-dimensions-are-equal")
t("C20", "content-events-filtered-by-sender", BL, "\tcase *EventWidgetContent:\n\t\t// This can only have come from one of our children.\n\t\tb.changed = true", "\tcase *EventWidgetContent:\n\t\tif len(b.Widgets()) == 0 {\n\t\t\treturn false\n\t\t}\n\t\tb.changed = true", "content-event-marks-the-layout-changed")

# ---------------------------------------------------------------- round 11
t("C02", "timer-armed-before-the-scan", TS, "\t\t\tt.keyexpire = time.Now().Add(time.Millisecond * 50)\n\t\t\tt.scanInput(buf, false, stopQ)\n\t\t\tif !t.keytimer.Stop() {\n\t\t\t\tselect {\n\t\t\t\tcase <-t.keytimer.C:\n\t\t\t\tdefault:\n\t\t\t\t}\n\t\t\t}\n\t\t\tif buf.Len() > 0 {\n\t\t\t\tt.keytimer.Reset(time.Millisecond * 50)\n\t\t\t}", "\t\t\tt.keyexpire = time.Now().Add(time.Millisecond * 50)\n\t\t\tif !t.keytimer.Stop() {\n\t\t\t\tselect {\n\t\t\t\tcase <-t.keytimer.C:\n\t\t\t\tdefault:\n\t\t\t\t}\n\t\t\t}\n\t\t\tt.keytimer.Reset(time.Millisecond * 50)\n\t\t\tt.scanInput(buf, false, stopQ)", "timer-armed-after-the-scan")
t("C06", "simulation-keeps-its-size-after-fini", "simulation.go", "\ts.physw = 0\n\ts.physh = 0\n\ts.front = nil", "\ts.front = nil", "bounds-reset-with-the-cells")
t("C10", "tty-stopped-without-the-lock", TS, "\tt.disableFocusReporting()\n\n\t_ = t.tty.Stop()", "\tt.disableFocusReporting()\n\tt.Unlock()\n\n\t_ = t.tty.Stop()\n\tt.Lock()", "tty-life")
t("C12", "motion-fold-by-button-bits", TS, "\t\t\t\tif !t.buttondn {\n\t\t\t\t\tbtn |= 3", "\t\t\t\tif !t.buttondn && btn&0x43 == 0 {\n\t\t\t\t\tbtn |= 3", "motion-fold-by-held-flag-only")
t("C13", "corner-trick-in-every-row", TS, "\tif y == t.h-1 && x == t.w-1 && t.ti.AutoMargin", "\tif y <= t.h-1 && x == t.w-1 && t.ti.AutoMargin", "corner-trick-only-in-the-corner")
t("C18", "inject-mouse-only-while-reporting", "simulation.go", "\tev := NewEventMouse(x, y, buttons, mod)\n\ts.postEvent(ev)", "\tif !s.mouse {\n\t\treturn\n\t}\n\tev := NewEventMouse(x, y, buttons, mod)\n\ts.postEvent(ev)", "InjectMouse:always-posts")
t("C19", "page-resized-only-while-running", "wscreen.go", "\tjs.Global().Call(\"resize\", w, h)\n\tt.w, t.h = w, h", "\tif t.running {\n\t\tjs.Global().Call(\"resize\", w, h)\n\t}\n\tt.w, t.h = w, h", "page-resized-in-any-state")
t("C20", "orientation-change-not-announced", BL, "\t\tb.orient = orient\n\t\tb.changed = true\n\t\tb.PostEventWidgetContent(b)", "\t\tb.orient = orient\n\t\tb.changed = true\n\t\tb.layout()", "SetOrientation:change-is-announced")

# ---------------------------------------------------------------- round 12
t("C01", "colour-cache-pre-seeded", TS, "\t\tt.colors[Color(i)|ColorValid] = Color(i) | ColorValid\n\t}\n", "\t\tt.colors[Color(i)|ColorValid] = Color(i) | ColorValid\n\t}\n\tif nColors == 8 {\n\t\tfor i := 0; i < 8; i++ {\n\t\t\tt.colors[Color(i+8)|ColorValid] = Color(i) | ColorValid\n\t\t}\n\t}\n", "identity-or-FindColor")
t("C04", "mouse-flags-remembered-raw", TS, "\tif !flagsPresent {\n\t\tf = MouseMotionEvents | MouseDragEvents | MouseButtonEvents\n\t}\n\n\tt.Lock()\n\tt.mouseFlags = f\n", "\traw := f\n\tif !flagsPresent {\n\t\tf = MouseMotionEvents | MouseDragEvents | MouseButtonEvents\n\t}\n\n\tt.Lock()\n\tt.mouseFlags = raw\n", "recorded-flags-are-the-applied-ones")
t("C05", "drain-flushes-type-ahead", "nonblock_unix.go", "unix.IoctlSetTermios(fd, unix.TCSETSW, tio)", "unix.IoctlSetTermios(fd, unix.TCSETSF, tio)", "type-ahead-kept")
t("C06", "simulation-init-fails-before-its-queues", "simulation.go", "\ts.evch = make(chan Event, 10)\n\ts.quit = make(chan struct{})\n\ts.fillchar = 'X'", "\tif GetEncoding(s.charset) == nil {\n\t\treturn ErrNoCharset\n\t}\n\ts.evch = make(chan Event, 10)\n\ts.quit = make(chan struct{})\n\ts.fillchar = 'X'", "made-before-any-return")
t("C13", "column-advanced-by-bytes-written", TS, "\tt.writeString(str)\n\tt.cx += width\n", "\tt.writeString(str)\n\tt.cx += len(str)\n", "column-advances-by-the-cell-width")
t("C13", "locked-cells-skipped-before-drawcell", TS, "\t\tfor x := 0; x < t.w; x++ {\n\t\t\twidth := t.drawCell(x, y)\n", "\t\tfor x := 0; x < t.w; x++ {\n\t\t\tif !t.cells.Dirty(x, y) && x%2 == 1 {\n\t\t\t\tcontinue\n\t\t\t}\n\t\t\twidth := t.drawCell(x, y)\n", "column-loop-steps-by-drawCell")
t("C18", "injected-control-bytes-as-runes", "simulation.go", "\t\tif b[0] >= ' ' && b[0] <= 0x7F {\n\t\t\t// printable ASCII", "\t\tif b[0] <= 0x7F {\n\t\t\t// printable ASCII", "raw-byte-rune-only-if-printable")
t("C18", "showcursor-short-cut", "simulation.go", "\ts.Lock()\n\ts.cursorx, s.cursory = x, y\n\ts.showCursor()\n\ts.Unlock()", "\ts.Lock()\n\tif s.cursorx == x && s.cursory == y {\n\t\ts.Unlock()\n\t\treturn\n\t}\n\ts.cursorx, s.cursory = x, y\n\ts.showCursor()\n\ts.Unlock()", "visibility-recomputed-on-every-call")
t("C20", "watcher-copy-kept", "views/widget.go", "\tww.Unlock()\n\tfor watcher := range watcherCopy {", "\tww.watchers = watcherCopy\n\tww.Unlock()\n\tfor watcher := range watcherCopy {", "no-delivery-state-kept")
t("C20", "negative-extent-for-the-last-child", BL, "\t\tc.view.Resize(x, y, cw, h)\n", "\t\tif c == b.cells[len(b.cells)-1] {\n\t\t\tcw = -1\n\t\t}\n\t\tc.view.Resize(x, y, cw, h)\n", "child-extents-computed")

# ---------------------------------------------------------------- round 13
TI = "terminfo/terminfo.go"
t("C01", "palette-sized-from-colors", TS, "\tnColors := t.nColors()\n\tif nColors > 256 {", "\tnColors := t.Colors()\n\tif nColors > 256 {", "palette-sized-by-the-description")
t("C03", "escape-wait-from-first-pending-byte", TS, "\t\t\t\t\t}\n\t\t\t\t}\n\t\t\t\tt.keytimer.Reset(time.Millisecond * 50)\n\t\t\t}\n\t\tcase chunk := <-t.keychan:", "\t\t\t\t\t}\n\t\t\t\t}\n\t\t\t\tt.keytimer.Reset(time.Until(t.keyexpire) + time.Millisecond)\n\t\t\t}\n\t\tcase chunk := <-t.keychan:", "escape-timer-armed-for-the-full-wait")
t("C04", "teardown-gives-up-on-drain-error", TS, "\tclose(stopQ)\n\t_ = t.tty.Drain()\n\tt.Unlock()\n", "\tclose(stopQ)\n\tif err := t.tty.Drain(); err != nil {\n\t\tt.Unlock()\n\t\treturn\n\t}\n\tt.Unlock()\n", "stops-the-tty-once-marked-not-running")
t("C06", "teardown-gives-up-on-drain-error", TS, "\tclose(stopQ)\n\t_ = t.tty.Drain()\n\tt.Unlock()\n", "\tclose(stopQ)\n\tif err := t.tty.Drain(); err != nil {\n\t\tt.Unlock()\n\t\treturn\n\t}\n\tt.Unlock()\n", "stops-the-tty-once-marked-not-running")
t("C05", "resize-makes-room-in-the-queue", TS, "\tselect {\n\tcase t.eventQ <- ev:\n\tdefault:\n\t}\n}\n\nfunc (t *tScreen) Colors() int {", "\tselect {\n\tcase t.eventQ <- ev:\n\tdefault:\n\t\tselect {\n\t\tcase <-t.eventQ:\n\t\tdefault:\n\t\t}\n\t\tselect {\n\t\tcase t.eventQ <- ev:\n\t\tdefault:\n\t\t}\n\t}\n}\n\nfunc (t *tScreen) Colors() int {", "received-by-the-consumer-side-only")
t("C07", "bounded-stack", TI, "\treturn append(st, v)\n}", "\tif len(st) >= 16 {\n\t\treturn st\n\t}\n\treturn append(st, v)\n}", "every-return-appends")
t("C08", "wide-dirtying-behind-the-lock", "cell.go", "\t\tif (c.width > 0) && (mainc != c.currMain", "\t\tif (c.width > 0) && !c.lock && (mainc != c.currMain", "covered-columns-dirtied-whatever-the-lock")
t("C10", "post-stamps-the-event", "screen.go", "func (b *baseScreen) PostEvent(ev Event) error {\n\tselect {", "func (b *baseScreen) PostEvent(ev Event) error {\n\tif st, ok := ev.(interface{ SetEventNow() }); ok && ev.When().IsZero() {\n\t\tst.SetEventNow()\n\t}\n\tselect {", "event-only-sent")
t("C10", "simulated-cell-bytes-reused", "simulation.go", "\tsimc.Bytes = nil\n\n\tif x > s.physw-width {", "\tsimc.Bytes = simc.Bytes[:0]\n\n\tif x > s.physw-width {", "cell-bytes-start-fresh")
t("C11", "not-a-character-after-the-decoder", TS, "\t// Looks like potential escape\n\treturn true, false\n}", "\tfor _, c := range b[1:] {\n\t\tif c < 0x80 {\n\t\t\treturn false, false\n\t\t}\n\t}\n\t// Looks like potential escape\n\treturn true, false\n}", "not-mine-only-before-the-decoder")
t("C12", "mouse-parsers-for-esc-only", TS, "\t\tif t.ti.Mouse != \"\" {\n\t\t\tif part, comp := t.parseXtermMouse(buf, &res); comp {", "\t\tif t.ti.Mouse != \"\" && b[0] == '\\x1b' {\n\t\t\tif part, comp := t.parseXtermMouse(buf, &res); comp {", "mouse-parsers-not-behind-a-first-byte-test")
t("C14", "registered-names-skip-the-override", TI, "\tt := terminfos[name]\n\tdblock.Unlock()\n\n\t// If the name ends in -truecolor", "\tt := terminfos[name]\n\tdblock.Unlock()\n\tif t != nil && !t.TrueColor && !addtruecolor {\n\t\treturn t, nil\n\t}\n\n\t// If the name ends in -truecolor", "override-consulted-before-every-success")
t("C16", "name-indexed-before-its-length", "color.go", "\tif len(name) == 7 && name[0] == '#' {", "\tif name[0] == '#' && len(name) == 7 {", "name-indexed-behind-its-length")
t("C17", "control-byte-glyphs-dropped", TS, "\t\tif r, ok := vtACSNames[srcv]; ok {\n\t\t\tt.acs[r] = enter + dstv + exit", "\t\tif r, ok := vtACSNames[srcv]; ok && dstv[0] >= ' ' {\n\t\t\tt.acs[r] = enter + dstv + exit", "entry-for-every-pair-whatever-the-glyph")
t("C18", "cursor-row-against-the-width", "simulation.go", "\tif x < 0 || y < 0 || x >= s.physw || y >= s.physh {\n\t\ts.cursorvis = false", "\tif x < 0 || y < 0 || x >= s.physw || y >= s.physw {\n\t\ts.cursorvis = false", "comparisons-within-one-axis")
t("C19", "screen-style-for-default-colours", "wscreen.go", "\tif style == StyleDefault {\n\t\tstyle = t.style", "\tif style.fg == ColorDefault && style.bg == ColorDefault && style.attrs == AttrNone {\n\t\tstyle = t.style", "screen-style-only-for-a-wholly-default-cell")
t("C19", "mouse-alt-and-ctrl-swapped", "wscreen.go", "\tif args[4].Bool() { // mod alt\n\t\tmod |= ModAlt\n\t}\n\n\tif args[5].Bool() { // mod ctrl\n\t\tmod |= ModCtrl\n\t}", "\tif args[4].Bool() {\n\t\tmod |= ModCtrl\n\t}\n\n\tif args[5].Bool() {\n\t\tmod |= ModAlt\n\t}", "modifier-positions-agree-with-the-page")
t("C20", "origin-row-against-the-width", VW, "\tif y >= 0 && y < py {\n\t\tv.physy = y", "\tif y >= 0 && y < px {\n\t\tv.physy = y", "comparisons-within-one-axis")

# drop the placeholder teeth that were only notes
T[:] = [x for x in T if not x["Expect"].startswith("zzz-")]

out = os.path.join(os.path.dirname(os.path.abspath(__file__)), "teeth.json")
json.dump(T, open(out, "w"), indent=1, ensure_ascii=False)
print(len(T), "teeth written")

package main

import (
	"fmt"
	"go/ast"
	"go/constant"
	"go/token"
	"go/types"
	"regexp"
	"sort"
	"strings"

	"golang.org/x/tools/go/ssa"
)

func init() {
	register("C03", checkC03, "The key table of a terminfo screen is a pure function of the constants of one database entry, built by straight-line code. The checker (1) establishes from the SSA form which functions may write the table and that the registrars have the first-wins / replace-if guard shapes, (2) constant-folds the builder (typed AST evaluator over a fixed statement subset; anything else is reported undecided) for each of the 49 entries, and (3) checks every resulting table exhaustively: no sequence is a proper prefix of another (so map iteration order cannot matter), every sequence a capability field defines maps to the key and modifiers that field's name denotes, xterm modifier parameters 2..16 pair with exactly the Shift/Alt/Ctrl/Meta sets xterm encodes, shifted/control function-key aliases are replaced by base key + modifiers, control bytes map to Ctrl-letter keys (BS/TAB/ESC/CR unmodified), every sequence is reachable given the parser order, and every key capability populated by some entry is read by the builder. The run-time matcher (Alt prefix, timeout, concatenation) is covered structurally under C02 only.")
}

func checkC03(c *Ctx) {
	c.Rule("C03-R1", "only the registrars and the control-byte pass write the key table; registrars have the first-wins / replace-if guard shape under val != \"\"")
	c.Rule("C03-R2", "the key-table builder constant-folds for every database entry")
	c.Rule("C03-R3", "per table: prefix-free; capability→(key,mod) agrees with the field's name; xterm modifier suffixes pair with the xterm bit masks; control bytes map to Ctrl keys; every sequence reachable before the rune parser")
	c.Rule("C03-R4", "every Key* capability that some entry populates is read by the table construction")
	c.Rule("C03-R5", "NewEventKey turns control runes and DEL into key codes (Ctrl modifier except Backspace/Tab/Esc/Enter)")
	c.Rule("C03-R7", "the bytes of a key sequence reach the matcher as they were read (a chunk queued for the main loop owns its backing array)")
	c.Expect("C03-R7", 1)
	c.Rule("C03-R8", "the key matcher holds a sequence back while it may still complete: parseFunctionKey is all-or-nothing, consumes exactly the matched sequence, and its 'partial' answer over the key table only accumulates (a table entry of which the input is a proper prefix always answers partial)")
	c.Expect("C03-R8", 2)
	c.Rule("C03-R9", "a key that is a proper prefix of other keys (a lone control byte on wy50/wy60, a lone ESC everywhere) is delivered when the timer expires: the timer is re-armed after Stop with the tick drained, for any leftover, whatever its first byte")
	c.Expect("C03-R9", 4)
	c.Rule("C03-R6", "the pending-Alt flag survives between scans: it is a field of the screen, set only where the collect loop consumes a lone ESC, and tested-and-cleared by the rune and function-key parsers and the expiry path")
	c.Expect("C03-R6", 3)
	c.Expect("C03-R1", 3)
	c.Expect("C03-R2", 49)
	c.Expect("C03-R3", 49*3)
	c.Expect("C03-R4", 60)
	c.Expect("C03-R5", 3)
	p := c.P("linux")
	if p == nil || p.Tcell == nil {
		c.Undecided("C03-R1", "package tcell", "-", "not loaded")
		return
	}
	c.Rule("C03-R10", "the key matcher passes over a bare ESC entry of the table (eterm, which defines no ESC-introduced key, gets one from the control-byte loop): ESC alone stays the Alt prefix or the timed-out Esc key")
	c.Expect("C03-R10", 1)
	checkBareEscapeSkipped(c, p, "C03-R10")
	c.Rule("C03-R12", "a matched sequence decodes to the key of its table entry, a one-byte sequence included (wy50/wy60 bind control bytes to the cursor keys): the key handed to NewEventKey by the key matcher is the entry's key field on every path")
	c.Expect("C03-R12", 1)
	checkKeyMatcherUsesTableEntry(c, p, "C03-R12")
	c.Rule("C03-R13", "ESC immediately followed by a key yields that key with Alt, also when the scan runs because the wait expired: the Esc key event itself is built only where the buffer is known to hold the one byte")
	c.Expect("C03-R13", 1)
	checkBareEscOnlyForLoneEsc(c, p, "C03-R13")
	c.Rule("C03-R14", "a key sequence that keeps arriving decodes to its key however many reads it takes: every re-arming of the escape timer is for the constant wait, counted from the chunk just read (a remaining time counted from the first pending byte runs out in the middle of a slow sequence)")
	c.Expect("C03-R14", 1)
	checkEscapeWaitPerChunk(c, p, "C03-R14")
	c.Rule("C03-R11", "every entry is found under its name and under each of its aliases as written: AddTerminfo files the entry under both, keyed by the strings themselves (a key folded on one side only loses X-hpterm, the one alias that is not lower case)")
	c.Expect("C03-R11", 2)
	c.asRule("C14-R6", "C03-R11", func() { c14Registry(c, p) })
	db := buildDB(c, p)
	regs, writers, names := keyRegistrars(c, p)
	nFirst, nRepl := 0, 0
	for f, k := range regs {
		switch k {
		case regFirstWins:
			nFirst++
			c.OK("C03-R1", f.Name()+":first-wins", p.pos(f.Pos()), "store guarded by val != \"\" and by the not-exists edge of the lookup")
		case regReplaceIf:
			nRepl++
			c.OK("C03-R1", f.Name()+":replace-if", p.pos(f.Pos()), "store guarded by val != \"\" and (!exist || old.key == replace)")
		}
	}
	c.Check(nFirst >= 1 && nRepl >= 1, "C03-R1", "registrars", "-", fmt.Sprintf("direct writers of keycodes: %v", names))
	kt := buildKeyTables(c, p, db)
	c03KT = kt
	// the other writers: the control-byte pass (the function holding its loop and the helper the loop
	// hands the byte to), recognised while the builder was folded
	for f := range writers {
		if _, ok := regs[f]; !ok && !ctlPassWriters[f.Name()] {
			c.Fail("C03-R1", f.Name()+":writer", p.pos(f.Pos()), "writes tScreen.keycodes with a guard shape that is neither first-wins nor replace-if, and is not part of the control-byte pass")
		}
	}
	if kt == nil {
		c.Undecided("C03-R2", "fold", "-", "the key-table builder could not be constant-folded")
		return
	}
	pk := p.pkg("")
	keyConst := func(name string) (int64, bool) {
		o := pk.Types.Scope().Lookup(name)
		k, ok := o.(*types.Const)
		if !ok {
			return 0, false
		}
		v, ok := constant.Int64Val(k.Val())
		return v, ok
	}
	modShift, _ := keyConst("ModShift")
	modCtrl, _ := keyConst("ModCtrl")
	modAlt, _ := keyConst("ModAlt")
	modMeta, _ := keyConst("ModMeta")
	// denotation of a capability field by its name
	denote := func(field string) (int64, int64, bool) {
		name := strings.TrimPrefix(field, "Key")
		var mod int64
		for changed := true; changed; {
			changed = false
			for pre, m := range map[string]int64{"Shf": modShift, "Ctrl": modCtrl, "Alt": modAlt, "Meta": modMeta} {
				if strings.HasPrefix(name, pre) && len(name) > len(pre) {
					name = name[len(pre):]
					mod |= m
					changed = true
				}
			}
		}
		switch field {
		case "PasteStart":
			k, ok := keyConst("keyPasteStart")
			return k, 0, ok
		case "PasteEnd":
			k, ok := keyConst("keyPasteEnd")
			return k, 0, ok
		}
		k, ok := keyConst("Key" + name)
		return k, mod, ok
	}
	siteChecked := map[token.Pos]bool{}
	for _, e := range db.entries {
		tab := kt.tables[e.Name]
		c.OK("C03-R2", e.Name+":fold", p.pos(e.Pos), fmt.Sprintf("%d sequences", len(tab.seqs)))
		// (a) prefix-free
		a, b := prefixPair(tab)
		c.Check(a == "", "C03-R3", e.Name+":prefix-free", p.pos(e.Pos), fmt.Sprintf("%d sequences; %q / %q", len(tab.seqs), a, b))
		// (b) capability → key agrees with the capability's name, at every registrar call site
		badDen := []string{}
		for seq, binds := range tab.denote {
			for _, bd := range binds {
				if bd.field == "" || siteChecked[bd.site] {
					continue
				}
				siteChecked[bd.site] = true
				k, m, ok := denote(bd.field)
				if !ok {
					c.Undecided("C03-R3", "site:"+bd.field+":denotation", p.pos(bd.site), "no key constant corresponds to capability "+bd.field)
					continue
				}
				c.Check(k == bd.key && m == bd.mod, "C03-R3", "site:"+bd.field+":denotation", p.pos(bd.site), fmt.Sprintf("capability %s registered as key %d mod %d; its name denotes key %d mod %d (sequence %q)", bd.field, bd.key, bd.mod, k, m, seq))
			}
		}
		// the winning binding of a sequence some capability defines is one of that capability's denotations
		for _, f := range sortedKeys(e.Str) {
			if !strings.HasPrefix(f, "Key") && f != "PasteStart" && f != "PasteEnd" {
				continue
			}
			s := e.Str[f]
			if s == "" {
				continue
			}
			win, ok := tab.seqs[s]
			if !ok {
				continue // reported by R4 (capability never registered)
			}
			good := false
			for _, f2 := range sortedKeys(e.Str) {
				if e.Str[f2] != s {
					continue
				}
				if k, m, ok := denote(f2); ok && k == win.key && m == win.mod {
					good = true
				}
			}
			if !good {
				badDen = append(badDen, fmt.Sprintf("%s=%q→key %d mod %d", f, s, win.key, win.mod))
			}
		}
		c.Check(len(badDen) == 0, "C03-R3", e.Name+":assigned-key", p.pos(e.Pos), fmt.Sprintf("sequences decoding to a key no capability with that value denotes: %v", badDen))
		// (e) reachable: the rune parser runs first and takes every byte in 0x20..0x7f
		shadow := []string{}
		for seq := range tab.seqs {
			if seq[0] >= 0x20 && seq != "\x7f" {
				shadow = append(shadow, fmt.Sprintf("%q", seq))
			}
		}
		sort.Strings(shadow)
		c.Check(len(shadow) == 0, "C03-R3", e.Name+":reachable", p.pos(e.Pos), fmt.Sprintf("sequences starting with a printable or 8-bit byte are consumed by the rune parser first: %v", shadow))
		// (f) a description that declares xterm-style modifiers gets the modified forms of its cursor
		// keys, whatever else it is or is not (tmux, foot and alacritty-direct declare them without
		// being "xterm-like"): CSI 1 ; 2 X is Shift + the key whose sequence ends in X
		if e.Int["Modifiers"] == 1 {
			checked, missing := 0, []string{}
			for _, f := range []string{"KeyRight", "KeyLeft", "KeyUp", "KeyDown", "KeyHome", "KeyEnd"} {
				s := e.Str[f]
				if len(s) != 3 || s[0] != 0x1b || (s[1] != '[' && s[1] != 'O') {
					continue
				}
				k, _, okK := denote(f)
				if !okK {
					continue
				}
				checked++
				want := "\x1b[1;2" + s[2:]
				if b, has := tab.seqs[want]; !has || b.key != k || b.mod != modShift {
					missing = append(missing, fmt.Sprintf("%s: %q", f, want))
				}
			}
			if checked > 0 {
				c.Check(len(missing) == 0, "C03-R3", e.Name+":xterm-modifiers-registered", p.pos(e.Pos), fmt.Sprintf("Modifiers = xterm: %d cursor keys have their Shift form in the table; missing %v", checked, missing))
			}
		}
	}
	// (c) xterm modifier call sites (syntactic, from the AST of the registrar calls)
	c03XtermSites(c, p, modShift, modCtrl, modAlt, modMeta)
	// (d) control bytes
	c03Ctl(c, p, kt, db, keyConst, modCtrl)
	// R4 coverage
	strs, _, _ := terminfoFields(p)
	for _, f := range strs {
		if !strings.HasPrefix(f, "Key") {
			continue
		}
		users := []string{}
		for _, e := range db.entries {
			if e.Str[f] != "" {
				users = append(users, e.Name)
			}
		}
		if len(users) == 0 {
			c.Trivial("C03-R4", f+":unused", "-", "no entry populates it")
			continue
		}
		c.Check(kt.fieldsRead[f], "C03-R4", f+":registered", "-", fmt.Sprintf("populated by %d entries (%s…) and read by the key-table builder: %v", len(users), users[0], kt.fieldsRead[f]))
	}
	c03NewEventKey(c, p)
	c03AltPrefix(c, p)
	recogniserConflicts(c, p, db, "C03-R3")
	checkChunkOwnership(c, p, "C03-R7")
	checkTimerDiscipline(c, p, "C03-R9")
	for _, pi := range inputParsers(p) {
		if pi.fn.Name() == "parseFunctionKey" {
			c.asRule("C02-R9", "C03-R8", func() { c02Consumption(c, p, pi) })
			c02PartialAccumulates(c, p, pi, "C03-R8")
		}
	}
	c.extra["key_tables"] = map[string]interface{}{"entries": len(kt.tables), "registrar_calls_folded_max": kt.regSites, "capability_fields_read": len(kt.fieldsRead)}
}

// c03KT: the folded key tables, for the table-level form of the xterm modifier rule.
var c03KT *keyTables

// c03XtermSites: every registrar call whose sequence argument carries an xterm modifier parameter ";N".
func c03XtermSites(c *Ctx, p *Prog, modShift, modCtrl, modAlt, modMeta int64) {
	pk := p.pkg("")
	info := pk.TypesInfo
	aliasOffsets := map[int64]int64{12: modShift, 24: modCtrl, 36: modCtrl | modShift, 48: modAlt, 60: modAlt | modShift}
	n := 0
	for _, f := range pk.Syntax {
		ast.Inspect(f, func(nd ast.Node) bool {
			call, ok := nd.(*ast.CallExpr)
			if !ok {
				return true
			}
			callee := calleeObj(pk, call)
			if callee == nil || (callee.Name() != "prepareKeyMod" && callee.Name() != "prepareKeyModReplace") {
				return true
			}
			// find a string literal in the last argument containing ";N"
			last := call.Args[len(call.Args)-1]
			num := int64(-1)
			ast.Inspect(last, func(x ast.Node) bool {
				if bl, ok := x.(*ast.BasicLit); ok && bl.Kind == token.STRING {
					if s, ok := strConst(info, bl); ok {
						if i := strings.LastIndex(s, ";"); i >= 0 {
							d := strings.TrimRight(s[i+1:], "~")
							var v int64
							if _, err := fmt.Sscanf(d, "%d", &v); err == nil && fmt.Sprint(v) == d {
								num = v
							}
						}
					}
				}
				return true
			})
			if num < 0 {
				return true
			}
			n++
			modArg := call.Args[1]
			if callee.Name() == "prepareKeyModReplace" {
				modArg = call.Args[2]
			}
			mv, ok := intConst(info, modArg)
			bits := num - 1
			var want int64
			if bits&1 != 0 {
				want |= modShift
			}
			if bits&2 != 0 {
				want |= modAlt
			}
			if bits&4 != 0 {
				want |= modCtrl
			}
			if bits&8 != 0 {
				want |= modMeta
			}
			key := fmt.Sprintf("xterm-mod:%s;%d", types.ExprString(last), num)
			c.Check(ok && mv == want && num >= 2 && num <= 16, "C03-R3", key, p.pos(call.Pos()), fmt.Sprintf("modifier parameter %d ⇒ mask %d, code passes %d", num, want, mv))
			if callee.Name() == "prepareKeyModReplace" {
				// replace argument must be key + offset with the matching alias mask
				if be, ok := call.Args[1].(*ast.BinaryExpr); ok && be.Op == token.ADD {
					off, ok := intConst(info, be.Y)
					c.Check(ok && aliasOffsets[off] == mv && aliasOffsets[off] != 0, "C03-R3", key+":alias-offset", p.pos(call.Pos()), fmt.Sprintf("replaces function-key alias key+%d with modifiers %d (alias table %v)", off, mv, aliasOffsets))
				} else {
					c.Fail("C03-R3", key+":alias-offset", p.pos(call.Pos()), "replace argument is not key+offset")
				}
			}
			return true
		})
	}
	if n < 30 && c03KT != nil {
		// the registrations are not written out one by one (a loop over a table of parameters): the same
		// pairing is read off the folded tables — every sequence with a modifier parameter ;N is bound
		// with the mask N-1 stands for
		re := regexp.MustCompile("^\\x1b\\[[0-9]+;([0-9]+)[~A-Za-z]$")
		nb, bad := 0, ""
		for _, name := range sortedKeys(c03KT.tables) {
			t := c03KT.tables[name]
			for seq, b := range t.seqs {
				m := re.FindStringSubmatch(seq)
				if m == nil {
					continue
				}
				var num int64
				fmt.Sscanf(m[1], "%d", &num)
				if num < 2 || num > 16 {
					continue
				}
				bits := num - 1
				var want int64
				if bits&1 != 0 {
					want |= modShift
				}
				if bits&2 != 0 {
					want |= modAlt
				}
				if bits&4 != 0 {
					want |= modCtrl
				}
				if bits&8 != 0 {
					want |= modMeta
				}
				if b.field != "" {
					continue // the description's own sequence for a key (st: ESC[3;5~ is its kclr): database content
				}
				nb++
				if b.mod != want && len(bad) < 300 {
					bad += fmt.Sprintf("%s: %q is bound with modifiers %d, parameter %d stands for %d; ", name, seq, b.mod, num, want)
				}
			}
		}
		c.Check(nb >= 30 && bad == "", "C03-R3", "xterm-mod:tables", "-", fmt.Sprintf("%d folded bindings with a modifier parameter, each with the mask the parameter stands for %s", nb, bad))
		return
	}
	if n < 30 {
		c.Undecided("C03-R3", "xterm-mod:sites", "-", fmt.Sprintf("only %d xterm modifier registrations found, expected 30", n))
	}
}

func c03Ctl(c *Ctx, p *Prog, kt *keyTables, db *dbModel, keyConst func(string) (int64, bool), modCtrl int64) {
	// re-run matchCtlLoop through one fold to read the extracted constants
	var cl *ctlLoop
	pk := p.pkg("")
	for _, f := range pk.Syntax {
		for _, d := range f.Decls {
			fd, ok := d.(*ast.FuncDecl)
			if !ok || fd.Name.Name != "prepareKeys" {
				continue
			}
			ast.Inspect(fd.Body, func(n ast.Node) bool {
				if fs, ok := n.(*ast.ForStmt); ok && cl == nil {
					decls := map[*types.Func]*ast.FuncDecl{}
					for _, f2 := range pk.Syntax {
						for _, d2 := range f2.Decls {
							if fd2, ok := d2.(*ast.FuncDecl); ok {
								if obj, ok := pk.TypesInfo.Defs[fd2.Name].(*types.Func); ok {
									decls[obj] = fd2
								}
							}
						}
					}
					ev := &keyEval{pk: pk, p: p, decls: decls}
					cl = ev.matchCtlLoop(fs)
				}
				return true
			})
		}
	}
	if cl == nil {
		c.Undecided("C03-R3", "control-bytes", "-", "control-key pass not recognised")
		return
	}
	bs, _ := keyConst("KeyBS")
	tab, _ := keyConst("KeyTAB")
	esc, _ := keyConst("KeyESC")
	cr, _ := keyConst("KeyCR")
	okEx := len(cl.exempt) == 4 && cl.exempt[bs] == 0 && cl.exempt[tab] == 0 && cl.exempt[esc] == 0 && cl.exempt[cr] == 0
	_, h1 := cl.exempt[bs]
	_, h2 := cl.exempt[tab]
	_, h3 := cl.exempt[esc]
	_, h4 := cl.exempt[cr]
	c.Check(cl.bound == 32 && cl.defMod == modCtrl && okEx && h1 && h2 && h3 && h4, "C03-R3", "control-bytes", "-", fmt.Sprintf("bytes 0..%d map to Key(i) with modifier %d, exempt (unmodified): %v", cl.bound-1, cl.defMod, cl.exempt))
}

// c03RuneRange: the rune parser hands the bytes 0x20..0x7f - DEL included - to
// NewEventKey as runes (DEL becomes Backspace2 there); below 0x20 and, after the
// fast path, below 0x80 it declines.  The two constants are part of the protocol.
func c03RuneRange(c *Ctx, p *Prog) {
	fn := p.Fn("tcell:(*tScreen).parseRune")
	if fn == nil {
		c.Undecided("C03-R5", "parseRune", "-", "not found")
		return
	}
	// the block that appends a KeyRune event built from b[0]
	okR, detail := false, "no fast path for single-byte runes found"
	eachInstr(fn, func(in ssa.Instruction) {
		cc := callCommon(in)
		if cc == nil || !strings.HasSuffix(calleeName(cc), "NewEventKey") || len(cc.Args) < 3 {
			return
		}
		// the rune argument is b[0]
		cv := stripConv(cc.Args[1])
		ld, ok := cv.(*ssa.UnOp)
		if !ok {
			return
		}
		ia, ok := ld.X.(*ssa.IndexAddr)
		if !ok {
			return
		}
		if k, ok := constInt(ia.Index); !ok || k != 0 {
			return
		}
		lo, hi := int64(-1), int64(1<<20)
		for _, g := range rawGuardsAt(in.Block()) {
			bo, ok := g.Cond.(*ssa.BinOp)
			if !ok {
				continue
			}
			x := stripConv(bo.X)
			u, ok := x.(*ssa.UnOp)
			if !ok {
				continue
			}
			ia2, ok := u.X.(*ssa.IndexAddr)
			if !ok || ia2.X != ia.X {
				continue
			}
			k, ok := constInt(bo.Y)
			if !ok {
				continue
			}
			op := bo.Op
			if !g.Positive {
				switch op {
				case token.LSS:
					op = token.GEQ
				case token.LEQ:
					op = token.GTR
				case token.GTR:
					op = token.LEQ
				case token.GEQ:
					op = token.LSS
				}
			}
			switch op {
			case token.GEQ:
				if k > lo {
					lo = k
				}
			case token.GTR:
				if k+1 > lo {
					lo = k + 1
				}
			case token.LEQ:
				if k < hi {
					hi = k
				}
			case token.LSS:
				if k-1 < hi {
					hi = k - 1
				}
			}
		}
		okR = lo == 0x20 && hi == 0x7f
		detail = fmt.Sprintf("single bytes %#x..%#x are delivered as runes (want 0x20..0x7f: DEL must reach NewEventKey, which reports it as Backspace2)", lo, hi)
	})
	c.Check(okR, "C03-R5", "parseRune:single-byte-range", p.pos(fn.Pos()), detail)
}

func c03NewEventKey(c *Ctx, p *Prog) {
	c03RuneRange(c, p)
	fn := p.Fn("tcell:NewEventKey")
	if fn == nil {
		c.Undecided("C03-R5", "NewEventKey", "-", "not found")
		return
	}
	at := atomsOf(fn)
	has := func(alts ...string) bool {
		for _, a := range alts {
			if at[a] {
				return true
			}
		}
		return false
	}
	c.Check(has("ch < 32", "ch >= 32") && has("ch == 127", "ch != 127"), "C03-R5", "NewEventKey:control-range", p.pos(fn.Pos()), fmt.Sprintf("conditions: %v", sortedKeys(at)))
	ex := 0
	for _, k := range []string{"8", "9", "27", "13"} {
		if has("k == "+k, "k != "+k, "ch == "+k, "ch != "+k) {
			ex++
		}
	}
	// switch Key(ch) lowers to comparisons on the converted value, printed as the operand name
	if ex < 4 {
		ex = 0
		for a := range at {
			for _, k := range []string{" == 8", " == 9", " == 27", " == 13"} {
				if strings.HasSuffix(a, k) {
					ex++
				}
			}
		}
	}
	c.Check(ex >= 4, "C03-R5", "NewEventKey:unmodified-set", p.pos(fn.Pos()), fmt.Sprintf("Backspace/Tab/Esc/Enter tests found: %d", ex))
	// k = Key(ch) on the control path: the EventKey.key store takes a phi of (k, convert ch)
	okConv := false
	eachInstr(fn, func(in ssa.Instruction) {
		if phi, ok := in.(*ssa.Phi); ok {
			for _, e := range phi.Edges {
				if cv, ok := e.(*ssa.Convert); ok && valName(cv.X) == "ch" && typeName(cv.Type()) == "tcell.Key" {
					okConv = true
				}
			}
		}
	})
	c.Check(okConv, "C03-R5", "NewEventKey:key-from-rune", p.pos(fn.Pos()), "control rune converted to its key code")
}

// c03AltPrefix: ESC followed by a key is that key with Alt.  The ESC and the
// key may arrive in different reads (the collect loop consumes the ESC, waits,
// and the key completes in a later scan), so the flag must live in the screen,
// not in a local of one scan.
func c03AltPrefix(c *Ctx, p *Prog) {
	collect := collectLoopFn(p)
	if collect == nil {
		c.Undecided("C03-R6", "collect loop", "-", "not found")
		return
	}
	var setters, clearers []string
	users := map[string]bool{}
	for _, fn := range p.modFns {
		if fn.Pkg != p.Tcell {
			continue
		}
		for _, st := range storesTo(fn, "tcell.tScreen", "escaped") {
			if b, ok := constBool(st.Val); ok && b {
				setters = append(setters, fn.Name())
			} else {
				clearers = append(clearers, fn.Name())
			}
		}
		if len(loadsOf(fn, "tcell.tScreen", "escaped")) > 0 {
			users[fn.Name()] = true
		}
	}
	if len(setters) == 0 && len(users) == 0 {
		c.Fail("C03-R6", "alt-prefix:screen-state", p.pos(collect.Pos()), "no field of the screen carries the pending-Alt flag between scans")
		return
	}
	// (in the collect loop itself, or in a helper only the collect loop uses)
	okSetter := len(setters) == 1
	if okSetter && setters[0] != collect.Name() {
		h := p.Fn("tcell:(*tScreen)." + setters[0])
		okSetter = h != nil && calledOnlyFrom(p, h, map[string]bool{collect.Name(): true}, 0)
	}
	c.Check(okSetter, "C03-R6", "alt-prefix:set-by-collect-loop", p.pos(collect.Pos()), fmt.Sprintf("t.escaped = true in %v", setters))
	// the flag is never dropped silently: every store of false is behind a test of the flag (where
	// the Alt modifier is applied); an unconditional clear loses Alt+Esc on the expiry path
	for _, fn := range p.modFns {
		if fn.Pkg != p.Tcell {
			continue
		}
		for _, st := range storesTo(fn, "tcell.tScreen", "escaped") {
			if b, ok := constBool(st.Val); !ok || b {
				continue
			}
			tested := false
			for _, g := range rawGuardsAt(st.Block()) {
				if ld, ok := g.Cond.(*ssa.UnOp); ok && g.Positive {
					if ref, _, ok := fieldAddrRef(ld.X); ok && ref.Name == "escaped" {
						tested = true
					}
				}
			}
			if !tested {
				c.Fail("C03-R6", "alt-prefix:"+fn.Name()+":cleared-only-when-applied", p.pos(st.Pos()), "t.escaped is reset without having been tested: a pending Alt prefix is discarded")
			}
		}
	}
	// every key event of the rune and function-key parsers is Alt-aware: its modifier argument is the
	// key's own modifiers with ModAlt added exactly when the pending flag was set (and the flag is cleared
	// on that path) — written out in place, or through a helper whose body does just that.  A helper that
	// returns ModAlt *instead of* the modifiers it was given is fine only where it is given ModNone.
	takers := altTakers(p)
	for _, want := range []string{"parseRune", "parseFunctionKey", collect.Name()} {
		fn := p.Fn("tcell:(*tScreen)." + want)
		n, bad := 0, ""
		if fn != nil {
			// in the parser, or in the helper that makes the event for it (`t.keyCodeEvent(code, r)`)
			for _, d := range deepInstrs(p, fn, 1, nil) {
				cc := callCommon(d.in)
				if cc == nil || !strings.HasSuffix(calleeName(cc), "NewEventKey") || len(cc.Args) != 3 {
					continue
				}
				n++
				if why := altAware(p, d.in.Parent(), cc.Args[2], takers, 0); why != "" {
					bad += p.pos(d.in.Pos()) + ": " + why + "; "
				}
			}
		}
		c.Check(n > 0 && bad == "", "C03-R6", "alt-prefix:"+want+":test-and-clear", "-", fmt.Sprintf("%d key event(s), each with its own modifiers plus ModAlt exactly when the pending flag was set and consumed %s", n, bad))
	}
}

// altTakers: helpers that consume the pending-Alt flag.  kind "or": returns its parameter with ModAlt
// added when the flag was set; "flag": no parameter, returns ModAlt or ModNone; "replace": returns
// ModAlt in place of its parameter.
func altTakers(p *Prog) map[*ssa.Function]string {
	out := map[*ssa.Function]string{}
	modAlt := pkgConst(p, "ModAlt")
	for _, fn := range p.modFns {
		if fn.Pkg != p.Tcell || recvTypeName(fn) != "tcell.tScreen" || fn.Parent() != nil {
			continue
		}
		if len(fn.Params) > 2 {
			continue
		}
		lds := loadsOf(fn, "tcell.tScreen", "escaped")
		if len(lds) == 0 {
			continue
		}
		// cleared under the flag's true edge
		cleared := false
		for _, st := range storesTo(fn, "tcell.tScreen", "escaped") {
			if b, isB := constBool(st.Val); isB && !b {
				for _, g := range rawGuardsAt(st.Block()) {
					if g.Positive {
						for _, ld := range lds {
							if g.Cond == ssa.Value(ld) {
								cleared = true
							}
						}
					}
				}
			}
		}
		if !cleared {
			continue
		}
		var prm ssa.Value
		if len(fn.Params) == 2 {
			prm = fn.Params[1]
		}
		shapes := map[string]bool{}
		var classify func(v ssa.Value, d int)
		classify = func(v ssa.Value, d int) {
			if d > 4 {
				shapes["?"] = true
				return
			}
			v = derefCell(v)
			switch x := v.(type) {
			case *ssa.Phi:
				for _, e := range x.Edges {
					classify(e, d+1)
				}
				return
			case *ssa.BinOp:
				if x.Op == token.OR && prm != nil {
					if k, isK := constInt(x.Y); isK && k == modAlt && x.X == prm {
						shapes["P|Alt"] = true
						return
					}
					if k, isK := constInt(x.X); isK && k == modAlt && x.Y == prm {
						shapes["P|Alt"] = true
						return
					}
				}
			}
			if prm != nil && v == prm {
				shapes["P"] = true
				return
			}
			if k, isK := constInt(v); isK {
				switch k {
				case 0:
					shapes["0"] = true
					return
				case modAlt:
					shapes["Alt"] = true
					return
				}
			}
			shapes["?"] = true
		}
		for _, r := range returnsOf(fn) {
			if len(r.Results) != 1 {
				shapes["?"] = true
				continue
			}
			classify(resultOf(r, 0), 0)
		}
		switch {
		case shapes["?"]:
		case prm != nil && shapes["P|Alt"] && !shapes["Alt"] && !shapes["0"]:
			out[fn] = "or"
		case prm == nil && shapes["Alt"] && shapes["0"] && !shapes["P"]:
			out[fn] = "flag"
		case prm != nil && shapes["Alt"] && shapes["P"] && !shapes["P|Alt"]:
			out[fn] = "replace"
		}
	}
	return out
}

// altAware: "" if modifier value v is <base> plus ModAlt-when-pending; otherwise the reason.
func altAware(p *Prog, fn *ssa.Function, v ssa.Value, takers map[*ssa.Function]string, depth int) string {
	modAlt := pkgConst(p, "ModAlt")
	v = derefCell(v)
	if depth > 4 {
		return "modifier expression too deep"
	}
	isNone := func(x ssa.Value) bool { k, isK := constInt(x); return isK && k == 0 }
	takerCall := func(x ssa.Value) (*ssa.Call, string) {
		call, ok := x.(*ssa.Call)
		if !ok {
			return nil, ""
		}
		return call, takers[call.Call.StaticCallee()]
	}
	if call, kind := takerCall(v); call != nil && kind != "" {
		switch kind {
		case "or":
			return ""
		case "flag":
			return "" // ModAlt or nothing: fine where the key has no modifiers of its own (checked by the caller shape below)
		case "replace":
			if len(call.Call.Args) == 2 && isNone(call.Call.Args[1]) {
				return ""
			}
			return "the helper " + call.Call.StaticCallee().Name() + " returns ModAlt in place of the modifiers it is given (" + valName(call.Call.Args[1]) + "): the key's own modifiers are lost when Alt applies"
		}
	}
	switch x := v.(type) {
	case *ssa.BinOp:
		if x.Op == token.OR {
			for _, pair := range [][2]ssa.Value{{x.X, x.Y}, {x.Y, x.X}} {
				if call, kind := takerCall(pair[1]); call != nil && (kind == "flag" || (kind == "replace" && len(call.Call.Args) == 2 && isNone(call.Call.Args[1])) || (kind == "or" && len(call.Call.Args) == 2 && isNone(call.Call.Args[1]))) {
					return ""
				}
			}
		}
	case *ssa.Phi:
		// written out in place: one edge carries base, the other base|ModAlt (or ModNone / ModAlt), and the
		// Alt edge comes from a block where the flag was true and is cleared
		var base, alt ssa.Value
		altIdx := -1
		for i, e := range x.Edges {
			e = derefCell(e)
			if k, isK := constInt(e); isK && k == modAlt {
				alt, altIdx = e, i
				continue
			}
			if bo, isBO := e.(*ssa.BinOp); isBO && bo.Op == token.OR {
				if k, isK := constInt(bo.Y); isK && k == modAlt {
					alt, altIdx = e, i
					continue
				}
			}
			base = e
		}
		if alt == nil || base == nil {
			return "the modifier does not depend on the pending-Alt flag"
		}
		if bo, isBO := alt.(*ssa.BinOp); isBO {
			if bo.X != base {
				return "ModAlt is added to " + valName(bo.X) + " but the other path uses " + valName(base)
			}
		} else if !isNone(base) {
			return "when Alt applies the modifier is ModAlt alone, the key's own modifiers (" + valName(base) + ") are lost"
		}
		pred := x.Block().Preds[altIdx]
		flagged := false
		for _, g := range rawGuardsAt(pred) {
			if ld, isLd := g.Cond.(*ssa.UnOp); isLd && g.Positive {
				if ref, _, okR := fieldAddrRef(ld.X); okR && ref.Name == "escaped" {
					flagged = true
				}
			}
		}
		// the edge may come straight from the test
		if !flagged && len(pred.Instrs) > 0 {
			if iff, isIf := pred.Instrs[len(pred.Instrs)-1].(*ssa.If); isIf && pred.Succs[0] == x.Block() {
				if ld, isLd := iff.Cond.(*ssa.UnOp); isLd {
					if ref, _, okR := fieldAddrRef(ld.X); okR && ref.Name == "escaped" {
						flagged = true
					}
				}
			}
		}
		if !flagged {
			return "ModAlt is applied on a path that did not test the pending flag"
		}
		clearedOnPath := false
		for _, st := range storesTo(fn, "tcell.tScreen", "escaped") {
			if b, isB := constBool(st.Val); isB && !b {
				if st.Block() == pred || st.Block().Dominates(pred) || pred.Dominates(st.Block()) {
					for _, g := range rawGuardsAt(st.Block()) {
						if ld, isLd := g.Cond.(*ssa.UnOp); isLd && g.Positive {
							if ref, _, okR := fieldAddrRef(ld.X); okR && ref.Name == "escaped" {
								clearedOnPath = true
							}
						}
					}
				}
			}
		}
		if !clearedOnPath {
			return "the pending flag is applied but not cleared"
		}
		return ""
	}
	return "the modifier (" + valName(v) + ") does not take the pending-Alt flag into account"
}

package main

// Order-type evaluation (T13).  Some functions touch their numbers only through comparisons and copies:
// a clamp compares the offset, the largest admissible offset and zero, and stores one of the three.  What
// such a function computes depends only on how those quantities are ordered, and there are finitely many
// ways to order them.  For each ordering the function's control flow is followed with every comparison
// decided by the ordering — no values, no execution: the terms stay symbolic, only their relative order
// is fixed — and the quantity finally stored is compared with what the specification selects under that
// ordering.  The decision is exact, and indifferent to how the tests are written (two ifs, a switch with
// exclusive cases, hoisted sub-expressions, early returns).

import (
	"fmt"
	"go/token"

	"golang.org/x/tools/go/ssa"
)

// clampOrderEval decides that fn leaves owner.view = max(min(view, lim-size), 0) for every ordering of
// view, lim-size and 0.  Returns ok and a description of the orderings that differ (or of what could
// not be followed).
func clampOrderEval(fn *ssa.Function, owner, view, lim, size string) (bool, string) {
	isLoadOf := func(v ssa.Value, field string) bool {
		ref, _, ok := loadedField(v)
		return ok && ref.Owner == owner && ref.Name == field
	}
	// nothing but the offset is stored, nothing is called
	bad := ""
	eachInstr(fn, func(in ssa.Instruction) {
		switch x := in.(type) {
		case *ssa.Store:
			if ref, _, ok := fieldAddrRef(x.Addr); !ok || ref.Owner != owner || ref.Name != view {
				bad = "a store to something other than the offset"
			}
		case *ssa.Call, *ssa.Go, *ssa.Defer, *ssa.MapUpdate, *ssa.Send:
			bad = "an effect other than storing the offset"
		}
	})
	if bad != "" {
		return false, bad
	}
	names := []string{"offset", "lim-size", "0"}
	wrong := ""
	n := 0
	for r0 := 0; r0 < 3; r0++ {
		for r1 := 0; r1 < 3; r1++ {
			for r2 := 0; r2 < 3; r2++ {
				rank := [3]int{r0, r1, r2}
				// specification: max(min(offset, last), 0)
				want := rank[0]
				if rank[1] < want {
					want = rank[1]
				}
				if rank[2] > want {
					want = rank[2]
				}
				got, why := clampRun(fn, isLoadOf, view, lim, size, rank)
				n++
				if why != "" {
					return false, why
				}
				if got != want {
					wrong += fmt.Sprintf("with ranks %s=%d %s=%d %s=%d the offset ends at rank %d, the clamp at rank %d; ", names[0], r0, names[1], r1, names[2], r2, got, want)
				}
			}
		}
	}
	if wrong != "" {
		return false, wrong
	}
	return true, fmt.Sprintf("%d orderings of (offset, lim-size, 0) followed; each ends with offset = max(min(offset, lim-size), 0)", n)
}

// clampRun follows fn under one ordering; returns the rank of the offset at the return.
func clampRun(fn *ssa.Function, isLoadOf func(ssa.Value, string) bool, view, lim, size string, rank [3]int) (int, string) {
	cur := rank[0]
	val := map[ssa.Value]int{}
	truth := map[ssa.Value]bool{}
	var term func(v ssa.Value) (int, bool)
	term = func(v ssa.Value) (int, bool) {
		v = stripConv(v)
		if r, ok := val[v]; ok {
			return r, true
		}
		if k, ok := constInt(v); ok && k == 0 {
			return rank[2], true
		}
		if bo, ok := v.(*ssa.BinOp); ok && bo.Op == token.SUB && isLoadOf(bo.X, lim) && isLoadOf(bo.Y, size) {
			return rank[1], true
		}
		return 0, false
	}
	var boolean func(v ssa.Value) (bool, bool)
	boolean = func(v ssa.Value) (bool, bool) {
		if t, ok := truth[v]; ok {
			return t, true
		}
		if k, ok := constBool(v); ok {
			return k, true
		}
		switch x := v.(type) {
		case *ssa.UnOp:
			if x.Op == token.NOT {
				t, ok := boolean(x.X)
				return !t, ok
			}
		case *ssa.BinOp:
			a, ok1 := term(x.X)
			b, ok2 := term(x.Y)
			if !ok1 || !ok2 {
				return false, false
			}
			switch x.Op {
			case token.LSS:
				return a < b, true
			case token.LEQ:
				return a <= b, true
			case token.GTR:
				return a > b, true
			case token.GEQ:
				return a >= b, true
			case token.EQL:
				return a == b, true
			case token.NEQ:
				return a != b, true
			}
		}
		return false, false
	}
	b := fn.Blocks[0]
	var prev *ssa.BasicBlock
	for steps := 0; steps < 200; steps++ {
		var next *ssa.BasicBlock
		for _, in := range b.Instrs {
			switch x := in.(type) {
			case *ssa.Phi:
				for i, pr := range b.Preds {
					if pr != prev {
						continue
					}
					if bt, ok := boolean(x.Edges[i]); ok {
						truth[x] = bt
					} else if r, ok := term(x.Edges[i]); ok {
						val[x] = r
					}
				}
			case *ssa.UnOp:
				if x.Op == token.MUL && isLoadOf(x, view) {
					val[x] = cur
				}
			case *ssa.Store:
				r, ok := term(x.Val)
				if !ok {
					return 0, "the value stored into the offset (" + valName(x.Val) + ") is none of offset, lim-size, 0"
				}
				cur = r
			case *ssa.If:
				t, ok := boolean(x.Cond)
				if !ok {
					return 0, "a branch on something other than a comparison of offset, lim-size and 0: " + valName(x.Cond)
				}
				if t {
					next = b.Succs[0]
				} else {
					next = b.Succs[1]
				}
			case *ssa.Jump:
				next = b.Succs[0]
			case *ssa.Return:
				return cur, ""
			}
		}
		if next == nil {
			return 0, "control flow not followed"
		}
		prev, b = b, next
	}
	return 0, "a loop"
}

package main

import (
	"fmt"
	"go/token"
	"go/types"
	"sort"
	"strings"

	"golang.org/x/tools/go/ssa"
)

// T5 — stop-awareness of goroutines joined by a WaitGroup.Wait.

// chanName names a channel value by the struct field it lives in.
func chanName(v ssa.Value, bind map[*ssa.Parameter]string, depth int) string {
	if depth > 6 {
		return ""
	}
	v = derefCell(v)
	switch x := v.(type) {
	case *ssa.UnOp:
		if x.Op == token.MUL {
			if ref, _, ok := fieldAddrRef(x.X); ok {
				return ref.String()
			}
		}
	case *ssa.Parameter:
		if n, ok := bind[x]; ok {
			return n
		}
		return ""
	case *ssa.FreeVar:
		if b := freeVarBinding(x); b != nil {
			return chanName(b, bind, depth+1)
		}
	case *ssa.ChangeType:
		return chanName(x.X, bind, depth+1)
	case *ssa.MakeChan:
		// a fresh channel named by the field it is stored into
		for _, r := range referrers(x) {
			if st, ok := r.(*ssa.Store); ok && st.Val == ssa.Value(x) {
				if ref, _, ok := fieldAddrRef(st.Addr); ok {
					return ref.String()
				}
			}
		}
	case *ssa.Call:
		// accessor returning a field: StopQ() / EventQ()
		if f := staticCallee(&x.Call); f != nil {
			for _, r := range returnsOf(f) {
				if len(r.Results) == 1 {
					return chanName(r.Results[0], nil, depth+1)
				}
			}
		}
		if x.Call.IsInvoke() {
			return "iface." + x.Call.Method.Name() + "()"
		}
	case *ssa.Phi:
		names := map[string]bool{}
		for _, e := range x.Edges {
			names[chanName(e, bind, depth+1)] = true
		}
		if len(names) == 1 {
			for n := range names {
				return n
			}
		}
	}
	return ""
}

type joinSite struct {
	wait   ssa.Instruction
	fn     *ssa.Function
	wgName string
}

type blockingOp struct {
	instr ssa.Instruction
	fn    *ssa.Function
	kind  string   // send | select | recv
	chans []string // channels involved
	recvs []string // receive alternatives (select) or the received channel
	via   string
}

// closedBefore returns the names of channels closed on every path to instruction `at` in its function.
func closedBefore(at ssa.Instruction) map[string]ssa.Instruction {
	out := map[string]ssa.Instruction{}
	fn := at.Parent()
	eachInstr(fn, func(in ssa.Instruction) {
		c, ok := in.(*ssa.Call)
		if !ok {
			return
		}
		if b, ok := c.Call.Value.(*ssa.Builtin); ok && b.Name() == "close" && len(c.Call.Args) == 1 {
			// on every branch-consistent path (a flag may be tested once around the close and once
			// more for the early return)
			if instrDominates(in, at) || mustPrecede(fn, []ssa.Instruction{in}, at) {
				if n := chanName(c.Call.Args[0], nil, 0); n != "" {
					out[n] = in
				}
			}
			return
		}
		// a helper that does the signalling (`if !t.stopLoops() { return }`): what it closes on every
		// way to a return — for a helper with a boolean answer, to a return that does not answer false,
		// provided `at` is reached only when the answer was true
		h := c.Call.StaticCallee()
		if h == nil || h.Pkg != fn.Pkg || len(h.Blocks) == 0 || h == fn {
			return
		}
		if !(instrDominates(in, at) || mustPrecede(fn, []ssa.Instruction{in}, at)) {
			return
		}
		boolAnswer := false
		if res := h.Signature.Results(); res.Len() == 1 {
			if bt, isB := res.At(0).Type().Underlying().(*types.Basic); isB && bt.Kind() == types.Bool {
				boolAnswer = true
			}
		}
		if boolAnswer {
			okGuard := false
			for _, g := range rawGuardsAt(at.Block()) {
				if g.Cond == ssa.Value(c) && g.Positive {
					okGuard = true
				}
			}
			if !okGuard {
				return
			}
		}
		per := map[string]int{}
		nRet := 0
		for _, r := range returnsOf(h) {
			if boolAnswer {
				if v, isC := constBool(derefCell(resultOf(r, 0))); isC && !v {
					continue
				}
			}
			nRet++
			eachInstr(h, func(hin ssa.Instruction) {
				hc, isCall := hin.(*ssa.Call)
				if !isCall {
					return
				}
				if b, isB := hc.Call.Value.(*ssa.Builtin); isB && b.Name() == "close" && len(hc.Call.Args) == 1 {
					if instrDominates(hin, r) || mustPrecede(h, []ssa.Instruction{hin}, r) {
						if n := chanName(hc.Call.Args[0], nil, 0); n != "" {
							per[n]++
						}
					}
				}
			})
		}
		for n, k := range per {
			if nRet > 0 && k >= nRet {
				out[n] = in
			}
		}
	})
	return out
}

// stopSet: channels closed on every path (through every caller chain within pkg) before the wait.
func stopSet(p *Prog, pkg *ssa.Package, w joinSite) map[string]bool {
	s := map[string]bool{}
	for n := range closedBefore(w.wait) {
		s[n] = true
	}
	// closes in callers count only if present in every caller (intersection), up to depth 3
	var callerAdds func(fn *ssa.Function, depth int) map[string]bool
	callerAdds = func(fn *ssa.Function, depth int) map[string]bool {
		if depth > 3 {
			return map[string]bool{}
		}
		var sites []ssa.Instruction
		for _, g := range p.modFns {
			if g.Pkg != pkg {
				continue
			}
			eachInstr(g, func(in ssa.Instruction) {
				cc := callCommon(in)
				if cc == nil {
					return
				}
				if staticCallee(cc) == fn {
					sites = append(sites, in)
				}
				if calleeName(cc) == "(*sync.Once).Do" && len(cc.Args) == 2 && boundTarget(cc.Args[1]) == fn {
					sites = append(sites, in)
				}
			})
		}
		if len(sites) == 0 {
			return map[string]bool{} // an API entry point: nothing more is closed
		}
		var inter map[string]bool
		for _, site := range sites {
			m := map[string]bool{}
			for n := range closedBefore(site) {
				m[n] = true
			}
			for n := range callerAdds(site.Parent(), depth+1) {
				m[n] = true
			}
			if inter == nil {
				inter = m
			} else {
				for n := range inter {
					if !m[n] {
						delete(inter, n)
					}
				}
			}
		}
		return inter
	}
	for n := range callerAdds(w.fn, 0) {
		s[n] = true
	}
	return s
}

// joinedRoots: go statements in functions of pkg that Add to the same WaitGroup field.
func joinedRoots(p *Prog, pkg *ssa.Package, wgName string) (roots []*ssa.Function, binds map[*ssa.Function]map[*ssa.Parameter]string, sites []ssa.Instruction) {
	binds = map[*ssa.Function]map[*ssa.Parameter]string{}
	for _, g := range p.modFns {
		if g.Pkg != pkg {
			continue
		}
		adds := false
		eachInstr(g, func(in ssa.Instruction) {
			cc := callCommon(in)
			if cc != nil && calleeName(cc) == "(*sync.WaitGroup).Add" && len(cc.Args) > 0 {
				if ref, _, ok := fieldAddrRef(cc.Args[0]); ok && ref.String() == wgName {
					adds = true
				}
			}
		})
		if !adds {
			continue
		}
		eachInstr(g, func(in ssa.Instruction) {
			gs, ok := in.(*ssa.Go)
			if !ok {
				return
			}
			callee := staticCallee(&gs.Call)
			if callee == nil {
				return
			}
			roots = append(roots, callee)
			sites = append(sites, in)
			b := map[*ssa.Parameter]string{}
			args := gs.Call.Args
			params := callee.Params
			// closures: FreeVars are bound separately; Params align with Args
			for i, prm := range params {
				if i < len(args) {
					if _, isChan := prm.Type().Underlying().(*types.Chan); isChan {
						if n := chanName(args[i], nil, 0); n != "" {
							b[prm] = n
						}
					}
				}
			}
			binds[callee] = b
		})
	}
	return
}

// reachableBlockingOps walks the static call graph from root and lists blocking channel operations.
func reachableBlockingOps(pkg *ssa.Package, root *ssa.Function, bind map[*ssa.Parameter]string) (ops []blockingOp, fns int, ext []string) {
	seen := map[*ssa.Function]bool{}
	extSeen := map[string]bool{}
	var walk func(fn *ssa.Function, bind map[*ssa.Parameter]string, via string)
	walk = func(fn *ssa.Function, bind map[*ssa.Parameter]string, via string) {
		if seen[fn] || fn.Pkg != pkg {
			return
		}
		seen[fn] = true
		fns++
		eachInstr(fn, func(in ssa.Instruction) {
			if deadBlock(in.Block()) {
				return
			}
			switch x := in.(type) {
			case *ssa.Send:
				ops = append(ops, blockingOp{in, fn, "send", []string{chanName(x.Chan, bind, 0)}, nil, via})
			case *ssa.UnOp:
				if x.Op == token.ARROW {
					n := chanName(x.X, bind, 0)
					ops = append(ops, blockingOp{in, fn, "recv", []string{n}, []string{n}, via})
				}
			case *ssa.Select:
				if !x.Blocking {
					return
				}
				op := blockingOp{instr: in, fn: fn, kind: "select", via: via}
				for _, st := range x.States {
					n := chanName(st.Chan, bind, 0)
					op.chans = append(op.chans, n)
					if st.Dir == types.RecvOnly {
						op.recvs = append(op.recvs, n)
					}
				}
				ops = append(ops, op)
			case *ssa.Call, *ssa.Defer:
				cc := callCommon(in)
				if cc.IsInvoke() {
					n := calleeName(cc)
					if strings.HasPrefix(n, "invoke:tcell.Tty.") && !extSeen[n] {
						extSeen[n] = true
						ext = append(ext, n)
					}
					return
				}
				callee := staticCallee(cc)
				if callee == nil || callee.Pkg != pkg {
					return
				}
				nb := map[*ssa.Parameter]string{}
				for i, prm := range callee.Params {
					if i < len(cc.Args) {
						if _, isChan := prm.Type().Underlying().(*types.Chan); isChan {
							if n := chanName(cc.Args[i], bind, 0); n != "" {
								nb[prm] = n
							}
						}
					}
				}
				walk(callee, nb, via+"→"+callee.Name())
			}
		})
		for _, a := range fn.AnonFuncs {
			// closures defined here that are deferred/called are walked through the call; others (callbacks) too
			walk(a, bind, via+"→"+a.Name())
		}
	}
	walk(root, bind, root.Name())
	sort.Strings(ext)
	return
}

// checkStopAware applies T5 to every WaitGroup.Wait in pkg whose WaitGroup is a struct field.
func checkStopAware(c *Ctx, p *Prog, pkg *ssa.Package, rule string, ownerFilter func(string) bool) (nWaits int) {
	var waits []joinSite
	for _, g := range p.modFns {
		if g.Pkg != pkg {
			continue
		}
		eachInstr(g, func(in ssa.Instruction) {
			cc := callCommon(in)
			if cc == nil || calleeName(cc) != "(*sync.WaitGroup).Wait" || len(cc.Args) == 0 {
				return
			}
			if ref, _, ok := fieldAddrRef(cc.Args[0]); ok && ownerFilter(ref.Owner) {
				waits = append(waits, joinSite{in, g, ref.String()})
			}
		})
	}
	for _, w := range waits {
		nWaits++
		S := stopSet(p, pkg, w)
		roots, binds, _ := joinedRoots(p, pkg, w.wgName)
		wname := w.fn.RelString(pkg.Pkg)
		sl := sortedKeys(S)
		if len(roots) == 0 {
			c.Undecided(rule, wname+":roots", p.pos(w.wait.Pos()), "no go statements paired with "+w.wgName+".Add found")
			continue
		}
		if len(S) == 0 {
			c.Fail(rule, wname+":no-stop-channel", p.pos(w.wait.Pos()), "nothing is closed before waiting for the goroutines of "+w.wgName)
			continue
		}
		for _, r := range roots {
			ops, nf, ext := reachableBlockingOps(pkg, r, binds[r])
			c.Note(fmt.Sprintf("%s joins %s: %d functions reachable, %d blocking channel operations, stop set {%s}, external blocking calls governed by the Tty contract: %v", wname, r.Name(), nf, len(ops), strings.Join(sl, ","), ext))
			for _, op := range ops {
				key := fmt.Sprintf("%s⋈%s:%s@%s[%s]", wname, r.Name(), op.kind, op.fn.Name(), strings.Join(op.chans, ","))
				aware := false
				for _, rc := range op.recvs {
					if S[rc] {
						aware = true
					}
				}
				detail := fmt.Sprintf("%s in %s (reached via %s) on {%s}; stop set {%s}", op.kind, op.fn.Name(), op.via, strings.Join(op.chans, ","), strings.Join(sl, ","))
				if aware {
					c.OK(rule, key, p.pos(op.instr.Pos()), detail)
				} else {
					c.Fail(rule, key, p.pos(op.instr.Pos()), "blocking "+detail+": the goroutine can park here forever while "+wname+" waits for it")
				}
			}
		}
	}
	return
}

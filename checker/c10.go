package main

import (
	"fmt"
	"sort"
	"strings"
)

func init() {
	register("C10", checkC10, "Must-lockset analysis (forward dataflow of the screen mutex over every method of tScreen, simscreen and the shared baseScreen layer, summaries propagated through the resolved call graph): every read or write of a field that is mutated after construction, every use of the stateful charset transformers, every write to the Tty and every use of the draw buffer must happen with the screen mutex held on every path; no method may return holding the mutex or re-acquire it. Field protection classes (init-frozen, goroutine-confined, self-synchronised, guarded) are derived from the writers found in the code, not listed. This decides the locking discipline that race-freedom and output contiguity depend on (a necessary condition), not the absence of races in dependencies or atomicity across critical sections.")
}

func runLockDomain(c *Ctx, cfg, tname, rulePrefix string, minFns int) *lockDomain {
	p := c.P(cfg)
	if p == nil {
		return nil
	}
	c.curCfg = cfg
	if p.Tcell == nil || p.namedType(p.Tcell, tname) == nil {
		c.Undecided(rulePrefix+"-R1", "type "+tname, "-", "screen type not found in package tcell ("+cfg+")")
		return nil
	}
	d := newLockDomain(p, p.Tcell, tname)
	d.analyse()
	findings, nAcc, nFns := d.report()
	if nFns < minFns {
		c.Undecided(rulePrefix+"-R1", "domain "+tname, "-", fmt.Sprintf("only %d functions analysed for %s, expected at least %d", nFns, tname, minFns))
	}
	bad := map[string]bool{}
	for _, f := range findings {
		bad[f.rule+"|"+f.construct] = true
		c.Fail(rulePrefix+"-"+f.rule, f.construct, f.pos, f.detail)
	}
	// discharged obligations: per function × guarded field reached
	for _, fn := range d.fns {
		if d.initOnly[fn] {
			continue
		}
		seen := map[string]bool{}
		for _, a := range d.accesses[fn] {
			if d.class[a.field] != "guarded" || seen[a.field] {
				continue
			}
			seen[a.field] = true
			key := fn.RelString(d.pkg.Pkg) + "→" + a.field
			if bad["R1|"+key] {
				continue
			}
			st := d.stateAt[a.instr]
			c.OK(rulePrefix+"-R1", key, p.pos(a.instr.Pos()), "state="+st.String())
		}
		if fn.Parent() == nil {
			key := fn.RelString(d.pkg.Pkg) + ":lock-leak"
			if !bad["R3|"+key] {
				if d.summaries[fn].locksAtEntry != nil {
					c.OK(rulePrefix+"-R3", key, p.pos(fn.Pos()), "acquires and releases on all paths")
				} else {
					c.Trivial(rulePrefix+"-R3", key, p.pos(fn.Pos()), "does not acquire the mutex")
				}
			}
		}
	}
	cls := map[string][]string{}
	for f, k := range d.class {
		kk := k
		if i := strings.Index(kk, ":"); i >= 0 {
			kk = kk[:i]
		}
		cls[kk] = append(cls[kk], f)
	}
	for k := range cls {
		sort.Strings(cls[k])
	}
	roots := []string{}
	for f, k := range d.roots {
		roots = append(roots, k+":"+f.RelString(d.pkg.Pkg))
	}
	sort.Strings(roots)
	c.extra["lockset_"+tname] = map[string]interface{}{"functions": nFns, "guarded_accesses": nAcc, "field_classes": cls, "roots": roots}
	return d
}

func checkC10(c *Ctx) {
	c.Rule("C10-R1", "every access to a guarded field / Tty write / draw buffer / transformer state happens with the screen mutex held (report names the unlocked root or call site)")
	c.Rule("C10-R3", "no method returns with the mutex held, none acquires it twice")
	c.Rule("C10-R5", "what GetContent hands out is never written again: combining runes are stored as a fresh copy and no function writes through a stored slice (readers hold the slice outside the lock)")
	c.Expect("C10-R5", 2)
	c.Rule("C10-R6", "concurrent Fini calls are safe: the shutdown body runs through sync.Once only and the quit channel has a single closer (a flag read under the lock and acted upon after releasing it lets two callers close the channel)")
	c.Expect("C10-R6", 3)
	c.Rule("C10-R4", "memory handed from the input goroutine to the main loop over a channel is not written again by the sender (a fresh array per chunk): the lock does not cover it")
	c.Expect("C10-R4", 1)
	c.Expect("C10-R1", 150)
	c.Expect("C10-R3", 60)
	c.Assume("constructors and Init happen-before every other call on the screen")
	c.Assume("consecutive input/main loops of one screen are ordered by WaitGroup.Wait in disengage")
	c.Assume("the application does not mutate the Tty or the Terminfo concurrently with screen calls")
	runLockDomain(c, "linux", "tScreen", "C10", 60)
	runLockDomain(c, "linux", "simscreen", "C10", 40)
	runLockDomain(c, "linux", "baseScreen", "C10", 10)
	if p := c.P("linux"); p != nil && p.Tcell != nil {
		checkChunkOwnership(c, p, "C10-R4")
		c.asRule("C08-R4", "C10-R5", func() { c08Alias(c, p, cbMethods(p)) })
		// concurrent Fini calls: the shutdown body runs once whoever comes first (sync.Once, not a
		// flag that is read, released and acted upon)
		c.asRule("C06-R3", "C10-R6", func() { c06Once(c, p) })
	}
	if c.Tier == "thorough" {
		for _, cfg := range []string{"darwin", "freebsd"} {
			runLockDomain(c, cfg, "tScreen", "C10", 60)
		}
	}
}

package main

import (
	"fmt"
	"golang.org/x/tools/go/ssa"
	"sort"
	"strings"
)

func init() {
	register("C10", checkC10, "Must-lockset analysis (forward dataflow of the screen mutex over every method of tScreen, simscreen and the shared baseScreen layer, summaries propagated through the resolved call graph): every read or write of a field that is mutated after construction, every use of the stateful charset transformers, every write to the Tty and every use of the draw buffer must happen with the screen mutex held on every path; no method may return holding the mutex or re-acquire it. Field protection classes (init-frozen, goroutine-confined, self-synchronised, guarded) are derived from the writers found in the code, not listed. This decides the locking discipline that race-freedom and output contiguity depend on (a necessary condition), not the absence of races in dependencies or atomicity across critical sections.")
}

func runLockDomain(c *Ctx, cfg, tname, rulePrefix string, minFns int) *lockDomain {
	p := c.P(cfg)
	if p == nil {
		return nil
	}
	c.curCfg = cfg
	if p.Tcell == nil || p.namedType(p.Tcell, tname) == nil {
		c.Undecided(rulePrefix+"-R1", "type "+tname, "-", "screen type not found in package tcell ("+cfg+")")
		return nil
	}
	d := newLockDomain(p, p.Tcell, tname)
	d.analyse()
	findings, nAcc, nFns := d.report()
	if nFns < minFns {
		c.Undecided(rulePrefix+"-R1", "domain "+tname, "-", fmt.Sprintf("only %d functions analysed for %s, expected at least %d", nFns, tname, minFns))
	}
	bad := map[string]bool{}
	for _, f := range findings {
		bad[f.rule+"|"+f.construct] = true
		c.Fail(rulePrefix+"-"+f.rule, f.construct, f.pos, f.detail)
	}
	// discharged obligations: per function × guarded field reached
	for _, fn := range d.fns {
		if d.initOnly[fn] {
			continue
		}
		seen := map[string]bool{}
		for _, a := range d.accesses[fn] {
			if d.class[a.field] != "guarded" || seen[a.field] {
				continue
			}
			seen[a.field] = true
			key := fn.RelString(d.pkg.Pkg) + "→" + a.field
			if bad["R1|"+key] {
				continue
			}
			st := d.stateAt[a.instr]
			c.OK(rulePrefix+"-R1", key, p.pos(a.instr.Pos()), "state="+st.String())
		}
		if fn.Parent() == nil {
			key := fn.RelString(d.pkg.Pkg) + ":lock-leak"
			if !bad["R3|"+key] {
				if d.summaries[fn].locksAtEntry != nil {
					c.OK(rulePrefix+"-R3", key, p.pos(fn.Pos()), "acquires and releases on all paths")
				} else {
					c.Trivial(rulePrefix+"-R3", key, p.pos(fn.Pos()), "does not acquire the mutex")
				}
			}
		}
	}
	cls := map[string][]string{}
	for f, k := range d.class {
		kk := k
		if i := strings.Index(kk, ":"); i >= 0 {
			kk = kk[:i]
		}
		cls[kk] = append(cls[kk], f)
	}
	for k := range cls {
		sort.Strings(cls[k])
	}
	roots := []string{}
	for f, k := range d.roots {
		roots = append(roots, k+":"+f.RelString(d.pkg.Pkg))
	}
	sort.Strings(roots)
	c.extra["lockset_"+tname] = map[string]interface{}{"functions": nFns, "guarded_accesses": nAcc, "field_classes": cls, "roots": roots}
	return d
}

func checkC10(c *Ctx) {
	c.Rule("C10-R1", "every access to a guarded field / Tty write / draw buffer / transformer state happens with the screen mutex held (report names the unlocked root or call site)")
	c.Rule("C10-R3", "no method returns with the mutex held, none acquires it twice")
	c.Rule("C10-R5", "what GetContent hands out is never written again: combining runes are stored as a fresh copy and no function writes through a stored slice (readers hold the slice outside the lock)")
	c.Expect("C10-R5", 2)
	c.Rule("C10-R7", "what the unix Tty implementations share with their signal goroutine — the resize callback and every field that goroutine stores — is loaded and stored only between Lock and Unlock of the Tty's own mutex (the screen calls NotifyResize and WindowSize without holding the screen lock)")
	c.Expect("C10-R7", 4)
	c.Rule("C10-R6", "concurrent Fini calls are safe: the shutdown body runs through sync.Once only and the quit channel has a single closer (a flag read under the lock and acted upon after releasing it lets two callers close the channel)")
	c.Expect("C10-R6", 3)
	c.Rule("C10-R4", "memory handed from the input goroutine to the main loop over a channel is not written again by the sender (a fresh array per chunk): the lock does not cover it")
	c.Expect("C10-R4", 1)
	c.Rule("C10-R8", "the event queues are never closed: PostEvent, PostEventWait and SetSize may send at any time, also while or after another goroutine finishes the screen (a send on a closed channel panics; = C06-R12)")
	c.Expect("C10-R8", 1)
	c.Rule("C10-R9", "the bytes of a clipboard event are memory made for the event, never a window into the input buffer the main loop keeps refilling (the application reads the event without any lock)")
	c.Expect("C10-R9", 1)
	c.Rule("C10-R10", "the wait group is incremented before the goroutines start, in the function that starts them and by their number (an Add inside the goroutine races the Wait in disengage; = C05-R3)")
	c.Expect("C10-R10", 5)
	c.Expect("C10-R1", 150)
	c.Expect("C10-R3", 60)
	c.Assume("constructors and Init happen-before every other call on the screen")
	c.Assume("consecutive input/main loops of one screen are ordered by WaitGroup.Wait in disengage")
	c.Assume("the application does not mutate the Tty or the Terminfo concurrently with screen calls")
	runLockDomain(c, "linux", "tScreen", "C10", 60)
	runLockDomain(c, "linux", "simscreen", "C10", 40)
	runLockDomain(c, "linux", "baseScreen", "C10", 10)
	// the Tty implementations have a mutex of their own (the resize callback is read by the signal
	// goroutine and written by NotifyResize, which the screen calls without holding its own lock)
	if p := c.P("linux"); p != nil && p.Tcell != nil {
		for _, t := range []string{"devTty", "stdIoTty"} {
			checkTtyCallbackLocked(c, p, t, "C10-R7")
		}
	}
	if p := c.P("linux"); p != nil && p.Tcell != nil {
		checkChunkOwnership(c, p, "C10-R4")
		c.asRule("C08-R4", "C10-R5", func() { c08Alias(c, p, cbMethods(p)) })
		// concurrent Fini calls: the shutdown body runs once whoever comes first (sync.Once, not a
		// flag that is read, released and acted upon)
		c.asRule("C06-R3", "C10-R6", func() { c06Once(c, p) })
		c.asRule("C06-R12", "C10-R8", func() { checkEventQueuesNeverClosed(c, p, "C06-R12") })
		checkEventPayloadOwnsMemory(c, p, "C10-R9")
		c.Rule("C10-R11", "posting does not write into the caller's event: in PostEvent and PostEventWait the event flows into the queue only (stamping an unstamped event races with every other goroutine holding it)")
		c.Expect("C10-R11", 2)
		checkPostLeavesEventAlone(c, p, "C10-R11")
		c.Rule("C10-R12", "a snapshot from GetContents stays as it was once SetSize has detached it: the bytes of a simulated cell are built in memory made for this drawing (nil or a fresh slice first, then appends), never in the array the cell had before")
		c.Expect("C10-R12", 1)
		checkSimBytesStartFresh(c, p, "C10-R12")
		c.asRule("C05-R3", "C10-R10", func() { c05Pipeline(c, p) })
	}
	if c.Tier == "thorough" {
		for _, cfg := range []string{"darwin", "freebsd"} {
			runLockDomain(c, cfg, "tScreen", "C10", 60)
		}
	}
}

// checkTtyCallbackLocked: in Tty implementation tname every access to the callback field is dominated
// by a Lock of the Tty's mutex field with no Unlock of it in between on any path.
func checkTtyCallbackLocked(c *Ctx, p *Prog, tname, rule string) {
	if p.namedType(p.Tcell, tname) == nil {
		c.Undecided(rule, tname, "-", "type not found")
		return
	}
	owner := "tcell." + tname
	isMu := func(in ssa.Instruction, method string) bool {
		cc := callCommon(in)
		if cc == nil || calleeName(cc) != "(*sync.Mutex)."+method || len(cc.Args) != 1 {
			return false
		}
		ref, _, ok := fieldAddrRef(cc.Args[0])
		return ok && ref.Owner == owner
	}
	// the callback, and every field the signal goroutine (a function literal started by `go` in a method
	// of the type) stores: that goroutine runs beside every method
	guarded := []string{"cb"}
	for _, fn := range p.modFns {
		if fn.Pkg != p.Tcell || fn.Parent() == nil || recvTypeName(topFunc(fn)) != owner {
			continue
		}
		isGo := false
		for _, r := range referrers(fn) {
			_ = r
		}
		eachInstr(fn.Parent(), func(in ssa.Instruction) {
			if g, ok := in.(*ssa.Go); ok {
				if mc, isMC := g.Call.Value.(*ssa.MakeClosure); isMC && mc.Fn == ssa.Value(fn) {
					isGo = true
				}
				if g.Call.Value == ssa.Value(fn) {
					isGo = true
				}
			}
		})
		if !isGo {
			continue
		}
		eachInstr(fn, func(in ssa.Instruction) {
			if st, ok := in.(*ssa.Store); ok {
				if ref, _, ok := fieldAddrRef(st.Addr); ok && ref.Owner == owner {
					seen := false
					for _, g := range guarded {
						if g == ref.Name {
							seen = true
						}
					}
					if !seen {
						guarded = append(guarded, ref.Name)
					}
				}
			}
		})
	}
	n := 0
	for _, fn := range p.modFns {
		if fn.Pkg != p.Tcell {
			continue
		}
		top := topFunc(fn)
		if recvTypeName(top) != owner {
			continue
		}
		for _, field := range guarded {
			var accs []ssa.Instruction
			for _, st := range storesTo(fn, owner, field) {
				accs = append(accs, st)
			}
			for _, ld := range loadsOf(fn, owner, field) {
				accs = append(accs, ld)
			}
			for i, a := range accs {
				n++
				locked := false
				eachInstr(fn, func(in ssa.Instruction) {
					if !isMu(in, "Lock") || !instrDominates(in, a) {
						return
					}
					// no Unlock between the Lock and the access
					stop := map[ssa.Instruction]bool{}
					eachInstr(fn, func(in2 ssa.Instruction) {
						if isMu(in2, "Unlock") {
							if _, isDefer := in2.(*ssa.Defer); !isDefer {
								stop[in2] = true
							}
						}
					})
					between := false
					for u := range stop {
						if reachableAfter(in, u) && reachesWithout(u, a, func(x ssa.Instruction) bool { return isMu(x, "Lock") }) {
							between = true
						}
					}
					if !between {
						locked = true
					}
				})
				c.Check(locked, rule, fmt.Sprintf("%s.%s:%s-access#%d", tname, fn.Name(), field, i+1), p.pos(a.Pos()), "the field (the callback, or one the signal goroutine writes) is accessed with the Tty's mutex held")
			}
		}
	}
	if n == 0 {
		c.Undecided(rule, tname+":cb", "-", "no access to the callback field found")
	}
}

// reachesWithout: some path leads from just after `from` to `target` without passing an instruction
// for which barrier holds.
func reachesWithout(from, target ssa.Instruction, barrier func(ssa.Instruction) bool) bool {
	type pos struct {
		b *ssa.BasicBlock
		i int
	}
	start := -1
	for i, in := range from.Block().Instrs {
		if in == from {
			start = i + 1
		}
	}
	if start < 0 {
		return false
	}
	seen := map[*ssa.BasicBlock]bool{}
	var walk func(b *ssa.BasicBlock, i int) bool
	walk = func(b *ssa.BasicBlock, i int) bool {
		for ; i < len(b.Instrs); i++ {
			in := b.Instrs[i]
			if in == target {
				return true
			}
			if barrier(in) {
				return false
			}
		}
		for _, s := range b.Succs {
			if seen[s] {
				continue
			}
			seen[s] = true
			if walk(s, 0) {
				return true
			}
		}
		return false
	}
	return walk(from.Block(), start)
}

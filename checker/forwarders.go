package main

import (
	"fmt"
	"go/types"
	"sort"
	"strings"

	"golang.org/x/tools/go/ssa"
)

// A text emitter is a wrapper of the shape
//
//	func (t *tScreen) F(capability string, text ...interface{}) {
//		var b bytes.Buffer
//		t.ti.TPuts(&b, capability)                // padding of the capability comes off here
//		t.writeString(t.ti.TParm(b.String(), text...))
//	}
//
// (or TParm applied to the capability parameter directly).  A call F(cap, a, b) is then, for every
// rule that reasons about control strings, the expansion of cap with (a, b): the rules treat the call
// sites of F as the TParm call sites, as the guidance on wrappers asks ("treat a wrapper as … when all
// its paths …").  Everything else in the body disqualifies the function.
var textEmitterCache = map[*Prog]map[*ssa.Function]bool{}

// allTextEmitters: the same, over every loaded configuration (for helpers that see only an instruction).
var allTextEmitters = map[*ssa.Function]bool{}

// callsTextEmitter: in is a call of a recognised text-emitter wrapper.
func callsTextEmitter(in ssa.Instruction) bool {
	cc := callCommon(in)
	if cc == nil {
		return false
	}
	callee := cc.StaticCallee()
	return callee != nil && allTextEmitters[callee]
}

func textEmitters(p *Prog) map[*ssa.Function]bool {
	if m, ok := textEmitterCache[p]; ok {
		return m
	}
	m := map[*ssa.Function]bool{}
	textEmitterCache[p] = m
	for _, fn := range p.modFns {
		if fn.Pkg != p.Tcell || fn.Signature == nil || !fn.Signature.Variadic() || len(fn.Params) < 3 || len(fn.Blocks) != 1 {
			continue
		}
		capP, varP := fn.Params[len(fn.Params)-2], fn.Params[len(fn.Params)-1]
		if b, ok := capP.Type().Underlying().(*types.Basic); !ok || b.Info()&types.IsString == 0 {
			continue
		}
		ok := true
		nTParm, nWrite := 0, 0
		var tparm *ssa.Call
		eachInstr(fn, func(in ssa.Instruction) {
			cc := callCommon(in)
			if cc == nil {
				return
			}
			n := calleeName(cc)
			switch {
			case strings.HasSuffix(n, "Terminfo).TParm") && len(cc.Args) == 3:
				nTParm++
				tparm, _ = in.(*ssa.Call)
				if cc.Args[2] != ssa.Value(varP) {
					ok = false
				}
				if cc.Args[1] != ssa.Value(capP) && !unpaddedParam(cc.Args[1], capP) {
					ok = false
				}
			case strings.HasSuffix(n, "tScreen).writeString"), strings.HasSuffix(n, "tScreen).TPuts"):
				nWrite++
				if tparm == nil || cc.Args[1] != ssa.Value(tparm) {
					ok = false
				}
			case strings.HasSuffix(n, "Terminfo).TPuts"), n == "(*bytes.Buffer).String":
				// part of unpaddedParam's shape, checked there
			default:
				ok = false
			}
		})
		if ok && nTParm == 1 && nWrite == 1 {
			m[fn] = true
			allTextEmitters[fn] = true
		}
	}
	return m
}

// unpaddedParam: v is b.String() of a local bytes.Buffer whose only writer is Terminfo.TPuts(&b, capP).
func unpaddedParam(v ssa.Value, capP *ssa.Parameter) bool {
	call, ok := v.(*ssa.Call)
	if !ok || calleeName(&call.Call) != "(*bytes.Buffer).String" || len(call.Call.Args) != 1 {
		return false
	}
	al, ok := call.Call.Args[0].(*ssa.Alloc)
	if !ok {
		return false
	}
	filled := 0
	for _, r := range referrers(al) {
		switch x := r.(type) {
		case *ssa.Call:
			if x != call {
				return false
			}
		case *ssa.MakeInterface:
			for _, r2 := range referrers(x) {
				c2, isCall := r2.(*ssa.Call)
				if !isCall || !strings.HasSuffix(calleeName(&c2.Call), "Terminfo).TPuts") || len(c2.Call.Args) != 3 || c2.Call.Args[2] != ssa.Value(capP) {
					return false
				}
				filled++
			}
		case *ssa.DebugRef:
		default:
			return false
		}
	}
	return filled == 1
}

// textEmitterCall: if in calls a text emitter, the capability argument and the variadic argument.
func textEmitterCall(p *Prog, in ssa.Instruction) (capArg, varArg ssa.Value, ok bool) {
	cc := callCommon(in)
	if cc == nil {
		return nil, nil, false
	}
	callee := cc.StaticCallee()
	if callee == nil || !textEmitters(p)[callee] {
		return nil, nil, false
	}
	n := len(cc.Args)
	return cc.Args[n-2], cc.Args[n-1], true
}

func textEmitterNames(p *Prog) []string {
	var out []string
	for fn := range textEmitters(p) {
		out = append(out, fn.Name())
	}
	sort.Strings(out)
	return out
}

// checkTextNotPadded: the padding language ($<n>) belongs to capability strings.  Text of the
// application (a title, a URL) that is spliced into a capability must not reach the padding stripper,
// or a title like "cost $<5> each" loses characters.  For every TPuts whose argument is a TParm
// expansion, each string argument of the expansion is a constant without "$<" or the output of an
// encoder whose alphabet has no '$' (base64); everything else has to go through a text-emitter
// wrapper, which strips the capability before the text is spliced in.
func checkTextNotPadded(c *Ctx, p *Prog, rule string) {
	for _, fn := range p.modFns {
		if fn.Pkg != p.Tcell {
			continue
		}
		n := 0
		for _, in := range callsIn(fn, func(nm string, _ *ssa.CallCommon) bool {
			return strings.HasSuffix(nm, "tScreen).TPuts") || strings.HasSuffix(nm, "Terminfo).TPuts")
		}) {
			cc := callCommon(in)
			arg := cc.Args[len(cc.Args)-1]
			call, ok := derefCell(arg).(*ssa.Call)
			if !ok || !strings.HasSuffix(calleeName(&call.Call), "Terminfo).TParm") || len(call.Call.Args) != 3 {
				continue
			}
			cnt, vals, ok := varargCount(call.Call.Args[2])
			if !ok {
				c.Undecided(rule, fn.Name()+":padded-expansion", p.pos(in.Pos()), "TParm with a non-literal argument list goes through the padding stripper")
				continue
			}
			for i := 0; i < cnt; i++ {
				if argKind(vals[i]) != "string" {
					continue
				}
				n++
				v := vals[i]
				if mi, isMI := v.(*ssa.MakeInterface); isMI {
					v = mi.X
				}
				why := ""
				if s, isC := constString(v); isC {
					if strings.Contains(s, "$<") {
						why = "constant text containing a padding marker"
					}
				} else if cl, isCall := v.(*ssa.Call); isCall && calleeName(&cl.Call) == "(*encoding/base64.Encoding).EncodeToString" {
					// base64 alphabet: no '$'
				} else {
					why = "text that is not a constant (" + valName(v) + ") is searched for padding markers: a \"$<5>\" in it would be removed"
				}
				c.Check(why == "", rule, fmt.Sprintf("%s:text-arg#%d-not-padded", fn.Name(), n), p.pos(in.Pos()), "string argument of an expansion that goes through TPuts is a constant or base64 "+why)
			}
		}
	}
	// the wrappers themselves: recognised shape = capability stripped first, expansion written raw
	for _, nm := range textEmitterNames(p) {
		c.OK(rule, nm+":strips-capability-then-splices-text", "-", "TPuts(capability) into a buffer, TParm(buffer, text...), raw write")
	}
}

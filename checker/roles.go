package main

// Field roles.  A few rules name fields of the terminfo screen that the property's anchors name (the
// quit channel, the per-engagement stop channel, the wait group of the two loops).  A rename of such a
// field is an ordinary edit, so the names are resolved by what the field is used for: when the screen
// type has no field of the canonical name and exactly one field plays the role, every FieldRef of that
// field reads as the canonical name.

import (
	"go/token"
	"go/types"
	"sync"

	"golang.org/x/tools/go/ssa"
)

var (
	fieldAliasMu sync.RWMutex
	fieldAlias   = map[string]string{} // "owner.actual" → canonical
)

func canonField(owner, name string) string {
	fieldAliasMu.RLock()
	defer fieldAliasMu.RUnlock()
	if c, ok := fieldAlias[owner+"."+name]; ok {
		return c
	}
	return name
}

func computeFieldAliases(p *Prog) {
	// BoxLayout: the fields by their types — the only views.Orientation, the only bool (the "layout is
	// stale" flag), the only views.View, the only slice of cells
	if p.Views != nil {
		if bl := p.namedType(p.Views, "BoxLayout"); bl != nil {
			if bst, ok := bl.Underlying().(*types.Struct); ok {
				has := map[string]bool{}
				for i := 0; i < bst.NumFields(); i++ {
					has[bst.Field(i).Name()] = true
				}
				byRole := map[string][]string{}
				for i := 0; i < bst.NumFields(); i++ {
					f := bst.Field(i)
					switch {
					case typeName(f.Type()) == "views.Orientation":
						byRole["orient"] = append(byRole["orient"], f.Name())
					case typeName(f.Type()) == "views.View":
						byRole["view"] = append(byRole["view"], f.Name())
					case f.Type().String() == "bool":
						byRole["changed"] = append(byRole["changed"], f.Name())
					default:
						if _, isSl := f.Type().Underlying().(*types.Slice); isSl {
							byRole["cells"] = append(byRole["cells"], f.Name())
						}
					}
				}
				for canon, names := range byRole {
					if has[canon] || len(names) != 1 {
						continue
					}
					fieldAliasMu.Lock()
					fieldAlias["views.BoxLayout."+names[0]] = canon
					fieldAliasMu.Unlock()
				}
			}
		}
	}
	if p.Tcell == nil {
		return
	}
	nt := p.namedType(p.Tcell, "tScreen")
	if nt == nil {
		return
	}
	st, ok := nt.Underlying().(*types.Struct)
	if !ok {
		return
	}
	owner := "tcell.tScreen"
	has := map[string]bool{}
	for i := 0; i < st.NumFields(); i++ {
		has[st.Field(i).Name()] = true
	}
	rawRef := func(v ssa.Value) (string, bool) {
		fa, ok := v.(*ssa.FieldAddr)
		if !ok {
			return "", false
		}
		pt, ok := fa.X.Type().Underlying().(*types.Pointer)
		if !ok || pt.Elem() != types.Type(nt) {
			return "", false
		}
		return st.Field(fa.Field).Name(), true
	}
	// the function that starts the Tty, and PollEvent
	var engage *ssa.Function
	for _, fn := range p.modFns {
		if fn.Pkg != p.Tcell || fn.Signature.Recv() == nil {
			continue
		}
		eachInstr(fn, func(in ssa.Instruction) {
			if cc := callCommon(in); cc != nil && cc.IsInvoke() && cc.Method.Name() == "Start" && typeName(cc.Value.Type()) == "tcell.Tty" {
				if rt, ok := fn.Signature.Recv().Type().(*types.Pointer); ok && rt.Elem() == types.Type(nt) {
					engage = fn
				}
			}
		})
	}
	set := func(canon string, cands map[string]bool) {
		if has[canon] || len(cands) != 1 {
			return
		}
		for c := range cands {
			fieldAliasMu.Lock()
			fieldAlias[owner+"."+c] = canon
			fieldAliasMu.Unlock()
		}
	}
	// stopQ: the channel field that receives a fresh channel where the Tty is started
	if engage != nil {
		cands := map[string]bool{}
		eachInstr(engage, func(in ssa.Instruction) {
			if s, ok := in.(*ssa.Store); ok {
				if _, isMk := s.Val.(*ssa.MakeChan); isMk {
					if n, ok := rawRef(s.Addr); ok {
						cands[n] = true
					}
				}
			}
		})
		set("stopQ", cands)
	}
	// running: the boolean the function that starts the Tty raises after the start
	if engage != nil {
		cands := map[string]bool{}
		eachInstr(engage, func(in ssa.Instruction) {
			if s, ok := in.(*ssa.Store); ok {
				if v, isC := constBool(s.Val); isC && v {
					if n, ok := rawRef(s.Addr); ok {
						cands[n] = true
					}
				}
			}
		})
		set("running", cands)
	}
	// quit: the channel the shared layer asks for through StopQ() (PollEvent and ChannelEvents wait on it)
	if sq := p.Fn("tcell:(*tScreen).StopQ"); sq != nil {
		cands := map[string]bool{}
		for _, r := range returnsOf(sq) {
			if len(r.Results) == 1 {
				if u, ok := stripConv(derefCell(r.Results[0])).(*ssa.UnOp); ok && u.Op == token.MUL {
					if n, ok := rawRef(u.X); ok {
						cands[n] = true
					}
				}
			}
		}
		set("quit", cands)
	}
	if pe := p.Fn("tcell:(*tScreen).PollEvent"); pe != nil {
		cands := map[string]bool{}
		isUnit := func(t types.Type) bool {
			ch, ok := t.Underlying().(*types.Chan)
			if !ok {
				return false
			}
			s, ok := ch.Elem().Underlying().(*types.Struct)
			return ok && s.NumFields() == 0
		}
		note := func(v ssa.Value) {
			if u, ok := derefCell(v).(*ssa.UnOp); ok && u.Op == token.MUL && isUnit(u.Type()) {
				if n, ok := rawRef(u.X); ok {
					cands[n] = true
				}
			}
		}
		_ = note
		eachInstr(pe, func(in ssa.Instruction) {
			switch x := in.(type) {
			case *ssa.Select:
				for _, s := range x.States {
					if s.Dir == types.RecvOnly {
						note(s.Chan)
					}
				}
			case *ssa.UnOp:
				if x.Op == token.ARROW {
					note(x.X)
				}
			}
		})
		set("quit", cands)
	}
	// wg: the only WaitGroup of the screen
	{
		cands := map[string]bool{}
		for i := 0; i < st.NumFields(); i++ {
			if typeName(st.Field(i).Type()) == "sync.WaitGroup" {
				cands[st.Field(i).Name()] = true
			}
		}
		set("wg", cands)
	}
	// the simulation: the terminal's size as SetSize stores it, and its event queue
	if sim := p.namedType(p.Tcell, "simscreen"); sim != nil {
		if sst, ok := sim.Underlying().(*types.Struct); ok {
			sowner := "tcell.simscreen"
			shas := map[string]bool{}
			for i := 0; i < sst.NumFields(); i++ {
				shas[sst.Field(i).Name()] = true
			}
			sset := func(canon string, cands map[string]bool) {
				if shas[canon] || len(cands) != 1 {
					return
				}
				for c := range cands {
					fieldAliasMu.Lock()
					fieldAlias[sowner+"."+c] = canon
					fieldAliasMu.Unlock()
				}
			}
			if ss := p.Fn("tcell:(*simscreen).SetSize"); ss != nil && len(ss.Params) == 3 {
				for idx, canon := range map[int]string{1: "physw", 2: "physh"} {
					cands := map[string]bool{}
					eachInstr(ss, func(in ssa.Instruction) {
						if s, ok := in.(*ssa.Store); ok && s.Val == ssa.Value(ss.Params[idx]) {
							if fa, isFA := s.Addr.(*ssa.FieldAddr); isFA {
								if pt, isP := fa.X.Type().Underlying().(*types.Pointer); isP && pt.Elem() == types.Type(sim) {
									cands[sst.Field(fa.Field).Name()] = true
								}
							}
						}
					})
					sset(canon, cands)
				}
			}
			cands := map[string]bool{}
			for i := 0; i < sst.NumFields(); i++ {
				if ch, ok := sst.Field(i).Type().Underlying().(*types.Chan); ok && typeName(ch.Elem()) == "tcell.Event" {
					cands[sst.Field(i).Name()] = true
				}
			}
			sset("evch", cands)
		}
	}
}

package main

// runThorough is filled in by teeth.go
var runThorough = func(c *Ctx, pd *propDef) {}

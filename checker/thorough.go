package main

import (
	"bufio"
	"bytes"
	"encoding/json"
	"fmt"
	"os"
	"os/exec"
	"path/filepath"
	"sort"
	"strings"
	"sync"
)

// Thorough tier: besides the extra build configurations each property's
// check loads, the checker is tested for teeth on every run: each tooth is
// a small source edit re-creating a realistic regression.  It is applied to a
// scratch copy of the repository (outside /repo and /verif), the property's
// rules are re-run on the copy in a fresh process, and a NEW failing rule
// instance naming the expected construct must appear.  Teeth never produce
// VIOLATION lines about /repo; an edit that no longer applies is skipped.

type tooth struct {
	prop   string
	name   string
	file   string
	old    string
	new    string
	expect string // substring of the new failing key
	patch  string // alternatively: a unified diff to apply (seeded changes kept under /verif/seeded)
	// alternatively: a fix: commit of /repo to take back (its diff applied in reverse): the finding it
	// repaired has to be reported again
	revert string
}

type toothResult struct {
	t       tooth
	status  string // fired | missed | skipped | error
	newKeys []string
	detail  string
}

func runTeeth(c *Ctx, pd *propDef) {
	var mine []tooth
	for _, t := range allTeeth {
		if t.prop == c.Prop {
			mine = append(mine, t)
		}
	}
	// the seeded changes written by independent sub-agents for this property are teeth too
	if ents, err := os.ReadDir(filepath.Join(c.VerifDir, "seeded")); err == nil {
		for _, e := range ents {
			mb, err := os.ReadFile(filepath.Join(c.VerifDir, "seeded", e.Name(), "meta.json"))
			if err != nil {
				continue
			}
			var m struct {
				Property string `json:"property"`
			}
			if json.Unmarshal(mb, &m) != nil || m.Property != c.Prop {
				continue
			}
			mine = append(mine, tooth{prop: c.Prop, name: "seeded/" + e.Name(), file: "patch.diff", patch: filepath.Join(c.VerifDir, "seeded", e.Name(), "patch.diff")})
		}
	}
	// every repaired finding of this property: taking the repair back must bring the report back
	mine = append(mine, revertTeeth(c)...)
	if len(mine) == 0 {
		return
	}
	self, err := os.Executable()
	if err != nil {
		c.Note("teeth: cannot locate own executable: " + err.Error())
		return
	}
	base := map[string]bool{}
	for _, o := range c.Obls {
		if !o.OK {
			base[o.Key()] = true
		}
	}
	results := make([]toothResult, len(mine))
	sem := make(chan struct{}, 8)
	var wg sync.WaitGroup
	for i, t := range mine {
		wg.Add(1)
		go func(i int, t tooth) {
			defer wg.Done()
			sem <- struct{}{}
			defer func() { <-sem }()
			results[i] = runTooth(self, c, t, base)
		}(i, t)
	}
	wg.Wait()
	fired, missed, skipped := 0, 0, 0
	var rows []interface{}
	for _, r := range results {
		switch r.status {
		case "fired":
			fired++
		case "skipped":
			skipped++
		default:
			missed++
			fmt.Printf("TEETH-MISSED property=%s tooth=%s (%s): %s\n", c.Prop, r.t.name, r.status, r.detail)
		}
		sort.Strings(r.newKeys)
		if len(r.newKeys) > 4 {
			r.newKeys = r.newKeys[:4]
		}
		rows = append(rows, map[string]interface{}{"tooth": r.t.name, "file": r.t.file, "status": r.status, "new_failing_keys": r.newKeys, "detail": r.detail})
	}
	fmt.Printf("   teeth: %d applied and detected, %d missed, %d skipped (edit no longer applies)\n", fired, missed, skipped)
	c.extra["teeth"] = map[string]interface{}{"detected": fired, "missed": missed, "skipped": skipped, "runs": rows,
		"method": "each tooth is a source edit applied to a scratch copy of /repo; the property's rules are re-run on the copy in a fresh process and must report a new failing rule instance naming the expected construct"}
}

var runThorough = runTeeth

func runTooth(self string, c *Ctx, t tooth, base map[string]bool) toothResult {
	res := toothResult{t: t}
	var b []byte
	if t.patch == "" && t.revert == "" {
		src := filepath.Join(c.Repo, t.file)
		var err error
		b, err = os.ReadFile(src)
		if err != nil {
			res.status, res.detail = "skipped", "file not present"
			return res
		}
		if strings.Count(string(b), t.old) != 1 {
			res.status, res.detail = "skipped", fmt.Sprintf("anchor text occurs %d times", strings.Count(string(b), t.old))
			return res
		}
	}
	dir, err := os.MkdirTemp("", "tcellvet-tooth-")
	if err != nil {
		res.status, res.detail = "error", err.Error()
		return res
	}
	defer os.RemoveAll(dir)
	cp := exec.Command("rsync", "-a", "--exclude", ".git", c.Repo+"/", dir+"/")
	if out, err := cp.CombinedOutput(); err != nil {
		res.status, res.detail = "error", "copy failed: "+string(out)
		return res
	}
	if t.revert != "" {
		diff, err := exec.Command("git", "-C", c.Repo, "show", "--format=", t.revert, "--", ".").Output()
		if err != nil || len(diff) == 0 {
			res.status, res.detail = "skipped", "commit not available in "+c.Repo
			return res
		}
		pc := exec.Command("patch", "-R", "-p1", "-s", "-f", "-d", dir)
		pc.Stdin = bytes.NewReader(diff)
		if out, err := pc.CombinedOutput(); err != nil {
			res.status, res.detail = "skipped", "later commits rewrote the same lines, the repair cannot be taken back mechanically: "+firstLine(string(out))
			return res
		}
	} else if t.patch != "" {
		pf, err := os.Open(t.patch)
		if err != nil {
			res.status, res.detail = "skipped", "patch not readable"
			return res
		}
		pc := exec.Command("patch", "-p1", "-s", "-f", "-d", dir)
		pc.Stdin = pf
		out, err := pc.CombinedOutput()
		pf.Close()
		if err != nil {
			res.status, res.detail = "skipped", "patch no longer applies: "+firstLine(string(out))
			return res
		}
	} else if err := os.WriteFile(filepath.Join(dir, t.file), []byte(strings.Replace(string(b), t.old, t.new, 1)), 0o644); err != nil {
		res.status, res.detail = "error", err.Error()
		return res
	}
	cmd := exec.Command(self, "-prop", t.prop, "-tier", "quick", "-repo", dir, "-verif", c.VerifDir, "-keys")
	var out bytes.Buffer
	cmd.Stdout = &out
	cmd.Stderr = &out
	_ = cmd.Run()
	sc := bufio.NewScanner(&out)
	sc.Buffer(make([]byte, 1<<20), 1<<24)
	for sc.Scan() {
		line := sc.Text()
		if !strings.HasPrefix(line, "KEY ") {
			continue
		}
		k := strings.TrimPrefix(line, "KEY ")
		if !base[k] {
			res.newKeys = append(res.newKeys, k)
		}
	}
	for _, k := range res.newKeys {
		if strings.HasPrefix(k, "LOAD:") || strings.HasPrefix(k, "PANIC:") {
			res.status, res.detail = "error", "the edited copy did not load: "+k
			return res
		}
	}
	for _, k := range res.newKeys {
		if strings.Contains(k, t.expect) {
			res.status = "fired"
			return res
		}
	}
	res.status = "missed"
	res.detail = fmt.Sprintf("expected a new failing key containing %q, got %v", t.expect, res.newKeys)
	return res
}

// revertTeeth: one tooth per repaired finding of the property (known_findings.json, status fixed).
func revertTeeth(c *Ctx) []tooth {
	var out []tooth
	seen := map[string]bool{}
	known, err := loadKnown(c.VerifDir)
	if err != nil {
		return nil
	}
	for _, k := range known {
		if k.Property != c.Prop || k.Status != "fixed" || k.Commit == "" || seen[k.Commit+k.Key] {
			continue
		}
		seen[k.Commit+k.Key] = true
		out = append(out, tooth{prop: c.Prop, name: "revert/" + k.Commit + "/" + k.Key, file: "(commit " + k.Commit + " reversed)", revert: k.Commit, expect: k.Key})
	}
	return out
}

package main

// Scanner automaton (T19).  A loop that reads a string byte by byte and keeps a few flags or a small
// state number (the padding-specification scanner of TPuts) is a finite automaton.  Its transition
// function is obtained by constant evaluation (T18) of one round of the loop for every (state, byte):
// the loop-carried variables that only ever receive constants are the state, everything else (the
// accumulated number, the unit) is unknown and may not decide a branch.  The automaton is then explored
// together with the reference automaton of the grammar $<n[.m][*][/]> — every pair of states reached on
// the same input must agree on every byte (go on / reject) and at the end of the input (accept /
// reject).  The comparison is exact and does not depend on how the scanner keeps its state (four
// booleans, an enum, early returns from a helper).

import (
	"fmt"
	"go/token"
	"go/types"
	"sort"
	"strings"

	"golang.org/x/tools/go/ssa"
)

type scanAutoResult struct {
	states       int
	alphabet     map[int64]bool // bytes that some reachable state accepts
	acceptsBad   []string       // the scanner goes on or accepts where the grammar rejects
	rejectsGood  []string       // the scanner rejects where the grammar goes on or accepts
	rejectWrites map[ssa.Instruction]bool
}

// paddingAutomaton extracts and compares.  scan holds the loop with header hdr; isByte recognises the
// byte under examination; for a scanner in TPuts itself accept is the reslice that skips the terminator
// and rejects the writes that keep the marker; for a scanner in a helper boolIdx is the index of its
// boolean result.
func paddingAutomaton(p *Prog, scan *ssa.Function, hdr *ssa.BasicBlock, isByte func(ssa.Value) bool, accept ssa.Instruction, rejects []ssa.Instruction, boolIdx int) (*scanAutoResult, error) {
	body := loopsOf(scan)[hdr]
	if body == nil {
		return nil, fmt.Errorf("no loop")
	}
	var bodyEntry, exitSucc *ssa.BasicBlock
	for _, sc := range hdr.Succs {
		if body[sc] {
			bodyEntry = sc
		} else {
			exitSucc = sc
		}
	}
	if bodyEntry == nil || exitSucc == nil {
		return nil, fmt.Errorf("loop header without a body edge and an exit edge")
	}
	// the state: header phis fed by constants only (through other phis)
	var finite func(v ssa.Value, seen map[ssa.Value]bool) bool
	finite = func(v ssa.Value, seen map[ssa.Value]bool) bool {
		if seen[v] {
			return true
		}
		seen[v] = true
		switch x := v.(type) {
		case *ssa.Const:
			return true
		case *ssa.Phi:
			for _, e := range x.Edges {
				if !finite(e, seen) {
					return false
				}
			}
			return true
		}
		return false
	}
	var statePhis []*ssa.Phi
	// counters: a header phi that starts at 0, only ever grows by a positive constant, and is looked at
	// only through comparisons with 0 (`ndigits > 0` for "a digit was seen") behaves like the two-valued
	// state {0, positive}: it is kept as state and saturated at 1 after every step
	counter := map[*ssa.Phi]bool{}
	isCounter := func(phi *ssa.Phi) bool {
		if bt, ok := phi.Type().Underlying().(*types.Basic); !ok || bt.Info()&types.IsInteger == 0 {
			return false
		}
		var incs []ssa.Value
		zero := false
		for _, e := range phi.Edges {
			if k, ok := constInt(e); ok && k == 0 {
				zero = true
				continue
			}
			srcs := append(phiSources(e), e)
			for _, src := range srcs {
				if src == ssa.Value(phi) {
					continue
				}
				if _, isPhi := src.(*ssa.Phi); isPhi {
					continue
				}
				add, ok := src.(*ssa.BinOp)
				if !ok || add.Op != token.ADD {
					return false
				}
				if k, isK := constInt(add.Y); !isK || k <= 0 {
					return false
				}
				incs = append(incs, add)
			}
		}
		if !zero || len(incs) == 0 {
			return false
		}
		// every other use is a comparison with 0 (or the equivalent with 1)
		okUse := func(v ssa.Value) bool {
			for _, r := range referrers(v) {
				switch u := r.(type) {
				case *ssa.Phi, *ssa.DebugRef:
				case *ssa.BinOp:
					if u.Op == token.ADD {
						continue
					}
					k, isK := constInt(u.Y)
					if !isK || u.X != v {
						return false
					}
					switch {
					case k == 0 && (u.Op == token.GTR || u.Op == token.EQL || u.Op == token.NEQ || u.Op == token.LEQ):
					case k == 1 && (u.Op == token.GEQ || u.Op == token.LSS):
					default:
						return false
					}
				default:
					return false
				}
			}
			return true
		}
		if !okUse(phi) {
			return false
		}
		for _, a := range incs {
			if !okUse(a) {
				return false
			}
		}
		// phis in between (merges inside the loop body, the value after the loop)
		for _, src := range phiSourcesAll(phi) {
			if q, isPhi := src.(*ssa.Phi); isPhi && q != phi && !okUse(q) {
				return false
			}
		}
		return true
	}
	for _, in := range hdr.Instrs {
		if phi, ok := in.(*ssa.Phi); ok {
			if finite(phi, map[ssa.Value]bool{}) {
				statePhis = append(statePhis, phi)
			} else if isCounter(phi) {
				statePhis = append(statePhis, phi)
				counter[phi] = true
			}
		}
	}
	if len(statePhis) == 0 {
		return nil, fmt.Errorf("the loop carries no finite state")
	}
	pk := p.All[scan.Pkg.Pkg.Path()]
	if pk == nil {
		return nil, fmt.Errorf("package syntax not loaded")
	}
	constOf := func(v ssa.Value) *cv {
		if k, ok := constInt(v); ok {
			return cvI(k)
		}
		if b, ok := constBool(v); ok {
			return cvB(b)
		}
		return nil
	}
	key := func(vals []*cv) string {
		parts := []string{}
		for _, v := range vals {
			switch v.kind {
			case cvInt:
				parts = append(parts, fmt.Sprint(v.i))
			case cvBool:
				parts = append(parts, fmt.Sprint(v.b))
			default:
				parts = append(parts, "?")
			}
		}
		return strings.Join(parts, ",")
	}
	// initial state: the values on the edge(s) entering the loop
	var init []*cv
	for i, pr := range hdr.Preds {
		if body[pr] {
			continue
		}
		var vals []*cv
		for _, phi := range statePhis {
			c := constOf(phi.Edges[i])
			if c == nil {
				return nil, fmt.Errorf("the state variable %s does not start at a constant", valName(phi))
			}
			vals = append(vals, c)
		}
		if init != nil && key(init) != key(vals) {
			return nil, fmt.Errorf("several ways into the loop with different states")
		}
		init = vals
	}
	if init == nil {
		return nil, fmt.Errorf("no edge into the loop")
	}
	rej := map[ssa.Instruction]bool{}
	for _, r := range rejects {
		rej[r] = true
	}
	const (
		goOn = iota
		accepted
		rejected
	)
	// one step of evaluation from a start block
	eval := func(start, from *ssa.BasicBlock, state []*cv, b int64) (int, []*cv, error) {
		ce := &constEval{pk: pk, globals: map[*ssa.Global]*cv{}}
		ce.startAt, ce.startPrev = start, from
		ce.startEnv = map[ssa.Value]*cv{}
		for i, phi := range statePhis {
			ce.startEnv[phi] = state[i]
		}
		if b >= 0 {
			ce.override = func(v ssa.Value) *cv {
				if isByte(v) {
					return cvI(b)
				}
				return nil
			}
		}
		var next []*cv
		ce.stopBlock = func(nb, fromB *ssa.BasicBlock, val func(ssa.Value) *cv) bool {
			if nb != hdr {
				return false
			}
			for i, pr := range hdr.Preds {
				if pr != fromB {
					continue
				}
				next = nil
				for _, phi := range statePhis {
					v := val(phi.Edges[i])
					if counter[phi] && v.kind == cvInt && v.i > 1 {
						v = cvI(1) // saturated: any positive count is looked at in the same way
					}
					next = append(next, v)
				}
			}
			return true
		}
		ce.stopInstr = func(in ssa.Instruction) bool { return in == accept && accept != nil || rej[in] }
		rets, err := ce.exec(p, scan, nil, nil, 0)
		if err == errEvalStopped {
			switch {
			case ce.ended.block != nil:
				for _, v := range next {
					if v.kind != cvInt && v.kind != cvBool {
						return 0, nil, fmt.Errorf("a state variable leaves the finite domain")
					}
				}
				return goOn, next, nil
			case ce.ended.instr == accept:
				return accepted, nil, nil
			default:
				return rejected, nil, nil
			}
		}
		if err != nil {
			return 0, nil, err
		}
		// a scanner in a helper: its boolean answer
		if boolIdx >= 0 && boolIdx < len(rets) && rets[boolIdx].kind == cvBool {
			if rets[boolIdx].b {
				return accepted, nil, nil
			}
			return rejected, nil, nil
		}
		return 0, nil, fmt.Errorf("the scan ends without a decision")
	}
	// reference automaton of the grammar: digits with at most one point, then flags; a digit required
	type ref struct{ dot, digits, flags, dead bool }
	refStep := func(r ref, b int64) ref {
		switch {
		case b >= '0' && b <= '9':
			if r.flags {
				r.dead = true
			}
			r.digits = true
		case b == '.':
			if r.dot || r.flags {
				r.dead = true
			}
			r.dot = true
		case b == '*' || b == '/':
			r.flags = true
		default:
			r.dead = true
		}
		return r
	}
	res := &scanAutoResult{alphabet: map[int64]bool{}, rejectWrites: rej}
	type pair struct {
		code []*cv
		r    ref
	}
	seen := map[string]bool{}
	queue := []pair{{init, ref{}}}
	note := func(list *[]string, s string) {
		if len(*list) < 6 {
			*list = append(*list, s)
		}
	}
	for len(queue) > 0 {
		cur := queue[0]
		queue = queue[1:]
		k := key(cur.code) + fmt.Sprintf("|%v", cur.r)
		if seen[k] {
			continue
		}
		seen[k] = true
		res.states++
		// end of the input in this state
		out, _, err := eval(exitSucc, hdr, cur.code, -1)
		if err != nil {
			return nil, err
		}
		if out == goOn {
			return nil, fmt.Errorf("the way out of the loop leads back into it")
		}
		if (out == accepted) != cur.r.digits {
			if out == accepted {
				note(&res.acceptsBad, fmt.Sprintf("end of input in state (%s): accepted without a digit", key(cur.code)))
			} else {
				note(&res.rejectsGood, fmt.Sprintf("end of input in state (%s): a well-formed specification is rejected", key(cur.code)))
			}
		}
		for b := int64(0); b < 256; b++ {
			nr := refStep(cur.r, b)
			out, next, err := eval(bodyEntry, hdr, cur.code, b)
			if err != nil {
				return nil, err
			}
			switch {
			case out == accepted:
				return nil, fmt.Errorf("the specification is accepted in the middle of the scan")
			case out == rejected && !nr.dead:
				note(&res.rejectsGood, fmt.Sprintf("byte %q in state (%s) is rejected, the grammar allows it", rune(b), key(cur.code)))
			case out == goOn && nr.dead:
				note(&res.acceptsBad, fmt.Sprintf("byte %q in state (%s) is let through, the grammar rejects it", rune(b), key(cur.code)))
			case out == goOn:
				res.alphabet[b] = true
				queue = append(queue, pair{next, nr})
			}
		}
	}
	sort.Strings(res.acceptsBad)
	sort.Strings(res.rejectsGood)
	return res, nil
}

// phiSourcesAll: every value reachable from v through phi edges, the phis themselves included.
func phiSourcesAll(v ssa.Value) []ssa.Value {
	seen := map[ssa.Value]bool{}
	var out []ssa.Value
	var walk func(x ssa.Value)
	walk = func(x ssa.Value) {
		if seen[x] {
			return
		}
		seen[x] = true
		out = append(out, x)
		if phi, ok := x.(*ssa.Phi); ok {
			for _, e := range phi.Edges {
				walk(e)
			}
		}
	}
	walk(v)
	return out
}

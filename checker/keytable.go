package main

import (
	"fmt"
	"go/ast"
	"go/constant"
	"go/token"
	"go/types"
	"sort"
	"strings"

	"golang.org/x/tools/go/packages"
	"golang.org/x/tools/go/ssa"
)

// Constant folding of tScreen's key-table builder (C03-R2, C14-R3).
//
// The builder (`prepareKeys` and the helpers it calls) is straight-line code
// over the constants of one Terminfo entry.  It is folded here per entry by
// a small evaluator over the typed AST; only a fixed statement/expression
// subset is understood and anything else makes the result *undecided*.
// Registrar semantics (first-wins / replace-if) are not assumed: they are
// established from the registrars' SSA form by keyRegistrars().

type kval struct {
	kind byte // 's' string, 'i' int, 'b' bool, 'T' the Terminfo, 'S' the screen, 'L' list (a constant table), 'R' record (a row of one), 0 unknown
	s    string
	i    int64
	b    bool
	src  string // Terminfo field the value was read from (unmodified), if any
	list []kval
	rec  map[string]kval
}

type keyBinding struct {
	key   int64
	mod   int64
	site  token.Pos // registrar call site that won
	field string    // Terminfo field the sequence came from ("" = literal)
}

type keyTable struct {
	seqs  map[string]keyBinding
	order []string
	exist map[int64]bool
	// every (field → key,mod) denotation attempted, whether it won or not
	denote map[string][]keyBinding
}

type keyTables struct {
	tables     map[string]*keyTable
	fieldsRead map[string]bool // Terminfo Key* fields read by the builder
	regSites   int
}

type registrarKind int

const (
	regNone registrarKind = iota
	regFirstWins
	regReplaceIf
)

type keyEval struct {
	c      *Ctx
	p      *Prog
	pk     *packages.Package
	decls  map[*types.Func]*ast.FuncDecl
	regs   map[*types.Func]registrarKind
	writes map[*types.Func]bool // functions that (transitively) write keycodes
	entry  *Entry
	xterm  bool
	tab    *keyTable
	fields map[string]bool
	err    string
	sites  int
	ctl    *ctlLoop
}

type ctlLoop struct {
	bound   int64
	defMod  int64
	exempt  map[int64]int64 // key -> mod
	checked bool
	helpers []string // helper functions that hold part of the pass (the registration)
}

// ctlPassWriters: the functions that write the key table as part of the control-byte pass: the function
// holding the loop and the helpers the loop hands its byte to.  Filled while the builder is folded.
var ctlPassWriters = map[string]bool{}

func (ev *keyEval) fail(pos token.Pos, msg string) {
	if ev.err == "" {
		ev.err = ev.p.pos(pos) + ": " + msg
	}
}

// keyRegistrars classifies functions that store into tScreen.keycodes by the shape of their guard.
// regRoles: which parameter (position in the declaration, receiver not counted) of a registrar is the
// key code, the modifier mask, the sequence, and — for replace-if — the key that may be replaced; found
// by what the function does with them, not by their names.
type regRoles struct{ key, mod, val, repl int }

var registrarRoles = map[*types.Func]regRoles{}

func keyRegistrars(c *Ctx, p *Prog) (map[*types.Func]registrarKind, map[*types.Func]bool, []string) {
	regs := map[*types.Func]registrarKind{}
	writers := map[*types.Func]bool{}
	var names []string
	for _, fn := range p.modFns {
		if fn.Pkg != p.Tcell || fn.Parent() != nil {
			continue
		}
		var updates []*ssa.MapUpdate
		eachInstr(fn, func(in ssa.Instruction) {
			if mu, ok := in.(*ssa.MapUpdate); ok {
				if ref, _, ok := loadedField(mu.Map); ok && ref.String() == "tcell.tScreen.keycodes" {
					updates = append(updates, mu)
				}
			}
		})
		if len(updates) == 0 {
			continue
		}
		obj, _ := fn.Object().(*types.Func)
		if obj == nil {
			continue
		}
		writers[obj] = true
		names = append(names, fn.Name())
		if len(updates) != 1 {
			continue
		}
		mu := updates[0]
		// guard atoms at the update
		gs := guardsAt(mu.Block())
		hasNonEmpty := false
		for _, g := range gs {
			if g.Op == "!=" && g.R == "\"\"" {
				hasNonEmpty = true
			}
		}
		// the existence test: lookup of keycodes[val] with commaok
		notExistEdge := false
		replaceAlt := false
		var replParam, keyParam, modParam *ssa.Parameter
		for _, g := range gs {
			if strings.Contains(g.L, "keycodes[") && strings.HasSuffix(g.L, "#1") && ((g.Op == "==" && g.R == "false") || (g.Op == "!=" && g.R == "true")) {
				notExistEdge = true
			}
		}
		if !notExistEdge {
			// `!exist || old.key == replace`: the update block has two predecessors:
			// the false edge of `exist` and the true edge of `old.key == replace`
			preds := mu.Block().Preds
			if len(preds) == 2 {
				okA, okB := false, false
				for _, pr := range preds {
					iff, ok := pr.Instrs[len(pr.Instrs)-1].(*ssa.If)
					if !ok {
						continue
					}
					at, _ := condAtom(iff.Cond, pr.Succs[0] == mu.Block())
					at = at.canon()
					if strings.Contains(at.L, "keycodes[") && strings.HasSuffix(at.L, "#1") && ((at.Op == "==" && at.R == "false") || (at.Op == "!=" && at.R == "true")) {
						okA = true
					}
					// the old entry's key compared with a parameter: that parameter is "the key that may be replaced"
					if bo, isBO := iff.Cond.(*ssa.BinOp); isBO && bo.Op == token.EQL && pr.Succs[0] == mu.Block() {
						for _, pair := range [][2]ssa.Value{{bo.X, bo.Y}, {bo.Y, bo.X}} {
							prm, isP := pair[1].(*ssa.Parameter)
							ref, _, isF := loadedField(pair[0])
							if isP && isF && ref.Name == "key" {
								okB = true
								replParam = prm
							}
						}
					}
				}
				replaceAlt = okA && okB
			}
		}
		// the stored value is &tKeyCode{key: key, mod: mod} with the parameters of those names
		storedOK := false
		if al, ok := mu.Value.(*ssa.Alloc); ok {
			kOK, mOK := false, false
			for _, r := range referrers(al) {
				fa, ok := r.(*ssa.FieldAddr)
				if !ok {
					continue
				}
				ref, _, _ := fieldAddrRef(fa)
				for _, r2 := range referrers(fa) {
					if st, ok := r2.(*ssa.Store); ok {
						if prm, ok := st.Val.(*ssa.Parameter); ok {
							if ref.Name == "key" {
								kOK, keyParam = true, prm
							}
							if ref.Name == "mod" {
								mOK, modParam = true, prm
							}
						}
					}
				}
			}
			storedOK = kOK && mOK
		}
		keyIsVal := false
		var valParam *ssa.Parameter
		if prm, ok := mu.Key.(*ssa.Parameter); ok {
			if bt, isB := prm.Type().Underlying().(*types.Basic); isB && bt.Kind() == types.String {
				keyIsVal, valParam = true, prm
			}
		}
		// the non-empty test is about the sequence
		if valParam != nil {
			hasNonEmpty = false
			for _, g := range gs {
				if g.Op == "!=" && g.R == "\"\"" && g.L == valName(valParam) {
					hasNonEmpty = true
				}
			}
		}
		if !(hasNonEmpty && storedOK && keyIsVal) {
			continue
		}
		idx := func(prm *ssa.Parameter) int {
			off := 0
			if fn.Signature.Recv() != nil {
				off = 1
			}
			for i, q := range fn.Params {
				if q == prm {
					return i - off
				}
			}
			return -1
		}
		roles := regRoles{key: idx(keyParam), mod: idx(modParam), val: idx(valParam), repl: -1}
		if replParam != nil {
			roles.repl = idx(replParam)
		}
		if notExistEdge {
			regs[obj] = regFirstWins
			registrarRoles[obj] = roles
		} else if replaceAlt && roles.repl >= 0 {
			regs[obj] = regReplaceIf
			registrarRoles[obj] = roles
		}
	}
	sort.Strings(names)
	return regs, writers, names
}

func buildKeyTables(c *Ctx, p *Prog, db *dbModel) *keyTables {
	if p.Tcell == nil {
		return nil
	}
	pk := p.pkg("")
	regs, writers, _ := keyRegistrars(c, p)
	decls := map[*types.Func]*ast.FuncDecl{}
	for _, f := range pk.Syntax {
		for _, d := range f.Decls {
			if fd, ok := d.(*ast.FuncDecl); ok {
				if obj, ok := pk.TypesInfo.Defs[fd.Name].(*types.Func); ok {
					decls[obj] = fd
				}
			}
		}
	}
	// transitive writers: functions calling a writer
	changed := true
	for changed {
		changed = false
		for obj, fd := range decls {
			if writers[obj] {
				continue
			}
			ast.Inspect(fd, func(n ast.Node) bool {
				if call, ok := n.(*ast.CallExpr); ok {
					if callee := calleeObj(pk, call); callee != nil && writers[callee] {
						writers[obj] = true
						changed = true
					}
				}
				return true
			})
		}
	}
	var root *types.Func
	for obj := range decls {
		if obj.Name() == "prepareKeys" {
			root = obj
		}
	}
	if root == nil {
		return nil
	}
	out := &keyTables{tables: map[string]*keyTable{}, fieldsRead: map[string]bool{}}
	for _, e := range db.entries {
		ev := &keyEval{c: c, p: p, pk: pk, decls: decls, regs: regs, writes: writers, entry: e,
			xterm: e.Bool["XTermLike"], fields: out.fieldsRead,
			tab: &keyTable{seqs: map[string]keyBinding{}, exist: map[int64]bool{}, denote: map[string][]keyBinding{}}}
		env := map[types.Object]kval{}
		fd := decls[root]
		if fd.Recv != nil && len(fd.Recv.List) == 1 && len(fd.Recv.List[0].Names) == 1 {
			env[pk.TypesInfo.Defs[fd.Recv.List[0].Names[0]]] = kval{kind: 'S'}
		}
		ev.block(fd.Body, env, fd)
		if ev.err != "" {
			c.Undecided("C03-R2", e.Name+":fold", "-", "key-table builder outside the foldable subset: "+ev.err)
			return nil
		}
		out.tables[e.Name] = ev.tab
		if ev.sites > out.regSites {
			out.regSites = ev.sites
		}
	}
	return out
}

func calleeObj(pk *packages.Package, call *ast.CallExpr) *types.Func {
	var id *ast.Ident
	switch fx := call.Fun.(type) {
	case *ast.SelectorExpr:
		id = fx.Sel
	case *ast.Ident:
		id = fx
	}
	if id == nil {
		return nil
	}
	f, _ := pk.TypesInfo.Uses[id].(*types.Func)
	return f
}

type ctrlFlow int

const (
	flowNext ctrlFlow = iota
	flowReturn
	flowContinue
	flowBreak
)

func (ev *keyEval) block(b *ast.BlockStmt, env map[types.Object]kval, fd *ast.FuncDecl) ctrlFlow {
	for _, st := range b.List {
		if ev.err != "" {
			return flowReturn
		}
		if f := ev.stmt(st, env, fd); f != flowNext {
			return f
		}
	}
	return flowNext
}

// zeroOf: the zero value of a foldable type.
func zeroOf(t types.Type) kval {
	if st, ok := t.Underlying().(*types.Struct); ok {
		out := kval{kind: 'R', rec: map[string]kval{}}
		for i := 0; i < st.NumFields(); i++ {
			out.rec[st.Field(i).Name()] = zeroOf(st.Field(i).Type())
		}
		return out
	}
	if b, ok := t.Underlying().(*types.Basic); ok {
		switch {
		case b.Info()&types.IsString != 0:
			return kval{kind: 's'}
		case b.Info()&types.IsInteger != 0:
			return kval{kind: 'i'}
		case b.Kind() == types.Bool:
			return kval{kind: 'b'}
		}
	}
	return kval{}
}

// tableValue: a package-level variable initialised with a composite literal of constants (an array or
// slice of rows) that nothing in the module assigns to: the rows as records.
func (ev *keyEval) tableValue(obj types.Object) kval {
	v, ok := obj.(*types.Var)
	if !ok || v.Parent() != ev.pk.Types.Scope() {
		return kval{}
	}
	if ev.p.Tcell != nil {
		if g, isG := ev.p.Tcell.Members[v.Name()].(*ssa.Global); isG && globalIsStored(ev.p, g) {
			return kval{}
		}
	}
	e := findVarDecl(ev.pk, v)
	cl, ok := e.(*ast.CompositeLit)
	if !ok {
		return kval{}
	}
	return ev.literal(cl, v.Type())
}

func (ev *keyEval) literal(cl *ast.CompositeLit, t types.Type) kval {
	return ev.literalEnv(cl, t, nil)
}

// literalEnv: a composite literal whose elements may mention local values (a struct of capability
// strings picked from the description).
func (ev *keyEval) literalEnv(cl *ast.CompositeLit, t types.Type, env map[types.Object]kval) kval {
	switch u := t.Underlying().(type) {
	case *types.Array, *types.Slice:
		var elemT types.Type
		if a, isA := u.(*types.Array); isA {
			elemT = a.Elem()
		} else {
			elemT = u.(*types.Slice).Elem()
		}
		out := kval{kind: 'L'}
		for _, el := range cl.Elts {
			if _, isKV := el.(*ast.KeyValueExpr); isKV {
				return kval{} // indexed rows: not needed so far
			}
			var row kval
			if inner, isCL := el.(*ast.CompositeLit); isCL {
				row = ev.literalEnv(inner, elemT, env)
			} else {
				row = ev.expr(el, env)
			}
			if row.kind == 0 {
				return kval{}
			}
			out.list = append(out.list, row)
		}
		return out
	case *types.Struct:
		out := kval{kind: 'R', rec: map[string]kval{}}
		for i := 0; i < u.NumFields(); i++ {
			out.rec[u.Field(i).Name()] = zeroOf(u.Field(i).Type())
		}
		for i, el := range cl.Elts {
			name, ve := "", el
			if kv, isKV := el.(*ast.KeyValueExpr); isKV {
				if id, isID := kv.Key.(*ast.Ident); isID {
					name, ve = id.Name, kv.Value
				}
			} else if i < u.NumFields() {
				name = u.Field(i).Name()
			}
			if name == "" {
				return kval{}
			}
			v := ev.expr(ve, env)
			if v.kind == 0 {
				return kval{}
			}
			out.rec[name] = v
		}
		return out
	}
	return kval{}
}

func (ev *keyEval) stmt(st ast.Stmt, env map[types.Object]kval, fd *ast.FuncDecl) ctrlFlow {
	switch s := st.(type) {
	case *ast.ExprStmt:
		call, ok := s.X.(*ast.CallExpr)
		if !ok {
			ev.fail(s.Pos(), "expression statement that is not a call")
			return flowReturn
		}
		ev.call(call, env)
	case *ast.IfStmt:
		if s.Init != nil {
			ev.fail(s.Pos(), "if with init statement")
			return flowReturn
		}
		cv := ev.expr(s.Cond, env)
		if cv.kind != 'b' {
			ev.fail(s.Cond.Pos(), "condition does not fold to a constant for entry "+ev.entry.Name)
			return flowReturn
		}
		if cv.b {
			return ev.block(s.Body, env, fd)
		}
		switch el := s.Else.(type) {
		case nil:
		case *ast.BlockStmt:
			return ev.block(el, env, fd)
		case *ast.IfStmt:
			return ev.stmt(el, env, fd)
		}
	case *ast.SwitchStmt:
		if s.Init != nil {
			ev.fail(s.Pos(), "switch with init statement")
			return flowReturn
		}
		var tag kval
		if s.Tag != nil {
			tag = ev.expr(s.Tag, env)
			if tag.kind == 0 {
				ev.fail(s.Pos(), "switch tag does not fold for entry "+ev.entry.Name)
				return flowReturn
			}
		}
		var chosen, def *ast.CaseClause
		for _, cc := range s.Body.List {
			cl := cc.(*ast.CaseClause)
			if cl.List == nil {
				def = cl
				continue
			}
			for _, e := range cl.List {
				v := ev.expr(e, env)
				if v.kind == 0 {
					ev.fail(e.Pos(), "case expression does not fold for entry "+ev.entry.Name)
					return flowReturn
				}
				hit := false
				if s.Tag == nil {
					hit = v.kind == 'b' && v.b
				} else {
					hit = v.kind == tag.kind && v.s == tag.s && v.i == tag.i && v.b == tag.b
				}
				if hit && chosen == nil {
					chosen = cl
				}
			}
		}
		if chosen == nil {
			chosen = def
		}
		if chosen != nil {
			for _, st2 := range chosen.Body {
				if _, isFT := st2.(*ast.BranchStmt); isFT && st2.(*ast.BranchStmt).Tok == token.FALLTHROUGH {
					ev.fail(st2.Pos(), "fallthrough")
					return flowReturn
				}
				f := ev.stmt(st2, env, fd)
				if f == flowBreak {
					break
				}
				if f != flowNext {
					return f
				}
			}
		}
	case *ast.DeclStmt:
		gd, ok := s.Decl.(*ast.GenDecl)
		if !ok || (gd.Tok != token.VAR && gd.Tok != token.CONST) {
			ev.fail(s.Pos(), "declaration that is not var/const")
			return flowReturn
		}
		for _, sp := range gd.Specs {
			vs, isVS := sp.(*ast.ValueSpec)
			if !isVS {
				continue
			}
			for i, n := range vs.Names {
				obj := ev.pk.TypesInfo.Defs[n]
				if obj == nil {
					continue
				}
				if i < len(vs.Values) {
					env[obj] = ev.expr(vs.Values[i], env)
				} else {
					env[obj] = zeroOf(obj.Type())
				}
			}
		}
	case *ast.BranchStmt:
		switch s.Tok {
		case token.CONTINUE:
			if s.Label == nil {
				return flowContinue
			}
		case token.BREAK:
			if s.Label == nil {
				return flowBreak
			}
		}
		ev.fail(s.Pos(), "branch statement "+s.Tok.String())
		return flowReturn
	case *ast.RangeStmt:
		// a loop over a constant table of the package (rows of parameters for the registrars)
		tab := ev.expr(s.X, env)
		if tab.kind != 'L' {
			ev.fail(s.Pos(), "range over something that is not a constant table")
			return flowReturn
		}
		bind := func(e ast.Expr, v kval) {
			if id, ok := e.(*ast.Ident); ok && id.Name != "_" {
				obj := ev.pk.TypesInfo.Defs[id]
				if obj == nil {
					obj = ev.pk.TypesInfo.Uses[id]
				}
				if obj != nil {
					env[obj] = v
				}
			}
		}
		for i, row := range tab.list {
			if s.Key != nil {
				bind(s.Key, kval{kind: 'i', i: int64(i)})
			}
			if s.Value != nil {
				bind(s.Value, row)
			}
			f := ev.block(s.Body, env, fd)
			if f == flowReturn {
				return flowReturn
			}
			if f == flowBreak {
				break
			}
		}
	case *ast.AssignStmt:
		if len(s.Lhs) == len(s.Rhs) && len(s.Lhs) > 1 {
			// a, b = x, y: all right-hand sides first
			vals := make([]kval, len(s.Rhs))
			for i, r := range s.Rhs {
				vals[i] = ev.expr(r, env)
				if vals[i].kind == 0 {
					ev.fail(s.Pos(), "assignment of a value that does not fold")
					return flowReturn
				}
			}
			for i, l := range s.Lhs {
				id, ok := l.(*ast.Ident)
				if !ok {
					ev.fail(s.Pos(), "multi-assignment to something that is not a variable")
					return flowReturn
				}
				obj := ev.pk.TypesInfo.Defs[id]
				if obj == nil {
					obj = ev.pk.TypesInfo.Uses[id]
				}
				env[obj] = vals[i]
			}
			return flowNext
		}
		if len(s.Lhs) != 1 || len(s.Rhs) != 1 {
			ev.fail(s.Pos(), "multi-assignment")
			return flowReturn
		}
		switch lhs := s.Lhs[0].(type) {
		case *ast.Ident:
			v := ev.expr(s.Rhs[0], env)
			if v.kind == 0 {
				ev.fail(s.Pos(), "assignment of a value that does not fold")
				return flowReturn
			}
			obj := ev.pk.TypesInfo.Defs[lhs]
			if obj == nil {
				obj = ev.pk.TypesInfo.Uses[lhs]
			}
			env[obj] = v
		case *ast.SelectorExpr:
			// t.ti.XTermLike = true / ti.XTermLike = true : the one environment update of the builder
			base := ev.expr(lhs.X, env)
			if base.kind == 'T' && lhs.Sel.Name == "XTermLike" {
				v := ev.expr(s.Rhs[0], env)
				if v.kind != 'b' {
					ev.fail(s.Pos(), "XTermLike assigned a non-constant")
					return flowReturn
				}
				ev.xterm = v.b
				return flowNext
			}
			if base.kind == 'S' && lhs.Sel.Name != "keycodes" && lhs.Sel.Name != "keyexist" && lhs.Sel.Name != "ti" {
				// a prepared string of the screen: irrelevant to the key table
				// (reading one back in a condition does not fold and is reported there)
				return flowNext
			}
			ev.fail(s.Pos(), "assignment to "+types.ExprString(lhs))
			return flowReturn
		default:
			ev.fail(s.Pos(), "assignment form")
			return flowReturn
		}
	case *ast.ReturnStmt:
		return flowReturn
	case *ast.BlockStmt:
		return ev.block(s, env, fd)
	case *ast.LabeledStmt:
		return ev.stmt(s.Stmt, env, fd)
	case *ast.ForStmt:
		// the control-byte pass, recognised as a unit
		cl := ev.matchCtlLoop(s)
		if cl == nil {
			ev.fail(s.Pos(), "loop that is not the control-key pass")
			return flowReturn
		}
		ev.ctl = cl
		if fd != nil {
			ctlPassWriters[fd.Name.Name] = true
		}
		for _, h := range cl.helpers {
			ctlPassWriters[h] = true
		}
		ev.applyCtlLoop(cl, s.Pos())
	default:
		ev.fail(st.Pos(), fmt.Sprintf("statement %T", st))
		return flowReturn
	}
	return flowNext
}

func (ev *keyEval) call(call *ast.CallExpr, env map[types.Object]kval) {
	callee := calleeObj(ev.pk, call)
	if callee == nil {
		ev.fail(call.Pos(), "unresolved call")
		return
	}
	fd := ev.decls[callee]
	if fd == nil || !ev.writes[callee] {
		// a helper that never writes the key table is irrelevant — but it may
		// update XTermLike? (none does; a write would make it a Terminfo store seen by C14-R4)
		return
	}
	args := make([]kval, len(call.Args))
	for i, a := range call.Args {
		args[i] = ev.expr(a, env)
	}
	if kind, isReg := ev.regs[callee]; isReg {
		ev.register(kind, fd, call, args)
		return
	}
	if ev.writes[callee] && ev.regs[callee] == regNone && ev.isDirectWriter(callee) && callee.Name() != "prepareKeys" {
		ev.fail(call.Pos(), "call of "+callee.Name()+", which writes the key table with an unrecognised guard shape")
		return
	}
	// bind parameters and interpret the body
	nenv := map[types.Object]kval{}
	if fd.Recv != nil && len(fd.Recv.List) == 1 && len(fd.Recv.List[0].Names) == 1 {
		nenv[ev.pk.TypesInfo.Defs[fd.Recv.List[0].Names[0]]] = kval{kind: 'S'}
	}
	i := 0
	for _, fl := range fd.Type.Params.List {
		for _, n := range fl.Names {
			if i < len(args) {
				nenv[ev.pk.TypesInfo.Defs[n]] = args[i]
			}
			i++
		}
	}
	// remember which Terminfo field an argument came from, for denotation
	ev.block(fd.Body, nenv, fd)
}

func (ev *keyEval) isDirectWriter(f *types.Func) bool {
	fn := ev.p.Fn("tcell:(*tScreen)." + f.Name())
	if fn == nil {
		return false
	}
	w := false
	eachInstr(fn, func(in ssa.Instruction) {
		if mu, ok := in.(*ssa.MapUpdate); ok {
			if ref, _, ok := loadedField(mu.Map); ok && ref.String() == "tcell.tScreen.keycodes" {
				w = true
			}
		}
	})
	return w
}

// register applies a registrar call: parameters are found by name (key, mod, val, replace).
func (ev *keyEval) register(kind registrarKind, fd *ast.FuncDecl, call *ast.CallExpr, args []kval) {
	var key, mod, repl kval
	var val kval
	valIdx := -1
	if callee := calleeObj(ev.pk, call); callee != nil {
		if r, ok := registrarRoles[callee]; ok {
			at := func(i int) kval {
				if i >= 0 && i < len(args) {
					return args[i]
				}
				return kval{}
			}
			key, mod, val, repl = at(r.key), at(r.mod), at(r.val), at(r.repl)
			valIdx = r.val
		}
	}
	_ = fd
	if key.kind != 'i' || mod.kind != 'i' || val.kind != 's' || (kind == regReplaceIf && repl.kind != 'i') {
		ev.fail(call.Pos(), "registrar argument does not fold to a constant")
		return
	}
	ev.sites++
	field := val.src
	_ = valIdx
	b := keyBinding{key: key.i, mod: mod.i, site: call.Pos(), field: field}
	if val.s == "" {
		return
	}
	ev.tab.denote[val.s] = append(ev.tab.denote[val.s], b)
	old, exist := ev.tab.seqs[val.s]
	switch kind {
	case regFirstWins:
		if exist {
			return
		}
	case regReplaceIf:
		if exist && old.key != repl.i {
			return
		}
	}
	if !exist {
		ev.tab.order = append(ev.tab.order, val.s)
	}
	ev.tab.exist[key.i] = true
	ev.tab.seqs[val.s] = b
}

// terminfoFieldOf: `ti.KeyF1` / `t.ti.KeyF1` → "KeyF1".
func terminfoFieldOf(e ast.Expr) string {
	if se, ok := e.(*ast.SelectorExpr); ok {
		if strings.HasPrefix(se.Sel.Name, "Key") || strings.HasPrefix(se.Sel.Name, "Paste") {
			return se.Sel.Name
		}
	}
	return ""
}

func (ev *keyEval) expr(e ast.Expr, env map[types.Object]kval) kval {
	if tv, ok := ev.pk.TypesInfo.Types[e]; ok && tv.Value != nil {
		switch tv.Value.Kind() {
		case constant.String:
			return kval{kind: 's', s: constant.StringVal(tv.Value)}
		case constant.Int:
			i, _ := constant.Int64Val(tv.Value)
			return kval{kind: 'i', i: i}
		case constant.Bool:
			return kval{kind: 'b', b: constant.BoolVal(tv.Value)}
		}
	}
	switch x := e.(type) {
	case *ast.ParenExpr:
		return ev.expr(x.X, env)
	case *ast.CompositeLit:
		if tv, ok := ev.pk.TypesInfo.Types[x]; ok && tv.Type != nil {
			return ev.literalEnv(x, tv.Type, env)
		}
	case *ast.Ident:
		obj := ev.pk.TypesInfo.Uses[x]
		if v, ok := env[obj]; ok {
			return v
		}
		if obj != nil {
			if t := ev.tableValue(obj); t.kind != 0 {
				return t
			}
		}
	case *ast.SelectorExpr:
		base := ev.expr(x.X, env)
		switch base.kind {
		case 'R':
			if v, ok := base.rec[x.Sel.Name]; ok {
				return v
			}
		case 'S':
			if x.Sel.Name == "ti" {
				return kval{kind: 'T'}
			}
		case 'T':
			name := x.Sel.Name
			if strings.HasPrefix(name, "Key") {
				ev.fields[name] = true
			}
			if name == "XTermLike" {
				return kval{kind: 'b', b: ev.xterm}
			}
			if v, ok := ev.entry.Str[name]; ok {
				return kval{kind: 's', s: v, src: name}
			}
			if v, ok := ev.entry.Int[name]; ok {
				return kval{kind: 'i', i: v}
			}
			if v, ok := ev.entry.Bool[name]; ok {
				return kval{kind: 'b', b: v}
			}
			// zero value by field type
			if sel, ok := ev.pk.TypesInfo.Selections[x]; ok {
				if b, ok := sel.Type().Underlying().(*types.Basic); ok {
					switch {
					case b.Info()&types.IsString != 0:
						return kval{kind: 's', src: name}
					case b.Info()&types.IsInteger != 0:
						return kval{kind: 'i'}
					case b.Kind() == types.Bool:
						return kval{kind: 'b'}
					}
				}
			}
		}
	case *ast.BinaryExpr:
		l := ev.expr(x.X, env)
		if x.Op == token.LAND && l.kind == 'b' && !l.b {
			return kval{kind: 'b', b: false}
		}
		if x.Op == token.LOR && l.kind == 'b' && l.b {
			return kval{kind: 'b', b: true}
		}
		r := ev.expr(x.Y, env)
		switch {
		case l.kind == 's' && r.kind == 's':
			switch x.Op {
			case token.ADD:
				return kval{kind: 's', s: l.s + r.s}
			case token.EQL:
				return kval{kind: 'b', b: l.s == r.s}
			case token.NEQ:
				return kval{kind: 'b', b: l.s != r.s}
			}
		case l.kind == 'i' && r.kind == 'i':
			switch x.Op {
			case token.ADD:
				return kval{kind: 'i', i: l.i + r.i}
			case token.SUB:
				return kval{kind: 'i', i: l.i - r.i}
			case token.OR:
				return kval{kind: 'i', i: l.i | r.i}
			case token.EQL:
				return kval{kind: 'b', b: l.i == r.i}
			case token.NEQ:
				return kval{kind: 'b', b: l.i != r.i}
			case token.LSS:
				return kval{kind: 'b', b: l.i < r.i}
			case token.GTR:
				return kval{kind: 'b', b: l.i > r.i}
			}
		case l.kind == 'b' && r.kind == 'b':
			switch x.Op {
			case token.LAND:
				return kval{kind: 'b', b: l.b && r.b}
			case token.LOR:
				return kval{kind: 'b', b: l.b || r.b}
			}
		}
	case *ast.UnaryExpr:
		v := ev.expr(x.X, env)
		if x.Op == token.NOT && v.kind == 'b' {
			return kval{kind: 'b', b: !v.b}
		}
		if x.Op == token.AND && v.kind == 'R' {
			return v // the address of a row of a constant table: read only
		}
	case *ast.StarExpr:
		if v := ev.expr(x.X, env); v.kind == 'R' {
			return v
		}
	case *ast.IndexExpr:
		tab, idx := ev.expr(x.X, env), ev.expr(x.Index, env)
		if tab.kind == 'L' && idx.kind == 'i' && idx.i >= 0 && idx.i < int64(len(tab.list)) {
			return tab.list[idx.i]
		}
	case *ast.CallExpr:
		if id, ok := x.Fun.(*ast.Ident); ok && id.Name == "len" && len(x.Args) == 1 {
			if _, isBuiltin := ev.pk.TypesInfo.Uses[id].(*types.Builtin); isBuiltin {
				v := ev.expr(x.Args[0], env)
				if v.kind == 's' {
					return kval{kind: 'i', i: int64(len(v.s))}
				}
				if v.kind == 'L' {
					return kval{kind: 'i', i: int64(len(v.list))}
				}
			}
		}
		if f := calleeObj(ev.pk, x); f != nil && f.Pkg() != nil && f.Pkg().Path() == "strings" && len(x.Args) == 2 {
			a, b := ev.expr(x.Args[0], env), ev.expr(x.Args[1], env)
			if a.kind == 's' && b.kind == 's' {
				switch f.Name() {
				case "HasPrefix":
					return kval{kind: 'b', b: strings.HasPrefix(a.s, b.s)}
				case "HasSuffix":
					return kval{kind: 'b', b: strings.HasSuffix(a.s, b.s)}
				case "Contains":
					return kval{kind: 'b', b: strings.Contains(a.s, b.s)}
				}
			}
		}
	case *ast.SliceExpr:
		v := ev.expr(x.X, env)
		if v.kind != 's' || x.Slice3 {
			break
		}
		lo, hi := int64(0), int64(len(v.s))
		if x.Low != nil {
			l := ev.expr(x.Low, env)
			if l.kind != 'i' {
				return kval{}
			}
			lo = l.i
		}
		if x.High != nil {
			h := ev.expr(x.High, env)
			if h.kind != 'i' {
				return kval{}
			}
			hi = h.i
		}
		if lo < 0 || hi > int64(len(v.s)) || lo > hi {
			ev.fail(e.Pos(), fmt.Sprintf("slice [%d:%d] of %q out of range for entry %s: the builder would panic", lo, hi, v.s, ev.entry.Name))
			return kval{}
		}
		return kval{kind: 's', s: v.s[lo:hi]}
	}
	return kval{}
}

// matchCtlLoop recognises
//
//	for i := 0; i < N; i++ { for esc := range t.keycodes { if []byte(esc)[0] == byte(i) { continue outer } }
//	    t.keyexist[Key(i)] = true; mod := M; switch Key(i) { case K...: mod = M' }; t.keycodes[string(rune(i))] = &tKeyCode{key: Key(i), mod: mod} }
func (ev *keyEval) matchCtlLoop(fs *ast.ForStmt) *ctlLoop {
	info := ev.pk.TypesInfo
	cl := &ctlLoop{exempt: map[int64]int64{}, bound: -1, defMod: -1}
	be, ok := fs.Cond.(*ast.BinaryExpr)
	if !ok || be.Op != token.LSS {
		return nil
	}
	if v, ok := intConst(info, be.Y); ok {
		cl.bound = v
	}
	init, ok := fs.Init.(*ast.AssignStmt)
	if !ok || len(init.Rhs) != 1 {
		return nil
	}
	if v, ok := intConst(info, init.Rhs[0]); !ok || v != 0 {
		return nil
	}
	if inc, ok := fs.Post.(*ast.IncDecStmt); !ok || inc.Tok != token.INC {
		return nil
	}
	sawRange, sawStore := false, false
	// the test "some registered sequence starts with this byte": a range over the key table with a
	// first-byte comparison that leaves this round — a labelled continue, or `return true` in a helper
	// whose answer makes the caller `continue`
	firstByteScan := func(body *ast.BlockStmt, leaves func(ast.Stmt) bool) bool {
		found := false
		ast.Inspect(body, func(n ast.Node) bool {
			rs, ok := n.(*ast.RangeStmt)
			if !ok {
				return true
			}
			se, ok := rs.X.(*ast.SelectorExpr)
			if !ok || se.Sel.Name != "keycodes" {
				return true
			}
			ast.Inspect(rs.Body, func(m ast.Node) bool {
				is, ok := m.(*ast.IfStmt)
				if !ok {
					return true
				}
				c, ok := is.Cond.(*ast.BinaryExpr)
				if !ok || c.Op != token.EQL {
					return true
				}
				ix, ok := c.X.(*ast.IndexExpr)
				if !ok {
					return true
				}
				if v, ok := intConst(info, ix.Index); !ok || v != 0 {
					return true
				}
				for _, b := range is.Body.List {
					if leaves(b) {
						found = true
					}
				}
				return true
			})
			return true
		})
		return found
	}
	var handle func(st ast.Stmt, depth int)
	handle = func(st ast.Stmt, depth int) {
		switch s := st.(type) {
		case *ast.ExprStmt:
			// t.prepareControlKey(c): the registration in a helper that gets the byte
			call, ok := s.X.(*ast.CallExpr)
			if !ok || depth > 0 {
				break
			}
			if callee := calleeObj(ev.pk, call); callee != nil {
				if hd := ev.decls[callee]; hd != nil && hd.Body != nil {
					cl.helpers = append(cl.helpers, callee.Name())
					for _, hs := range hd.Body.List {
						handle(hs, depth+1)
					}
				}
			}
		case *ast.IfStmt:
			// if key == K1 || key == K2 … { mod = M }: the keys that are typed without Ctrl
			if keys, ok := orChainConsts(info, s.Cond); ok && len(keys) > 0 {
				var assigned int64 = -1
				for _, b := range s.Body.List {
					if as, isAs := b.(*ast.AssignStmt); isAs && len(as.Lhs) == 1 && len(as.Rhs) == 1 {
						if v, isC := intConst(info, as.Rhs[0]); isC {
							assigned = v
						}
					}
				}
				if assigned >= 0 {
					for _, k := range keys {
						cl.exempt[k] = assigned
					}
				}
				break
			}
			// if t.startsKeySequence(byte(i)) { continue }
			call, ok := s.Cond.(*ast.CallExpr)
			if !ok || len(s.Body.List) != 1 {
				break
			}
			if br, isBr := s.Body.List[0].(*ast.BranchStmt); !isBr || br.Tok != token.CONTINUE {
				break
			}
			if callee := calleeObj(ev.pk, call); callee != nil {
				if hd := ev.decls[callee]; hd != nil && hd.Body != nil {
					returnsTrue := func(b ast.Stmt) bool {
						rs, ok := b.(*ast.ReturnStmt)
						if !ok || len(rs.Results) != 1 {
							return false
						}
						tv, ok := info.Types[rs.Results[0]]
						return ok && tv.Value != nil && tv.Value.Kind() == constant.Bool && constant.BoolVal(tv.Value)
					}
					// and the helper answers false otherwise
					endsFalse := false
					if n := len(hd.Body.List); n > 0 {
						if rs, ok := hd.Body.List[n-1].(*ast.ReturnStmt); ok && len(rs.Results) == 1 {
							if tv, ok := info.Types[rs.Results[0]]; ok && tv.Value != nil && tv.Value.Kind() == constant.Bool && !constant.BoolVal(tv.Value) {
								endsFalse = true
							}
						}
					}
					if endsFalse && firstByteScan(hd.Body, returnsTrue) {
						sawRange = true
					}
				}
			}
		case *ast.RangeStmt:
			// range over t.keycodes with a `continue <label>` under a first-byte comparison
			if se, ok := s.X.(*ast.SelectorExpr); ok && se.Sel.Name == "keycodes" {
				ast.Inspect(s.Body, func(n ast.Node) bool {
					if is, ok := n.(*ast.IfStmt); ok {
						if c, ok := is.Cond.(*ast.BinaryExpr); ok && c.Op == token.EQL {
							if ix, ok := c.X.(*ast.IndexExpr); ok {
								if v, ok := intConst(info, ix.Index); ok && v == 0 {
									for _, b := range is.Body.List {
										if br, ok := b.(*ast.BranchStmt); ok && br.Tok == token.CONTINUE && br.Label != nil {
											sawRange = true
										}
									}
								}
							}
						}
					}
					return true
				})
			}
		case *ast.AssignStmt:
			if len(s.Lhs) == 1 && len(s.Rhs) == 1 {
				if id, ok := s.Lhs[0].(*ast.Ident); ok && isModMaskIdent(info, id) {
					if v, ok := intConst(info, s.Rhs[0]); ok {
						cl.defMod = v
					}
				}
				if ix, ok := s.Lhs[0].(*ast.IndexExpr); ok {
					if se, ok := ix.X.(*ast.SelectorExpr); ok && se.Sel.Name == "keycodes" {
						sawStore = true
					}
				}
			}
		case *ast.SwitchStmt:
			for _, cc := range s.Body.List {
				clause := cc.(*ast.CaseClause)
				var assigned int64 = -1
				for _, b := range clause.Body {
					if as, ok := b.(*ast.AssignStmt); ok && len(as.Lhs) == 1 {
						if id, ok := as.Lhs[0].(*ast.Ident); ok && isModMaskIdent(info, id) {
							if v, ok := intConst(info, as.Rhs[0]); ok {
								assigned = v
							}
						}
					}
				}
				for _, e := range clause.List {
					if v, ok := intConst(info, e); ok && assigned >= 0 {
						cl.exempt[v] = assigned
					}
				}
			}
		}
	}
	for _, st := range fs.Body.List {
		handle(st, 0)
	}
	if !sawRange || !sawStore || cl.bound < 0 || cl.defMod < 0 {
		return nil
	}
	cl.checked = true
	return cl
}

// orChainConsts: e is `x == K1 || x == K2 || …` (or a single `x == K`) with constant Ks: the Ks.
func orChainConsts(info *types.Info, e ast.Expr) ([]int64, bool) {
	switch x := e.(type) {
	case *ast.ParenExpr:
		return orChainConsts(info, x.X)
	case *ast.BinaryExpr:
		switch x.Op {
		case token.LOR:
			l, okL := orChainConsts(info, x.X)
			r, okR := orChainConsts(info, x.Y)
			return append(l, r...), okL && okR
		case token.EQL:
			if v, ok := intConst(info, x.Y); ok {
				if _, isConst := intConst(info, x.X); !isConst {
					return []int64{v}, true
				}
			}
		}
	}
	return nil, false
}

func (ev *keyEval) applyCtlLoop(cl *ctlLoop, pos token.Pos) {
	for i := int64(0); i < cl.bound; i++ {
		taken := false
		for s := range ev.tab.seqs {
			if len(s) > 0 && int64(s[0]) == i {
				taken = true
				break
			}
		}
		if taken {
			continue
		}
		mod := cl.defMod
		if m, ok := cl.exempt[i]; ok {
			mod = m
		}
		seq := string(rune(i))
		ev.tab.exist[i] = true
		ev.tab.order = append(ev.tab.order, seq)
		ev.tab.seqs[seq] = keyBinding{key: i, mod: mod, site: pos}
	}
}

// prefixPair returns a pair (a,b) with a a proper prefix of b, or "".
func prefixPair(t *keyTable) (string, string) {
	keys := make([]string, 0, len(t.seqs))
	for k := range t.seqs {
		keys = append(keys, k)
	}
	sort.Strings(keys)
	for i := 0; i+1 < len(keys); i++ {
		// in sorted order a proper prefix is immediately followed by an extension if any exists... not necessarily adjacent; scan forward
		for j := i + 1; j < len(keys) && strings.HasPrefix(keys[j], keys[i]); j++ {
			if len(keys[j]) > len(keys[i]) {
				return keys[i], keys[j]
			}
		}
	}
	return "", ""
}

// isModMaskIdent: the identifier is a variable of type ModMask (the modifier a control key is registered with).
func isModMaskIdent(info *types.Info, id *ast.Ident) bool {
	obj := info.Defs[id]
	if obj == nil {
		obj = info.Uses[id]
	}
	if obj == nil {
		return false
	}
	n, ok := obj.Type().(*types.Named)
	return ok && n.Obj().Name() == "ModMask"
}

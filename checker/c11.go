package main

import (
	"fmt"
	"go/token"
	"strings"

	"golang.org/x/tools/go/ssa"
)

func init() {
	register("C11", checkC11, "Rune-for-rune delivery over all strings, charsets and split points depends on external decoders and is not statically decidable. Decided (each a necessary condition, on all paths): the loop that feeds growing prefixes of the input to the charset decoder reaches the whole buffer (an exclusive bound can never decode a character that ends the buffer); the number of bytes consumed after a successful decode is the decoder's own nSrc result; every configuration branch that enables bracketed paste sets both the enable and disable strings and registers both bracket keys, and the key matcher turns them into paste-start / paste-end events; the rune and focus parsers are called unconditionally by the collect loop (not behind the mouse or clipboard capability tests); the focus parser maps CSI I / CSI O to focus in / out. Decoder behaviour on split multi-byte input and legacy charsets is not decided.")
}

// prefixLoop describes `for l := …; l ⋈ len(b); l++ { dec.Transform(dst, b[:l], …) }`.
// prefixCap: the largest prefix length a constant comparison in the loop condition lets through (0 = none)
type prefixLoop struct {
	capMax    int64
	capCmp    string
	call      ssa.Instruction
	inclusive bool
	found     bool
	cmp       string
	nSrc      ssa.Value
}

func findPrefixLoops(fn *ssa.Function) []prefixLoop {
	var out []prefixLoop
	eachInstr(fn, func(in ssa.Instruction) {
		cc := callCommon(in)
		if cc == nil || !cc.IsInvoke() || cc.Method.Name() != "Transform" || len(cc.Args) < 2 {
			return
		}
		sl, ok := cc.Args[1].(*ssa.Slice)
		if !ok || sl.High == nil {
			return
		}
		// `for i := range b { … b[:i+1] … }`: every prefix from one byte to the whole input
		if add, isAdd := sl.High.(*ssa.BinOp); isAdd && add.Op == token.ADD {
			if k, isK := constInt(add.Y); isK && k == 1 {
				if idx, isIdx := add.X.(*ssa.BinOp); isIdx && isRangeIndex(idx) {
					over := false
					for _, r := range referrers(idx) {
						if cmp, isCmp := r.(*ssa.BinOp); isCmp && cmp.Op == token.LSS && cmp.X == ssa.Value(idx) {
							if call, isCall := cmp.Y.(*ssa.Call); isCall {
								if b, isB := call.Call.Value.(*ssa.Builtin); isB && b.Name() == "len" && call.Call.Args[0] == sl.X {
									over = true
								}
							}
						}
					}
					if over {
						pl := prefixLoop{call: in, found: true, inclusive: true, cmp: "i+1 for i in range b"}
						if v, isV := in.(ssa.Value); isV {
							for _, r := range referrers(v) {
								if ex, isEx := r.(*ssa.Extract); isEx && ex.Index == 1 {
									pl.nSrc = ex
								}
							}
						}
						out = append(out, pl)
						return
					}
				}
			}
		}
		phi, ok := sl.High.(*ssa.Phi)
		if !ok {
			return
		}
		pl := prefixLoop{call: in}
		for _, r := range referrers(phi) {
			bo, ok := r.(*ssa.BinOp)
			if !ok {
				continue
			}
			other := bo.Y
			op := bo.Op
			if bo.Y == ssa.Value(phi) {
				other = bo.X
				switch op {
				case token.LSS:
					op = token.GTR
				case token.LEQ:
					op = token.GEQ
				case token.GTR:
					op = token.LSS
				case token.GEQ:
					op = token.LEQ
				}
			}
			if call, ok := other.(*ssa.Call); ok {
				if b, ok := call.Call.Value.(*ssa.Builtin); ok && b.Name() == "len" && call.Call.Args[0] == sl.X {
					pl.found = true
					pl.cmp = "l " + op.String() + " len(b)"
					pl.inclusive = op == token.LEQ
				}
			}
			// a constant cap on the prefix length: l < K or l <= K as a branch condition
			if k, ok := constInt(other); ok && (op == token.LSS || op == token.LEQ) {
				isBranch := false
				for _, rr := range referrers(bo) {
					if _, ok := rr.(*ssa.If); ok {
						isBranch = true
					}
				}
				if isBranch {
					m := k
					if op == token.LSS {
						m = k - 1
					}
					// a test made after the decoder call of the same iteration has already tried this length
					if in.Block().Dominates(bo.Block()) && in.Block() != bo.Block() || (in.Block() == bo.Block() && instrIndex(in) < instrIndex(bo)) {
						m++
					}
					// only a comparison that can leave the loop limits the prefixes tried
					leaves := false
					body := loopsOf(fn)[phi.Block()]
					for _, rr := range referrers(bo) {
						if iff, ok := rr.(*ssa.If); ok {
							for _, sc := range iff.Block().Succs {
								if body != nil && !body[sc] {
									leaves = true
								}
							}
						}
					}
					if !leaves {
						continue
					}
					if pl.capCmp == "" || m < pl.capMax {
						pl.capMax = m
						pl.capCmp = fmt.Sprintf("l %s %d", op.String(), k)
					}
				}
			}
		}
		if v, ok := in.(ssa.Value); ok {
			for _, r := range referrers(v) {
				if ex, ok := r.(*ssa.Extract); ok && ex.Index == 1 {
					pl.nSrc = ex
				}
			}
		}
		out = append(out, pl)
	})
	return out
}

// prefixLoopHost: fn itself when it holds the loop that offers ever longer prefixes to the decoder, else
// the same-package helper it calls that does (`utf, nIn := t.decodeLeading(b)`).
func prefixLoopHost(fn *ssa.Function) *ssa.Function {
	if len(findPrefixLoops(fn)) > 0 {
		return fn
	}
	host := fn
	eachInstr(fn, func(in ssa.Instruction) {
		if cc := callCommon(in); cc != nil {
			if h := cc.StaticCallee(); h != nil && h.Pkg == fn.Pkg && len(h.Blocks) > 0 && len(findPrefixLoops(h)) > 0 {
				host = h
			}
		}
	})
	return host
}

func checkPrefixLoop(c *Ctx, p *Prog, fn *ssa.Function, rule string) {
	short := fn.RelString(fn.Pkg.Pkg)
	fn = prefixLoopHost(fn)
	loops := findPrefixLoops(fn)
	if len(loops) == 0 {
		c.Undecided(rule, short+":prefix-loop", p.pos(fn.Pos()), "no loop feeding prefixes of the input to a Transformer found")
		return
	}
	for i, pl := range loops {
		key := fmt.Sprintf("%s:prefix-loop#%d", short, i+1)
		if !pl.found {
			c.Undecided(rule, key, p.pos(pl.call.Pos()), "loop bound not recognised")
			continue
		}
		c.Check(pl.inclusive, rule, key, p.pos(pl.call.Pos()), "prefix length bound is `"+pl.cmp+"`; it must include len(b), or a character that ends the input never decodes")
		if pl.capCmp != "" {
			// the longest encoded character among the registered charsets is 4 bytes (UTF-8, GB18030)
			c.Check(pl.capMax >= 4, rule, key+":cap", p.pos(pl.call.Pos()), fmt.Sprintf("the loop also stops at `%s` (prefixes up to %d bytes are tried); characters of UTF-8 and GB18030 are up to 4 bytes long", pl.capCmp, pl.capMax))
		}
	}
}

func checkC11(c *Ctx) {
	c.Rule("C11-R1", "the prefix loop of the rune decoder reaches the whole buffer (l <= len(b))")
	c.Rule("C11-R2", "bytes consumed after a decode = the decoder's nSrc result")
	c.Rule("C11-R3", "bracketed paste: enable and disable strings and both bracket keys are set together; the matcher maps them to paste start/end events")
	c.Rule("C11-R4", "the collect loop calls the rune and focus parsers unconditionally; the focus parser maps I/O to in/out")
	c.Rule("C11-R7", "a prefix for which the decoder could only substitute U+FFFD is not consumed as a character while a longer prefix (up to the longest sequence, 4 bytes) has not been tried: multi-byte legacy charsets answer a lone lead byte that way")
	c.Expect("C11-R7", 1)
	c.Rule("C11-R8", "the charset registration table pairs every name with the encoding object of the same name (typed text is decoded with the registered object)")
	c.Expect("C11-R8", 25)
	c.Rule("C11-R11", "the escape timer is re-armed only after a Stop whose 'already fired' answer drains the tick (a stale tick expires a half-received character into raw bytes)")
	c.Expect("C11-R11", 4)
	c.Rule("C11-R12", "the last bytes of the input are not lost: a read that returns bytes together with an error has its bytes queued (the split 'text, then end of input' is one of the read partitions)")
	c.Expect("C11-R12", 1)
	c.Rule("C11-R13", "every character the rune parser consumes is delivered, U+FFFD included when it was really sent: the only input consumed without an event is input the decoder substituted U+FFFD for and that is not the charset's encoding of U+FFFD")
	c.Expect("C11-R13", 1)
	c.Rule("C11-R10", "the decoder is chosen by the locale's codeset: LC_ALL, LC_CTYPE, LANG in that order; only the bare names C and POSIX mean US-ASCII (C.UTF-8 is UTF-8); no codeset means UTF-8")
	c.Expect("C11-R10", 3)
	c.Rule("C11-R15", "text comes first: in every cycle of the collect loop the rune parser is asked before the mouse parsers (0x9b is an ordinary character or lead byte in the registered legacy charsets)")
	c.Expect("C11-R15", 1)
	c.Rule("C11-R14", "a character cut by a read boundary waits for its rest on every path of the collect loop: each cycle progresses, the loop is left only on an empty buffer (or expiry), and the wait-for-more gate counts the 'partial' answer of every parser that is called, the rune parser's included")
	c.Expect("C11-R14", 8)
	c.Rule("C11-R9", "the key matcher's 'partial' answer accumulates over the key table (paste brackets split across reads are still recognised)")
	c.Expect("C11-R9", 1)
	c.Rule("C11-R5", "an input chunk queued for the parser goroutine owns its backing array (allocated per chunk)")
	c.Rule("C11-R6", "raw input bytes are interpreted only by the locale's decoder: no unicode/utf8 function is applied to the undecoded input (the locale may be a legacy charset)")
	c.Expect("C11-R5", 1)
	c.Expect("C11-R6", 1)
	c.Expect("C11-R1", 1)
	c.Expect("C11-R2", 1)
	c.Expect("C11-R3", 3)
	c.Expect("C11-R4", 3)
	p := c.P("linux")
	if p == nil || p.Tcell == nil {
		c.Undecided("C11-R1", "package tcell", "-", "not loaded")
		return
	}
	c.Rule("C11-R17", "bracketed paste and focus reporting survive Suspend/Resume: the remembered modes are stored only by the application-facing togglers, nothing reachable from Suspend, Resume or Fini stores them (a pasted text arrives without its brackets otherwise)")
	c.Expect("C11-R17", 2)
	c.asRule("C04-R4", "C11-R17", func() {
		checkRememberedModes(c, p, "C04-R4", "tScreen", []string{"pasteEnabled", "focusEnabled"}, []string{"Suspend", "Resume", "Fini", "engage", "disengage"})
	})
	c.Rule("C11-R16", "mainLoop scans a freshly read chunk with expire=false; only the escape timer's branch says that the wait is over (how much is buffered says nothing about whether the rest of a character is still on its way)")
	c.Expect("C11-R16", 1)
	checkScanExpiry(c, p, "C11-R16")
	c.Rule("C11-R18", "when the escape timer expires every parser gets its turn: no parser call of the collect loop sits behind a test of the pending-counter alone (rxvt's focus-out report ESC [ O is a prefix of its Ctrl-arrow keys: it is held back while they may complete, and must be taken for a focus report when the wait is over)")
	c.Expect("C11-R18", 6)
	checkParsersTriedOnExpiry(c, p, "C11-R18")
	c.Rule("C11-R19", "the charset named by the locale is looked up as it is registered: RegisterEncoding and GetEncoding key the registry by the same normalisation of the name and nothing else maps names (a pattern that takes ISO-8859-15 for part 1 installs the wrong decoder; = C17-R6)")
	c.Expect("C11-R19", 3)
	c.asRule("C17-R6", "C11-R19", func() { c17Registry(c, p) })
	c.Rule("C11-R20", "typed and pasted text is not dropped on the way to the queue: every select that sends a decoded event has only shutdown signals as alternatives (an alternative that does something else and lets the loop move on loses the event; = C05-R1)")
	c.Expect("C11-R20", 1)
	c.asRule("C05-R1", "C11-R20", func() { c05Sends(c, p) })
	c.Rule("C11-R21", "focus reports arrive as focus events, text as key events: whatever a parser removes from the input with the answer 'complete' has been appended to the event list (no report is consumed silently because of what came before; = C05-R12)")
	c.Expect("C11-R21", 6)
	checkConsumedDelivers(c, p, "C11-R21", nil)
	c.Rule("C11-R22", "however the bytes are split across reads: the chunk is appended to the decode buffer as received (a rewrite of 0x9b per chunk turns the continuation byte of a character cut by the read boundary into ESC [; = C02-R21)")
	c.Expect("C11-R22", 1)
	checkChunkBufferedAsRead(c, p, "C11-R22")
	c.Rule("C11-R23", "text in a legacy 8-bit charset arrives with its top bits: the Unix ttys enter raw mode through term.MakeRaw, or clear ISTRIP among the input flags when they set the mode by hand")
	c.Expect("C11-R23", 2)
	checkRawModeIsEightBitClean(c, p, "C11-R23")
	c.Rule("C11-R24", "without loss: an event ChannelEvents has taken from the queue is sent on, or the function returns for good, before it takes another (a forwarder parked in PollEvent after its quit channel closed swallows the next character; = C05-R7)")
	c.Expect("C11-R24", 1)
	c.asRule("C05-R7", "C11-R24", func() {
		c.asRule("C05-R5", "C11-R24", func() { c05Channel(c, p) })
	})
	c.Rule("C11-R25", "focus-in and focus-out reports arrive as focus events: no key table assigns ESC [ I or ESC [ O to a key (the key matcher runs before the focus parser), and keys that merely share a prefix with them are held apart (= C02-R12)")
	c.Expect("C11-R25", 40)
	recogniserConflicts(c, p, buildDB(c, p), "C11-R25")
	c.Rule("C11-R26", "typed characters are delivered without loss also when the window changes size: nothing but the consumer side takes events out of the queue (= C05-R20)")
	c.Expect("C11-R26", 1)
	checkOnlyConsumersReceive(c, p, "C11-R26")
	c.Rule("C11-R27", "a multi-byte character split over reads is one character: once parseRune has asked the decoder its answers are 'complete' and 'wait'; 'not a character' after the decoder loop only where the buffer is already 4 bytes or longer (GB18030 has 7-bit bytes inside its four-byte characters)")
	c.Expect("C11-R27", 1)
	checkNotMineOnlyBeforeTheDecoder(c, p, "C11-R27")
	pr := p.Fn("tcell:(*tScreen).parseRune")
	if pr == nil {
		c.Undecided("C11-R1", "parseRune", "-", "not found")
		return
	}
	checkPrefixLoop(c, p, pr, "C11-R1")
	checkChunkOwnership(c, p, "C11-R5")
	checkRawInputNotUTF8(c, p, pr, "C11-R6")
	charsetTableRule(c, p, "C11-R8")
	checkTimerDiscipline(c, p, "C11-R11")
	checkReadBytesQueued(c, p, "C11-R12")
	checkConsumedDelivers(c, p, "C11-R13", func(n string) bool { return n == "parseRune" })
	c.asRule("C17-R4", "C11-R10", func() { c17Charset(c, p) })
	for _, pi := range inputParsers(p) {
		if pi.fn.Name() == "parseFunctionKey" {
			c02PartialAccumulates(c, p, pi, "C11-R9")
		}
	}
	checkSubstitutedPrefix(c, p, pr, "C11-R7")
	// R2: the consumption loop counts down from nSrc
	for _, pl := range findPrefixLoops(prefixLoopHost(pr)) {
		ok := false
		if prefixLoopHost(pr) != pr {
			// the loop lives in a helper that returns the decoder's count: the parser removes that many
			// bytes (decided with the other consumption idioms by C02-R9, which follows the count
			// through the helper's returns)
			viaHelper := false
			for _, pi := range inputParsers(p) {
				if pi.fn != pr {
					continue
				}
				for _, site := range pi.consume {
					cc := callCommon(site)
					var n ssa.Value
					if cnt, isH := pi.helperCount[site]; isH {
						n = cnt
					} else if strings.HasSuffix(calleeName(cc), ".Next") && len(cc.Args) == 2 {
						n = cc.Args[1]
					}
					if n != nil && isTransformNSrc(n, 0) {
						viaHelper = true
					}
				}
			}
			c.Check(viaHelper, "C11-R2", "parseRune:consumes-nSrc", p.pos(pl.call.Pos()), "as many bytes are removed as Transform reports consumed (the count comes back from the helper that holds the decoder loop)")
			continue
		}
		if pl.nSrc != nil {
			for _, r := range referrers(pl.nSrc) {
				if phi, isPhi := r.(*ssa.Phi); isPhi {
					// phi(nSrc, phi-1) controlling a loop that calls ReadByte
					for _, r2 := range referrers(phi) {
						if bo, isBO := r2.(*ssa.BinOp); isBO && bo.Op == token.GTR {
							if k, isK := constInt(bo.Y); isK && k == 0 {
								ok = true
							}
						}
					}
				}
			}
		}
		// … or a loop counting up to nSrc (`for i := 0; i < nSrc; i++ { ReadByte }`)
		if pl.nSrc != nil && !ok {
			for _, r := range referrers(pl.nSrc) {
				if bo, isBO := r.(*ssa.BinOp); isBO && bo.Op == token.LSS && bo.Y == ssa.Value(pl.nSrc) {
					if phi, isPhi := bo.X.(*ssa.Phi); isPhi && len(phi.Edges) == 2 {
						zero, step := false, false
						for _, e := range phi.Edges {
							if k, isK := constInt(e); isK && k == 0 {
								zero = true
							}
							if add, isAdd := e.(*ssa.BinOp); isAdd && add.Op == token.ADD && add.X == ssa.Value(phi) {
								if k, isK := constInt(add.Y); isK && k == 1 {
									step = true
								}
							}
						}
						if zero && step {
							ok = true
						}
					}
				}
			}
		}
		nread := len(callsIn(pr, func(n string, _ *ssa.CallCommon) bool { return n == "(*bytes.Buffer).ReadByte" }))
		// or in one step: buf.Next(nSrc)
		viaNext := false
		if pl.nSrc != nil {
			for _, r := range referrers(pl.nSrc) {
				if call, isCall := r.(*ssa.Call); isCall && calleeName(&call.Call) == "(*bytes.Buffer).Next" && len(call.Call.Args) == 2 && call.Call.Args[1] == pl.nSrc {
					viaNext = true
				}
			}
		}
		// or through a helper whose own body is the countdown from its parameter
		if pl.nSrc != nil && !viaNext {
			for _, r := range referrers(pl.nSrc) {
				call, isCall := r.(*ssa.Call)
				if !isCall {
					continue
				}
				callee := call.Call.StaticCallee()
				if callee == nil || len(callee.Blocks) == 0 {
					continue
				}
				for i, a := range call.Call.Args {
					if a != ssa.Value(pl.nSrc) || i >= len(callee.Params) {
						continue
					}
					par := callee.Params[i]
					counts := false
					for _, r2 := range referrers(par) {
						if phi, isPhi := r2.(*ssa.Phi); isPhi {
							for _, r3 := range referrers(phi) {
								if bo, isBO := r3.(*ssa.BinOp); isBO && bo.Op == token.GTR {
									if k, isK := constInt(bo.Y); isK && k == 0 {
										counts = true
									}
								}
							}
						}
						if nx, isNx := r2.(*ssa.Call); isNx && calleeName(&nx.Call) == "(*bytes.Buffer).Next" {
							counts = true
						}
					}
					reads := len(callsIn(callee, func(n string, _ *ssa.CallCommon) bool {
						return n == "(*bytes.Buffer).ReadByte" || n == "(*bytes.Buffer).Next"
					}))
					if counts && reads >= 1 {
						viaNext = true
					}
				}
			}
		}
		c.Check((ok && nread >= 2) || viaNext, "C11-R2", "parseRune:consumes-nSrc", p.pos(pl.call.Pos()), "as many bytes are removed as Transform reports consumed (ReadByte loop counting down from nSrc, or Next(nSrc))")
	}
	// R3
	pb := p.Fn("tcell:(*tScreen).prepareBracketedPaste")
	if pb == nil {
		c.Undecided("C11-R3", "prepareBracketedPaste", "-", "not found")
	} else {
		kStart, kEnd := pkgConst(p, "keyPasteStart"), pkgConst(p, "keyPasteEnd")
		n := 0
		for _, st := range storesTo(pb, "tcell.tScreen", "enablePaste") {
			n++
			b := st.Block()
			hasDis, hasS, hasE := false, false, false
			for _, in := range b.Instrs {
				if s2, ok := in.(*ssa.Store); ok {
					if ref, _, ok := fieldAddrRef(s2.Addr); ok && ref.Name == "disablePaste" {
						hasDis = true
					}
				}
				if cc := callCommon(in); cc != nil && strings.HasSuffix(calleeName(cc), "tScreen).prepareKey") && len(cc.Args) >= 3 {
					if k, ok := constInt(cc.Args[1]); ok {
						if k == kStart {
							hasS = true
						}
						if k == kEnd {
							hasE = true
						}
					}
				}
			}
			c.Check(hasDis && hasS && hasE, "C11-R3", fmt.Sprintf("prepareBracketedPaste:branch#%d", n), p.pos(st.Pos()), fmt.Sprintf("enable string set together with disable string (%v) and both bracket keys (start %v, end %v)", hasDis, hasS, hasE))
		}
		if n < 1 {
			c.Undecided("C11-R3", "prepareBracketedPaste:branches", p.pos(pb.Pos()), "no place sets the enable string")
		}
		pf := p.Fn("tcell:(*tScreen).parseFunctionKey")
		if pf == nil {
			c.Undecided("C11-R3", "parseFunctionKey", "-", "not found")
		} else {
			var pasteCalls []ssa.Instruction
			for _, d := range deepInstrs(p, pf, 1, nil) {
				if cc := callCommon(d.in); cc != nil && strings.HasSuffix(calleeName(cc), "NewEventPaste") {
					pasteCalls = append(pasteCalls, d.in)
				}
			}
			for _, call := range pasteCalls {
				if bo, isBO := callCommon(call).Args[0].(*ssa.BinOp); isBO && strings.HasSuffix(valName(bo.X), ".key") {
					// polarity computed from the key itself: key == start, or key != end
					k, isK := constInt(bo.Y)
					good := isK && ((bo.Op == token.EQL && k == kStart) || (bo.Op == token.NEQ && k == kEnd))
					c.Check(good, "C11-R3", "parseFunctionKey:NewEventPaste(computed)", p.pos(call.Pos()), "paste event polarity computed from the bracket key (key == start / key != end)")
					continue
				}
				v, _ := constBool(callCommon(call).Args[0])
				want := kEnd
				if v {
					want = kStart
				}
				ok := false
				for _, g := range rawGuardsAt(call.Block()) {
					if bo, isBO := g.Cond.(*ssa.BinOp); isBO && g.Positive && bo.Op == token.EQL {
						if k, isK := constInt(bo.Y); isK && k == want && strings.HasSuffix(valName(bo.X), ".key") {
							ok = true
						}
					}
				}
				c.Check(ok, "C11-R3", fmt.Sprintf("parseFunctionKey:NewEventPaste(%v)", v), p.pos(call.Pos()), "paste event polarity matches the bracket key")
			}
		}
	}
	// R4
	collect := collectLoopFn(p)
	if collect == nil {
		c.Undecided("C11-R4", "collect loop", "-", "not found")
		return
	}
	for _, nm := range []string{"parseRune", "parseFocus"} {
		calls := callsIn(collect, func(n string, _ *ssa.CallCommon) bool { return strings.HasSuffix(n, "tScreen)."+nm) })
		ok := len(calls) == 1
		for _, call := range calls {
			for _, a := range guardsAt(call.Block()) {
				if strings.Contains(a.L, ".Mouse") || strings.Contains(a.L, "setClipboard") || strings.Contains(a.R, ".Mouse") {
					ok = false
				}
			}
		}
		c.Check(ok, "C11-R4", "collect:"+nm+":unconditional", p.pos(collect.Pos()), "called once per iteration, not behind a capability test")
	}
	checkParserOrder(c, p, "C11-R15")
	// R14: a character cut by a read boundary waits for its rest — whatever else the loop is doing (a
	// paste in progress, say): the collect loop's rules of C02 (every cycle progresses, it is left only
	// on an empty buffer or with every parser's 'partial' answer counted into the wait-for-more gate)
	c.asRule("C02-R3", "C11-R14", func() {
		c.asRule("C02-R4", "C11-R14", func() {
			c.asRule("C02-R8", "C11-R14", func() { c02Collect(c, p, collect, inputParsers(p)) })
		})
	})
	pfc := p.Fn("tcell:(*tScreen).parseFocus")
	if pfc != nil {
		ok := false
		for _, call := range callsIn(pfc, func(n string, _ *ssa.CallCommon) bool { return strings.HasSuffix(n, "NewEventFocus") }) {
			// argument is b[i] == 'I'
			if bo, isBO := callCommon(call).Args[0].(*ssa.BinOp); isBO && bo.Op == token.EQL {
				if k, isK := constInt(bo.Y); isK && k == 'I' {
					ok = true
				}
			}
		}
		at := atomsOf(pfc)
		hasO := false
		for a := range at {
			if strings.HasSuffix(a, "!= 79") || strings.HasSuffix(a, "== 79") {
				hasO = true
			}
		}
		c.Check(ok && hasO, "C11-R4", "parseFocus:I=in,O=out", p.pos(pfc.Pos()), "focus-in iff the final byte is 'I'; only 'I' and 'O' accepted")
	}
}

func pkgConst(p *Prog, name string) int64 {
	pk := p.pkg("")
	o := pk.Types.Scope().Lookup(name)
	if o == nil {
		return -1 << 40
	}
	return constObjInt(o)
}

// collectLoopFn: the tScreen method calling at least three of the input parsers.
func collectLoopFn(p *Prog) *ssa.Function {
	var best *ssa.Function
	for _, fn := range p.modFns {
		if fn.Pkg != p.Tcell || recvTypeName(fn) != "tcell.tScreen" {
			continue
		}
		n := 0
		seen := map[string]bool{}
		eachInstr(fn, func(in ssa.Instruction) {
			for _, f := range calleesAt(in) {
				if isParserSig(f) && !seen[f.String()] {
					seen[f.String()] = true
					n++
				}
			}
		})
		if n >= 3 {
			best = fn
		}
	}
	return best
}

// isParserSig: func(*bytes.Buffer, *[]Event) (bool, bool) methods of tScreen.
func isParserSig(f *ssa.Function) bool {
	sig := f.Signature
	if sig.Recv() == nil || sig.Params().Len() != 2 || sig.Results().Len() != 2 {
		return false
	}
	return typeName(sig.Params().At(0).Type()) == "*bytes.Buffer" &&
		sig.Results().At(0).Type().String() == "bool" && sig.Results().At(1).Type().String() == "bool"
}

// checkRawInputNotUTF8: in the rune parser no function of unicode/utf8 may
// receive (a reslice of) the undecoded input; only the decoder's output may be
// interpreted as UTF-8.  A charset test of the screen guarding the call would
// make it legitimate; none exists today, so any such call is reported.
func checkRawInputNotUTF8(c *Ctx, p *Prog, fn *ssa.Function, rule string) {
	var input ssa.Value
	eachInstr(fn, func(in ssa.Instruction) {
		if call, ok := in.(*ssa.Call); ok && calleeName(&call.Call) == "(*bytes.Buffer).Bytes" && input == nil {
			input = call
		}
	})
	if input == nil {
		c.Undecided(rule, fn.Name()+":raw-input", p.pos(fn.Pos()), "input buffer not found")
		return
	}
	bad := ""
	n := 0
	eachInstr(fn, func(in ssa.Instruction) {
		cc := callCommon(in)
		if cc == nil {
			return
		}
		callee := staticCallee(cc)
		if callee == nil || callee.Pkg == nil || callee.Pkg.Pkg.Path() != "unicode/utf8" {
			return
		}
		n++
		for _, a := range cc.Args {
			if sliceRoot(a) == input {
				bad += fmt.Sprintf("%s applied to the undecoded input at %s; ", callee.Name(), p.pos(in.Pos()))
			}
		}
	})
	c.Check(bad == "", rule, fn.Name()+":utf8-only-on-decoder-output", p.pos(fn.Pos()), fmt.Sprintf("%d unicode/utf8 call(s), none on the raw input %s", n, bad))
}

// checkSubstitutedPrefix: see rule C11-R7.  The decoder is called with atEOF
// set on every prefix; told that the input ends after a lead byte, the
// multi-byte decoders of x/text emit U+FFFD and report the byte consumed.
// Treating that as a decoded character loses the character.
func checkSubstitutedPrefix(c *Ctx, p *Prog, fn *ssa.Function, rule string) {
	name := fn.Name()
	fn = prefixLoopHost(fn)
	loops := findPrefixLoops(fn)
	if len(loops) == 0 {
		c.Undecided(rule, name+":substituted-prefix", p.pos(fn.Pos()), "no prefix loop")
		return
	}
	// the prefix length variable
	var lphi *ssa.Phi
	if cc := callCommon(loops[0].call); cc != nil {
		if sl, ok := cc.Args[1].(*ssa.Slice); ok {
			lphi, _ = sl.High.(*ssa.Phi)
		}
	}
	// the direct way: the decoder is not told that the input ends with the prefix, so it answers
	// ErrShortSrc (or produces nothing) for an unfinished character and the loop moves on
	if cc := callCommon(loops[0].call); cc != nil && len(cc.Args) == 3 {
		if atEOF, ok := constBool(cc.Args[2]); ok && !atEOF {
			c.OK(rule, name+":substituted-prefix", p.pos(loops[0].call.Pos()), "prefixes are offered to the decoder with atEOF=false: an unfinished character is reported as short input, not substituted")
			return
		}
	}
	const runeError = 0xFFFD
	var tests []*ssa.BinOp
	eachInstr(fn, func(in ssa.Instruction) {
		bo, ok := in.(*ssa.BinOp)
		if !ok || (bo.Op != token.EQL && bo.Op != token.NEQ) {
			return
		}
		if k, ok := constInt(bo.Y); ok && k == runeError {
			tests = append(tests, bo)
		}
	})
	if len(tests) == 0 || lphi == nil {
		c.Fail(rule, name+":substituted-prefix", p.pos(fn.Pos()), "the decoded rune is never compared with utf8.RuneError: a substituted prefix is taken for a character")
		return
	}
	isConsume := func(in ssa.Instruction) bool {
		if cc := callCommon(in); cc != nil {
			n := calleeName(cc)
			if n == "(*bytes.Buffer).ReadByte" || n == "(*bytes.Buffer).Next" || n == "(*bytes.Buffer).ReadBytes" {
				return true
			}
		}
		if sl, ok := in.(*ssa.Slice); ok && sl.Low != nil {
			if _, isParam := sliceRoot(sl.X).(*ssa.Parameter); isParam {
				return true
			}
		}
		return false
	}
	// edges that establish "the longest sequence length has been reached"
	longEnough := func(from *ssa.BasicBlock, to *ssa.BasicBlock) bool {
		if len(from.Instrs) == 0 {
			return false
		}
		iff, ok := from.Instrs[len(from.Instrs)-1].(*ssa.If)
		if !ok {
			return false
		}
		bo, ok := iff.Cond.(*ssa.BinOp)
		if !ok || bo.X != ssa.Value(lphi) {
			return false
		}
		k, ok := constInt(bo.Y)
		if !ok {
			return false
		}
		onTrue := from.Succs[0] == to
		switch bo.Op {
		case token.LSS: // l < K false  =>  l >= K
			return !onTrue && k >= 4
		case token.LEQ:
			return !onTrue && k >= 3
		case token.GEQ:
			return onTrue && k >= 4
		case token.GTR:
			return onTrue && k >= 3
		}
		return false
	}
	bad := ""
	for _, bo := range tests {
		for _, r := range referrers(bo) {
			iff, ok := r.(*ssa.If)
			if !ok {
				continue
			}
			errSucc := iff.Block().Succs[0]
			if bo.Op == token.NEQ {
				errSucc = iff.Block().Succs[1]
			}
			seen := map[*ssa.BasicBlock]bool{}
			type item struct{ b *ssa.BasicBlock }
			stack := []*ssa.BasicBlock{errSucc}
			for len(stack) > 0 {
				b := stack[len(stack)-1]
				stack = stack[:len(stack)-1]
				if seen[b] || b == lphi.Block() {
					continue // back at the loop header: the next prefix is tried
				}
				seen[b] = true
				stop := false
				for _, in := range b.Instrs {
					if cc := callCommon(in); cc != nil && cc.IsInvoke() && cc.Method.Name() == "Transform" {
						stop = true // decoded afresh
						break
					}
					if isConsume(in) {
						bad += fmt.Sprintf("after the substituted decode tested at %s input is consumed at %s without a longer prefix having been tried; ", p.pos(bo.Pos()), p.pos(in.Pos()))
						stop = true
						break
					}
				}
				if stop {
					continue
				}
				for _, sc := range b.Succs {
					if !longEnough(b, sc) {
						stack = append(stack, sc)
					}
				}
			}
		}
	}
	c.Check(bad == "", rule, name+":substituted-prefix", p.pos(fn.Pos()), fmt.Sprintf("%d comparison(s) with utf8.RuneError; on the substituted side input is consumed only once prefixes up to 4 bytes have been tried %s", len(tests), bad))
}

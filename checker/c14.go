package main

import (
	"fmt"
	"go/ast"
	"go/token"
	"go/types"
	"sort"
	"strings"

	"golang.org/x/tools/go/ssa"
)

func init() {
	register("C14", checkC14, "The built-in terminal database is Go source made of constant composite literals, so statements about it are decided exhaustively by constant extraction from the type-checked tree (every AddTerminfo literal × every field): literal/constant entries, unique names and aliases, every terminal directory imported by the aggregate packages, cursor addressing present with exactly two parameters, every parameterised capability a well-formed terminfo(5) program (reference parser) using no more parameters than the library supplies at its TParm call sites, colour count consistent with colour strings, key tables prefix-free (constant-folded table builder shared with C03). Lookup stability is decided by an ownership rule: no store through a *Terminfo that may alias a registered entry (only through a pointer freshly allocated in the storing function or a screen-owned copy); the synthesised 256-colour / direct-colour strings are well-formed and denote SGR 38/48;5;n and 38/48;2;r;g;b for all indices; not-found paths return ErrTermNotFound; registration and every map access happen under the database mutex. The dynamic (infocmp) loader and environment-dependent behaviour beyond the compared constants are not decided.")
}

func checkC14(c *Ctx) {
	c.Rule("C14-R1", "every AddTerminfo argument is a constant literal; names and aliases are pairwise distinct; every terminal package is imported by terminfo/extended (and base imports only existing ones)")
	c.Rule("C14-R2", "every entry has cursor addressing with exactly %p1,%p2; every parameterised field is a well-formed program using at most the parameters the library supplies; Colors>0 iff SetFg and SetBg are present")
	c.Rule("C14-R3", "no key sequence of an entry is a proper prefix of another (constant-folded key table)")
	c.Rule("C14-R4", "no store through a *Terminfo that may alias a registered database entry (stores only through fresh allocations or screen-owned copies)")
	c.Rule("C14-R5", "LookupTerminfo: failure returns ErrTermNotFound; synthesised 256-colour/direct-colour strings are well-formed and denote SGR 38/48;5;n / 38/48;2;r;g;b; environment values compared with the documented constants")
	c.Rule("C14-R6", "AddTerminfo stores under Name and every alias inside the database lock; the map has no other writer; every read is under the lock")
	c.Rule("C14-R8", "TCELL_TRUECOLOR=disable switches direct colour off for the screen whatever the description contains: Init stores truecolor=false under that test, after every other store to it")
	c.Expect("C14-R8", 1)
	c.Rule("C14-R9", "a NAME-256color / NAME-truecolor request for a known base is built on the base the fallback lookup found: the result of every recursive lookup flows into the value that is tested before giving up with ErrTermNotFound")
	c.Expect("C14-R9", 2)
	c.Rule("C14-R10", "TCELL_TRUECOLOR=disable has the last word in LookupTerminfo: the flag the RGB amendment tests receives false straight from the 'disable' case (no later assignment can set it again)")
	c.Rule("C14-R12", "in every description the set and the reset string of a mode differ, and DEC private mode pairs end in h (set) and l (reset) the right way round")
	c.Expect("C14-R12", 1)
	c.Rule("C14-R11", "LookupTerminfo leaves the registry as it is: lookups are independent of the lookups made before them")
	c.Expect("C14-R11", 1)
	c.Expect("C14-R10", 1)
	c.Rule("C14-R7", "the colour count agrees with the colour strings: SetFg, SetBg and SetFgBg of every entry select palette entry n for every n below the entry's colour count")
	c.Expect("C14-R7", 60)
	c.Expect("C14-R1", 49+30)
	c.Expect("C14-R2", 49*3)
	c.Expect("C14-R4", 1)
	c.Expect("C14-R5", 8)
	c.Rule("C14-R15", "every shipped name resolves: AddTerminfo files an entry whatever it holds (no test of the entry's capabilities stands before the registry stores)")
	c.Expect("C14-R15", 1)
	c.Rule("C14-R16", "NAME-truecolor, COLORTERM and TCELL_TRUECOLOR switch direct colour on for every entry: the block that supplies the standard 24-bit strings depends on the request and on the entry's own RGB strings only (not on its colour count or anything else it holds)")
	c.Expect("C14-R16", 1)
	c.Rule("C14-R17", "what a lookup returns does not depend on earlier lookups: LookupTerminfo and what it calls store nothing into package-level variables (a memo of synthesized entries keeps the direct-colour strings of the environment that filled it)")
	c.Expect("C14-R17", 1)
	c.Rule("C14-R18", "NAME-truecolor for a known base gets the 24-bit strings whichever member of the family the base is found under: every candidate lookup in the -truecolor branch is tested and raises the direct-colour flag on the found edge")
	c.Expect("C14-R18", 1)
	c.Rule("C14-R19", "every alias resolves like its name, synthesized variants included: whatever package-level table AddTerminfo files an entry in, it files it under the name and under each alias (a family set keyed by primary names only refuses stterm-truecolor, vt200-truecolor, …)")
	c.Expect("C14-R19", 1)
	c.Rule("C14-R14", "what a lookup returns does not depend on earlier lookups: nothing hands the result of terminfo.LookupTerminfo back to AddTerminfo (it may be a private amended copy carrying the base entry's name; only entries loaded from infocmp are registered by the wrapper)")
	c.Expect("C14-R14", 1)
	c.Rule("C14-R13", "NAME-256color for a known base always synthesises the standard strings: the block that sets Colors = 256 depends on the name only, not on the contents of the base entry")
	c.Expect("C14-R13", 1)
	c.Expect("C14-R6", 4)
	if err := tpSelfTest(); err != nil {
		c.Undecided("C14-R2", "self-test", "-", err.Error())
		return
	}
	if err := ecmaSelfTest(); err != nil {
		c.Undecided("C14-R5", "self-test", "-", err.Error())
		return
	}
	cfgs := []string{"linux"}
	if c.Tier == "thorough" {
		cfgs = append(cfgs, "minimal", "windows")
	}
	for _, cfg := range cfgs {
		p := c.P(cfg)
		if p == nil {
			continue
		}
		c.curCfg = cfg
		db := buildDB(c, p)
		if cfg == "linux" {
			checkModePairsDiffer(c, p, "C14-R12", db)
		}
		c14Literals(c, p, db)
		if cfg != "linux" {
			continue
		}
		c14Programs(c, p, db)
		coloursRule(c, p, db, "C14-R7")
		c14Prefix(c, p, db)
		c14Ownership(c, p)
		c14Lookup(c, p)
		c14Registry(c, p)
		checkSynth256Unconditional(c, p, "C14-R13")
		checkNoReRegistration(c, p, "C14-R14")
		checkRegistrationUnconditional(c, p, "C14-R15")
		checkSynthTruecolorGuard(c, p, "C14-R16")
		checkLookupLeavesPackageStateAlone(c, p, "C14-R17")
		checkFoundBaseSwitchesDirectColourOn(c, p, "C14-R18")
		checkRegistriesFiledUnderAliases(c, p, "C14-R19")
		c.Rule("C14-R20", "TCELL_TRUECOLOR applies to every name: no successful return of LookupTerminfo is reachable without the read of the variable (a fast path for registered names skips the force-on arm)")
		c.Expect("C14-R20", 1)
		checkOverrideBeforeEverySuccess(c, p, "C14-R20")
		c14Disable(c, p)
		c14FoundBaseIsUsed(c, p)
		checkVetoLast(c, p, "C14-R10")
		checkLookupDoesNotRegister(c, p, "C14-R11")
		c.extra["database"] = map[string]interface{}{"entries": len(db.entries), "tparm_call_sites": db.tparmN, "arity_table": db.arity, "prepared_arity": db.arityG}
	}
}

func c14Literals(c *Ctx, p *Prog, db *dbModel) {
	for _, pos := range db.nonLit {
		c.Fail("C14-R1", "AddTerminfo:non-literal@"+pos, pos, "database entry is not a composite literal of constants: cannot be decided")
	}
	if len(db.entries) < 49 && p.Cfg.Name == "linux" {
		c.Undecided("C14-R1", "entries", "-", fmt.Sprintf("only %d database entries found, expected at least 49", len(db.entries)))
	}
	names := map[string]string{}
	pkgsWithEntries := map[string]bool{}
	for _, e := range db.entries {
		pkgsWithEntries[e.PkgPath] = true
		c.Check(len(e.NonConst) == 0 && e.Name != "", "C14-R1", "entry:"+e.Name+":constant", p.pos(e.Pos), fmt.Sprintf("%d fields, non-constant: %v", len(e.Order), e.NonConst))
		for _, n := range e.Names() {
			if prev, dup := names[n]; dup {
				c.Fail("C14-R1", "name:"+n+":duplicate", p.pos(e.Pos), "name/alias registered by both "+prev+" and "+e.Name+": the result of a lookup depends on init order")
			} else {
				names[n] = e.Name
			}
		}
	}
	c.OK("C14-R1", "names:distinct", "-", fmt.Sprintf("%d names and aliases over %d entries", len(names), len(db.entries)))
	// imports of the aggregate packages
	imports := func(suffix string) map[string]bool {
		out := map[string]bool{}
		pk := p.pkg(suffix)
		if pk == nil {
			return nil
		}
		for path := range pk.Imports {
			out[path] = true
		}
		return out
	}
	ext := imports("terminfo/extended")
	base := imports("terminfo/base")
	if ext == nil || base == nil {
		c.Undecided("C14-R1", "aggregates", "-", "terminfo/base or terminfo/extended not loaded")
		return
	}
	for _, pkgPath := range sortedKeys(pkgsWithEntries) {
		short := strings.TrimPrefix(pkgPath, modPath+"/")
		c.Check(ext[pkgPath], "C14-R1", "extended imports "+short, "-", "a terminal package that is not imported by terminfo/extended is never registered")
	}
	nb := 0
	for path := range base {
		if strings.HasPrefix(path, modPath+"/terminfo/") {
			nb++
			c.Check(pkgsWithEntries[path] || p.Cfg.Name != "linux", "C14-R1", "base imports "+strings.TrimPrefix(path, modPath+"/"), "-", "package registers entries")
		}
	}
	if nb < 5 {
		c.Fail("C14-R1", "base:imports", "-", fmt.Sprintf("terminfo/base imports %d terminal packages, expected the 5 stock ones", nb))
	}
}

// paramFields: Terminfo string fields that may legitimately carry parameters, with the parameters the library supplies.
func c14Programs(c *Ctx, p *Prog, db *dbModel) {
	for _, u := range db.unknown {
		c.Undecided("C14-R2", "usage:"+u, "-", u)
	}
	strs, _, _ := terminfoFields(p)
	if len(strs) < 150 {
		c.Undecided("C14-R2", "Terminfo fields", "-", fmt.Sprintf("only %d string fields found", len(strs)))
	}
	nprog := 0
	for _, e := range db.entries {
		// cursor addressing
		cup := e.Str["SetCursor"]
		if cup == "" {
			c.Fail("C14-R2", e.Name+":SetCursor:present", p.pos(e.Pos), "entry has no cursor addressing (cup)")
		} else {
			prg, err := parseTparm(stripPadding(cup))
			ok := err == nil && prg.maxParam == 2 && countParam(prg.nodes, 1) >= 1 && countParam(prg.nodes, 2) >= 1
			c.Check(ok, "C14-R2", e.Name+":SetCursor:two-params", p.pos(e.Pos), fmt.Sprintf("%q err=%v", cup, err))
		}
		// every string field: well-formed; parameters within what the library supplies
		bad := 0
		for _, f := range sortedKeys(e.Str) {
			v := e.Str[f]
			if f == "Name" || !strings.Contains(v, "%") {
				continue
			}
			if strings.HasPrefix(f, "Key") || f == "AltChars" || f == "PasteStart" || f == "PasteEnd" || f == "Mouse" {
				continue // input sequences / tables, not programs
			}
			nprog++
			prg, err := parseTparm(stripPadding(v))
			if err != nil {
				bad++
				c.Fail("C14-R2", e.Name+":"+f+":well-formed", p.pos(e.Pos), fmt.Sprintf("%q: %v", v, err))
				continue
			}
			ar, used := db.arityOf(f)
			if !used {
				if prg.maxParam > 0 {
					// a parameterised capability the library emits raw would leak %-residue; one it never uses is inert
					c.Trivial("C14-R2", e.Name+":"+f+":unused-by-library", p.pos(e.Pos), "never expanded by the library")
				}
				continue
			}
			if prg.maxParam > ar {
				bad++
				c.Fail("C14-R2", e.Name+":"+f+":arity", p.pos(e.Pos), fmt.Sprintf("%q uses %%p%d but the library supplies %d parameter(s)", v, prg.maxParam, ar))
			}
		}
		if bad == 0 {
			c.OK("C14-R2", e.Name+":programs", p.pos(e.Pos), "all parameterised capabilities parse and stay within the supplied parameters")
		}
		// colour count consistency
		colors := e.Int["Colors"]
		hasFg, hasBg := e.Str["SetFg"] != "", e.Str["SetBg"] != ""
		c.Check((colors > 0) == (hasFg && hasBg) && hasFg == hasBg, "C14-R2", e.Name+":colors-consistent", p.pos(e.Pos), fmt.Sprintf("Colors=%d SetFg=%v SetBg=%v", colors, hasFg, hasBg))
	}
	c.extra["parameterised_capabilities"] = nprog
}

func countParam(nodes []*tpNode, n int) int {
	k := 0
	for _, x := range nodes {
		if x.kind == tpParam && x.n == n {
			k++
		}
		if x.kind == tpCond {
			for _, a := range x.arms {
				k += countParam(a[0], n) + countParam(a[1], n)
			}
			k += countParam(x.els, n)
		}
	}
	return k
}

func c14Prefix(c *Ctx, p *Prog, db *dbModel) {
	kt := buildKeyTables(c, p, db)
	if kt == nil {
		c.Undecided("C14-R3", "key-table", "-", "the key table builder could not be constant-folded")
		return
	}
	for _, e := range db.entries {
		tab := kt.tables[e.Name]
		if tab == nil {
			c.Undecided("C14-R3", e.Name+":prefix-free", p.pos(e.Pos), "no table")
			continue
		}
		a, b := prefixPair(tab)
		c.Check(a == "", "C14-R3", e.Name+":prefix-free", p.pos(e.Pos), fmt.Sprintf("%d sequences; %q is a proper prefix of %q", len(tab.seqs), a, b))
	}
}

// recogniserConflicts: besides the key table, the input path recognises a few fixed sequences by
// dedicated parsers that run after the key matcher: focus reports ESC [ I / ESC [ O.  If one of them
// is a proper prefix of a key of the terminal, the key decodes differently when the read ends right
// after the report (the key matcher says "partial", the focus parser says "complete").  Safe only if
// the focus parser is not consulted while the key matcher reports a partial match.
func recogniserConflicts(c *Ctx, p *Prog, db *dbModel, rule string) {
	kt := buildKeyTables(c, p, db)
	if kt == nil {
		c.Undecided(rule, "key-table", "-", "the key table builder could not be constant-folded")
		return
	}
	// is the focus parser held back while something earlier is partial?
	heldBack := false
	if collect := collectLoopFn(p); collect != nil {
		isParser := map[*ssa.Function]bool{}
		for _, pi := range inputParsers(p) {
			isParser[pi.fn] = true
		}
		indCollect, _ := pendingIndicator(collect, isParser)
		for _, call := range callsIn(collect, func(n string, _ *ssa.CallCommon) bool { return strings.HasSuffix(n, "tScreen).parseFocus") }) {
			// reached only through `partials == 0 || expire`
			b := call.Block()
			ok := len(b.Preds) > 0
			for _, pr := range b.Preds {
				if len(pr.Instrs) == 0 {
					ok = false
					continue
				}
				iff, isIf := pr.Instrs[len(pr.Instrs)-1].(*ssa.If)
				if !isIf {
					ok = false
					continue
				}
				// the edge into the call is either "nothing is pending" or "the wait is over"
				if idx, isInd := nothingPendingEdge(iff.Cond, indCollect); isInd {
					if pr.Succs[idx] != b {
						ok = false
					}
					continue
				}
				as := valName(iff.Cond)
				if !strings.Contains(as, "expire") || pr.Succs[0] != b {
					ok = false
				}
			}
			heldBack = ok
		}
	}
	fixed := map[string]string{"\x1b[I": "focus-in report", "\x1b[O": "focus-out report"}
	nConf := 0
	for _, e := range db.entries {
		tab := kt.tables[e.Name]
		if tab == nil {
			continue
		}
		conf := ""
		for seq := range tab.seqs {
			for f, what := range fixed {
				if len(seq) > len(f) && strings.HasPrefix(seq, f) {
					conf += fmt.Sprintf("%s %q is a proper prefix of the key %q; ", what, f, seq)
				}
				if len(f) > len(seq) && strings.HasPrefix(f, seq) {
					conf += fmt.Sprintf("key %q is a proper prefix of the %s; ", seq, what)
				}
				if seq == f {
					// the key matcher runs first: the report would never be seen as a report
					c.Fail(rule, e.Name+":focus-report-is-a-key", p.pos(e.Pos), fmt.Sprintf("the key table of %s assigns %q, which is the %s, to a key", e.Name, f, what))
				}
			}
		}
		if conf != "" {
			nConf++
			c.Check(heldBack, rule, e.Name+":focus-report-vs-keys", p.pos(e.Pos), conf+fmt.Sprintf("the focus parser is held back while the key matcher is partial: %v", heldBack))
		} else {
			c.Trivial(rule, e.Name+":focus-report-vs-keys", p.pos(e.Pos), "no key shares a prefix with a focus report")
		}
	}
	c.extra["entries_with_focus_prefix_conflict"] = nConf
}

// c14Ownership: stores to Terminfo fields only through fresh allocations or owned fields.
func c14Ownership(c *Ctx, p *Prog) {
	// owned struct fields of type *Terminfo: every store stores a fresh Alloc of the storing function
	type fieldInfo struct {
		stores int
		fresh  int
	}
	owned := map[string]*fieldInfo{}
	isTerminfoPtr := func(v ssa.Value) bool { return typeName(v.Type()) == "*terminfo.Terminfo" }
	var fresh func(v ssa.Value, d int) bool
	fresh = func(v ssa.Value, d int) bool {
		if d > 5 {
			return false
		}
		v = derefCell(v)
		switch x := v.(type) {
		case *ssa.Alloc:
			return true
		case *ssa.Phi:
			for _, e := range x.Edges {
				if !fresh(e, d+1) {
					return false
				}
			}
			return len(x.Edges) > 0
		}
		return false
	}
	for _, fn := range p.modFns {
		eachInstr(fn, func(in ssa.Instruction) {
			st, ok := in.(*ssa.Store)
			if !ok || !isTerminfoPtr(st.Val) {
				return
			}
			if ref, _, ok := fieldAddrRef(st.Addr); ok {
				fi := owned[ref.String()]
				if fi == nil {
					fi = &fieldInfo{}
					owned[ref.String()] = fi
				}
				fi.stores++
				if fresh(st.Val, 0) {
					fi.fresh++
				}
			}
		})
	}
	nstores := 0
	for _, fn := range p.modFns {
		if fn.Pkg == nil {
			continue
		}
		eachInstr(fn, func(in ssa.Instruction) {
			st, ok := in.(*ssa.Store)
			if !ok {
				return
			}
			if typeName(st.Addr.Type()) == "*terminfo.Terminfo" {
				// whole-struct overwrite `*p = v`
				key := fn.RelString(fn.Pkg.Pkg) + ":store(*)"
				if _, isAl := st.Addr.(*ssa.Alloc); isAl {
					return
				}
				c.Check(fresh(st.Addr, 0), "C14-R4", key, p.pos(in.Pos()), "whole-struct store through "+valName(st.Addr))
				nstores++
				return
			}
			ref, base, ok := fieldAddrRef(st.Addr)
			if !ok || ref.Owner != "terminfo.Terminfo" {
				return
			}
			if al, isAl := derefCell(base).(*ssa.Alloc); isAl && al.Comment == "complit" && al.Parent() == fn {
				return // field of a composite literal under construction
			}
			nstores++
			key := fn.RelString(fn.Pkg.Pkg) + ":store(" + ref.Name + ")"
			switch {
			case fresh(base, 0):
				c.OK("C14-R4", key, p.pos(in.Pos()), "store through a Terminfo allocated in this function")
			default:
				if fr, _, isF := loadedField(base); isF {
					if fi := owned[fr.String()]; fi != nil && fi.stores > 0 && fi.fresh == fi.stores {
						c.OK("C14-R4", key, p.pos(in.Pos()), "store through "+fr.String()+", which only ever holds a private copy")
						return
					}
				}
				c.Fail("C14-R4", key, p.pos(in.Pos()), "store into a Terminfo that may be a registered database entry or the caller's value ("+valName(base)+"): later lookups of that name see the change")
			}
		})
	}
	if nstores == 0 {
		c.Trivial("C14-R4", "no-stores", "-", "no store to a Terminfo field outside composite literals")
	}
}

func c14Lookup(c *Ctx, p *Prog) {
	fn := p.Fn("terminfo:LookupTerminfo")
	if fn == nil {
		c.Undecided("C14-R5", "terminfo.LookupTerminfo", "-", "not found")
		return
	}
	// failure returns
	nfail := 0
	for _, r := range returnsOf(fn) {
		if len(r.Results) != 2 {
			continue
		}
		if isNilConst(r.Results[0]) {
			nfail++
			ok := strings.HasSuffix(valName(r.Results[1]), "ErrTermNotFound")
			c.Check(ok, "C14-R5", fmt.Sprintf("LookupTerminfo:failure-return#%d", nfail), p.pos(r.Pos()), "returns "+valName(r.Results[1]))
		} else {
			c.Check(isNilConst(r.Results[1]), "C14-R5", "LookupTerminfo:success-return", p.pos(r.Pos()), "success returns a nil error")
		}
	}
	if nfail == 0 {
		c.Fail("C14-R5", "LookupTerminfo:failure-return", p.pos(fn.Pos()), "no not-found return")
	}
	// variant names: the base is the name with the suffix cut off its END, under HasSuffix with
	// that very suffix (a suffix found elsewhere in the name does not make a variant)
	{
		n, bad := 0, ""
		for _, f := range p.modFns {
			if f.Pkg != p.Terminfo {
				continue
			}
			eachInstr(f, func(in ssa.Instruction) {
				cc := callCommon(in)
				if cc == nil || len(cc.Args) != 2 {
					return
				}
				nm := calleeName(cc)
				if nm == "strings.LastIndex" || nm == "strings.Index" || nm == "strings.Contains" {
					if lit, ok := constString(cc.Args[1]); ok && (strings.HasSuffix(lit, "color") || strings.HasPrefix(lit, "-")) {
						bad += f.Name() + " looks for " + lit + " anywhere in the name (" + nm + "); "
					}
				}
			})
		}
		eachInstr(fn, func(in ssa.Instruction) {
			sl, ok := in.(*ssa.Slice)
			if !ok || sl.High == nil || sl.Low != nil {
				return
			}
			if prm, isP := derefCell(sl.X).(*ssa.Parameter); !isP || prm != fn.Params[0] {
				return
			}
			n++
			sub, isSub := sl.High.(*ssa.BinOp)
			okCut := false
			var k int64
			if isSub && sub.Op == token.SUB {
				if call, isCall := sub.X.(*ssa.Call); isCall {
					if b, isB := call.Call.Value.(*ssa.Builtin); isB && b.Name() == "len" {
						if kk, isK := constInt(sub.Y); isK {
							okCut, k = true, kk
						}
					}
				}
			}
			anchored := false
			if okCut {
				for _, g := range rawGuardsAt(in.Block()) {
					if gc, isCall := g.Cond.(*ssa.Call); isCall && g.Positive && calleeName(&gc.Call) == "strings.HasSuffix" {
						if lit, isLit := constString(gc.Call.Args[1]); isLit && int64(len(lit)) == k {
							anchored = true
						}
					}
				}
			}
			if !okCut || !anchored {
				bad += "the base name at " + p.pos(in.Pos()) + " is not name[:len(name)-len(suffix)] under HasSuffix(name, suffix); "
			}
		})
		// or, equivalently, strings.TrimSuffix(name, suffix) under HasSuffix(name, suffix) with the same suffix
		eachInstr(fn, func(in ssa.Instruction) {
			call, ok := in.(*ssa.Call)
			if !ok || calleeName(&call.Call) != "strings.TrimSuffix" || len(call.Call.Args) != 2 {
				return
			}
			if prm, isP := derefCell(call.Call.Args[0]).(*ssa.Parameter); !isP || prm != fn.Params[0] {
				return
			}
			n++
			cut, isLit := constString(call.Call.Args[1])
			anchored := false
			for _, g := range rawGuardsAt(in.Block()) {
				if gc, isCall := g.Cond.(*ssa.Call); isCall && g.Positive && calleeName(&gc.Call) == "strings.HasSuffix" {
					if lit, ok := constString(gc.Call.Args[1]); ok && isLit && lit == cut && derefCell(gc.Call.Args[0]) == derefCell(call.Call.Args[0]) {
						anchored = true
					}
				}
			}
			if !anchored {
				bad += "the base name at " + p.pos(in.Pos()) + " is not cut under HasSuffix(name, suffix) with the same suffix; "
			}
		})
		c.Check(bad == "" && n >= 2, "C14-R5", "LookupTerminfo:variant-suffix-anchored", p.pos(fn.Pos()), fmt.Sprintf("%d base names cut off the end of the name under the matching HasSuffix test %s", n, bad))
	}
	// synthesised strings
	synth := map[string]string{}
	// (in LookupTerminfo or in the helpers it builds the amended copies with)
	for _, d := range deepInstrs(p, fn, 2, nil) {
		in := d.in
		st, ok := in.(*ssa.Store)
		if !ok {
			continue
		}
		ref, _, ok := fieldAddrRef(st.Addr)
		if !ok || ref.Owner != "terminfo.Terminfo" {
			continue
		}
		if s, ok := constString(st.Val); ok {
			synth[ref.Name] = s
		}
		if k, ok := constInt(st.Val); ok && ref.Name == "Colors" {
			c.Check(k == 256, "C14-R5", "synth:Colors", p.pos(in.Pos()), fmt.Sprintf("synthesised colour count %d", k))
		}
	}
	want := []string{"SetFg", "SetBg", "SetFgBg", "ResetFgBg", "SetFgRGB", "SetBgRGB", "SetFgBgRGB"}
	for _, f := range want {
		s, ok := synth[f]
		if !ok {
			c.Fail("C14-R5", "synth:"+f, p.pos(fn.Pos()), "synthesised string not found")
			continue
		}
		c.Check(checkColourProgram(f, s, 256) == "", "C14-R5", "synth:"+f, p.pos(fn.Pos()), fmt.Sprintf("%q %s", s, checkColourProgram(f, s, 256)))
	}
	// environment constants
	wantEnv := map[string][]string{"COLORTERM": {"truecolor", "24bit", "24-bit"}, "TCELL_TRUECOLOR": {"", "disable"}}
	got := map[string]map[string]bool{}
	// (in LookupTerminfo or in a helper that answers the environment question for it)
	envScan := func(in ssa.Instruction) {
		call, ok := in.(*ssa.Call)
		if !ok || calleeName(&call.Call) != "os.Getenv" {
			return
		}
		name, _ := constString(call.Call.Args[0])
		if got[name] == nil {
			got[name] = map[string]bool{}
		}
		for _, r := range referrers(call) {
			if bo, ok := r.(*ssa.BinOp); ok && (bo.Op == token.EQL || bo.Op == token.NEQ) {
				if s, ok := constString(bo.Y); ok {
					got[name][s] = true
				}
				if s, ok := constString(bo.X); ok {
					got[name][s] = true
				}
			}
		}
	}
	for _, d := range deepInstrs(p, fn, 2, nil) {
		envScan(d.in)
	}
	for _, env := range sortedKeys(wantEnv) {
		ok := got[env] != nil
		for _, v := range wantEnv[env] {
			if !got[env][v] {
				ok = false
			}
		}
		c.Check(ok && len(got[env]) == len(wantEnv[env]), "C14-R5", "env:"+env, p.pos(fn.Pos()), fmt.Sprintf("compared with %v, documented %v", sortedKeys(got[env]), wantEnv[env]))
	}
}

// checkColourProgram evaluates a colour-setting program for every index of its domain and
// checks that the output is one SGR selecting that palette entry (or RGB triple). Returns "" if fine.
func checkColourProgram(field, s string, colors int) string {
	prg, err := parseTparm(stripPadding(s))
	if err != nil {
		return err.Error()
	}
	sgr := func(out string) ([]string, string) {
		toks, err := ecmaTokenize(out)
		if err != nil {
			return nil, err.Error()
		}
		var params []string
		for _, t := range toks {
			if t.kind != "csi" || t.final != 'm' || t.inter != "" {
				return nil, "not an SGR sequence: " + t.String()
			}
			params = append(params, strings.Split(strings.ReplaceAll(t.params, ":", ";"), ";")...)
		}
		return params, ""
	}
	palette := func(fg bool, n int) [][]string {
		base, bright, ext := "3", "9", "38"
		if !fg {
			base, bright, ext = "4", "10", "48"
		}
		var alts [][]string
		if n < 8 {
			alts = append(alts, []string{base + fmt.Sprint(n)})
		} else if n < 16 {
			alts = append(alts, []string{bright + fmt.Sprint(n-8)})
		}
		alts = append(alts, []string{ext, "5", fmt.Sprint(n)})
		return alts
	}
	match := func(params []string, alts ...[][]string) bool {
		// params must be the concatenation of one alternative from each group
		var rec func(i int, rest []string) bool
		rec = func(i int, rest []string) bool {
			if i == len(alts) {
				return len(rest) == 0
			}
			for _, a := range alts[i] {
				if len(rest) >= len(a) && strings.Join(rest[:len(a)], ";") == strings.Join(a, ";") {
					if rec(i+1, rest[len(a):]) {
						return true
					}
				}
			}
			return false
		}
		return rec(0, params)
	}
	if colors > 256 {
		colors = 256
	}
	switch field {
	case "SetFg", "SetBg":
		for n := 0; n < colors; n++ {
			out, _ := evalTparm(prg, n)
			params, e := sgr(out)
			if e != "" {
				return fmt.Sprintf("index %d: %s", n, e)
			}
			if !match(params, palette(field == "SetFg", n)) {
				return fmt.Sprintf("index %d yields %q which does not select palette entry %d", n, out, n)
			}
		}
	case "SetFgBg":
		vals := []int{}
		for n := 0; n < colors; n++ {
			vals = append(vals, n)
		}
		for _, f := range vals {
			for _, b := range []int{0, 1, 7, 8, 9, 15, 16, 17, 100, 255, f} {
				if b >= colors {
					continue
				}
				out, _ := evalTparm(prg, f, b)
				params, e := sgr(out)
				if e != "" {
					return fmt.Sprintf("(%d,%d): %s", f, b, e)
				}
				if !match(params, palette(true, f), palette(false, b)) {
					return fmt.Sprintf("(%d,%d) yields %q", f, b, out)
				}
			}
		}
	case "ResetFgBg":
		out, _ := evalTparm(prg)
		if _, err := ecmaTokenize(out); err != nil {
			return err.Error()
		}
	case "SetFgRGB", "SetBgRGB", "SetFgBgRGB":
		comps := []int{0, 1, 127, 128, 255}
		for _, r := range comps {
			for _, g := range comps {
				for _, b := range comps {
					if field == "SetFgBgRGB" {
						out, _ := evalTparm(prg, r, g, b, b, r, g)
						params, e := sgr(out)
						if e != "" {
							return e
						}
						want := []string{"38", "2", fmt.Sprint(r), fmt.Sprint(g), fmt.Sprint(b), "48", "2", fmt.Sprint(b), fmt.Sprint(r), fmt.Sprint(g)}
						if !sgrRGBMatch(params, want) {
							return fmt.Sprintf("(%d,%d,%d) yields %q", r, g, b, out)
						}
						continue
					}
					out, _ := evalTparm(prg, r, g, b)
					params, e := sgr(out)
					if e != "" {
						return e
					}
					lead := "38"
					if field == "SetBgRGB" {
						lead = "48"
					}
					if !sgrRGBMatch(params, []string{lead, "2", fmt.Sprint(r), fmt.Sprint(g), fmt.Sprint(b)}) {
						return fmt.Sprintf("(%d,%d,%d) yields %q", r, g, b, out)
					}
				}
			}
		}
	}
	return ""
}

// sgrRGBMatch compares SGR parameters ignoring the optional empty colour-space id of the ':' form (38:2::r:g:b).
func sgrRGBMatch(got, want []string) bool {
	var g []string
	for _, x := range got {
		if x != "" {
			g = append(g, x)
		}
	}
	return strings.Join(g, ";") == strings.Join(want, ";")
}

func c14Registry(c *Ctx, p *Prog) {
	add := p.Fn("terminfo:AddTerminfo")
	if add == nil {
		c.Undecided("C14-R6", "AddTerminfo", "-", "not found")
		return
	}
	// every access to the global map `terminfos` in the module
	for _, fn := range p.modFns {
		if fn.Pkg != p.Terminfo {
			continue
		}
		var locks, unlocks []ssa.Instruction
		eachInstr(fn, func(in ssa.Instruction) {
			cc := callCommon(in)
			if cc == nil || len(cc.Args) == 0 {
				return
			}
			n := calleeName(cc)
			if g, ok := cc.Args[0].(*ssa.Global); ok && g.Name() == "dblock" {
				if _, isDefer := in.(*ssa.Defer); isDefer {
					return
				}
				if n == "(*sync.Mutex).Lock" {
					locks = append(locks, in)
				}
				if n == "(*sync.Mutex).Unlock" {
					unlocks = append(unlocks, in)
				}
			}
		})
		held := func(in ssa.Instruction) bool {
			// a Lock dominates and no Unlock lies between (Unlock that dominates `in` and is dominated by the Lock)
			for _, l := range locks {
				if !instrDominates(l, in) {
					continue
				}
				released := false
				for _, u := range unlocks {
					if instrDominates(l, u) && reachableAfter(u, in) && !instrDominates(in, u) {
						released = true
					}
				}
				if !released {
					return true
				}
			}
			return false
		}
		nacc := 0
		eachInstr(fn, func(in ssa.Instruction) {
			var m ssa.Value
			write := false
			switch x := in.(type) {
			case *ssa.MapUpdate:
				m, write = x.Map, true
			case *ssa.Lookup:
				m = x.X
			case *ssa.Range:
				m = x.X
			}
			if m == nil {
				return
			}
			u, ok := m.(*ssa.UnOp)
			if !ok {
				return
			}
			g, ok := u.X.(*ssa.Global)
			if !ok || g.Name() != "terminfos" {
				return
			}
			nacc++
			kind := "read"
			if write {
				kind = "write"
			}
			key := fmt.Sprintf("%s:%s#%d", fn.Name(), kind, nacc)
			if write && fn != add {
				c.Fail("C14-R6", key, p.pos(in.Pos()), "the database map is written outside AddTerminfo")
				return
			}
			c.Check(held(in), "C14-R6", key, p.pos(in.Pos()), "map access between dblock.Lock() and Unlock()")
		})
	}
	// AddTerminfo: one store keyed by t.Name, one in a range loop over t.Aliases keyed by the element
	byName, byAlias := false, false
	eachInstr(add, func(in ssa.Instruction) {
		mu, ok := in.(*ssa.MapUpdate)
		if !ok {
			return
		}
		// the key is the entry's Name, an element of its Aliases, or an element of a local list put
		// together from those (names := append(append(nil, t.Name), t.Aliases...)) — as they are,
		// not transformed
		for src := range registryKeySources(mu.Key, 0, map[ssa.Value]bool{}) {
			switch src {
			case "Name":
				byName = true
			case "Aliases":
				byAlias = true
			}
		}
	})
	c.Check(byName, "C14-R6", "AddTerminfo:registers-name", p.pos(add.Pos()), "entry stored under its Name")
	c.Check(byAlias, "C14-R6", "AddTerminfo:registers-aliases", p.pos(add.Pos()), "entry stored under every alias")
}

var _ = ast.Inspect
var _ = sort.Strings

// c14Disable: the lookup only refrains from ADDING direct-colour strings when
// TCELL_TRUECOLOR=disable; entries that ship their own (xterm-direct, kitty, …)
// still have them, so the screen itself must honour the switch.
func c14Disable(c *Ctx, p *Prog) {
	fn := p.Fn("tcell:(*tScreen).Init")
	if fn == nil {
		c.Undecided("C14-R8", "(*tScreen).Init", "-", "not found")
		return
	}
	var off *ssa.Store
	for _, st := range storesTo(fn, "tcell.tScreen", "truecolor") {
		if b, ok := constBool(st.Val); ok && !b {
			for _, g := range rawGuardsAt(st.Block()) {
				bo, ok := g.Cond.(*ssa.BinOp)
				if !ok || !((bo.Op == token.EQL && g.Positive) || (bo.Op == token.NEQ && !g.Positive)) {
					continue
				}
				call, ok := bo.X.(*ssa.Call)
				lit, ok2 := constString(bo.Y)
				if ok && ok2 && lit == "disable" && calleeName(&call.Call) == "os.Getenv" {
					if env, ok := constString(call.Call.Args[0]); ok && env == "TCELL_TRUECOLOR" {
						off = st
					}
				}
			}
		}
	}
	ok := off != nil
	detail := "no store truecolor=false under os.Getenv(\"TCELL_TRUECOLOR\") == \"disable\""
	if ok {
		detail = "truecolor=false under the TCELL_TRUECOLOR test at " + p.pos(off.Pos())
		for _, st := range storesTo(fn, "tcell.tScreen", "truecolor") {
			if st != off && reachableAfter(off, st) {
				ok = false
				detail += "; overridden by a later store at " + p.pos(st.Pos())
			}
		}
	}
	// no other function switches it on
	for _, f := range p.modFns {
		if f.Pkg != p.Tcell || f == fn {
			continue
		}
		for _, st := range storesTo(f, "tcell.tScreen", "truecolor") {
			ok = false
			detail += "; " + f.Name() + " also stores truecolor at " + p.pos(st.Pos())
		}
	}
	c.Check(ok, "C14-R8", "Init:TCELL_TRUECOLOR=disable", p.pos(fn.Pos()), detail)
}

// c14FoundBaseIsUsed (R9): a NAME-256color / NAME-truecolor request for a known base builds on the base
// entry the fallback lookup found.  The *Terminfo result of every recursive LookupTerminfo call must
// flow (through phis) into the value the function tests before it gives up with ErrTermNotFound — a
// result that lands in a shadowed variable is found and then thrown away.
func c14FoundBaseIsUsed(c *Ctx, p *Prog) {
	fn := p.Fn("terminfo:LookupTerminfo")
	if fn == nil {
		c.Undecided("C14-R9", "LookupTerminfo", "-", "not found")
		return
	}
	// the value tested for nil on the way to `return nil, ErrTermNotFound`, after the fallbacks
	var tested []ssa.Value
	for _, r := range returnsOf(fn) {
		if len(r.Results) != 2 {
			continue
		}
		u, ok := r.Results[1].(*ssa.UnOp)
		if !ok {
			continue
		}
		if g, isG := u.X.(*ssa.Global); !isG || g.Name() != "ErrTermNotFound" {
			continue
		}
		for _, gd := range rawGuardsAt(r.Block()) {
			if bo, isBO := gd.Cond.(*ssa.BinOp); isBO && isNilConst(bo.Y) && ((bo.Op == token.EQL && gd.Positive) || (bo.Op == token.NEQ && !gd.Positive)) {
				if _, isPtr := bo.X.Type().Underlying().(*types.Pointer); isPtr {
					tested = append(tested, bo.X)
				}
			}
		}
	}
	if len(tested) == 0 {
		c.Undecided("C14-R9", "LookupTerminfo:not-found-test", p.pos(fn.Pos()), "no `t == nil` test leading to ErrTermNotFound")
		return
	}
	closure := map[ssa.Value]bool{}
	var walk func(v ssa.Value)
	walk = func(v ssa.Value) {
		if closure[v] {
			return
		}
		closure[v] = true
		if phi, ok := v.(*ssa.Phi); ok {
			for _, e := range phi.Edges {
				walk(e)
			}
		}
	}
	for _, t := range tested {
		walk(t)
	}
	n := 0
	for _, call := range callsIn(fn, func(_ string, cc *ssa.CallCommon) bool { return cc.StaticCallee() == fn }) {
		n++
		used := false
		for _, r := range referrers(call.(ssa.Value)) {
			if ex, ok := r.(*ssa.Extract); ok && ex.Index == 0 && closure[ex] {
				used = true
			}
		}
		c.Check(used, "C14-R9", fmt.Sprintf("LookupTerminfo:fallback#%d:found-base-is-used", n), p.pos(call.Pos()), "the entry found by the fallback lookup reaches the value the result is built from")
	}
	// … or made in a helper (`lookupDonor(base, suffixes)`): what the helper finds must be what it
	// returns, and what it returns must reach the value the result is built from
	eachInstr(fn, func(in ssa.Instruction) {
		call, ok := in.(*ssa.Call)
		if !ok {
			return
		}
		h := call.Call.StaticCallee()
		if h == nil || h == fn || h.Pkg != fn.Pkg || len(h.Blocks) == 0 {
			return
		}
		inner := callsIn(h, func(_ string, cc *ssa.CallCommon) bool { return cc.StaticCallee() == fn })
		if len(inner) == 0 {
			return
		}
		n++
		used := closure[call]
		for _, r := range referrers(call) {
			if ex, ok := r.(*ssa.Extract); ok && ex.Index == 0 && closure[ex] {
				used = true
			}
		}
		hclosure := map[ssa.Value]bool{}
		var hwalk func(v ssa.Value)
		hwalk = func(v ssa.Value) {
			if hclosure[v] {
				return
			}
			hclosure[v] = true
			if phi, ok := v.(*ssa.Phi); ok {
				for _, e := range phi.Edges {
					hwalk(e)
				}
			}
		}
		for _, r := range returnsOf(h) {
			if len(r.Results) > 0 {
				hwalk(derefCell(resultOf(r, 0)))
			}
		}
		for _, ic := range inner {
			got := false
			for _, r := range referrers(ic.(ssa.Value)) {
				if ex, ok := r.(*ssa.Extract); ok && ex.Index == 0 && hclosure[ex] {
					got = true
				}
			}
			if !got {
				used = false
			}
		}
		c.Check(used, "C14-R9", fmt.Sprintf("LookupTerminfo:fallback#%d:found-base-is-used", n), p.pos(call.Pos()), "the entry found by the fallback lookup (in "+h.Name()+") is returned by it and reaches the value the result is built from")
	})
	if n == 0 {
		c.Undecided("C14-R9", "LookupTerminfo:fallbacks", p.pos(fn.Pos()), "no fallback lookups found")
	}
}

// nothingPendingEdge: if cond is a plain test of the pending indicator, the successor index taken when
// nothing is pending.
func nothingPendingEdge(cond ssa.Value, ind map[ssa.Value]bool) (int, bool) {
	v, pos := condKey(cond)
	if ind[v] { // a bool: true means pending
		if pos {
			return 1, true
		}
		return 0, true
	}
	if bo, ok := v.(*ssa.BinOp); ok && ind[bo.X] {
		if k, isK := constInt(bo.Y); isK && k == 0 {
			nothing := 0 // ind == 0 is true on edge 0
			if bo.Op == token.NEQ || bo.Op == token.GTR {
				nothing = 1
			} else if bo.Op != token.EQL {
				return 0, false
			}
			if !pos {
				nothing = 1 - nothing
			}
			return nothing, true
		}
	}
	return 0, false
}

// registryKeySources: which fields of the entry a registry key comes from, unchanged: "Name" for a
// load of t.Name, "Aliases" for an element of t.Aliases; an element of a local slice stands for
// everything appended to that slice.
func registryKeySources(v ssa.Value, depth int, seen map[ssa.Value]bool) map[string]bool {
	out := map[string]bool{}
	if v == nil || depth > 8 || seen[v] {
		return out
	}
	seen[v] = true
	add := func(m map[string]bool) {
		for k := range m {
			out[k] = true
		}
	}
	if ref, _, ok := loadedField(v); ok && ref.Owner == "terminfo.Terminfo" {
		if ref.Name == "Name" || ref.Name == "Aliases" {
			out[ref.Name] = true
		}
		return out
	}
	switch x := v.(type) {
	case *ssa.UnOp: // *addr: an element of a slice or array, a local cell
		if x.Op == token.MUL {
			switch a := x.X.(type) {
			case *ssa.IndexAddr:
				add(registryKeySources(a.X, depth+1, seen))
			case *ssa.Alloc:
				for _, r := range referrers(a) {
					if st, isSt := r.(*ssa.Store); isSt && st.Addr == ssa.Value(a) {
						add(registryKeySources(st.Val, depth+1, seen))
					}
				}
			}
		}
	case *ssa.Index:
		add(registryKeySources(x.X, depth+1, seen))
	case *ssa.Extract: // range over a slice: (ok, index, element)
		if nx, isNext := x.Tuple.(*ssa.Next); isNext {
			if rg, isRange := nx.Iter.(*ssa.Range); isRange {
				add(registryKeySources(rg.X, depth+1, seen))
			}
		}
	case *ssa.Phi:
		for _, e := range x.Edges {
			add(registryKeySources(e, depth+1, seen))
		}
	case *ssa.Slice:
		if al, isAlloc := x.X.(*ssa.Alloc); isAlloc {
			// the backing array of variadic arguments: what is stored into its elements
			for _, r := range referrers(al) {
				if ia, isIA := r.(*ssa.IndexAddr); isIA {
					for _, r2 := range referrers(ia) {
						if st, isSt := r2.(*ssa.Store); isSt {
							add(registryKeySources(st.Val, depth+1, seen))
						}
					}
				}
			}
		} else {
			add(registryKeySources(x.X, depth+1, seen))
		}
	case *ssa.Call:
		if b, isB := x.Call.Value.(*ssa.Builtin); isB && b.Name() == "append" {
			for _, a := range x.Call.Args {
				add(registryKeySources(a, depth+1, seen))
			}
		}
	}
	return out
}

package main

import (
	"fmt"
	"go/token"
	"go/types"
	"strings"

	"golang.org/x/tools/go/ssa"
)

func init() {
	register("C19", checkC19, "The js/wasm configuration (GOOS=js GOARCH=wasm) of /repo is type-checked and analysed: the package must compile and *wScreen must satisfy screenImpl (missing methods are named); the must-lockset analysis of C10 is applied to wScreen (lock pairing on every path of every lifecycle method = never wedges; guarded state only under the mutex); the JavaScript draw call is dominated by the Dirty test and paired with the clean-mark; mouse handlers are installed only under the corresponding MouseFlags tests; the 16-colour palette table equals the xterm values. Decides the Go half structurally; webfiles/tcell.js and rendering are not analysed (no JavaScript tooling in the sandbox).")
}

var xtermBasic16 = []int64{0x000000, 0xcd0000, 0x00cd00, 0xcdcd00, 0x0000ee, 0xcd00cd, 0x00cdcd, 0xe5e5e5,
	0x7f7f7f, 0xff0000, 0x00ff00, 0xffff00, 0x5c5cff, 0xff00ff, 0x00ffff, 0xffffff}

func checkC19(c *Ctx) {
	c.Rule("C19-R1", "package tcell type-checks for js/wasm and *wScreen implements screenImpl")
	c.Rule("C19-R2", "every wScreen method releases the mutex on all paths; none acquires it twice (lifecycle calls cannot wedge)")
	c.Rule("C19-R3", "guarded wScreen state (size, cells, flags, fallback map, the JS grid) is accessed only with the mutex held; no blocking event post while holding it")
	c.Rule("C19-R4", "mouse handlers are installed only under the matching MouseFlags test, button-less moves are dropped unless motion is enabled")
	c.Rule("C19-R5", "the JS drawCell call is dominated by the Dirty test and paired with SetDirty(false); palette table for the 16 basic colours equals the xterm values")
	c.Rule("C19-R9", "whoever clears the page outside a draw (Suspend) is followed by an invalidation of every cell before the next draw (Resume), or the page stays blank until Sync")
	c.Expect("C19-R9", 1)
	c.Rule("C19-R12", "the wasm screen's post helper waits for room in the queue only in a select that also receives from quit: after Fini nobody reads the queue, and SetSize or a page callback would never return")
	c.Expect("C19-R12", 1)
	c.Rule("C19-R11", "the page keeps one node per column: painting a wide rune empties the nodes of the columns it covers (otherwise their old content stays on the page beside it and the row grows)")
	c.Expect("C19-R11", 1)
	c.Rule("C19-R10", "HideCursor moves the requested cursor position off-screen")
	c.Expect("C19-R10", 1)
	c.Rule("C19-R8", "Fini closes the quit channel exactly once and in every state (sync.Once around an unconditional close), so Fini after Suspend releases pollers and a second Fini is harmless")
	c.Expect("C19-R8", 1)
	c.Rule("C19-R7", "the key callback looks a key up under its plain DOM name whatever the modifiers are (the Ctrl-letter names are an additional, earlier lookup)")
	c.Expect("C19-R7", 1)
	c.Rule("C19-R6", "the remembered mouse and paste modes are stored only by the togglers, never by anything reachable from Suspend/Resume/Fini; Resume re-applies both from the remembered fields")
	c.Expect("C19-R6", 4)
	c.Expect("C19-R1", 2)
	c.Expect("C19-R2", 20)
	c.Expect("C19-R3", 10)
	c.Expect("C19-R4", 5)
	c.Expect("C19-R5", 18)
	c.Assume("webfiles/tcell.js implements drawCell/clearScreen/show/resize as named; it is not analysed")
	p := c.P("wasm")
	if p == nil {
		return
	}
	c.curCfg = "wasm"
	c.Rule("C19-R13", "every key the page reports becomes an event, except the four modifier keys reported on their own (no length or table test stands between a printable character and its KeyRune event)")
	c.Expect("C19-R13", 1)
	checkWebKeyAlwaysPosts(c, p, "C19-R13")
	c.Rule("C19-R14", "the page grid stays equal to the logical contents when the page is cleared: whoever asks for clearScreen (the clear flag) also invalidates the cell buffer on the same path, or every clean cell vanishes from the page")
	c.Expect("C19-R14", 1)
	checkClearImpliesInvalidate(c, p, "C19-R14", "wScreen")
	c.Rule("C19-R15", "a mouse callback becomes an event unless its mode is off: onMouseEvent returns without posting only depending on the mouse flags and the callback's arguments, never on a remembered earlier report (two clicks on one cell are two events)")
	c.Expect("C19-R15", 1)
	checkWebMouseAlwaysPosts(c, p, "C19-R15")
	c.Rule("C19-R16", "mouse callbacks are honoured only for the enabled modes, also after Suspend/Resume: EnableMouse, DisableMouse, EnablePaste and DisablePaste record the request on every path (a setter that returns early while suspended leaves the old mode for Resume to re-apply)")
	c.Expect("C19-R16", 4)
	checkModeSettersAlwaysRemember(c, p, "C19-R16", "wScreen", map[string]string{"EnableMouse": "mouseFlags", "DisableMouse": "mouseFlags", "EnablePaste": "pasteEnabled", "DisablePaste": "pasteEnabled"})
	c.Rule("C19-R17", "key callbacks become events with the right key: Ctrl plus a letter is looked up under \"Ctrl-\" and the lower-cased key name; a folding helper of the module's own is decided by constant evaluation over every one-character ASCII name (a range test short of 'Z' loses Ctrl-Z with Shift or CapsLock)")
	c.Expect("C19-R17", 1)
	checkWebCtrlNameFolding(c, p, "C19-R17")
	c.Rule("C19-R18", "text with combining runes: what wScreen.drawCell does with the combining list is decided by the list alone, never by the main rune (a blank-cell shortcut loses the marks on a blank base)")
	c.Expect("C19-R18", 1)
	checkWebCombiningAlwaysSent(c, p, "C19-R18")
	c.Rule("C19-R19", "Suspend, Resume and SetSize in any order leave the page grid equal to the logical contents: SetSize resizes the page whatever the running state (Resume does not replay the size)")
	c.Expect("C19-R19", 1)
	checkWebResizeUnconditional(c, p, "C19-R19")
	c.Rule("C19-R20", "mouse callbacks are honoured only for the enabled modes: the all-modes default of EnableMouse is chosen by the absence of arguments, not by the or-ed flags being zero (an explicit empty set means none)")
	c.Expect("C19-R20", 1)
	checkMouseDefaultByAbsence(c, p, "C19-R20", "wScreen")
	c.Rule("C19-R21", "key and mouse callbacks carry the modifiers the page reported: the modifier a callback ORs in under args[i].Bool() is the one webfiles/tcell.js passes at position i (shift, alt, ctrl, meta), also through a helper taking the booleans in another order")
	c.Expect("C19-R21", 3)
	checkWebModifiersAgreeWithThePage(c, p, "C19-R21")
	c.Rule("C19-R22", "each cell reaches the page in its own style: the screen style stands in only for a cell whose whole style equals StyleDefault (underline colour and hyperlink are part of it), not for one with default colours and attributes")
	c.Expect("C19-R22", 1)
	checkScreenStyleOnlyForDefaultCells(c, p, "C19-R22")
	// R1
	tpkg := p.pkg("")
	if tpkg == nil {
		c.Undecided("C19-R1", "package tcell", "-", "package not loaded for js/wasm")
		return
	}
	nerr := 0
	for _, e := range tpkg.Errors {
		nerr++
		if nerr <= 5 {
			c.Fail("C19-R1", "typecheck:"+shortErr(e.Msg), e.Pos, "js/wasm build is broken: "+e.Msg)
		}
	}
	if nerr == 0 {
		c.OK("C19-R1", "typecheck", "-", fmt.Sprintf("package tcell: %d files, 0 type errors for js/wasm", len(tpkg.Syntax)))
	}
	ws := tpkg.Types.Scope().Lookup("wScreen")
	si := tpkg.Types.Scope().Lookup("screenImpl")
	if ws == nil || si == nil {
		c.Undecided("C19-R1", "wScreen/screenImpl", "-", "types not found in js/wasm configuration")
	} else {
		iface, _ := si.Type().Underlying().(*types.Interface)
		if iface == nil {
			c.Undecided("C19-R1", "screenImpl", "-", "not an interface")
		} else {
			missing := []string{}
			ms := types.NewMethodSet(types.NewPointer(ws.Type()))
			for i := 0; i < iface.NumMethods(); i++ {
				m := iface.Method(i)
				sel := ms.Lookup(m.Pkg(), m.Name())
				if sel == nil || !types.Identical(sel.Type(), m.Type()) {
					missing = append(missing, m.Name())
				}
			}
			if len(missing) == 0 {
				c.OK("C19-R1", "*wScreen implements screenImpl", p.pos(ws.Pos()), fmt.Sprintf("%d methods", iface.NumMethods()))
			} else {
				c.Fail("C19-R1", "*wScreen implements screenImpl", p.pos(ws.Pos()), "missing or mistyped methods: "+strings.Join(missing, ", "))
			}
		}
	}
	if p.Tcell == nil || nerr > 0 {
		// the remaining rules need the SSA form, which does not exist for an ill-typed package
		if nerr == 0 {
			c.Undecided("C19-R2", "ssa", "-", "no SSA package for tcell under js/wasm")
		}
		return
	}
	// R2/R3 via T4
	d := newLockDomain(p, p.Tcell, "wScreen")
	d.analyse()
	findings, _, nFns := d.report()
	if nFns < 40 {
		c.Undecided("C19-R2", "domain wScreen", "-", fmt.Sprintf("only %d functions", nFns))
	}
	bad := map[string]bool{}
	for _, f := range findings {
		rule := "C19-R3"
		if f.rule == "R3" {
			rule = "C19-R2"
		}
		bad[f.rule+"|"+f.construct] = true
		c.Fail(rule, f.construct, f.pos, f.detail)
	}
	for _, fn := range d.fns {
		if d.initOnly[fn] {
			continue
		}
		short := fn.RelString(p.Tcell.Pkg)
		if fn.Parent() == nil && !bad["R3|"+short+":lock-leak"] {
			if d.summaries[fn].locksAtEntry != nil {
				c.OK("C19-R2", short+":lock-leak", p.pos(fn.Pos()), "acquires and releases on all paths")
			} else {
				c.Trivial("C19-R2", short+":lock-leak", p.pos(fn.Pos()), "does not acquire")
			}
		}
		seen := map[string]bool{}
		for _, a := range d.accesses[fn] {
			if d.class[a.field] != "guarded" || seen[a.field] {
				continue
			}
			seen[a.field] = true
			if !bad["R1|"+short+"→"+a.field] {
				c.OK("C19-R3", short+"→"+a.field, p.pos(a.instr.Pos()), "state="+d.stateAt[a.instr].String())
			}
		}
		// blocking event post while the mutex is held (postEvent selects on evch/quit)
		for _, call := range d.summaries[fn].calls {
			if call.state == lsHeld && call.callee.Name() == "postEvent" {
				c.Fail("C19-R3", short+":post-while-locked", p.pos(call.instr.Pos()), "blocking postEvent with the mutex held: a full event queue wedges every other Screen call")
			}
		}
	}
	checkC19Mouse(c, p)
	checkC19Keys(c, p)
	{
		// callers of clearScreen other than draw
		var outside []string
		for _, fn := range p.modFns {
			if fn.Pkg != p.Tcell || recvTypeName(topFunc(fn)) != "tcell.wScreen" || fn.Name() == "draw" {
				continue
			}
			for range callsIn(fn, func(n string, _ *ssa.CallCommon) bool { return strings.HasSuffix(n, "wScreen).clearScreen") }) {
				outside = append(outside, fn.Name())
			}
		}
		ok := true
		detail := fmt.Sprintf("clearScreen outside draw: %v", outside)
		for _, o := range outside {
			if o != "Suspend" {
				ok = false
				detail += "; unexpected caller " + o
			}
		}
		if len(outside) > 0 {
			inv := false
			if rs := p.Fn("tcell:(*wScreen).Resume"); rs != nil {
				for range callsIn(rs, func(n string, _ *ssa.CallCommon) bool { return strings.HasSuffix(n, "CellBuffer).Invalidate") }) {
					inv = true
				}
			}
			ok = ok && inv
			detail += fmt.Sprintf("; Resume invalidates the cells: %v", inv)
		}
		c.Check(ok, "C19-R9", "Suspend/Resume:page-repainted", "-", detail)
		checkHideCursor(c, p, "C19-R10", "wScreen")
		checkPostHasQuitAlternative(c, p, "C19-R12", "wScreen")
	}
	if fini := p.Fn("tcell:(*wScreen).Fini"); fini != nil {
		var target *ssa.Function
		ncalls := 0
		eachInstr(fini, func(in ssa.Instruction) {
			if cc := callCommon(in); cc != nil {
				ncalls++
				if calleeName(cc) == "(*sync.Once).Do" && len(cc.Args) == 2 {
					target = boundTarget(cc.Args[1])
				}
			}
		})
		ok := target != nil && ncalls == 1
		detail := fmt.Sprintf("Fini makes %d call(s); through sync.Once: %v", ncalls, target != nil)
		if ok {
			closes := false
			for _, in := range target.Blocks[0].Instrs {
				if cl, isCall := in.(*ssa.Call); isCall {
					if b, isB := cl.Call.Value.(*ssa.Builtin); isB && b.Name() == "close" {
						closes = true
					}
				}
			}
			ok = closes
			detail += fmt.Sprintf("; the once-function closes the quit channel in its entry block: %v", closes)
		}
		c.Check(ok, "C19-R8", "(*wScreen).Fini:once-unconditional", p.pos(fini.Pos()), detail)
	} else {
		c.Undecided("C19-R8", "(*wScreen).Fini", "-", "not found")
	}
	checkRememberedModes(c, p, "C19-R6", "wScreen", []string{"mouseFlags", "pasteEnabled"}, []string{"Suspend", "Resume", "Fini"})
	if rs := p.Fn("tcell:(*wScreen).Resume"); rs != nil {
		for _, ra := range [][2]string{{"enableMouse", "mouseFlags"}, {"enablePasting", "pasteEnabled"}} {
			ok := false
			for _, call := range callsIn(rs, func(n string, _ *ssa.CallCommon) bool { return strings.HasSuffix(n, "wScreen)."+ra[0]) }) {
				if ref, _, isF := loadedField(callCommon(call).Args[1]); isF && ref.Name == ra[1] {
					ok = true
				}
			}
			if !ok {
				// … or written out in Resume itself: each hook of the mode gets its real handler where
				// the remembered field says "on" and the inert one where it says "off"
				hooks := map[string][]string{"mouseFlags": {"onMouseClick", "onMouseMove"}, "pasteEnabled": {"onPaste"}}[ra[1]]
				all := len(hooks) > 0
				for _, hk := range hooks {
					real, inert := false, false
					for _, in := range jsInstalls(rs, 0) {
						if in.name != hk {
							continue
						}
						byField := false
						for _, g := range in.guards {
							if strings.Contains(g.L, "."+ra[1]) {
								byField = true
							}
						}
						if byField && in.handler == "unset" {
							inert = true
						} else if byField && in.kind == "fn" {
							real = true
						}
					}
					if !real || !inert {
						all = false
					}
				}
				ok = all
			}
			c.Check(ok, "C19-R6", "Resume:reapplies-"+ra[1], p.pos(rs.Pos()), ra[0]+"(t."+ra[1]+") on Resume")
		}
	} else {
		c.Undecided("C19-R6", "(*wScreen).Resume", "-", "not found")
	}
	checkC19Draw(c, p)
}

func shortErr(s string) string {
	if len(s) > 60 {
		s = s[:60]
	}
	return s
}

// jsSetSites: js.Global().Set(name, js.FuncOf(handler)) sites in fn → (name, handler method, instr)
type jsSet struct {
	name    string
	handler string
	instr   ssa.Instruction
	guards  []Atom
}

func jsSetSites(fn *ssa.Function) []jsSet {
	var out []jsSet
	for _, in := range jsInstalls(fn, 0) {
		out = append(out, jsSet{in.name, in.handler, in.instr, in.guards})
	}
	return out
}

// handlerAlt is one value a handler expression can take, with what is known on the way to it.
type handlerAlt struct {
	kind   string // "fn", "nil", "param", "?"
	name   string // method name (fn) or parameter name (param)
	guards []Atom
}

// handlerAlts resolves a func-typed value to the methods it can stand for: a bound method, nil, a
// parameter, or a phi of those, each alternative carrying the guards of the edge it arrives on.
func handlerAlts(v ssa.Value, depth int) []handlerAlt {
	if depth > 4 {
		return []handlerAlt{{kind: "?"}}
	}
	switch x := v.(type) {
	case *ssa.MakeInterface:
		return handlerAlts(x.X, depth)
	case *ssa.ChangeType:
		return handlerAlts(x.X, depth)
	case *ssa.MakeClosure:
		if t := boundTarget(x); t != nil {
			return []handlerAlt{{kind: "fn", name: t.Name()}}
		}
	case *ssa.Const:
		if x.IsNil() {
			return []handlerAlt{{kind: "nil", name: "nil"}}
		}
	case *ssa.Parameter:
		return []handlerAlt{{kind: "param", name: x.Name()}}
	case *ssa.Phi:
		var out []handlerAlt
		for i, e := range x.Edges {
			eg := guardsOnEdge(x.Block().Preds[i], x.Block())
			for _, a := range handlerAlts(e, depth+1) {
				a.guards = append(append([]Atom{}, eg...), a.guards...)
				out = append(out, a)
			}
		}
		return out
	}
	return []handlerAlt{{kind: "?", name: "?"}}
}

type jsInstall struct {
	name      string // hook name, or "" when it is the parameter nameParam
	nameParam string
	handler   string
	kind      string
	guards    []Atom
	instr     ssa.Instruction
}

// jsInstalls: every (hook, handler) pair fn can install, directly through
// js.Global().Set(name, js.FuncOf(handler)) or through a module helper that does so with its own
// parameters (`route(name, h)` where a nil h stands for the inert handler): the helper's
// alternatives are instantiated with the arguments of each call.
func jsInstalls(fn *ssa.Function, depth int) []jsInstall {
	var out []jsInstall
	eachInstr(fn, func(in ssa.Instruction) {
		cc := callCommon(in)
		if cc == nil {
			return
		}
		here := guardsAt(in.Block())
		if calleeName(cc) == "(syscall/js.Value).Set" && len(cc.Args) >= 3 {
			inst := jsInstall{instr: in}
			if name, ok := constString(cc.Args[1]); ok {
				inst.name = name
			} else if pa, ok := cc.Args[1].(*ssa.Parameter); ok {
				inst.nameParam = pa.Name()
			} else {
				return
			}
			v := cc.Args[2]
			if mi, ok := v.(*ssa.MakeInterface); ok {
				v = mi.X
			}
			call, ok := v.(*ssa.Call)
			if ok && calleeName(&call.Call) != "syscall/js.FuncOf" {
				// the wrapped handler comes from a helper (`t.callbackIf(cond, t.onMouseEvent)`): each of
				// its returns, with its parameters standing for the arguments
				if h := call.Call.StaticCallee(); h != nil && h.Pkg == fn.Pkg && len(h.Blocks) > 0 {
					argOf := func(pa *ssa.Parameter) ssa.Value {
						for i, q := range h.Params {
							if q == pa && i < len(call.Call.Args) {
								return call.Call.Args[i]
							}
						}
						return nil
					}
					resolved := true
					var insts []jsInstall
					for _, r := range returnsOf(h) {
						fo, isFO := derefCell(resultOf(r, 0)).(*ssa.Call)
						if !isFO || calleeName(&fo.Call) != "syscall/js.FuncOf" || len(fo.Call.Args) != 1 {
							resolved = false
							break
						}
						var gs []Atom
						for _, g := range rawGuardsAt(r.Block()) {
							cond, pos := g.Cond, g.Positive
							if u, isU := cond.(*ssa.UnOp); isU && u.Op == token.NOT {
								cond, pos = u.X, !pos
							}
							if pa, isP := cond.(*ssa.Parameter); isP {
								if a := argOf(pa); a != nil {
									for _, e := range expandCond(a, pos, 0) {
										if at, okA := condAtom(e.Cond, e.Positive); okA {
											gs = append(gs, at.canon())
										}
									}
									continue
								}
							}
							if at, okA := condAtom(cond, pos); okA {
								gs = append(gs, at.canon())
							}
						}
						for _, a := range handlerAlts(fo.Call.Args[0], 0) {
							if a.kind == "param" {
								var bound ssa.Value
								for _, q := range h.Params {
									if q.Name() == a.name {
										bound = argOf(q)
									}
								}
								if bound == nil {
									resolved = false
									continue
								}
								for _, b := range handlerAlts(bound, 0) {
									i2 := inst
									i2.handler, i2.kind = b.name, b.kind
									i2.guards = append(append(append([]Atom{}, here...), gs...), b.guards...)
									insts = append(insts, i2)
								}
								continue
							}
							i2 := inst
							i2.handler, i2.kind = a.name, a.kind
							i2.guards = append(append(append([]Atom{}, here...), gs...), a.guards...)
							insts = append(insts, i2)
						}
					}
					if resolved && len(insts) > 0 {
						out = append(out, insts...)
						return
					}
				}
			}
			if !ok || calleeName(&call.Call) != "syscall/js.FuncOf" || len(call.Call.Args) != 1 {
				inst.handler, inst.kind, inst.guards = "?", "?", here
				out = append(out, inst)
				return
			}
			for _, a := range handlerAlts(call.Call.Args[0], 0) {
				i2 := inst
				i2.handler, i2.kind = a.name, a.kind
				i2.guards = append(append([]Atom{}, here...), a.guards...)
				out = append(out, i2)
			}
			return
		}
		callee := staticCallee(cc)
		if callee == nil || callee == fn || depth > 1 || len(callee.Blocks) == 0 || callee.Pkg != fn.Pkg {
			return
		}
		argOf := func(pname string) ssa.Value {
			for i, pa := range callee.Params {
				if pa.Name() == pname && i < len(cc.Args) {
					return cc.Args[i]
				}
			}
			return nil
		}
		for _, ci := range jsInstalls(callee, depth+1) {
			if ci.nameParam == "" && ci.kind != "param" {
				continue // the helper's own fixed installation: reported where the helper is examined
			}
			name := ci.name
			if ci.nameParam != "" {
				a := argOf(ci.nameParam)
				if a == nil {
					continue
				}
				n, ok := constString(a)
				if !ok {
					continue
				}
				name = n
			}
			// the handler parameter this alternative depends on, if any
			hparam := ""
			for _, pa := range callee.Params {
				if _, isSig := pa.Type().Underlying().(*types.Signature); isSig {
					for _, g := range ci.guards {
						if g.L == pa.Name() && (g.R == "nil" || g.R == "nil:"+pa.Type().String()) {
							hparam = pa.Name()
						}
					}
					if ci.kind == "param" && ci.handler == pa.Name() {
						hparam = pa.Name()
					}
				}
			}
			if hparam == "" {
				out = append(out, jsInstall{name: name, handler: ci.handler, kind: ci.kind, guards: here, instr: in})
				continue
			}
			arg := argOf(hparam)
			if arg == nil {
				continue
			}
			for _, a := range handlerAlts(arg, 0) {
				// is this argument alternative consistent with what the helper tests on the parameter?
				consistent := true
				for _, g := range ci.guards {
					if g.L != hparam || !strings.HasPrefix(g.R, "nil") {
						continue
					}
					if (g.Op == "==" && a.kind == "fn") || (g.Op == "!=" && a.kind == "nil") {
						consistent = false
					}
				}
				if !consistent {
					continue
				}
				i2 := jsInstall{name: name, handler: ci.handler, kind: ci.kind, instr: in}
				if ci.kind == "param" {
					i2.handler, i2.kind = a.name, a.kind
				}
				i2.guards = append(append([]Atom{}, here...), a.guards...)
				out = append(out, i2)
			}
		}
	})
	return out
}

// flagMasks: the masks M of atoms `(f&M) op 0` among guards.
func flagMasks(guards []Atom, op string) []int64 {
	var out []int64
	for _, g := range guards {
		if g.Op != op || g.R != "0" || !strings.HasPrefix(g.L, "(f&") || !strings.HasSuffix(g.L, ")") {
			continue
		}
		var m int64
		if _, err := fmt.Sscanf(g.L[3:len(g.L)-1], "%d", &m); err == nil {
			out = append(out, m)
		}
	}
	return out
}

func checkC19Mouse(c *Ctx, p *Prog) {
	fn := p.Fn("tcell:(*wScreen).enableMouse")
	if fn == nil {
		c.Undecided("C19-R4", "(*wScreen).enableMouse", "-", "function not found")
		return
	}
	want := map[string][]string{ // js hook -> flag constants whose test must guard the real handler
		"onMouseClick": {"1"},
		"onMouseMove":  {"2", "4"},
	}
	for _, s := range jsSetSites(fn) {
		flags, ok := want[s.name]
		if !ok {
			continue
		}
		guards := s.guards
		gs := []string{}
		for _, g := range guards {
			gs = append(gs, g.String())
		}
		gtxt := strings.Join(gs, " ∧ ")
		var all int64
		for _, fl := range flags {
			var m int64
			fmt.Sscanf(fl, "%d", &m)
			all |= m
		}
		if s.handler == "onMouseEvent" {
			// must be under (f & M) != 0 for a mask M made of the hook's flags only; the `||`
			// form of two tests leaves no single dominating edge, so accept: the *unset*
			// sibling is under the conjunction of both == 0 tests (checked below)
			okg := false
			for _, m := range flagMasks(guards, "!=") {
				if m != 0 && m&^all == 0 {
					okg = true
				}
			}
			if len(flags) > 1 {
				okg = okg || c19UnsetGuarded(fn, s.name, all)
			}
			c.Check(okg, "C19-R4", "enableMouse:"+s.name+"=onMouseEvent", p.pos(s.instr.Pos()), "guards: "+gtxt)
		} else if s.handler == "unset" {
			var zero int64
			for _, m := range flagMasks(guards, "==") {
				zero |= m
			}
			c.Check(zero&all == all, "C19-R4", "enableMouse:"+s.name+"=unset", p.pos(s.instr.Pos()), "guards: "+gtxt)
		} else {
			c.Fail("C19-R4", "enableMouse:"+s.name+"="+s.handler, p.pos(s.instr.Pos()), "unexpected handler")
		}
	}
	// Init installs unset for mouse hooks
	if init := p.Fn("tcell:(*wScreen).Init"); init != nil {
		for _, s := range jsSetSites(init) {
			if s.name == "onMouseClick" || s.name == "onMouseMove" {
				c.Check(s.handler == "unset", "C19-R4", "Init:"+s.name+"="+s.handler, p.pos(s.instr.Pos()), "mouse hooks are inert until EnableMouse")
			}
		}
	}
	// onMouseEvent: button code 0 (pure motion) is dropped unless MouseMotionEvents
	om := p.Fn("tcell:(*wScreen).onMouseEvent")
	if om == nil {
		c.Undecided("C19-R4", "(*wScreen).onMouseEvent", "-", "function not found")
		return
	}
	posts := callsIn(om, func(n string, cc *ssa.CallCommon) bool { return strings.HasSuffix(n, ".postEvent") })
	if len(posts) == 0 {
		c.Undecided("C19-R4", "onMouseEvent:post", "-", "no postEvent call found")
	}
	// find the block where (mouseFlags & 4) == 0 → return; it must be reached exactly under button == 0
	found := false
	for _, b := range om.Blocks {
		if len(b.Instrs) == 0 {
			continue
		}
		iff, ok := b.Instrs[len(b.Instrs)-1].(*ssa.If)
		if !ok {
			continue
		}
		at, _ := condAtom(iff.Cond, true)
		at = at.canon()
		if strings.Contains(at.L, "mouseFlags") && strings.Contains(at.L, "&4") && at.R == "0" {
			// the drop edge must lead to a return without post; the keep edge to the post
			dropIdx := 0
			if at.Op == "!=" {
				dropIdx = 1
			}
			drop := b.Succs[dropIdx]
			reach := blocksReachableFrom(b)
			_ = reach
			dropsToPost := false
			seen := map[*ssa.BasicBlock]bool{}
			var walk func(x *ssa.BasicBlock)
			walk = func(x *ssa.BasicBlock) {
				if seen[x] {
					return
				}
				seen[x] = true
				for _, ps := range posts {
					if ps.Block() == x {
						dropsToPost = true
					}
				}
				for _, s := range x.Succs {
					walk(s)
				}
			}
			walk(drop)
			g := guardsAt(b)
			isBtn0 := false
			for _, a := range g {
				if a.Op == "==" && a.R == "0" && strings.Contains(a.L, "Int(") {
					isBtn0 = true
				}
			}
			c.Check(!dropsToPost && isBtn0, "C19-R4", "onMouseEvent:motion-gate", p.pos(iff.Pos()), fmt.Sprintf("button-less move dropped unless MouseMotionEvents (guard button==0: %v, drop edge avoids post: %v)", isBtn0, !dropsToPost))
			found = true
		}
	}
	if !found {
		c.Fail("C19-R4", "onMouseEvent:motion-gate", p.pos(om.Pos()), "no test of mouseFlags&MouseMotionEvents guards the button-less move")
	}
}

// c19UnsetGuarded: the `unset` sibling for hook is installed under all flags == 0.
func c19UnsetGuarded(fn *ssa.Function, hook string, all int64) bool {
	for _, s := range jsSetSites(fn) {
		if s.name == hook && s.handler == "unset" {
			var zero int64
			for _, m := range flagMasks(s.guards, "==") {
				zero |= m
			}
			return zero&all == all
		}
	}
	return false
}

func checkC19Draw(c *Ctx, p *Prog) {
	fn := p.Fn("tcell:(*wScreen).drawCell")
	if fn == nil {
		c.Undecided("C19-R5", "(*wScreen).drawCell", "-", "function not found")
		return
	}
	checkDirtyGate(c, p, fn, "C19-R5", func(in ssa.Instruction) bool {
		_, ok := webDrawContent(in)
		return ok
	}, 1)
	checkDrawCellWidth(c, p, fn, "C19-R5")
	checkResolvedStyle(c, p, fn, "C19-R5")
	// R11: the page keeps one node per column.  A painted wide rune must empty the nodes of the columns it
	// covers (a loop bounded by the cell's width whose drawCell call passes the constant "" as content),
	// or what those nodes held stays on the page beside it.
	{
		var width ssa.Value
		eachInstr(fn, func(in ssa.Instruction) {
			if ex, ok := in.(*ssa.Extract); ok && ex.Index == 3 {
				if call, isCall := ex.Tuple.(*ssa.Call); isCall && strings.HasSuffix(calleeName(&call.Call), "CellBuffer).GetContent") {
					width = ex
				}
			}
		})
		ok, detail := false, "no drawCell call with empty content in a loop bounded by the cell's width"
		loops := loopsOf(fn)
		eachInstr(fn, func(in ssa.Instruction) {
			content, isDraw := webDrawContent(in)
			if !isDraw || content == nil {
				return
			}
			if s, isC := constString(content); !isC || s != "" {
				return
			}
			// the column that is emptied stays below the grid's width: a test `column < t.w` on the very
			// value passed (a bound taken from a clamp to the last valid index stops one column short)
			col := webDrawColumn(in)
			inGrid := false
			if col != nil {
				for _, a := range guardsAt(in.Block()) {
					if (a.L == valName(col) && a.Op == "<" && a.R == "t.w") || (a.L == "t.w" && a.Op == ">" && a.R == valName(col)) {
						inGrid = true
					}
				}
			}
			for h, body := range loops {
				if !body[in.Block()] {
					continue
				}
				// the loop test compares the counter with the width
				if iff, isIf := h.Instrs[len(h.Instrs)-1].(*ssa.If); isIf {
					if dependsOn(iff.Cond, derefCellOrSelf(width), 4) {
						if inGrid {
							ok, detail = true, "covered columns x+1 .. x+width-1 below the grid's width are emptied right after the wide cell is painted"
						} else {
							detail = "the emptied column is not tested against the grid's width (column < t.w)"
						}
					}
				}
			}
		})
		c.Check(ok && width != nil, "C19-R11", "(*wScreen).drawCell:covered-columns-emptied", p.pos(fn.Pos()), detail)
	}
	// the sixteen basic colours: what paletteColor answers for ColorBlack … ColorWhite, decided by
	// constant evaluation (T18) whatever the table looks like (a map, an array indexed from ColorBlack, a
	// switch); the reading of a map literal below remains for the case it cannot be carried out
	if pc := p.Fn("tcell:paletteColor"); pc != nil && len(pc.Params) == 1 {
		ce := &constEval{pk: p.pkg(""), globals: map[*ssa.Global]*cv{}}
		base := pkgConst(p, "ColorBlack")
		okEval := true
		got := map[int]int64{}
		for i := 0; i < 16 && okEval; i++ {
			rets, err := ce.call(p, pc, map[*ssa.Parameter]*cv{pc.Params[0]: cvI(base + int64(i))})
			if err != nil || len(rets) != 1 || rets[0].kind != cvInt {
				okEval = false
				break
			}
			got[i] = rets[0].i
		}
		if okEval {
			for i := 0; i < 16; i++ {
				c.Check(got[i] == xtermBasic16[i], "C19-R5", fmt.Sprintf("palette[%d]", i), p.pos(pc.Pos()), fmt.Sprintf("got %#06x want %#06x", got[i], xtermBasic16[i]))
			}
			return
		}
	}
	// palette table
	tp := p.pkg("")
	obj := tp.Types.Scope().Lookup("palette")
	if obj == nil {
		c.Undecided("C19-R5", "palette", "-", "table not found")
		return
	}
	vals := mapLiteralInts(tp, obj)
	if vals == nil {
		c.Undecided("C19-R5", "palette", p.pos(obj.Pos()), "palette is not a constant map literal")
		return
	}
	for i := 0; i < 16; i++ {
		key := int64(1<<32) + int64(i) // ColorValid + i
		got, ok := vals[key]
		c.Check(ok && got == xtermBasic16[i], "C19-R5", fmt.Sprintf("palette[%d]", i), p.pos(obj.Pos()), fmt.Sprintf("got %#06x want %#06x", got, xtermBasic16[i]))
	}
}

// checkC19Keys: Ctrl+ArrowUp, Ctrl+Enter, Ctrl+F5 … are named keys with a
// modifier.  They are found in WebKeyNames under their plain name; the
// synthetic "Ctrl-x" names exist only for letters.
func checkC19Keys(c *Ctx, p *Prog) {
	fn := p.Fn("tcell:(*wScreen).onKeyEvent")
	if fn == nil {
		c.Undecided("C19-R7", "(*wScreen).onKeyEvent", "-", "not found")
		return
	}
	n, plain := 0, false
	detail := ""
	// (in onKeyEvent or in the helper it translates the key name with: a parameter stands for the
	// argument passed)
	for _, d := range deepInstrs(p, fn, 1, nil) {
		in := d.in
		lk, ok := in.(*ssa.Lookup)
		if !ok {
			continue
		}
		ld, ok := lk.X.(*ssa.UnOp)
		if !ok {
			continue
		}
		g, ok := ld.X.(*ssa.Global)
		if !ok || g.Name() != "WebKeyNames" {
			continue
		}
		n++
		// the plain name: the string taken from the callback's argument, unmodified
		call, ok := d.bindVal(lk.Index).(*ssa.Call)
		if !ok || !strings.HasSuffix(calleeName(&call.Call), "js.Value).String") {
			detail += "lookup under " + valName(lk.Index) + "; "
			continue
		}
		modDep := false
		for _, a := range d.atoms() {
			if strings.Contains(a.L, "mod") && (a.Op == "==" || a.Op == "!=") {
				modDep = true
			}
		}
		if !modDep {
			plain = true
		}
	}
	c.Check(plain, "C19-R7", "onKeyEvent:plain-name-lookup", p.pos(fn.Pos()), fmt.Sprintf("%d lookups in WebKeyNames, one of them under the unmodified key name and independent of the modifiers: %v %s", n, plain, detail))
}

func derefCellOrSelf(v ssa.Value) ssa.Value {
	if v == nil {
		return nil
	}
	return derefCell(v)
}

// webDrawContent: in hands one column to the page — js.Global().Call("drawCell", x, y, content, …)
// directly, or through a module helper whose body is that call with the content taken from one of its
// parameters (`putCell(x, y, text, …)`).  Returns the content value as seen at the call site.
func webDrawContent(in ssa.Instruction) (ssa.Value, bool) {
	direct := func(in ssa.Instruction) (ssa.Value, bool) {
		cc := callCommon(in)
		if cc == nil || calleeName(cc) != "(syscall/js.Value).Call" || len(cc.Args) < 3 {
			return nil, false
		}
		if s, _ := constString(cc.Args[1]); s != "drawCell" {
			return nil, false
		}
		n, vals, okV := varargCount(cc.Args[2])
		if !okV || n < 3 {
			return nil, true
		}
		content := vals[2]
		if mi, isMI := content.(*ssa.MakeInterface); isMI {
			content = mi.X
		}
		return content, true
	}
	if v, ok := direct(in); ok {
		return v, true
	}
	cc := callCommon(in)
	if cc == nil {
		return nil, false
	}
	h := cc.StaticCallee()
	if h == nil || in.Parent() == nil || h.Pkg != in.Parent().Pkg || len(h.Blocks) == 0 || h.Name() == "drawCell" {
		return nil, false
	}
	var content ssa.Value
	found := false
	eachInstr(h, func(hin ssa.Instruction) {
		v, ok := direct(hin)
		if !ok {
			return
		}
		found = true
		if pa, isP := v.(*ssa.Parameter); isP {
			for i, q := range h.Params {
				if q == pa && i < len(cc.Args) {
					content = cc.Args[i]
				}
			}
		}
	})
	return content, found
}

// webDrawColumn: the column argument of a drawCell emission (direct call or through the helper).
func webDrawColumn(in ssa.Instruction) ssa.Value {
	cc := callCommon(in)
	if cc == nil {
		return nil
	}
	if calleeName(cc) == "(syscall/js.Value).Call" && len(cc.Args) >= 3 {
		if n, vals, ok := varargCount(cc.Args[2]); ok && n >= 1 && vals[0] != nil {
			v := vals[0]
			if mi, isMI := v.(*ssa.MakeInterface); isMI {
				v = mi.X
			}
			return v
		}
		return nil
	}
	// helper: putCell(x, y, …): the first int argument
	for _, a := range cc.Args {
		if bt, ok := a.Type().Underlying().(*types.Basic); ok && bt.Kind() == types.Int {
			return a
		}
	}
	return nil
}

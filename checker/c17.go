package main

import (
	"fmt"
	"go/ast"
	"go/token"
	"go/types"
	"sort"
	"strings"

	"golang.org/x/tools/go/ssa"
)

func init() {
	register("C17", checkC17, "What each charset encodes is external and not decided. Decided: in encodeRune's failure branch the ACS map is consulted before the fallback map and '?' comes last, and the failure predicate looks at the error, a zero length and the SUB byte; CanDisplay's success predicate is the Boolean negation of that failure predicate over the same three observations (encodings are pluggable, so the agreement must be logical), its ACS lookup is independent of checkFallbacks and its fallback lookup depends on it; the ACS name table maps each of the 32 terminfo(5) acsc letters to the Rune constant of the glyph terminfo(5) assigns to it and those constants are the corresponding Unicode characters; buildAcsMap brackets each glyph with EnterAcs/ExitAcs and walks AltChars in pairs including the last pair; getCharset reads LC_ALL, LC_CTYPE, LANG in that order and maps POSIX/C to US-ASCII; the fallback map is only ever consulted directly (never copied), so (un)registration takes effect at the next draw; RegisterEncoding and GetEncoding normalise the name identically under the registry lock.")
}

var acscNames = map[byte]string{
	'+': "RuneRArrow", ',': "RuneLArrow", '-': "RuneUArrow", '.': "RuneDArrow", '0': "RuneBlock", '`': "RuneDiamond",
	'a': "RuneCkBoard", 'f': "RuneDegree", 'g': "RunePlMinus", 'h': "RuneBoard", 'i': "RuneLantern",
	'j': "RuneLRCorner", 'k': "RuneURCorner", 'l': "RuneULCorner", 'm': "RuneLLCorner", 'n': "RunePlus",
	'o': "RuneS1", 'p': "RuneS3", 'q': "RuneHLine", 'r': "RuneS7", 's': "RuneS9",
	't': "RuneLTee", 'u': "RuneRTee", 'v': "RuneBTee", 'w': "RuneTTee", 'x': "RuneVLine",
	'y': "RuneLEqual", 'z': "RuneGEqual", '{': "RunePi", '|': "RuneNEqual", '}': "RuneSterling", '~': "RuneBullet",
}

// Unicode code points of the glyphs (Unicode box drawing / symbols; independent of tcell)
var runeUnicode = map[string]rune{
	"RuneRArrow": 0x2192, "RuneLArrow": 0x2190, "RuneUArrow": 0x2191, "RuneDArrow": 0x2193, "RuneBlock": 0x2588,
	"RuneDiamond": 0x25C6, "RuneCkBoard": 0x2592, "RuneDegree": 0x00B0, "RunePlMinus": 0x00B1, "RuneBoard": 0x2591,
	"RuneLRCorner": 0x2518, "RuneURCorner": 0x2510, "RuneULCorner": 0x250C, "RuneLLCorner": 0x2514, "RunePlus": 0x253C,
	"RuneS1": 0x23BA, "RuneS3": 0x23BB, "RuneHLine": 0x2500, "RuneS7": 0x23BC, "RuneS9": 0x23BD,
	"RuneLTee": 0x251C, "RuneRTee": 0x2524, "RuneBTee": 0x2534, "RuneTTee": 0x252C, "RuneVLine": 0x2502,
	"RuneLEqual": 0x2264, "RuneGEqual": 0x2265, "RunePi": 0x03C0, "RuneNEqual": 0x2260, "RuneSterling": 0x00A3, "RuneBullet": 0x00B7,
}

func checkC17(c *Ctx) {
	c.Rule("C17-R1", "encodeRune: failure predicate over (error, zero length, SUB byte); ACS lookup before fallback lookup before '?'")
	c.Rule("C17-R2", "CanDisplay's success predicate is the negation of encodeRune's failure predicate; ACS lookup independent of checkFallbacks, fallback lookup dependent on it")
	c.Rule("C17-R3", "vtACSNames maps the 32 terminfo(5) acsc letters to the right Rune constants (which are the right Unicode characters); buildAcsMap brackets glyphs with EnterAcs/ExitAcs and walks AltChars in pairs including the last")
	c.Rule("C17-R4", "getCharset: LC_ALL, then LC_CTYPE, then LANG; POSIX and C mean US-ASCII")
	c.Rule("C17-R10", "drawCell hands every combining rune GetContent returned to the encoder: the encodeRune call in the loop over the combining list is guarded by the loop alone, not by the charset's name or a flag of the screen")
	c.Expect("C17-R10", 1)
	c.Rule("C17-R9", "cell content reaches the charset encoder one rune at a time through encodeRune, called by drawCell only with the runes GetContent returned (the failure test - empty output or a leading SUB - is a test of one rune's output)")
	c.Rule("C17-R11", "always occupying the cell's width: whether a wide cell is padded after a narrow substitute is decided by what happened to its main rune, never by a flag the combining runes' encoder calls can overwrite")
	c.Expect("C17-R11", 1)
	c.Rule("C17-R12", "always occupying the cell's width: ACS glyph, fallback string and '?' are written only while nothing has been written for the cell (the main rune); an unrepresentable combining rune is elided whatever its Unicode category (= C18-R11)")
	c.Expect("C17-R12", 2)
	c.Rule("C17-R13", "the ACS glyph for every rune the description provides one for: the table is filled from the acsc string whatever the locale's character set (a charset that has the box-drawing runes may still lack diamond, pi, arrows: which rune needs the glyph is decided per cell)")
	c.Expect("C17-R13", 1)
	c.Rule("C17-R14", "the terminal's ACS glyph, with this terminal's enter and exit sequences: the table a screen uses is a map made for it, never one taken from a package-level cache keyed by the acsc string alone")
	c.Expect("C17-R14", 1)
	c.Expect("C17-R9", 3)
	c.Rule("C17-R5", "the fallback map is consulted by direct lookup only and never copied after construction; it is seeded where it is made (before the application holds the screen) and afterwards changed one entry at a time by Register/Unregister only")
	c.Rule("C17-R6", "RegisterEncoding and GetEncoding apply the same name normalisation under the registry lock; GetEncoding returns nil only when no fallback is configured")
	c.Rule("C17-R8", "the charset registration table: every name is registered with the encoding object of the same name (names compared without case and punctuation); every alias points at a registered name with the same digits/letters core")
	c.Expect("C17-R8", 25)
	c.Rule("C17-R7", "the buffer the charset encoder writes into has a constant size of at least 4 bytes in encodeRune and CanDisplay (not sized by the rune's UTF-8 length)")
	c.Expect("C17-R7", 2)
	for r, n := range map[string]int{"C17-R1": 3, "C17-R2": 3, "C17-R3": 32 + 31 + 3, "C17-R4": 3, "C17-R5": 3, "C17-R6": 3} {
		c.Expect(r, n)
	}
	p := c.P("linux")
	if p == nil || p.Tcell == nil {
		c.Undecided("C17-R1", "package tcell", "-", "not loaded")
		return
	}
	checkWidePaddingFromMainRune(c, p, "C17-R11")
	checkFallbackOnlyForMainRune(c, p, "C17-R12")
	checkAcsMapUnconditional(c, p, "C17-R13")
	checkAcsMapOwnedByScreen(c, p, "C17-R14")
	c.Rule("C17-R15", "the terminal's own glyph for every rune its acsc names: the entry made for a pair does not depend on the value of the glyph byte (PC-console descriptions use control bytes as glyphs, shown under their alternate charset)")
	c.Expect("C17-R15", 1)
	checkAcsGlyphsTakenAsGiven(c, p, "C17-R15")
	enc := p.Fn("tcell:(*tScreen).encodeRune")
	can := p.Fn("tcell:(*tScreen).CanDisplay")
	if enc == nil || can == nil {
		c.Undecided("C17-R1", "encodeRune/CanDisplay", "-", "not found")
		return
	}
	checkEncodeDst(c, p, transformHost(p, enc), "C17-R7")
	if len(callsIn(can, func(_ string, cc *ssa.CallCommon) bool { return cc.IsInvoke() && cc.Method.Name() == "Transform" })) > 0 {
		checkEncodeDst(c, p, can, "C17-R7")
	} else {
		eachInstr(can, func(in ssa.Instruction) {
			if cc := callCommon(in); cc != nil {
				if h := cc.StaticCallee(); h != nil && h.Pkg == p.Tcell && len(h.Blocks) > 0 && len(callsIn(h, func(_ string, c2 *ssa.CallCommon) bool { return c2.IsInvoke() && c2.Method.Name() == "Transform" })) > 0 {
					c.asRule("C17-R7", "C17-R7", func() { checkEncodeDst(c, p, h, "C17-R7") })
				}
			}
		})
	}
	// Which bytes count as "the encoder could not do it" is decided where its output is *used*: the
	// append of the encoded bytes (encodeRune) and the answer "yes" (CanDisplay, or the helper holding its
	// encoder call) must each sit behind all three success tests — no error, a non-zero length, a first
	// byte other than SUB — however the function is laid out (failure branch first, or success first with
	// an early return).  The two functions then agree because they pass the same three tests.
	success := []string{"T#2 == nil", "T#0 != 0", "out[0] != 26"}
	encAtoms := encSuccessAtoms
	hasAll := func(m map[string]bool) bool {
		for _, w := range success {
			if !m[w] {
				return false
			}
		}
		return true
	}
	// encodeRune: the append of the encoder's output — or, when a helper transcodes the rune, the
	// return by which the helper hands the output out
	okF, detailF := false, "no append of the encoder's output found"
	encHost := transformHost(p, enc)
	eachInstr(encHost, func(in ssa.Instruction) {
		var sl *ssa.Slice
		switch x := in.(type) {
		case *ssa.Call:
			if b, isB := x.Call.Value.(*ssa.Builtin); !isB || b.Name() != "append" || len(x.Call.Args) != 2 {
				return
			}
			sl, _ = x.Call.Args[1].(*ssa.Slice)
		case *ssa.Return:
			if encHost == enc {
				return
			}
			for _, r := range x.Results {
				if s2, isSl := r.(*ssa.Slice); isSl {
					sl = s2
				}
			}
		}
		if sl == nil || sl.High == nil || !strings.HasPrefix(encNorm(sl.High), "T#0") {
			return
		}
		m := encAtoms(rawGuardsAt(in.Block()))
		okF = hasAll(m)
		detailF = fmt.Sprintf("the encoded bytes are appended under %v", sortedKeys(m))
	})
	c.Check(okF, "C17-R1", "encodeRune:failure-predicate", p.pos(enc.Pos()), detailF+" (want no error, non-zero length, first byte not SUB; everything else falls back)")
	// CanDisplay: the function that holds the encoder call (CanDisplay itself or a helper it calls)
	host := can
	if len(callsIn(can, func(_ string, cc *ssa.CallCommon) bool { return cc.IsInvoke() && cc.Method.Name() == "Transform" })) == 0 {
		eachInstr(can, func(in ssa.Instruction) {
			if cc := callCommon(in); cc != nil {
				if h := cc.StaticCallee(); h != nil && h.Pkg == p.Tcell && len(h.Blocks) > 0 {
					if len(callsIn(h, func(_ string, c2 *ssa.CallCommon) bool { return c2.IsInvoke() && c2.Method.Name() == "Transform" })) > 0 {
						host = h
					}
				}
			}
		})
	}
	same, detailC := false, "no 'representable' answer behind the encoder's results found"
	for _, r := range returnsOf(host) {
		if len(r.Results) != 1 {
			continue
		}
		res := derefCell(resultOf(r, 0))
		var m map[string]bool
		if v, isC := constBool(res); isC {
			if !v {
				continue
			}
			m = encAtoms(rawGuardsAt(r.Block()))
		} else {
			m = encAtoms(append(rawGuardsAt(r.Block()), expandCond(res, true, 0)...))
		}
		if len(m) == 0 {
			continue
		}
		same = hasAll(m)
		detailC = fmt.Sprintf("%s answers 'representable' under %v", host.Name(), sortedKeys(m))
	}
	c.Check(same, "C17-R2", "CanDisplay≡¬failure", p.pos(can.Pos()), detailC+" (the same three tests as encodeRune)")
	// ---- R1 order of lookups
	lookups := func(fn *ssa.Function, field string) []ssa.Instruction {
		var out []ssa.Instruction
		eachInstr(fn, func(in ssa.Instruction) {
			if lk, ok := in.(*ssa.Lookup); ok {
				if ref, _, ok := loadedField(lk.X); ok && ref.String() == "tcell.tScreen."+field {
					out = append(out, in)
				}
			}
		})
		return out
	}
	// the choice of the substitute may live in a helper of encodeRune (substituteFor, …)
	subHost := enc
	if len(lookups(enc, "acs")) == 0 {
		eachInstr(enc, func(in ssa.Instruction) {
			if cc := callCommon(in); cc != nil {
				if h := cc.StaticCallee(); h != nil && h.Pkg == p.Tcell && len(h.Blocks) > 0 && len(lookups(h, "acs")) > 0 {
					subHost = h
				}
			}
		})
	}
	acsL, fbL := lookups(subHost, "acs"), lookups(subHost, "fallback")
	okOrder := len(acsL) == 1 && len(fbL) == 1 && instrDominates(acsL[0], fbL[0])
	// fallback consulted only when the acs lookup failed
	if okOrder {
		okOrder = false
		for _, g := range rawGuardsAt(fbL[0].Block()) {
			if ex, ok := g.Cond.(*ssa.Extract); ok && ex.Tuple == ssa.Value(acsL[0].(*ssa.Lookup)) && ex.Index == 1 && !g.Positive {
				okOrder = true
			}
		}
	}
	if !okOrder && len(acsL) == 1 && len(fbL) == 1 {
		// both tables looked up in advance: what counts is where the fallback string is used
		uses, open := 0, 0
		for _, r := range referrers(fbL[0].(*ssa.Lookup)) {
			ex, isEx := r.(*ssa.Extract)
			if !isEx || ex.Index != 0 {
				continue
			}
			for _, u := range referrers(ex) {
				if _, isDbg := u.(*ssa.DebugRef); isDbg {
					continue
				}
				uses++
				behind := false
				for _, g := range rawGuardsAt(u.Block()) {
					if gx, ok := g.Cond.(*ssa.Extract); ok && gx.Tuple == ssa.Value(acsL[0].(*ssa.Lookup)) && gx.Index == 1 && !g.Positive {
						behind = true
					}
				}
				if !behind {
					open++
				}
			}
		}
		okOrder = uses > 0 && open == 0
	}
	c.Check(okOrder, "C17-R1", "encodeRune:acs-before-fallback", p.pos(enc.Pos()), "the fallback map is consulted (or its answer used) only on the not-found edge of the ACS lookup")
	// '?' only when the fallback lookup failed
	okQ := false
	notFound := func(b *ssa.BasicBlock) bool {
		for _, g := range rawGuardsAt(b) {
			if ex, ok := g.Cond.(*ssa.Extract); ok && len(fbL) == 1 && ex.Tuple == ssa.Value(fbL[0].(*ssa.Lookup)) && ex.Index == 1 && !g.Positive {
				return true
			}
		}
		return false
	}
	eachInstr(subHost, func(in ssa.Instruction) {
		switch x := in.(type) {
		case *ssa.Store: // append(buf, '?')
			if k, ok := constInt(x.Val); ok && k == '?' && notFound(in.Block()) {
				okQ = true
			}
		case *ssa.Return: // return "?"
			for _, r := range x.Results {
				if s, isS := constString(r); isS && s == "?" && notFound(in.Block()) {
					okQ = true
				}
			}
		case *ssa.Phi: // sub := "?"; if … { sub = acs } else if … { sub = fb }   (or the returned value)
			for i, e := range x.Edges {
				if s, isS := constString(e); isS && s == "?" {
					for _, g := range rawGuardsOnEdge(x.Block().Preds[i], x.Block()) {
						if ex, ok := g.Cond.(*ssa.Extract); ok && len(fbL) == 1 && ex.Tuple == ssa.Value(fbL[0].(*ssa.Lookup)) && ex.Index == 1 && !g.Positive {
							okQ = true
						}
					}
				}
			}
		}
	})
	c.Check(okQ, "C17-R1", "encodeRune:question-mark-last", p.pos(enc.Pos()), "'?' is appended only on the not-found edge of the fallback lookup")
	// ---- R2 dependence on checkFallbacks
	cAcs, cFb := lookups(can, "acs"), lookups(can, "fallback")
	dep := func(in ssa.Instruction) bool {
		for _, a := range guardsAt(in.Block()) {
			if a.L == "checkFallbacks" {
				return true
			}
		}
		return false
	}
	c.Check(len(cAcs) == 1 && !dep(cAcs[0]), "C17-R2", "CanDisplay:acs-always", p.pos(can.Pos()), "terminal ACS glyphs count regardless of checkFallbacks")
	// the lookup is made only when asked for, or (made anyway) its outcome is used only where
	// checkFallbacks is known to hold (`isACS || (checkFallbacks && hasFallback)`)
	okFb := len(cFb) == 1 && dep(cFb[0])
	if len(cFb) == 1 && !okFb {
		gated := func(b *ssa.BasicBlock) bool {
			for _, a := range guardsAt(b) {
				if a.L == "checkFallbacks" && ((a.Op == "==" && a.R == "true") || (a.Op == "!=" && a.R == "false")) {
					return true
				}
			}
			return false
		}
		nUse, allGated := 0, true
		for _, r := range referrers(cFb[0].(ssa.Value)) {
			ex, isEx := r.(*ssa.Extract)
			if !isEx || ex.Index != 1 {
				continue
			}
			for _, u := range referrers(ex) {
				switch x := u.(type) {
				case *ssa.Phi:
					for i, e := range x.Edges {
						if e == ssa.Value(ex) {
							nUse++
							if !gated(x.Block().Preds[i]) {
								allGated = false
							}
						}
					}
				case *ssa.If:
					nUse++
					if !gated(x.Block()) {
						allGated = false
					}
				default:
					nUse++
					allGated = false
				}
			}
		}
		okFb = nUse > 0 && allGated
	}
	c.Check(okFb, "C17-R2", "CanDisplay:fallback-only-if-asked", p.pos(can.Pos()), "registered fallbacks count only with checkFallbacks")
	c17Acs(c, p)
	c17Charset(c, p)
	// ---- R5
	bad := []string{}
	n := 0
	for _, fn := range p.modFns {
		if fn.Pkg != p.Tcell {
			continue
		}
		for _, ld := range loadsOf(fn, "tcell.tScreen", "fallback") {
			n++
			for _, r := range referrers(ld) {
				switch x := r.(type) {
				case *ssa.Lookup, *ssa.MapUpdate:
				case *ssa.Call:
					if b, ok := x.Call.Value.(*ssa.Builtin); ok && b.Name() == "delete" {
						continue
					}
					bad = append(bad, fn.Name()+": passed to "+calleeName(&x.Call))
				default:
					bad = append(bad, fmt.Sprintf("%s: used by %T", fn.Name(), r))
				}
			}
		}
	}
	c.Check(len(bad) == 0 && n >= 4, "C17-R5", "fallback:direct-lookups-only", "-", fmt.Sprintf("%d uses of t.fallback; uses other than lookup/update/delete: %v", n, bad))
	// the table's writers: the constructor seeds it (in the function that makes the map, i.e. before the
	// application can hold the screen), Register adds one entry, Unregister deletes one.  A later bulk
	// insertion (seeding moved into Init, say) brings back what the application unregistered in between.
	{
		badW := ""
		nW := 0
		for _, fn := range p.modFns {
			if fn.Pkg != p.Tcell {
				continue
			}
			makes := false
			for _, st := range storesTo(fn, "tcell.tScreen", "fallback") {
				if _, ok := st.Val.(*ssa.MakeMap); ok {
					makes = true
				}
			}
			for _, ld := range loadsOf(fn, "tcell.tScreen", "fallback") {
				for _, r := range referrers(ld) {
					mu, ok := r.(*ssa.MapUpdate)
					if !ok {
						continue
					}
					nW++
					inLoop := false
					for _, body := range loopsOf(fn) {
						if body[mu.Block()] {
							inLoop = true
						}
					}
					switch {
					case makes:
						// seeding at construction
					case fn.Name() == "RegisterRuneFallback" && !inLoop:
					default:
						badW += fmt.Sprintf("%s inserts into the table at %s (in a loop: %v) although it did not create it; ", fn.Name(), p.pos(mu.Pos()), inLoop)
					}
				}
			}
		}
		c.Check(badW == "" && nW >= 2, "C17-R5", "fallback:writers", "-", fmt.Sprintf("%d insertions: seeding where the map is made, one entry in RegisterRuneFallback %s", nW, badW))
	}
	c.asRule("C09-R4", "C17-R9", func() { c09Payload(c, p) })
	checkFallbackOwnership(c, p, "C17-R5", "tScreen")
	checkCombiningUnconditional(c, p, "C17-R10")
	c17Registry(c, p)
	c17Table(c, p)
}

// c17Table: constant extraction of encoding/all.go's registration table.
func c17Table(c *Ctx, p *Prog) { charsetTableRule(c, p, "C17-R8") }

func charsetTableRule(c *Ctx, p *Prog, rule string) {
	pk := p.pkg("encoding")
	if pk == nil {
		c.Undecided(rule, "package encoding", "-", "not loaded")
		return
	}
	normName := func(s string) string {
		var b strings.Builder
		for _, r := range strings.ToUpper(s) {
			if (r >= 'A' && r <= 'Z') || (r >= '0' && r <= '9') {
				b.WriteRune(r)
			}
		}
		return b.String()
	}
	type pair struct {
		name, obj string
		pos       token.Pos
	}
	var pairs []pair
	nonConst := 0
	aliases := map[string]string{}
	var aliasPos token.Pos
	for _, f := range pk.Syntax {
		ast.Inspect(f, func(n ast.Node) bool {
			switch x := n.(type) {
			case *ast.CallExpr:
				sel, ok := x.Fun.(*ast.SelectorExpr)
				if !ok || sel.Sel.Name != "RegisterEncoding" || len(x.Args) != 2 {
					return true
				}
				name, okN := strConst(pk.TypesInfo, x.Args[0])
				obj, okO := x.Args[1].(*ast.SelectorExpr)
				if okN && okO {
					pairs = append(pairs, pair{name, obj.Sel.Name, x.Pos()})
				} else {
					nonConst++
				}
			case *ast.CompositeLit:
				// table rows {"NAME", pkg.Object}
				if len(x.Elts) == 2 {
					name, okN := strConst(pk.TypesInfo, x.Elts[0])
					obj, okO := x.Elts[1].(*ast.SelectorExpr)
					if okN && okO {
						pairs = append(pairs, pair{name, obj.Sel.Name, x.Pos()})
					}
				}
				// the alias map
				if mt, ok := pk.TypesInfo.TypeOf(x).(*types.Map); ok {
					if kb, ok := mt.Key().Underlying().(*types.Basic); ok && kb.Kind() == types.String {
						if vb, ok := mt.Elem().Underlying().(*types.Basic); ok && vb.Kind() == types.String {
							aliasPos = x.Pos()
							for _, e := range x.Elts {
								if kv, ok := e.(*ast.KeyValueExpr); ok {
									k, ok1 := strConst(pk.TypesInfo, kv.Key)
									v, ok2 := strConst(pk.TypesInfo, kv.Value)
									if ok1 && ok2 {
										aliases[k] = v
									}
								}
							}
						}
					}
				}
			}
			return true
		})
	}
	// one call with non-constant arguments is the alias loop (and, in a table-driven variant, the table loop)
	if len(pairs) < 20 {
		c.Undecided(rule, "registration table", "-", fmt.Sprintf("only %d (name, encoding) pairs could be extracted (%d calls with non-constant arguments)", len(pairs), nonConst))
		return
	}
	registered := map[string]bool{"USASCII": true, "UTF8": true, "ASCII": true}
	for _, pr := range pairs {
		registered[normName(pr.name)] = true
		want, got := normName(pr.name), normName(pr.obj)
		ok := want == got
		detail := fmt.Sprintf("%q is registered with %s", pr.name, pr.obj)
		if !ok {
			if ex, why := c17TableException(pr.name, pr.obj); ex {
				ok = true
				detail += " (exception: " + why + ")"
				c.Exception(fmt.Sprintf("encoding table: %q ↔ %s: %s", pr.name, pr.obj, why))
			}
		}
		c.Check(ok, rule, "charset:"+pr.name, p.pos(pr.pos), detail)
	}
	for _, a := range sortedKeys(aliases) {
		t := aliases[a]
		na, nt := normName(a), normName(t)
		// an alias is its target with a prefix or separators dropped/added
		core := func(s string) string { return strings.TrimPrefix(strings.TrimPrefix(s, "ISO"), "US") }
		ok := registered[nt] && (core(na) == core(nt) || (na == "SJIS" && nt == "SHIFTJIS") || (strings.HasSuffix(na, "646") && nt == "USASCII"))
		c.Check(ok, rule, "alias:"+a, p.pos(aliasPos), fmt.Sprintf("%q → %q (target registered: %v)", a, t, registered[nt]))
	}
}

// c17TableException: reasoned exceptions of the name/object agreement.
func c17TableException(name, obj string) (bool, string) {
	if name == "GB2312" && obj == "GBK" {
		return true, "EUC-CN (what the GB2312 codeset of a locale means) has no object of its own in x/text; GBK is its superset and coincides with it on the GB2312 repertoire (the WHATWG Encoding standard maps the label gb2312 to GBK the same way)"
	}
	return false, ""
}

func c17Acs(c *Ctx, p *Prog) {
	pk := p.pkg("")
	obj := pk.Types.Scope().Lookup("vtACSNames")
	if obj == nil {
		c.Undecided("C17-R3", "vtACSNames", "-", "not found")
		return
	}
	e := findVarDecl(pk, obj)
	cl, ok := e.(*ast.CompositeLit)
	if !ok {
		c.Undecided("C17-R3", "vtACSNames", p.pos(obj.Pos()), "not a map literal")
		return
	}
	got := map[byte]string{}
	for _, el := range cl.Elts {
		kv, ok := el.(*ast.KeyValueExpr)
		if !ok {
			continue
		}
		k, ok := intConst(pk.TypesInfo, kv.Key)
		if !ok {
			continue
		}
		if id, ok := kv.Value.(*ast.Ident); ok {
			got[byte(k)] = id.Name
		} else {
			got[byte(k)] = "<literal>"
		}
	}
	letters := make([]int, 0, len(acscNames))
	for k := range acscNames {
		letters = append(letters, int(k))
	}
	sort.Ints(letters)
	for _, k := range letters {
		want := acscNames[byte(k)]
		c.Check(got[byte(k)] == want, "C17-R3", fmt.Sprintf("acsc:%q", rune(k)), p.pos(obj.Pos()), fmt.Sprintf("terminfo(5) assigns %s, table has %s", want, got[byte(k)]))
	}
	for _, name := range sortedKeys(runeUnicode) {
		v := pkgConst(p, name)
		c.Check(v == int64(runeUnicode[name]), "C17-R3", "glyph:"+name, "-", fmt.Sprintf("constant is U+%04X, Unicode glyph is U+%04X", v, runeUnicode[name]))
	}
	// buildAcsMap
	fn := p.Fn("tcell:(*tScreen).buildAcsMap")
	if fn == nil {
		c.Undecided("C17-R3", "buildAcsMap", "-", "not found")
		return
	}
	// value = (enter + glyph) + exit, where enter/exit are the EnterAcs/ExitAcs capabilities either
	// taken as they are (then no entry's capability may carry $<…> padding: the glyph string is
	// written as cell content, not through TPuts) or passed through a padding stripper built on TPuts
	okBr, raw := false, false
	fromCap := func(v ssa.Value, capName string) (bool, bool) { // (derives from the capability, stripped)
		v = derefCell(v)
		if strings.HasSuffix(valName(v), "."+capName) {
			return true, false
		}
		if call, ok := v.(*ssa.Call); ok && len(call.Call.Args) >= 1 {
			for _, a := range call.Call.Args {
				if strings.HasSuffix(valName(a), "."+capName) {
					// the callee must strip with TPuts
					var callee *ssa.Function
					if f := staticCallee(&call.Call); f != nil {
						callee = f
					} else if mc, ok := call.Call.Value.(*ssa.MakeClosure); ok {
						callee, _ = mc.Fn.(*ssa.Function)
					} else if f, ok := call.Call.Value.(*ssa.Function); ok {
						callee = f
					}
					strips := false
					if callee != nil {
						for range callsIn(callee, func(n string, _ *ssa.CallCommon) bool { return strings.HasSuffix(n, "Terminfo).TPuts") }) {
							strips = true
						}
					}
					return true, strips
				}
			}
		}
		return false, false
	}
	eachInstr(fn, func(in ssa.Instruction) {
		mu, ok := in.(*ssa.MapUpdate)
		if !ok {
			return
		}
		if outer, ok := mu.Value.(*ssa.BinOp); ok && outer.Op == token.ADD {
			if inner, ok := outer.X.(*ssa.BinOp); ok && inner.Op == token.ADD {
				e1, s1 := fromCap(inner.X, "EnterAcs")
				e2, s2 := fromCap(outer.Y, "ExitAcs")
				if e1 && e2 {
					okBr = true
					raw = !s1 || !s2
				}
			}
		}
	})
	c.Check(okBr, "C17-R3", "buildAcsMap:brackets", p.pos(fn.Pos()), "each glyph is EnterAcs + byte + ExitAcs")
	if okBr {
		padded := []string{}
		if raw {
			if db := buildDB(c, p); db != nil {
				for _, e := range db.entries {
					if strings.Contains(e.Str["EnterAcs"], "$<") || strings.Contains(e.Str["ExitAcs"], "$<") {
						padded = append(padded, e.Name)
					}
				}
			}
		}
		c.Check(len(padded) == 0, "C17-R3", "buildAcsMap:no-padding-in-glyphs", p.pos(fn.Pos()), fmt.Sprintf("glyph strings are written as cell content (no TPuts): padding of smacs/rmacs is stripped when the map is built (stripped: %v); entries whose padding would be drawn as text: %v", !raw, padded))
	}
	// pairs: the byte at offset 0 of what remains names the glyph, the byte at offset 1 IS the glyph
	// (taken as a one-byte substring, not converted from a byte value, which would make a code point of
	// it), each round moves on by 2, and the loop goes on exactly while two bytes remain.  "What
	// remains" is either a string shortened by [2:] each round or an index counting up by 2.
	okPairs, last, how := c17PairLoop(fn)
	codePoint := ""
	eachInstr(fn, func(in ssa.Instruction) {
		if x, ok := in.(*ssa.Convert); ok {
			if b, ok := x.X.Type().Underlying().(*types.Basic); ok && (b.Kind() == types.Byte || b.Kind() == types.Uint8) {
				if bs, ok := x.Type().Underlying().(*types.Basic); ok && bs.Kind() == types.String {
					codePoint = "string(byte) at " + p.pos(x.Pos()) + " turns a byte >= 0x80 into the UTF-8 encoding of that code point"
				}
			}
		}
	})
	c.Check(okPairs && codePoint == "", "C17-R3", "buildAcsMap:pairs", p.pos(fn.Pos()), "reads bytes 0 and 1 and advances by 2; the glyph byte is copied as a byte "+codePoint+how)
	c.Check(last, "C17-R3", "buildAcsMap:last-pair", p.pos(fn.Pos()), "loop condition must hold for a remaining length of 2, or the final pair of acsc is never mapped; "+how)
}

// c17PairLoop finds the loop over the acsc string and decides, on values, that it walks it in pairs.
func c17PairLoop(fn *ssa.Function) (pairs, last bool, how string) {
	for h, body := range loopsOf(fn) {
		for _, in := range h.Instrs {
			phi, ok := in.(*ssa.Phi)
			if !ok {
				continue
			}
			bt, isB := phi.Type().Underlying().(*types.Basic)
			if !isB {
				continue
			}
			var str ssa.Value // the string offsets are taken in
			index := false
			switch {
			case bt.Kind() == types.String:
				// s = phi(acsc, s[2:])
				for _, e := range phi.Edges {
					if sl, isSl := e.(*ssa.Slice); isSl && sl.X == ssa.Value(phi) && sl.High == nil {
						if k, isK := constInt(sl.Low); isK && k == 2 {
							str = phi
						}
					}
				}
			case bt.Info()&types.IsInteger != 0:
				// i = phi(0, i+2)
				zero, step := false, false
				for _, e := range phi.Edges {
					if k, isK := constInt(e); isK && k == 0 {
						zero = true
					}
					if bo, isBO := e.(*ssa.BinOp); isBO && bo.Op == token.ADD && bo.X == ssa.Value(phi) {
						if k, isK := constInt(bo.Y); isK && k == 2 {
							step = true
						}
					}
				}
				index = zero && step
			}
			if str == nil && !index {
				continue
			}
			// offset of v from the cursor: v = cursor + k
			offset := func(v ssa.Value) (int64, bool) {
				if index {
					if v == ssa.Value(phi) {
						return 0, true
					}
					if bo, isBO := v.(*ssa.BinOp); isBO && bo.Op == token.ADD && bo.X == ssa.Value(phi) {
						return constInt(bo.Y)
					}
					return 0, false
				}
				return constInt(v)
			}
			name, glyph := false, false
			for b := range body {
				for _, bin := range b.Instrs {
					switch x := bin.(type) {
					case *ssa.Index: // indexing a string
						if _, isStr := x.X.Type().Underlying().(*types.Basic); !isStr {
							continue
						}
						if !index && x.X != str {
							continue
						}
						if k, isK := offset(x.Index); isK && k == 0 {
							name = true
							if index {
								str = x.X
							}
						}
					case *ssa.Slice:
						if !index && x.X != str {
							continue
						}
						if x.Low == nil || x.High == nil {
							continue
						}
						lo, ok1 := offset(x.Low)
						hi, ok2 := offset(x.High)
						if ok1 && ok2 && lo == 1 && hi == 2 {
							glyph = true
						}
					}
				}
			}
			pairs = name && glyph
			// the loop's own test: continue exactly while len(str) - cursor >= 2
			var lin func(v ssa.Value) (cl, cp, k int64, ok bool)
			lin = func(v ssa.Value) (int64, int64, int64, bool) {
				if index && v == ssa.Value(phi) {
					return 0, 1, 0, true
				}
				if k, isK := constInt(v); isK {
					return 0, 0, k, true
				}
				if call, isCall := v.(*ssa.Call); isCall {
					if bi, isBI := call.Call.Value.(*ssa.Builtin); isBI && bi.Name() == "len" && str != nil && sameValue(call.Call.Args[0], str) {
						return 1, 0, 0, true
					}
				}
				if bo, isBO := v.(*ssa.BinOp); isBO && (bo.Op == token.ADD || bo.Op == token.SUB) {
					l1, p1, k1, ok1 := lin(bo.X)
					l2, p2, k2, ok2 := lin(bo.Y)
					if ok1 && ok2 {
						if bo.Op == token.ADD {
							return l1 + l2, p1 + p2, k1 + k2, true
						}
						return l1 - l2, p1 - p2, k1 - k2, true
					}
				}
				return 0, 0, 0, false
			}
			for b := range body {
				if len(b.Instrs) == 0 {
					continue
				}
				iff, isIf := b.Instrs[len(b.Instrs)-1].(*ssa.If)
				if !isIf {
					continue
				}
				exits := -1
				for i, sc := range b.Succs {
					if !body[sc] {
						exits = i
					}
				}
				if exits < 0 {
					continue
				}
				bo, isBO := iff.Cond.(*ssa.BinOp)
				if !isBO {
					continue
				}
				l1, p1, k1, ok1 := lin(bo.X)
				l2, p2, k2, ok2 := lin(bo.Y)
				if !ok1 || !ok2 {
					continue
				}
				cl, cp, k, op := l1-l2, p1-p2, k1-k2, bo.Op
				if exits == 0 { // the true edge leaves: the loop goes on when the test fails
					op = negTok(op)
				}
				if cl == -1 {
					cl, cp, k, op = -cl, -cp, -k, swapTok(op)
				}
				wantCp := int64(0)
				if index {
					wantCp = -1
				}
				how += fmt.Sprintf("continues while %d*len %+d*cursor %+d %s 0; ", cl, cp, k, op)
				if cl == 1 && cp == wantCp && ((op == token.GEQ && k == -2) || (op == token.GTR && k == -1)) {
					last = true
				}
			}
			if pairs || last {
				return pairs, last, how
			}
		}
	}
	return false, false, how + "no loop walking the acsc string found"
}

func c17Charset(c *Ctx, p *Prog) {
	fn := p.Fn("tcell:getCharset")
	if fn == nil {
		c.Undecided("C17-R4", "getCharset", "-", "not found")
		return
	}
	env := map[string]*ssa.Call{}
	eachInstr(fn, func(in ssa.Instruction) {
		if call, ok := in.(*ssa.Call); ok && calleeName(&call.Call) == "os.Getenv" {
			if s, ok := constString(call.Call.Args[0]); ok {
				env[s] = call
			}
		}
	})
	a, b, d := env["LC_ALL"], env["LC_CTYPE"], env["LANG"]
	ok := a != nil && b != nil && d != nil && len(env) == 3 && instrDominates(a, b) && instrDominates(b, d)
	if ok {
		// each later variable is read only if the earlier one was empty
		emptyEdge := func(site *ssa.Call, prev *ssa.Call) bool {
			for _, g := range rawGuardsAt(site.Block()) {
				if bo, isBO := g.Cond.(*ssa.BinOp); isBO && bo.X == ssa.Value(prev) {
					if s, isS := constString(bo.Y); isS && s == "" && ((bo.Op == token.EQL && g.Positive) || (bo.Op == token.NEQ && !g.Positive)) {
						return true
					}
				}
			}
			return false
		}
		ok = emptyEdge(b, a) && emptyEdge(d, b)
	}
	c.Check(ok, "C17-R4", "getCharset:precedence", p.pos(fn.Pos()), "LC_ALL, then LC_CTYPE if it is empty, then LANG if that is empty")
	okP := map[string]bool{}
	for _, r := range returnsOf(fn) {
		if s, isS := constString(r.Results[0]); isS && s == "US-ASCII" {
			for _, g := range rawGuardsAt(r.Block()) {
				if bo, isBO := g.Cond.(*ssa.BinOp); isBO && bo.Op == token.EQL && g.Positive {
					if s2, isS2 := constString(bo.Y); isS2 {
						okP[s2] = true
					}
				}
			}
			// `a == "POSIX" || a == "C"`: the return block has two predecessors; inspect them
			for _, pr := range r.Block().Preds {
				if iff, isIf := pr.Instrs[len(pr.Instrs)-1].(*ssa.If); isIf && pr.Succs[0] == r.Block() {
					if bo, isBO := iff.Cond.(*ssa.BinOp); isBO && bo.Op == token.EQL {
						if s2, isS2 := constString(bo.Y); isS2 {
							okP[s2] = true
						}
					}
				}
			}
		}
	}
	// "C" and "POSIX" are whole locale names: C.UTF-8 is a UTF-8 locale.  The comparison must be
	// made on the value of the environment variable itself, not on a part cut out of it.
	whole := true
	eachInstr(fn, func(in ssa.Instruction) {
		bo, isBO := in.(*ssa.BinOp)
		if !isBO || bo.Op != token.EQL {
			return
		}
		if s2, isS2 := constString(bo.Y); !isS2 || (s2 != "C" && s2 != "POSIX") {
			return
		}
		var fromEnv func(v ssa.Value, d int) bool
		fromEnv = func(v ssa.Value, d int) bool {
			if d > 4 {
				return false
			}
			switch x := v.(type) {
			case *ssa.Call:
				return calleeName(&x.Call) == "os.Getenv"
			case *ssa.Phi:
				for _, e := range x.Edges {
					if !fromEnv(e, d+1) {
						return false
					}
				}
				return true
			}
			return false
		}
		if !fromEnv(bo.X, 0) {
			whole = false
		}
	})
	c.Check(okP["POSIX"] && okP["C"] && whole, "C17-R4", "getCharset:POSIX-and-C", p.pos(fn.Pos()), fmt.Sprintf("US-ASCII returned for locales %v; compared as whole locale names: %v", sortedKeys(okP), whole))
	// UTF-8 default when no codeset
	okU := false
	for _, r := range returnsOf(fn) {
		if s, isS := constString(r.Results[0]); isS && s == "UTF-8" {
			okU = true
		}
	}
	c.Check(okU, "C17-R4", "getCharset:default-UTF-8", p.pos(fn.Pos()), "a locale without codeset means UTF-8")
}

func c17Registry(c *Ctx, p *Prog) {
	reg := p.Fn("tcell:RegisterEncoding")
	get := p.Fn("tcell:GetEncoding")
	if reg == nil || get == nil {
		c.Undecided("C17-R6", "RegisterEncoding/GetEncoding", "-", "not found")
		return
	}
	norm := func(fn *ssa.Function) (string, bool) {
		// the map key must be strings.X(charset)
		res := ""
		locked := false
		eachInstr(fn, func(in ssa.Instruction) {
			var key ssa.Value
			switch x := in.(type) {
			case *ssa.MapUpdate:
				if g, ok := x.Map.(*ssa.UnOp); ok && valName(g.X) == "encodings" {
					key = x.Key
				}
			case *ssa.Lookup:
				if g, ok := x.X.(*ssa.UnOp); ok && valName(g.X) == "encodings" {
					key = x.Index
				}
			}
			if key == nil {
				return
			}
			if call, ok := key.(*ssa.Call); ok {
				res = calleeName(&call.Call)
			} else {
				res = "raw:" + valName(key)
			}
			// under encodingLk
			for _, l := range callsIn(fn, func(n string, cc *ssa.CallCommon) bool {
				return n == "(*sync.Mutex).Lock" && len(cc.Args) > 0 && valName(cc.Args[0]) == "encodingLk"
			}) {
				if instrDominates(l, in) {
					locked = true
				}
			}
		})
		return res, locked
	}
	nr, lr := norm(reg)
	ng, lg := norm(get)
	c.Check(nr != "" && nr == ng && strings.HasPrefix(nr, "strings."), "C17-R6", "registry:same-normalisation", p.pos(reg.Pos()), fmt.Sprintf("writer keys by %s, reader by %s", nr, ng))
	c.Check(lr && lg, "C17-R6", "registry:locked", p.pos(get.Pos()), fmt.Sprintf("map access under encodingLk: writer %v, reader %v", lr, lg))
	// nil only on the no-fallback path: the nil return is not guarded by a successful lookup
	okNil := false
	for _, r := range returnsOf(get) {
		if isNilConst(resultOf(r, 0)) {
			okNil = true
			for _, g := range rawGuardsAt(r.Block()) {
				if ex, ok := g.Cond.(*ssa.Extract); ok && ex.Index == 1 && g.Positive {
					okNil = false
				}
			}
		}
	}
	c.Check(okNil, "C17-R6", "GetEncoding:nil-only-without-fallback", p.pos(get.Pos()), "nil is returned only when the lookup failed and no fallback encoding is configured")
}

// encNorm names an observation of an encoder call: T#k = k-th result of
// Transform, out[0] = first byte of the destination buffer.
func encNorm(v ssa.Value) string {
	var f func(v ssa.Value, d int) string
	f = func(v ssa.Value, d int) string {
		if d > 5 {
			return "?"
		}
		v = stripConv(v)
		switch x := v.(type) {
		case *ssa.Const:
			if x.Value == nil {
				return "nil"
			}
			return x.Value.ExactString()
		case *ssa.Extract:
			if call, ok := x.Tuple.(*ssa.Call); ok && call.Call.IsInvoke() && call.Call.Method.Name() == "Transform" {
				return fmt.Sprintf("T#%d", x.Index)
			}
		case *ssa.Phi:
			// phi(zero, T#k) from `var x; if enc != nil { x = … }`
			names := map[string]bool{}
			for _, e := range x.Edges {
				n := f(e, d+1)
				if n != "0" && n != "nil" {
					names[n] = true
				}
			}
			if len(names) == 1 {
				for n := range names {
					return n
				}
			}
		case *ssa.UnOp:
			if ia, ok := x.X.(*ssa.IndexAddr); ok {
				if k, ok := constInt(ia.Index); ok && k == 0 {
					return "out[0]"
				}
			}
		}
		return "?" + valName(v)
	}
	return f(v, 0)
}

// encPredAtoms: the branch conditions of fn over the encoder's observations.
func encPredAtoms(fn *ssa.Function) map[string]bool {
	out := map[string]bool{}
	for _, b := range fn.Blocks {
		if len(b.Instrs) == 0 {
			continue
		}
		iff, ok := b.Instrs[len(b.Instrs)-1].(*ssa.If)
		if !ok {
			continue
		}
		bo, ok := iff.Cond.(*ssa.BinOp)
		if !ok {
			continue
		}
		l, r := encNorm(bo.X), encNorm(bo.Y)
		if strings.HasPrefix(l, "T#") || l == "out[0]" {
			out[l+" "+bo.Op.String()+" "+r] = true
		}
	}
	return out
}

// constLenOf: the length of a byte slice built from a constant-size allocation
// by constant reslicing; ok=false when a bound depends on data.
func constLenOf(v ssa.Value) (int64, bool, string) {
	switch x := v.(type) {
	case *ssa.Slice:
		var base int64
		switch b := x.X.(type) {
		case *ssa.Alloc:
			pt, ok := b.Type().Underlying().(*types.Pointer)
			if !ok {
				return 0, false, "not an array"
			}
			at, ok := pt.Elem().Underlying().(*types.Array)
			if !ok {
				return 0, false, "not an array"
			}
			base = at.Len()
		default:
			n, ok, why := constLenOf(x.X)
			if !ok {
				return 0, false, why
			}
			base = n
		}
		lo := int64(0)
		if x.Low != nil {
			k, ok := constInt(x.Low)
			if !ok {
				return 0, false, "lower bound " + valName(x.Low) + " is not constant"
			}
			lo = k
		}
		hi := base
		if x.High != nil {
			k, ok := constInt(x.High)
			if !ok {
				return 0, false, "upper bound " + valName(x.High) + " is not constant"
			}
			hi = k
		}
		return hi - lo, true, ""
	case *ssa.MakeSlice:
		k, ok := constInt(x.Len)
		if !ok {
			return 0, false, "made with a non-constant length"
		}
		return k, true, ""
	}
	// a buffer handed in by the caller (`appendEncoded(…, lbuf, ubuf)`): every caller's buffer
	if prm, ok := v.(*ssa.Parameter); ok && constLenProg != nil {
		h := prm.Parent()
		if h != nil && h.Object() != nil && !h.Object().Exported() && onlyCalledStatically(constLenProg, h) {
			idx := -1
			for i, q := range h.Params {
				if q == prm {
					idx = i
				}
			}
			min, n := int64(1<<40), 0
			for _, g := range constLenProg.modFns {
				if g.Pkg != h.Pkg {
					continue
				}
				for _, f := range withClosures(g) {
					bad := ""
					eachInstr(f, func(in ssa.Instruction) {
						cc := callCommon(in)
						if cc == nil || cc.StaticCallee() != h || idx < 0 || idx >= len(cc.Args) {
							return
						}
						k, ok, why := constLenOf(cc.Args[idx])
						if !ok {
							bad = why
							return
						}
						n++
						if k < min {
							min = k
						}
					})
					if bad != "" {
						return 0, false, bad
					}
				}
			}
			if n > 0 {
				return min, true, ""
			}
		}
	}
	return 0, false, "destination is " + valName(v)
}

// constLenProg: the program constLenOf may look callers up in (set by the rules that use it).
var constLenProg *Prog

// checkEncodeDst: the destination handed to the charset encoder must have room
// for the longest encoding of one character in any registered charset (4 bytes:
// GB18030), independent of the rune: a destination sized by the UTF-8 length of
// the rune makes ErrShortDst look like "not representable".
func checkEncodeDst(c *Ctx, p *Prog, fn *ssa.Function, rule string) {
	constLenProg = p
	n := 0
	eachInstr(fn, func(in ssa.Instruction) {
		cc := callCommon(in)
		if cc == nil || !cc.IsInvoke() || cc.Method.Name() != "Transform" || len(cc.Args) != 3 {
			return
		}
		n++
		ln, ok, why := constLenOf(cc.Args[0])
		key := fmt.Sprintf("%s:encoder-destination#%d", fn.Name(), n)
		if !ok {
			c.Fail(rule, key, p.pos(in.Pos()), "the encoder's destination buffer does not have a constant size: "+why)
			return
		}
		c.Check(ln >= 4, rule, key, p.pos(in.Pos()), fmt.Sprintf("destination buffer of %d bytes (the longest single-character encoding among the charsets is 4 bytes)", ln))
	})
	if n == 0 {
		c.Undecided(rule, fn.Name()+":encoder-destination", p.pos(fn.Pos()), "no Transform call")
	}
}

// encSuccessAtoms: what the branch conditions gs say about an encoder call's results (T#0 length, T#2
// error, out[0] first output byte), polarity applied.
func encSuccessAtoms(gs []rawGuard) map[string]bool {
	out := map[string]bool{}
	for _, g := range gs {
		bo, ok := g.Cond.(*ssa.BinOp)
		if !ok {
			continue
		}
		l, r := encNorm(bo.X), encNorm(bo.Y)
		if !(strings.HasPrefix(l, "T#") || l == "out[0]") {
			continue
		}
		op := bo.Op.String()
		if !g.Positive {
			op = negOp(op)
		}
		if l == "T#0" && op == ">" && r == "0" {
			op = "!="
		}
		out[l+" "+op+" "+r] = true
	}
	return out
}

// transformHost: fn itself when it calls the charset encoder, else the module helper it calls that does.
func transformHost(p *Prog, fn *ssa.Function) *ssa.Function {
	isT := func(_ string, cc *ssa.CallCommon) bool { return cc.IsInvoke() && cc.Method.Name() == "Transform" }
	if len(callsIn(fn, isT)) > 0 {
		return fn
	}
	host := fn
	eachInstr(fn, func(in ssa.Instruction) {
		if cc := callCommon(in); cc != nil {
			if h := cc.StaticCallee(); h != nil && h.Pkg == fn.Pkg && len(h.Blocks) > 0 && len(callsIn(h, isT)) > 0 {
				host = h
			}
		}
	})
	return host
}

// encodedAppendAtoms: the success tests known where host appends the encoder's output (the slice of the
// destination up to the returned length).
func encodedAppendAtoms(host *ssa.Function) (map[string]bool, bool) {
	var m map[string]bool
	found := false
	eachInstr(host, func(in ssa.Instruction) {
		call, ok := in.(*ssa.Call)
		if !ok {
			return
		}
		if b, isB := call.Call.Value.(*ssa.Builtin); !isB || b.Name() != "append" || len(call.Call.Args) != 2 {
			return
		}
		sl, isSl := call.Call.Args[1].(*ssa.Slice)
		if !isSl || sl.High == nil || !strings.HasPrefix(encNorm(sl.High), "T#0") {
			return
		}
		m = encSuccessAtoms(rawGuardsAt(call.Block()))
		found = true
	})
	return m, found
}

package main

// Rules written after the fifth round of independent seeded changes.  Each is a structural necessary
// condition stated over all paths / all writers; none matches seeded text.

import (
	"fmt"
	"go/token"
	"go/types"
	"strings"

	"golang.org/x/tools/go/ssa"
)

// checkEventQueuesNeverClosed: Screen calls after Fini must not panic.  PostEvent, PostEventWait and the
// resize path send on the event queue; a send on a closed channel panics.  So no channel whose element
// type is Event is ever closed (quit/stop channels carry struct{} and are the ones that are closed).
func checkEventQueuesNeverClosed(c *Ctx, p *Prog, rule string) {
	n, bad := 0, ""
	for _, fn := range p.modFns {
		if fn.Pkg != p.Tcell {
			continue
		}
		eachInstr(fn, func(in ssa.Instruction) {
			cc := callCommon(in)
			if cc == nil {
				return
			}
			b, ok := cc.Value.(*ssa.Builtin)
			if !ok || b.Name() != "close" || len(cc.Args) != 1 {
				return
			}
			n++
			ch, isCh := cc.Args[0].Type().Underlying().(*types.Chan)
			if !isCh {
				return
			}
			if strings.HasSuffix(typeName(ch.Elem()), "tcell.Event") {
				// the application's own channel handed to ChannelEvents is the one exception: closing it
				// is that function's documented way of saying "no more events"
				if _, isParam := cc.Args[0].(*ssa.Parameter); isParam && fn.Name() == "ChannelEvents" {
					return
				}
				if fv, isFV := cc.Args[0].(*ssa.FreeVar); isFV && topFunc(fn).Name() == "ChannelEvents" && fv.Name() == "ch" {
					return
				}
				bad += fmt.Sprintf("%s closes a channel of events (%s) at %s; ", fn.Name(), valName(cc.Args[0]), p.pos(in.Pos()))
			}
		})
	}
	c.Check(bad == "" && n >= 2, rule, "event-queues:never-closed", "-", fmt.Sprintf("%d close() sites in the package, none on an event queue of a screen %s", n, bad))
}

// checkTtyRestart: the unix Tty implementations make a blocked Read return by setting a read deadline
// of "now" (Drain, Stop).  A Start that re-uses the same handle must clear that deadline, or the first
// Read after Resume fails with a timeout and the input loop ends.  For each implementation: Start stores
// a freshly opened file in the handle Read uses, or calls SetReadDeadline with the zero time on it,
// before every successful return.
func checkTtyRestart(c *Ctx, p *Prog, rule string) {
	for _, tname := range []string{"devTty", "stdIoTty"} {
		owner := "tcell." + tname
		rd := p.Fn("tcell:(*" + tname + ").Read")
		start := p.Fn("tcell:(*" + tname + ").Start")
		if rd == nil || start == nil {
			if p.namedType(p.Tcell, tname) != nil {
				c.Undecided(rule, tname+":restart", "-", "Read/Start not found")
			}
			continue
		}
		// the handle: the field whose value receives (*os.File).Read in Read
		handle := ""
		eachInstr(rd, func(in ssa.Instruction) {
			if cc := callCommon(in); cc != nil && calleeName(cc) == "(*os.File).Read" && len(cc.Args) > 0 {
				if ref, _, ok := loadedField(cc.Args[0]); ok && ref.Owner == owner {
					handle = ref.Name
				}
			}
		})
		if handle == "" {
			c.Undecided(rule, tname+":restart", p.pos(rd.Pos()), "the file handle Read uses was not identified")
			continue
		}
		// does anybody set a non-zero deadline on it?
		sets := false
		for _, fn := range p.modFns {
			if fn.Pkg != p.Tcell || recvTypeName(topFunc(fn)) != owner || fn == start {
				continue
			}
			eachInstr(fn, func(in ssa.Instruction) {
				if cc := callCommon(in); cc != nil && calleeName(cc) == "(*os.File).SetReadDeadline" {
					if ref, _, ok := loadedField(cc.Args[0]); ok && ref.Name == handle {
						sets = true
					}
				}
			})
		}
		if !sets {
			c.Trivial(rule, tname+":restart-clears-deadline", p.pos(start.Pos()), "no read deadline is ever set on the handle")
			continue
		}
		var undo []ssa.Instruction
		eachInstr(start, func(in ssa.Instruction) {
			if cc := callCommon(in); cc != nil && calleeName(cc) == "(*os.File).SetReadDeadline" && len(cc.Args) == 2 {
				if ref, _, ok := loadedField(cc.Args[0]); ok && ref.Name == handle && isZeroValue(cc.Args[1]) {
					undo = append(undo, in)
				}
			}
			if st, ok := in.(*ssa.Store); ok {
				if ref, _, okR := fieldAddrRef(st.Addr); okR && ref.Owner == owner && ref.Name == handle {
					if ex, isEx := st.Val.(*ssa.Extract); isEx {
						if call, isCall := ex.Tuple.(*ssa.Call); isCall && calleeName(&call.Call) == "os.OpenFile" {
							undo = append(undo, in)
						}
					}
				}
			}
		})
		ok := len(undo) > 0
		for _, r := range returnsOf(start) {
			if len(r.Results) != 1 || !isNilConst(derefCell(resultOf(r, 0))) {
				continue
			}
			dominated := false
			for _, u := range undo {
				if instrDominates(u, r) {
					dominated = true
				}
			}
			if !dominated {
				ok = false
			}
		}
		c.Check(ok, rule, tname+":restart-clears-deadline", p.pos(start.Pos()), fmt.Sprintf("Drain/Stop leave a read deadline on %s.%s; every successful return of Start comes after a fresh open of it or SetReadDeadline(zero) (%d such site(s))", tname, handle, len(undo)))
		// the same for the non-blocking mode Drain switches on (tcSetBufParams) to get the reader out of
		// its Read: a handle that is not opened afresh keeps it, and every later Read fails with EAGAIN
		setsNB := false
		for _, m := range []string{"Drain", "Stop"} {
			if fn := p.Fn("tcell:(*" + tname + ")." + m); fn != nil {
				for g := range staticReachFrom(p, fn) {
					eachInstr(g, func(in ssa.Instruction) {
						if cc := callCommon(in); cc != nil && calleeName(cc) == "syscall.SetNonblock" && len(cc.Args) == 2 {
							if v, isB := constBool(cc.Args[1]); isB && v {
								setsNB = true
							}
						}
					})
				}
			}
		}
		if !setsNB {
			c.Trivial(rule, tname+":restart-clears-nonblock", p.pos(start.Pos()), "nothing on the Drain/Stop path switches the descriptor to non-blocking mode")
			continue
		}
		var undoNB []ssa.Instruction
		eachInstr(start, func(in ssa.Instruction) {
			if cc := callCommon(in); cc != nil && calleeName(cc) == "syscall.SetNonblock" && len(cc.Args) == 2 {
				if v, isB := constBool(cc.Args[1]); isB && !v {
					undoNB = append(undoNB, in)
				}
			}
			if st, isSt := in.(*ssa.Store); isSt {
				if ref, _, okR := fieldAddrRef(st.Addr); okR && ref.Owner == owner && ref.Name == handle {
					if ex, isEx := st.Val.(*ssa.Extract); isEx {
						if call, isCall := ex.Tuple.(*ssa.Call); isCall && calleeName(&call.Call) == "os.OpenFile" {
							undoNB = append(undoNB, in)
						}
					}
				}
			}
		})
		okNB := len(undoNB) > 0
		for _, r := range returnsOf(start) {
			if len(r.Results) != 1 || !isNilConst(derefCell(resultOf(r, 0))) {
				continue
			}
			dominated := false
			for _, u := range undoNB {
				if instrDominates(u, r) {
					dominated = true
				}
			}
			if !dominated {
				okNB = false
			}
		}
		c.Check(okNB, rule, tname+":restart-clears-nonblock", p.pos(start.Pos()), fmt.Sprintf("Drain switches the descriptor to non-blocking mode; every successful return of Start comes after a fresh open of the handle or SetNonblock(fd, false) (%d such site(s))", len(undoNB)))
	}
}

func isZeroValue(v ssa.Value) bool {
	if k, ok := v.(*ssa.Const); ok && k.Value == nil {
		return true
	}
	if u, ok := v.(*ssa.UnOp); ok && u.Op == token.MUL {
		if al, isAl := u.X.(*ssa.Alloc); isAl {
			for _, r := range referrers(al) {
				if st, isSt := r.(*ssa.Store); isSt && st.Addr == ssa.Value(al) {
					return false
				}
			}
			return true
		}
	}
	return false
}

// checkFallbackOwnership: the stock table RuneFallbacks is shared by every screen ever made; a screen's
// own table must be its own map.  (a) the field `fallback` of a screen only ever receives a map made
// by that function (make), never the global itself; (b) nothing in the package inserts into or deletes
// from the global.
func checkFallbackOwnership(c *Ctx, p *Prog, rule, tname string) {
	owner := "tcell." + tname
	n, bad := 0, ""
	for _, fn := range p.modFns {
		if fn.Pkg != p.Tcell {
			continue
		}
		for _, st := range storesTo(fn, owner, "fallback") {
			n++
			if _, ok := st.Val.(*ssa.MakeMap); !ok {
				bad += fmt.Sprintf("%s stores %s into %s.fallback at %s (not a map of its own); ", fn.Name(), valName(st.Val), tname, p.pos(st.Pos()))
			}
		}
		eachInstr(fn, func(in ssa.Instruction) {
			isGlobal := func(v ssa.Value) bool {
				u, ok := v.(*ssa.UnOp)
				if !ok || u.Op != token.MUL {
					return false
				}
				g, isG := u.X.(*ssa.Global)
				return isG && g.Name() == "RuneFallbacks"
			}
			switch x := in.(type) {
			case *ssa.MapUpdate:
				if isGlobal(x.Map) && fn.Name() != "init" {
					bad += fmt.Sprintf("%s writes the shared stock table at %s; ", fn.Name(), p.pos(in.Pos()))
				}
			case *ssa.Call:
				if b, ok := x.Call.Value.(*ssa.Builtin); ok && b.Name() == "delete" && len(x.Call.Args) == 2 && isGlobal(x.Call.Args[0]) {
					bad += fmt.Sprintf("%s deletes from the shared stock table at %s; ", fn.Name(), p.pos(in.Pos()))
				}
			}
		})
	}
	c.Check(bad == "" && n >= 1, rule, tname+".fallback:own-map", "-", fmt.Sprintf("%d store(s) to the field, each a map made on the spot; the stock table is never written %s", n, bad))
}

// checkCursorEpilogue: every draw ends by re-evaluating the requested cursor position: on every path
// from the entry of draw to a return a call of showCursor comes after the last painter call.
func checkCursorEpilogue(c *Ctx, p *Prog, rule, tname string) {
	draw := p.Fn("tcell:(*" + tname + ").draw")
	if draw == nil {
		c.Undecided(rule, tname+".draw", "-", "not found")
		return
	}
	shows := callsIn(draw, func(n string, _ *ssa.CallCommon) bool { return strings.HasSuffix(n, tname+").showCursor") })
	cells := callsIn(draw, func(n string, _ *ssa.CallCommon) bool { return strings.HasSuffix(n, tname+").drawCell") })
	ok := len(shows) > 0 && len(cells) > 0
	stop := map[ssa.Instruction]bool{}
	for _, s := range shows {
		stop[s] = true
	}
	for _, dc := range cells {
		if reachesReturnAvoiding(dc, stop) {
			ok = false
		}
	}
	c.Check(ok, rule, tname+".draw:cursor-re-evaluated", p.pos(draw.Pos()), fmt.Sprintf("%d showCursor call(s); no path from painting a cell to the return avoids it", len(shows)))
}

// checkParserOrder: text comes first.  In every cycle of the collect loop the rune parser is asked
// before the mouse parsers: in the registered 8-bit and multi-byte charsets 0x9b is an ordinary
// character or lead byte, and "0x9b M x y z" is text there, not a legacy mouse report.
func checkParserOrder(c *Ctx, p *Prog, rule string) {
	collect := collectLoopFn(p)
	if collect == nil {
		c.Undecided(rule, "collect loop", "-", "not found")
		return
	}
	find := func(name string) []ssa.Instruction {
		return callsIn(collect, func(n string, _ *ssa.CallCommon) bool { return strings.HasSuffix(n, "tScreen)."+name) })
	}
	rune_ := find("parseRune")
	ok := len(rune_) == 1
	detail := ""
	for _, m := range []string{"parseXtermMouse", "parseSgrMouse"} {
		for _, call := range find(m) {
			if len(rune_) != 1 || !instrDominates(rune_[0], call) {
				ok = false
				detail += m + " can run before parseRune; "
			}
		}
	}
	c.Check(ok, rule, "collect:parseRune-before-mouse-parsers", p.pos(collect.Pos()), "the rune parser's call dominates the mouse parsers' calls "+detail)
}

// checkResetBeforeColours: in sendFgBg the reset of both colours goes out before any colour is
// selected.  Afterwards it would wipe what was just selected (an RGB foreground with a reset background).
func checkResetBeforeColours(c *Ctx, p *Prog, rule string) {
	fn := p.Fn("tcell:(*tScreen).sendFgBg")
	if fn == nil {
		c.Undecided(rule, "sendFgBg", "-", "not found")
		return
	}
	var resets, sets []ssa.Instruction
	eachInstr(fn, func(in ssa.Instruction) {
		for _, id := range emitIdents(p, in) {
			switch {
			case id == "field:ResetFgBg":
				resets = append(resets, in)
			case strings.HasPrefix(id, "field:SetFg") || strings.HasPrefix(id, "field:SetBg"):
				sets = append(sets, in)
			}
		}
	})
	bad := ""
	for _, r := range resets {
		for _, s := range sets {
			if reachableAfter(s, r) {
				bad += fmt.Sprintf("the reset at %s can follow the colour selection at %s; ", p.pos(r.Pos()), p.pos(s.Pos()))
			}
		}
	}
	c.Check(bad == "" && len(resets) >= 1 && len(sets) >= 4, rule, "sendFgBg:reset-before-selection", p.pos(fn.Pos()), fmt.Sprintf("%d reset and %d selection emissions; no reset after a selection %s", len(resets), len(sets), bad))
}

// checkResizeBounds: Resize preserves the overlapping region: the copy of a cell happens exactly for
// x below both widths and y below both heights (loop guards x < new w, x < old w, y < new h, y < old h).
func checkResizeBounds(c *Ctx, p *Prog, rule string) {
	fn := p.Fn("tcell:(*CellBuffer).Resize")
	if fn == nil {
		c.Undecided(rule, "Resize", "-", "not found")
		return
	}
	var copyStore *ssa.Store
	for _, st := range storesTo(fn, "tcell.cell", "currMain") {
		if _, _, ok := loadedField(st.Val); ok {
			copyStore = st
		}
	}
	if copyStore == nil {
		c.Undecided(rule, "Resize:copy", p.pos(fn.Pos()), "no copy of currMain found")
		return
	}
	want := map[string]bool{"x < w": false, "x < cb.w": false, "y < h": false, "y < cb.h": false}
	extra := ""
	for _, a := range guardsAt(copyStore.Block()) {
		s := a.String()
		if a.Op == ">" { // normal form of the guard atoms: "cb.w > x" is "x < cb.w"
			s = a.R + " < " + a.L
		}
		if _, ok := want[s]; ok {
			want[s] = true
		} else if a.Op == "<" || a.Op == "<=" || a.Op == ">" || a.Op == ">=" {
			extra += s + "; "
		}
	}
	// the bounds may be hoisted into minima (keepW := cb.w; if w < keepW { keepW = w }): x < keepW then
	// stands for both x < w and x < cb.w, provided keepW is the minimum of exactly these two
	for _, g := range rawGuardsAt(copyStore.Block()) {
		bo, ok := g.Cond.(*ssa.BinOp)
		if !ok || bo.Op != token.LSS || !g.Positive {
			continue
		}
		phi, isPhi := bo.Y.(*ssa.Phi)
		if !isPhi {
			continue
		}
		for _, ax := range []struct{ v, prm, fld string }{{"x", "w", "w"}, {"y", "h", "h"}} {
			if valName(bo.X) != ax.v {
				continue
			}
			if minOfParamAndField(phi, fn, ax.prm, "tcell.CellBuffer", ax.fld) {
				want[ax.v+" < "+ax.prm] = true
				want[ax.v+" < cb."+ax.fld] = true
				for _, form := range []string{valName(bo.X) + " < " + valName(bo.Y), valName(bo.Y) + " > " + valName(bo.X)} {
					extra = strings.Replace(extra, form+"; ", "", 1)
				}
			}
		}
	}
	missing := ""
	for k, v := range want {
		if !v {
			missing += k + "; "
		}
	}
	c.Check(missing == "" && extra == "", rule, "Resize:overlap-bounds", p.pos(copyStore.Pos()), "the copy runs for x < w, x < cb.w, y < h, y < cb.h and under no other bound; missing: "+missing+" other: "+extra)
}

// checkCombiningUnconditional: drawCell hands every combining rune GetContent returned to the encoder:
// the encodeRune call inside the loop over the combining list is guarded by the loop alone, not by a
// property of the screen or the charset.
func checkCombiningUnconditional(c *Ctx, p *Prog, rule string) {
	dc := p.Fn("tcell:(*tScreen).drawCell")
	if dc == nil {
		c.Undecided(rule, "drawCell", "-", "not found")
		return
	}
	n, bad := 0, ""
	for _, f := range encodeRuneFeeds(p, dc) {
		if f.src != "GetContent#1[i]" {
			continue
		}
		n++
		for _, g := range f.guards {
			if mentionsScreenState(g.Cond, 3) {
				bad += "the encoding of combining runes depends on " + valName(g.Cond) + " (" + p.pos(g.Cond.Pos()) + "); "
			}
		}
	}
	c.Check(n >= 1 && bad == "", rule, "drawCell:combining-runes-always-encoded", p.pos(dc.Pos()), fmt.Sprintf("%d encodeRune call(s) over the combining list, guarded by the loop alone %s", n, bad))
}

// mentionsScreenState: v is computed from a load of a tScreen field.
func mentionsScreenState(v ssa.Value, depth int) bool {
	if depth < 0 {
		return false
	}
	if ref, _, ok := loadedField(v); ok && ref.Owner == "tcell.tScreen" {
		return true
	}
	if in, ok := v.(ssa.Instruction); ok {
		if _, isPhi := v.(*ssa.Phi); isPhi {
			return false
		}
		for _, op := range in.Operands(nil) {
			if *op != nil && mentionsScreenState(*op, depth-1) {
				return true
			}
		}
	}
	return false
}

// checkFieldWriters: field `field` of type tname is stored only by the listed functions.
func checkFieldWriters(c *Ctx, p *Prog, rule, tname, field string, allowed ...string) {
	ok := map[string]bool{}
	for _, a := range allowed {
		ok[a] = true
	}
	n, bad := 0, ""
	for _, fn := range p.modFns {
		if fn.Pkg != p.Tcell {
			continue
		}
		for _, st := range storesTo(fn, "tcell."+tname, field) {
			n++
			if !ok[topFunc(fn).Name()] && !calledOnlyFrom(p, topFunc(fn), ok, 2) {
				bad += fmt.Sprintf("%s stores it at %s; ", fn.Name(), p.pos(st.Pos()))
			}
		}
	}
	c.Check(bad == "" && n > 0, rule, tname+"."+field+":writers", "-", fmt.Sprintf("%d store(s), all in %v %s", n, allowed, bad))
}

// checkDistanceDelegated: FindColor measures with go-colorful's CIE76 distance on colours whose
// components are the 8-bit values divided by 255 — nothing home-made in between.  (That the library's
// arithmetic is CIE76 is trusted; that tcell hands it the right numbers is decided here.)
func checkDistanceDelegated(c *Ctx, p *Prog, rule string) {
	fn := p.Fn("tcell:FindColor")
	if fn == nil {
		c.Undecided(rule, "FindColor", "-", "not found")
		return
	}
	// FindColor together with the helpers it is written with (RGB() itself is the colour's own decoding)
	deep := deepInstrs(p, fn, 3, func(_ ssa.Instruction, callee *ssa.Function) bool { return callee.Name() != "RGB" })
	// component i of an RGB() result, converted and divided by 255
	scaledComponent := func(v ssa.Value) (int, bool) {
		bo, ok := v.(*ssa.BinOp)
		if !ok || bo.Op != token.QUO {
			return 0, false
		}
		if k, isK := bo.Y.(*ssa.Const); !isK || k.Value == nil || k.Value.String() != "255" {
			return 0, false
		}
		ex, ok := stripConv(bo.X).(*ssa.Extract)
		if !ok {
			return 0, false
		}
		call, ok := ex.Tuple.(*ssa.Call)
		if !ok || !strings.HasSuffix(calleeName(&call.Call), "Color).RGB") {
			return 0, false
		}
		return ex.Index, true
	}
	nDist, scaled, other, fields := 0, 0, "", ""
	for _, d := range deep {
		if cc := callCommon(d.in); cc != nil && strings.HasSuffix(calleeName(cc), "go-colorful.Color).DistanceCIE76") {
			nDist++
		}
		if bo, ok := d.in.(*ssa.BinOp); ok {
			if bt, isB := bo.Type().Underlying().(*types.Basic); isB && bt.Info()&types.IsFloat != 0 {
				if _, isS := scaledComponent(bo); isS {
					scaled++
				} else {
					other += fmt.Sprintf("%s at %s; ", bo.Op, p.pos(bo.Pos()))
				}
			}
		}
		// the colours handed to go-colorful carry red, green and blue in that order
		if st, ok := d.in.(*ssa.Store); ok {
			if fa, isFA := st.Addr.(*ssa.FieldAddr); isFA && strings.HasSuffix(typeName(fa.X.Type()), "go-colorful.Color") {
				if i, isS := scaledComponent(st.Val); !isS || i != fa.Field {
					fields += fmt.Sprintf("field %d of the colorful.Color at %s is not component %d of RGB() over 255; ", fa.Field, p.pos(st.Pos()), fa.Field)
				}
			}
		}
	}
	c.Check(nDist >= 1 && scaled >= 3 && scaled%3 == 0 && other == "" && fields == "", rule, "FindColor:distance-delegated", p.pos(fn.Pos()),
		fmt.Sprintf("%d call(s) of go-colorful's DistanceCIE76, %d components scaled by /255.0, other floating-point arithmetic: [%s] %s", nDist, scaled, other, fields))
}

// checkAppendedEventsConstructed: what a parser appends to the event list is an event it has just
// constructed — the result of a New* constructor (or of a module function all of whose returns are) —
// never a pointer that may be nil: a nil *EventClipboard inside a non-nil Event panics on When().
func checkAppendedEventsConstructed(c *Ctx, p *Prog, rule string) {
	var nonNil func(v ssa.Value, depth int) bool
	nonNil = func(v ssa.Value, depth int) bool {
		if depth < 0 {
			return false
		}
		switch x := v.(type) {
		case *ssa.Alloc:
			return true
		case *ssa.MakeInterface:
			return nonNil(x.X, depth)
		case *ssa.Phi:
			for _, e := range x.Edges {
				if !nonNil(e, depth-1) {
					return false
				}
			}
			return true
		case *ssa.Call:
			callee := x.Call.StaticCallee()
			if callee == nil || callee.Pkg != p.Tcell || len(callee.Blocks) == 0 {
				return false
			}
			rs := returnsOf(callee)
			if len(rs) == 0 {
				return false
			}
			for _, r := range rs {
				if len(r.Results) != 1 || !nonNil(derefCell(resultOf(r, 0)), depth-1) {
					return false
				}
			}
			return true
		}
		return false
	}
	n, bad := 0, ""
	for _, pi := range inputParsers(p) {
		eachInstr(pi.fn, func(in ssa.Instruction) {
			st, ok := in.(*ssa.Store)
			if !ok || st.Addr != ssa.Value(pi.evsPrm) {
				return
			}
			call, isCall := st.Val.(*ssa.Call)
			if !isCall {
				return
			}
			b, isB := call.Call.Value.(*ssa.Builtin)
			if !isB || b.Name() != "append" || len(call.Call.Args) != 2 {
				return
			}
			cnt, vals, okV := varargCount(call.Call.Args[1])
			if !okV {
				bad += fmt.Sprintf("%s appends a list of unknown provenance at %s; ", pi.fn.Name(), p.pos(in.Pos()))
				return
			}
			for i := 0; i < cnt; i++ {
				n++
				if !nonNil(vals[i], 4) {
					bad += fmt.Sprintf("%s appends %s at %s, which is not a freshly constructed event; ", pi.fn.Name(), valName(vals[i]), p.pos(in.Pos()))
				}
			}
		})
	}
	c.Check(bad == "" && n >= 6, rule, "parsers:appended-events-are-constructed", "-", fmt.Sprintf("%d appended values, each the result of a constructor %s", n, bad))
}

// checkPostHasQuitAlternative: a screen's own post helper may wait for room in the queue, but never
// without the quit channel as an alternative in the same select: after Fini nobody reads the queue.
func checkPostHasQuitAlternative(c *Ctx, p *Prog, rule, tname string) {
	fn := p.Fn("tcell:(*" + tname + ").postEvent")
	if fn == nil {
		c.Undecided(rule, tname+".postEvent", "-", "not found")
		return
	}
	n, bad := 0, ""
	eachInstr(fn, func(in ssa.Instruction) {
		switch x := in.(type) {
		case *ssa.Send:
			n++
			bad += "bare send at " + p.pos(in.Pos()) + "; "
		case *ssa.Select:
			hasSend, hasQuit := false, false
			for _, st := range x.States {
				if st.Dir == types.SendOnly {
					hasSend = true
				}
				if st.Dir == types.RecvOnly && strings.HasSuffix(chanName(st.Chan, nil, 0), ".quit") {
					hasQuit = true
				}
			}
			if hasSend {
				n++
				if x.Blocking && !hasQuit {
					bad += "blocking select without the quit channel at " + p.pos(in.Pos()) + "; "
				}
			}
		}
	})
	c.Check(bad == "" && n >= 1, rule, tname+".postEvent:quit-alternative", p.pos(fn.Pos()), fmt.Sprintf("%d send(s) on the event queue, each in a select that also receives from quit %s", n, bad))
}

// checkMouseOffUnconditional: the helper that applies a mouse mode first switches every tracking mode
// off; that emission depends on the terminal having mouse support and on nothing else (not on what the
// application's bookkeeping says: DisableMouse has already zeroed it when the helper runs).
func checkMouseOffUnconditional(c *Ctx, p *Prog, rule string) {
	fn := p.Fn("tcell:(*tScreen).enableMouse")
	if fn == nil {
		c.Undecided(rule, "enableMouse", "-", "not found")
		return
	}
	n, bad := 0, ""
	eachInstr(fn, func(in ssa.Instruction) {
		cc := callCommon(in)
		if cc == nil || !strings.HasSuffix(calleeName(cc), "tScreen).TPuts") {
			return
		}
		s, isC := constString(cc.Args[1])
		if !isC || !strings.Contains(s, "?1000l") {
			return
		}
		n++
		for _, a := range guardsAt(in.Block()) {
			if !strings.Contains(a.L, "t.mouse)") && !strings.Contains(a.L, "t.mouse ") && a.L != "len(t.mouse)" {
				bad += "the switch-off depends on " + a.String() + "; "
			}
		}
		// and no return before it except for terminals without mouse support
		stop := map[ssa.Instruction]bool{in: true}
		for _, r := range returnsOf(fn) {
			if existsPathFromEntryAvoiding(fn, r, stop) {
				for _, a := range guardsAt(r.Block()) {
					if a.L != "len(t.mouse)" {
						bad += "a return at " + p.pos(r.Pos()) + " skips the switch-off under " + a.String() + "; "
					}
				}
			}
		}
	})
	c.Check(n == 1 && bad == "", rule, "enableMouse:switch-off-unconditional", p.pos(fn.Pos()), fmt.Sprintf("%d emission(s) of the all-off string, guarded by mouse support only %s", n, bad))
}

// checkVetoLast: TCELL_TRUECOLOR=disable has the last word in LookupTerminfo.  The value tested by the
// amendment (`if addtruecolor && …`) receives the constant false directly from the block of the
// "disable" case: nothing that can set it true again lies between the veto and the test.
func checkVetoLast(c *Ctx, p *Prog, rule string) {
	fn := p.Fn("terminfo:LookupTerminfo")
	if fn == nil {
		c.Undecided(rule, "LookupTerminfo", "-", "not found")
		return
	}
	// the store of SetFgRGB into the private copy marks the amendment; its guards include the tested flag,
	// either a bool (`if addtruecolor && …`) or one bit of a small set (`if amend&bit != 0 && …`)
	var flag *ssa.Phi
	var bit uint64
	for _, d := range deepInstrs(p, fn, 2, nil) {
		st, ok := d.in.(*ssa.Store)
		if !ok {
			continue
		}
		if ref, _, okR := fieldAddrRef(st.Addr); okR && ref.Name == "SetFgRGB" {
			// (the store itself, or the call of the helper that builds the amended copy)
			for _, g := range rawGuardsAt(d.anchor.Block()) {
				if phi, isPhi := g.Cond.(*ssa.Phi); isPhi && g.Positive && phi.Comment != "&&" && phi.Comment != "||" {
					if b, isB := phi.Type().Underlying().(*types.Basic); isB && b.Kind() == types.Bool {
						flag, bit = phi, 0
					}
				}
				if cmp, isCmp := g.Cond.(*ssa.BinOp); isCmp && cmp.Op == token.NEQ && g.Positive {
					if and, isAnd := cmp.X.(*ssa.BinOp); isAnd && and.Op == token.AND {
						if phi, isPhi := and.X.(*ssa.Phi); isPhi {
							if k, isK := constInt(and.Y); isK && k > 0 {
								if z, isZ := constInt(cmp.Y); isZ && z == 0 {
									flag, bit = phi, uint64(k)
								}
							}
						}
					}
				}
			}
		}
	}
	if flag == nil {
		// the amendment asks a helper: its answer is the last word when the helper itself reads the
		// variable and answers false on the "disable" edge
		for _, d := range deepInstrs(p, fn, 2, nil) {
			st, ok := d.in.(*ssa.Store)
			if !ok {
				continue
			}
			ref, _, okR := fieldAddrRef(st.Addr)
			if !okR || ref.Name != "SetFgRGB" {
				continue
			}
			for _, g := range rawGuardsAt(d.anchor.Block()) {
				call, isCall := g.Cond.(*ssa.Call)
				if !isCall || !g.Positive {
					continue
				}
				callee := call.Call.StaticCallee()
				if callee == nil || len(callee.Blocks) == 0 {
					continue
				}
				reads := len(callsIn(callee, func(n string, cc *ssa.CallCommon) bool {
					if n != "os.Getenv" {
						return false
					}
					s, _ := constString(cc.Args[0])
					return s == "TCELL_TRUECOLOR"
				})) > 0
				if !reads {
					continue
				}
				nFalse, nOther := 0, 0
				eachInstr(callee, func(in ssa.Instruction) {
					ret, isRet := in.(*ssa.Return)
					if !isRet || len(ret.Results) != 1 {
						return
					}
					under := false
					for _, g2 := range rawGuardsAt(in.Block()) {
						if bo, isBO := g2.Cond.(*ssa.BinOp); isBO && bo.Op == token.EQL && g2.Positive {
							if s, isS := constString(bo.Y); isS && s == "disable" {
								under = true
							}
						}
					}
					if !under {
						return
					}
					if v, isB := constBool(ret.Results[0]); isB && !v {
						nFalse++
					} else {
						nOther++
					}
				})
				c.Check(nFalse > 0 && nOther == 0, rule, "LookupTerminfo:disable-has-the-last-word", p.pos(call.Pos()), fmt.Sprintf("the amendment asks %s, which reads TCELL_TRUECOLOR and answers false on the disable edge (%d such return(s), %d other)", callee.Name(), nFalse, nOther))
				return
			}
		}
		c.Undecided(rule, "LookupTerminfo:amendment-flag", p.pos(fn.Pos()), "the flag tested before the RGB strings are added was not found")
		return
	}
	cleared := func(e ssa.Value) bool {
		if bit == 0 {
			v, isB := constBool(e)
			return isB && !v
		}
		// the bit is known to be zero: x &^ mask with the bit in mask, or x & mask without it, or a constant without it
		if k, isK := constInt(e); isK {
			return uint64(k)&bit == 0
		}
		if bo, isBO := e.(*ssa.BinOp); isBO {
			if k, isK := constInt(bo.Y); isK {
				switch bo.Op {
				case token.AND_NOT:
					return uint64(k)&bit != 0
				case token.AND:
					return uint64(k)&bit == 0
				}
			}
		}
		return false
	}
	ok := false
	for i, e := range flag.Edges {
		if !cleared(e) {
			continue
		}
		pred := flag.Block().Preds[i]
		for _, g := range rawGuardsAt(pred) {
			if bo, isBO := g.Cond.(*ssa.BinOp); isBO && bo.Op == token.EQL && g.Positive {
				if s, isS := constString(bo.Y); isS && s == "disable" {
					ok = true
				}
			}
		}
		// the case block itself may be the predecessor's own condition (switch lowered to an if chain)
		if len(pred.Instrs) > 0 {
			if iff, isIf := pred.Instrs[len(pred.Instrs)-1].(*ssa.If); isIf {
				if bo, isBO := iff.Cond.(*ssa.BinOp); isBO && bo.Op == token.EQL {
					if s, isS := constString(bo.Y); isS && s == "disable" && pred.Succs[0] == flag.Block() {
						ok = true
					}
				}
			}
		}
	}
	c.Check(ok, rule, "LookupTerminfo:disable-has-the-last-word", p.pos(flag.Pos()), "the flag tested by the amendment receives false straight from the TCELL_TRUECOLOR=disable case")
}

// checkFiniNotLockedOut: the simulation's Show, Sync and SetSize post the resize event while they hold
// the screen mutex and wait for room in the queue (the event must not be dropped, C18).  What ends that
// wait when nobody polls is the quit channel — so Fini has to close it before it asks for the mutex, or
// it queues up behind the very call it is meant to release.
func checkFiniNotLockedOut(c *Ctx, p *Prog, rule, tname string) {
	fini := p.Fn("tcell:(*" + tname + ").Fini")
	if fini == nil {
		c.Undecided(rule, tname+".Fini", "-", "not found")
		return
	}
	var closer ssa.Instruction
	closesQuit := func(fn *ssa.Function) bool {
		found := false
		eachInstr(fn, func(in ssa.Instruction) {
			if cc := callCommon(in); cc != nil {
				if b, ok := cc.Value.(*ssa.Builtin); ok && b.Name() == "close" && strings.HasSuffix(chanName(cc.Args[0], nil, 0), ".quit") {
					found = true
				}
			}
		})
		return found
	}
	eachInstr(fini, func(in ssa.Instruction) {
		cc := callCommon(in)
		if cc == nil {
			return
		}
		if b, ok := cc.Value.(*ssa.Builtin); ok && b.Name() == "close" && strings.HasSuffix(chanName(cc.Args[0], nil, 0), ".quit") {
			closer = in
		}
		if calleeName(cc) == "(*sync.Once).Do" && len(cc.Args) == 2 {
			if t := boundTarget(cc.Args[1]); t != nil && closesQuit(t) {
				closer = in
			}
		}
	})
	if closer == nil {
		c.Fail(rule, tname+".Fini:closes-quit-before-locking", p.pos(fini.Pos()), "Fini does not close the quit channel itself")
		return
	}
	locked := false
	for _, l := range callsIn(fini, func(n string, _ *ssa.CallCommon) bool { return n == "(*sync.Mutex).Lock" }) {
		if reachableAfter(l, closer) {
			locked = true
		}
	}
	c.Check(!locked, rule, tname+".Fini:closes-quit-before-locking", p.pos(closer.Pos()), "the quit channel is closed before Fini asks for the screen mutex (a SetSize waiting for queue room holds it)")
}

// minOfParamAndField: phi is min(parameter prm of fn, owner.field) written out with an if: its edges are
// exactly these two values, and the one that replaces the other does so on the edge of `new < running`.
func minOfParamAndField(phi *ssa.Phi, fn *ssa.Function, prm, owner, field string) bool {
	if len(phi.Edges) != 2 {
		return false
	}
	isPrm := func(v ssa.Value) bool { p, ok := v.(*ssa.Parameter); return ok && p.Name() == prm && p.Parent() == fn }
	isFld := func(v ssa.Value) bool {
		r, _, ok := loadedField(v)
		return ok && r.Owner == owner && r.Name == field
	}
	var pi, fi = -1, -1
	for i, e := range phi.Edges {
		if isPrm(e) {
			pi = i
		}
		if isFld(e) {
			fi = i
		}
	}
	if pi < 0 || fi < 0 {
		return false
	}
	// one of the two edges comes from a block that is entered only when its value is the smaller one
	for _, idx := range []int{pi, fi} {
		e, other := phi.Edges[idx], phi.Edges[1-idx]
		pred := phi.Block().Preds[idx]
		var conds []rawGuard
		conds = append(conds, rawGuardsAt(pred)...)
		if len(pred.Instrs) > 0 {
			if iff, isIf := pred.Instrs[len(pred.Instrs)-1].(*ssa.If); isIf {
				conds = append(conds, expandCond(iff.Cond, pred.Succs[0] == phi.Block(), 0)...)
			}
		}
		for _, g := range conds {
			bo, ok := g.Cond.(*ssa.BinOp)
			if !ok {
				continue
			}
			less := (bo.Op == token.LSS && g.Positive && sameValue(bo.X, e) && sameValue(bo.Y, other)) ||
				(bo.Op == token.GTR && g.Positive && sameValue(bo.Y, e) && sameValue(bo.X, other)) ||
				(bo.Op == token.LEQ && g.Positive && sameValue(bo.X, e) && sameValue(bo.Y, other)) ||
				(bo.Op == token.GEQ && g.Positive && sameValue(bo.Y, e) && sameValue(bo.X, other)) ||
				(bo.Op == token.GEQ && !g.Positive && sameValue(bo.X, e) && sameValue(bo.Y, other)) ||
				(bo.Op == token.LEQ && !g.Positive && sameValue(bo.Y, e) && sameValue(bo.X, other))
			if less {
				return true
			}
		}
	}
	return false
}

// calledOnlyFrom: fn is an unexported helper every use of which is a static call from one of the named
// functions (or from another such helper, to the given depth): what it does, those functions do.
func calledOnlyFrom(p *Prog, fn *ssa.Function, names map[string]bool, depth int) bool {
	if fn == nil || depth < 0 || fn.Object() == nil || fn.Object().Exported() {
		return false
	}
	uses := 0
	for _, g := range p.modFns {
		if g.Pkg != fn.Pkg {
			continue
		}
		bad := false
		eachInstr(g, func(in ssa.Instruction) {
			// any mention that is not the callee position of a static call lets the helper escape
			for _, op := range in.Operands(nil) {
				if *op == ssa.Value(fn) {
					cc := callCommon(in)
					if cc == nil || cc.StaticCallee() != fn {
						bad = true
						return
					}
					if _, isGo := in.(*ssa.Go); isGo {
						bad = true
						return
					}
					uses++
					if !names[topFunc(g).Name()] && !calledOnlyFrom(p, topFunc(g), names, depth-1) {
						bad = true
					}
				}
			}
		})
		if bad {
			return false
		}
	}
	return uses > 0
}

package main

// Rules added after seeding round 10.

import (
	"fmt"
	"go/token"
	"go/types"
	"strings"

	"golang.org/x/tools/go/ssa"
)

// mentionsValue: v is computed from target (not through phis).
func mentionsValue(v, target ssa.Value, depth int) bool {
	if v == nil || depth < 0 {
		return false
	}
	if v == target {
		return true
	}
	if _, isPhi := v.(*ssa.Phi); isPhi {
		return false
	}
	if in, ok := v.(ssa.Instruction); ok {
		for _, op := range in.Operands(nil) {
			if *op != nil && mentionsValue(*op, target, depth-1) {
				return true
			}
		}
	}
	return false
}

// checkExpiryIsTheCallers: the collect loop gives up waiting for the rest of a sequence only when its
// caller says the wait is over.  The expiry flag it tests is its parameter itself: no assignment inside
// the function (by the amount buffered, by the time) merges into it — a flag raised by the size of the
// buffer makes the decoding of a long report depend on how it was chunked.
func checkExpiryIsTheCallers(c *Ctx, p *Prog, rule string) {
	collect := collectLoopFn(p)
	if collect == nil {
		c.Undecided(rule, "collect loop", "-", "not found")
		return
	}
	var par *ssa.Parameter
	for _, q := range collect.Params {
		if bt, ok := q.Type().Underlying().(*types.Basic); ok && bt.Kind() == types.Bool {
			par = q
		}
	}
	if par == nil {
		c.Undecided(rule, collect.Name()+":expiry-parameter", p.pos(collect.Pos()), "no boolean parameter")
		return
	}
	bad := ""
	eachInstr(collect, func(in ssa.Instruction) {
		phi, ok := in.(*ssa.Phi)
		if !ok {
			return
		}
		has, other := false, false
		for _, e := range phi.Edges {
			if e == ssa.Value(par) {
				has = true
			} else if e != ssa.Value(phi) {
				other = true
			}
		}
		// the value form of `partials == 0 || expire` is a phi too: there the other edges are the
		// constants of the short circuit and the phi is boolean logic, not a reassignment; it is told
		// apart by the parameter's edge coming from the block that tested the other operand
		if has && other && phi.Comment == par.Name() {
			bad += "reassigned at " + p.pos(phi.Pos()) + "; "
		}
	})
	if al := derefAllocOf(par); al != nil {
		n := 0
		for _, r := range referrers(al) {
			if st, ok := r.(*ssa.Store); ok && st.Addr == ssa.Value(al) {
				n++
			}
		}
		if n > 1 {
			bad += "stored into more than once; "
		}
	}
	c.Check(bad == "", rule, collect.Name()+":expiry-is-the-parameter", p.pos(collect.Pos()), "the flag `"+par.Name()+"` the loop tests is the caller's, unchanged "+bad)
}

// derefAllocOf: the cell a parameter was spilled into (captured or address-taken), if any.
func derefAllocOf(par *ssa.Parameter) *ssa.Alloc {
	for _, r := range referrers(par) {
		if st, ok := r.(*ssa.Store); ok && st.Val == ssa.Value(par) {
			if al, isAl := st.Addr.(*ssa.Alloc); isAl {
				return al
			}
		}
	}
	return nil
}

// checkEventTimeFromConstructor: When() lies between the arrival of the cause and the delivery because
// the time stamp is taken where the event is made.  Every store into the time field of an event type
// lies in a function that makes the event (New…, or a composite literal with time.Now()) or in
// EventTime.SetEventTime, and every call of SetEventTime in the module passes time.Now() itself.
func checkEventTimeFromConstructor(c *Ctx, p *Prog, rule string) {
	isNow := func(v ssa.Value) bool {
		call, ok := v.(*ssa.Call)
		return ok && calleeName(&call.Call) == "time.Now"
	}
	n, bad := 0, ""
	for _, f := range p.modFns {
		if f.Pkg != p.Tcell {
			continue
		}
		eachInstr(f, func(in ssa.Instruction) {
			if st, ok := in.(*ssa.Store); ok {
				ref, _, okR := fieldAddrRef(st.Addr)
				if !okR || !strings.HasPrefix(ref.Owner, "tcell.Event") || typeName(st.Val.Type()) != "time.Time" {
					return
				}
				n++
				if isNow(st.Val) {
					return
				}
				if f.Name() == "SetEventTime" && recvTypeName(f) == "tcell.EventTime" {
					return
				}
				bad += fmt.Sprintf("%s stores %s into %s at %s; ", f.Name(), valName(st.Val), ref.String(), p.pos(st.Pos()))
			}
			if cc := callCommon(in); cc != nil && strings.HasSuffix(calleeName(cc), "EventTime).SetEventTime") {
				n++
				if len(cc.Args) < 2 || !isNow(cc.Args[1]) {
					bad += fmt.Sprintf("%s calls SetEventTime with something other than time.Now() at %s; ", f.Name(), p.pos(in.Pos()))
				}
			}
		})
	}
	c.Check(n >= 5 && bad == "", rule, "event-time:taken-where-the-event-is-made", "-", fmt.Sprintf("%d store(s) of an event's time, each time.Now() in the function that makes the event %s", n, bad))
}

// checkSetContentStoresWhatItIsGiven: SetContent records the rune and a copy of the combining list it was
// handed, for every in-range cell: the stores into currMain and currComb are decided by the range test
// alone (not by what the cell held before or by its cached width), the rune stored is the parameter
// itself and the list copied is the parameter itself (a rewritten pair — a zero-width rune moved into the
// combining list — reaches the terminal unsanitised).
func checkSetContentStoresWhatItIsGiven(c *Ctx, p *Prog, rule string) {
	fn := p.Fn("tcell:(*CellBuffer).SetContent")
	if fn == nil || len(fn.Params) < 5 {
		c.Undecided(rule, "SetContent", "-", "not found")
		return
	}
	var mainc, combc *ssa.Parameter
	for _, q := range fn.Params[1:] {
		switch t := q.Type().Underlying().(type) {
		case *types.Basic:
			if t.Kind() == types.Int32 {
				mainc = q
			}
		case *types.Slice:
			combc = q
		}
	}
	if mainc == nil || combc == nil {
		c.Undecided(rule, "SetContent:parameters", p.pos(fn.Pos()), "rune and combining-list parameters not found")
		return
	}
	cellGuard := func(b *ssa.BasicBlock) string {
		for _, g := range rawGuardsAt(b) {
			found := ""
			var walk func(v ssa.Value, d int)
			walk = func(v ssa.Value, d int) {
				if v == nil || d < 0 || found != "" {
					return
				}
				if ref, _, ok := loadedField(v); ok && ref.Owner == "tcell.cell" {
					found = ref.Name
					return
				}
				if _, isPhi := v.(*ssa.Phi); isPhi {
					return
				}
				if in, ok := v.(ssa.Instruction); ok {
					for _, op := range in.Operands(nil) {
						if *op != nil {
							walk(*op, d-1)
						}
					}
				}
			}
			walk(g.Cond, 6)
			if found != "" {
				return found
			}
		}
		return ""
	}
	nM, nC := 0, 0
	for _, st := range storesTo(fn, "tcell.cell", "currMain") {
		nM++
		bad := ""
		if stripConv(st.Val) != ssa.Value(mainc) {
			bad += "what is stored (" + valName(st.Val) + ") is not the rune given; "
		}
		if f := cellGuard(st.Block()); f != "" {
			bad += "the store depends on the cell's " + f + "; "
		}
		c.Check(bad == "", rule, fmt.Sprintf("SetContent:rune-stored-as-given#%d", nM), p.pos(st.Pos()), "currMain receives the rune parameter, for every in-range cell "+bad)
	}
	for _, st := range storesTo(fn, "tcell.cell", "currComb") {
		nC++
		bad := ""
		src := ssa.Value(nil)
		if call, ok := st.Val.(*ssa.Call); ok {
			if b, isB := call.Call.Value.(*ssa.Builtin); isB && b.Name() == "append" && len(call.Call.Args) == 2 {
				src = call.Call.Args[1]
			}
		}
		if src == nil {
			src = st.Val
		}
		if sl, ok := src.(*ssa.Slice); ok && sl.Low == nil && sl.High == nil {
			src = sl.X
		}
		if src != ssa.Value(combc) {
			bad += "what is copied (" + valName(src) + ") is not the list given; "
		}
		if f := cellGuard(st.Block()); f != "" {
			bad += "the store depends on the cell's " + f + "; "
		}
		c.Check(bad == "", rule, fmt.Sprintf("SetContent:combining-list-stored-as-given#%d", nC), p.pos(st.Pos()), "currComb receives a copy of the list parameter, for every in-range cell "+bad)
	}
	if nM == 0 || nC == 0 {
		c.Undecided(rule, "SetContent:stores", p.pos(fn.Pos()), fmt.Sprintf("%d store(s) of the rune, %d of the combining list", nM, nC))
	}
}

// checkChunkBufferedAsRead: what the main loop appends to the decode buffer is the chunk as it came from
// the reader.  Anything that rewrites a chunk before it joins the bytes already waiting (a CSI
// expansion, a transcoding) looks at characters the read boundary may have cut in two, and the events
// then depend on the partition.
func checkChunkBufferedAsRead(c *Ctx, p *Prog, rule string) {
	ml := p.Fn("tcell:(*tScreen).mainLoop")
	if ml == nil {
		c.Undecided(rule, "mainLoop", "-", "not found")
		return
	}
	isRecv := func(v ssa.Value) bool {
		switch x := v.(type) {
		case *ssa.Extract:
			_, ok := x.Tuple.(*ssa.Select)
			return ok
		case *ssa.UnOp:
			return x.Op == token.ARROW
		}
		return false
	}
	n, bad := 0, ""
	for _, d := range deepInstrs(p, ml, 1, nil) {
		cc := callCommon(d.in)
		if cc == nil || len(cc.Args) != 2 {
			continue
		}
		name := calleeName(cc)
		if name != "(*bytes.Buffer).Write" {
			continue
		}
		n++
		for _, src := range phiSourcesAll(d.bindVal(cc.Args[1])) {
			if _, isPhi := src.(*ssa.Phi); isPhi {
				continue
			}
			s := src
			if sl, ok := s.(*ssa.Slice); ok && sl.Low == nil && sl.High == nil {
				s = sl.X
			}
			if !isRecv(s) {
				bad += fmt.Sprintf("the buffer receives %s at %s; ", valName(src), p.pos(d.in.Pos()))
			}
		}
	}
	c.Check(n >= 1 && bad == "", rule, "mainLoop:chunk-buffered-as-read", p.pos(ml.Pos()), fmt.Sprintf("%d append(s) to the decode buffer, each of the value received from the reader %s", n, bad))
}

// checkLookupLeavesPackageStateAlone: what a lookup returns does not depend on earlier lookups, also
// because LookupTerminfo and what it calls store nothing into package-level variables (a memo of
// synthesized entries keeps the direct-colour strings of whichever environment filled it first).
func checkLookupLeavesPackageStateAlone(c *Ctx, p *Prog, rule string) {
	fn := p.Fn("terminfo:LookupTerminfo")
	if fn == nil {
		c.Undecided(rule, "LookupTerminfo", "-", "not found")
		return
	}
	n, bad := 0, ""
	seen := map[*ssa.Function]bool{}
	var walk func(f *ssa.Function, depth int)
	walk = func(f *ssa.Function, depth int) {
		if f == nil || seen[f] || len(f.Blocks) == 0 || f.Pkg != p.Terminfo || depth < 0 {
			return
		}
		seen[f] = true
		n++
		eachInstr(f, func(in ssa.Instruction) {
			switch x := in.(type) {
			case *ssa.Store:
				for a := x.Addr; a != nil; {
					if g, ok := a.(*ssa.Global); ok {
						bad += fmt.Sprintf("%s stores into %s at %s; ", f.Name(), g.Name(), p.pos(in.Pos()))
					}
					switch y := a.(type) {
					case *ssa.IndexAddr:
						a = y.X
					case *ssa.FieldAddr:
						a = y.X
					default:
						a = nil
					}
				}
			case *ssa.MapUpdate:
				if u, ok := x.Map.(*ssa.UnOp); ok {
					if g, isG := u.X.(*ssa.Global); isG {
						bad += fmt.Sprintf("%s writes the map %s at %s; ", f.Name(), g.Name(), p.pos(in.Pos()))
					}
				}
			}
			if cc := callCommon(in); cc != nil {
				if b, ok := cc.Value.(*ssa.Builtin); ok && b.Name() == "delete" && len(cc.Args) > 0 {
					if u, ok := cc.Args[0].(*ssa.UnOp); ok {
						if g, isG := u.X.(*ssa.Global); isG {
							bad += fmt.Sprintf("%s deletes from %s at %s; ", f.Name(), g.Name(), p.pos(in.Pos()))
						}
					}
				}
				if h := cc.StaticCallee(); h != nil && h.Name() != "AddTerminfo" {
					walk(h, depth-1)
				}
			}
		})
	}
	walk(fn, 3)
	c.Check(n > 0 && bad == "", rule, "LookupTerminfo:no-package-state-written", p.pos(fn.Pos()), fmt.Sprintf("%d function(s) reachable from the lookup, none storing into a package-level variable %s", n, bad))
}

// checkFoundBaseSwitchesDirectColourOn: NAME-truecolor for a known base gets the standard strings
// whichever member of the family the base was found under.  Each lookup of a candidate base inside the
// "-truecolor" branch has its result tested, and on the found edge the flag that the amendment tests
// receives true.
func checkFoundBaseSwitchesDirectColourOn(c *Ctx, p *Prog, rule string) {
	fn := p.Fn("terminfo:LookupTerminfo")
	if fn == nil {
		c.Undecided(rule, "LookupTerminfo", "-", "not found")
		return
	}
	underSuffix := func(b *ssa.BasicBlock) bool {
		for _, g := range rawGuardsAt(b) {
			hit := false
			var walk func(v ssa.Value, d int)
			walk = func(v ssa.Value, d int) {
				if v == nil || d < 0 || hit {
					return
				}
				if call, ok := v.(*ssa.Call); ok && calleeName(&call.Call) == "strings.HasSuffix" && len(call.Call.Args) == 2 {
					if s, isC := constString(call.Call.Args[1]); isC && s == "-truecolor" {
						hit = true
						return
					}
				}
				if _, isPhi := v.(*ssa.Phi); isPhi {
					return
				}
				if in, ok := v.(ssa.Instruction); ok {
					for _, op := range in.Operands(nil) {
						if *op != nil {
							walk(*op, d-1)
						}
					}
				}
			}
			walk(g.Cond, 4)
			if hit && g.Positive {
				return true
			}
		}
		return false
	}
	n := 0
	eachInstr(fn, func(in ssa.Instruction) {
		call, ok := in.(*ssa.Call)
		if !ok || !underSuffix(call.Block()) {
			return
		}
		// the lookup itself, or a helper that runs it over the candidate names
		h := call.Call.StaticCallee()
		if h == nil || h.Pkg != p.Terminfo || !(h == fn || reachesStatically(h, fn, 2)) {
			return
		}
		if rs := h.Signature.Results(); rs.Len() == 0 || !strings.HasSuffix(typeName(rs.At(0).Type()), "Terminfo") {
			return
		}
		n++
		key := fmt.Sprintf("LookupTerminfo:truecolor-candidate#%d:found-switches-direct-colour-on", n)
		// the entry returned
		var res ssa.Value
		if h.Signature.Results().Len() == 1 {
			res = call
		}
		for _, r := range referrers(call) {
			if ex, ok := r.(*ssa.Extract); ok && ex.Index == 0 {
				res = ex
			}
		}
		if res == nil {
			c.Fail(rule, key, p.pos(call.Pos()), "the entry found is not used")
			return
		}
		ok2 := false
		for _, b := range fn.Blocks {
			if len(b.Instrs) == 0 {
				continue
			}
			iff, isIf := b.Instrs[len(b.Instrs)-1].(*ssa.If)
			if !isIf {
				continue
			}
			bo, isBO := iff.Cond.(*ssa.BinOp)
			if !isBO || (bo.Op != token.NEQ && bo.Op != token.EQL) {
				continue
			}
			if !(bo.X == res && isNilConst(bo.Y)) && !(bo.Y == res && isNilConst(bo.X)) {
				continue
			}
			foundIdx := 0
			if bo.Op == token.EQL {
				foundIdx = 1
			}
			// on the found edge some boolean phi receives the constant true
			eachInstr(fn, func(in2 ssa.Instruction) {
				phi, isPhi := in2.(*ssa.Phi)
				if !isPhi {
					return
				}
				if _, isB := phi.Type().Underlying().(*types.Basic); !isB {
					return
				}
				for i, e := range phi.Edges {
					raised := false
					if v, isC := constBool(e); isC && v {
						raised = true
					}
					if bo, isBO := e.(*ssa.BinOp); isBO && bo.Op == token.OR {
						if k, isK := constInt(bo.Y); isK && k != 0 {
							raised = true // a bit of a flag set
						}
					}
					if raised && i < len(phi.Block().Preds) {
						pr := phi.Block().Preds[i]
						if pr == b.Succs[foundIdx] || edgeDominates(b, foundIdx, pr) || (pr == b && phi.Block() == b.Succs[foundIdx]) {
							ok2 = true
						}
					}
				}
			})
		}
		c.Check(ok2, rule, key, p.pos(call.Pos()), "the result is tested against nil and the found edge raises the direct-colour flag")
	})
	if n == 0 {
		c.Undecided(rule, "LookupTerminfo:truecolor-candidates", p.pos(fn.Pos()), "no recursive lookup under the -truecolor suffix test")
	}
}

// checkWellFormedPaddingRemoved: a well-formed padding specification is removed whole whatever the
// description says about pad characters (that only decides the sleep).  Every way round the scanning
// loop of TPuts passes the reslice that skips the terminator, or the write that keeps the marker of a
// specification the grammar rejects.
func checkWellFormedPaddingRemoved(c *Ctx, p *Prog, rule string) {
	fn := p.Fn("terminfo:(*Terminfo).TPuts")
	if fn == nil {
		c.Undecided(rule, "TPuts", "-", "not found")
		return
	}
	searches := tputsSearches(fn)
	var header *ssa.BasicBlock
	marker := ""
	var term *tputsSearch
	for i := range searches {
		sr := &searches[i]
		if !sr.okMarker {
			continue
		}
		if marker == "" && len(sr.marker) >= 2 {
			marker, header = sr.marker, sr.call.Block()
		} else if term == nil && len(sr.marker) == 1 {
			term = sr
		}
	}
	if header == nil || term == nil {
		c.Undecided(rule, "TPuts:searches", p.pos(fn.Pos()), "marker and terminator searches not found in TPuts itself (a helper form is decided by C15-R5)")
		return
	}
	var skips, keeps []ssa.Instruction
	eachInstr(fn, func(in ssa.Instruction) {
		if sl, ok := in.(*ssa.Slice); ok && sl.Low != nil {
			if bo, isBO := sl.Low.(*ssa.BinOp); isBO && bo.Op == token.ADD && bo.X == ssa.Value(term.call) {
				skips = append(skips, in)
			}
		}
		if ex, ok := in.(*ssa.Extract); ok && term.cut && ex.Tuple == ssa.Value(term.call) && ex.Index == 1 {
			skips = append(skips, in)
		}
		if cc := callCommon(in); cc != nil && !strings.HasPrefix(calleeName(cc), "strings.") {
			for _, a := range cc.Args {
				if s, isC := constString(a); isC && s == marker {
					keeps = append(keeps, in)
				}
				if bo, isBO := a.(*ssa.BinOp); isBO && bo.Op == token.ADD {
					if s, isC := constString(bo.X); isC && s == marker {
						keeps = append(keeps, in)
					}
				}
			}
		}
	})
	back, bad := 0, ""
	for _, b := range fn.Blocks {
		for _, s := range b.Succs {
			if s != header || !s.Dominates(b) || s == b {
				continue
			}
			back++
			dom := false
			for _, k := range append(append([]ssa.Instruction{}, skips...), keeps...) {
				if k.Block() == b || k.Block().Dominates(b) {
					dom = true
				}
			}
			if !dom {
				bad += "the way round the loop from " + p.pos(firstPos(b)) + " neither skips the terminator nor keeps the marker; "
			}
		}
	}
	c.Check(back > 0 && len(skips) > 0 && bad == "", rule, "TPuts:specification-removed-whole", p.pos(fn.Pos()), fmt.Sprintf("%d way(s) round the scanning loop, each past the terminator skip (%d) or the write that keeps the marker (%d) %s", back, len(skips), len(keeps), bad))
}

// checkResizeSkippedOnlyWhenBothEqual: a size change in one dimension is a size change.  A way through
// the screen's resize that does not reach CellBuffer.Resize knows both dimensions equal (or an error
// from the size query).
func checkResizeSkippedOnlyWhenBothEqual(c *Ctx, p *Prog, rule, tname string) {
	fn := p.Fn("tcell:(*" + tname + ").resize")
	if fn == nil {
		c.Undecided(rule, tname+".resize", "-", "not found")
		return
	}
	stop := map[ssa.Instruction]bool{}
	eachInstr(fn, func(in ssa.Instruction) {
		if cc := callCommon(in); cc != nil && strings.HasSuffix(calleeName(cc), "CellBuffer).Resize") {
			stop[in] = true
		}
	})
	if len(stop) == 0 {
		c.Undecided(rule, tname+".resize:buffer-resize", p.pos(fn.Pos()), "no call of CellBuffer.Resize")
		return
	}
	reach := map[*ssa.BasicBlock]bool{} // blocks whose end is reachable from the entry without the resize
	var walk func(b *ssa.BasicBlock)
	walk = func(b *ssa.BasicBlock) {
		if reach[b] || deadBlock(b) {
			return
		}
		for _, in := range b.Instrs {
			if stop[in] {
				return
			}
		}
		reach[b] = true
		for _, s := range b.Succs {
			walk(s)
		}
	}
	walk(fn.Blocks[0])
	enough := func(as []Atom) bool {
		eq := map[string]bool{}
		for _, a := range as {
			if a.Op == "==" && a.R != "nil" && a.R != "true" && a.R != "false" {
				eq[a.String()] = true
			}
			if a.Op == "!=" && a.R == "nil" {
				return true // the size query failed
			}
		}
		return len(eq) >= 2
	}
	n, bad := 0, ""
	for _, r := range returnsOf(fn) {
		b := r.Block()
		if !reach[b] {
			continue
		}
		n++
		if enough(guardsAt(b)) {
			continue
		}
		for _, pr := range b.Preds {
			if !reach[pr] {
				continue
			}
			if !enough(guardsOnEdge(pr, b)) {
				bad += fmt.Sprintf("the return at %s is reached from %s without the buffer being resized, knowing only %v; ", p.pos(r.Pos()), p.pos(firstPos(pr)), guardsOnEdge(pr, b))
			}
		}
		if len(b.Preds) == 0 {
			bad += "the function returns at once; "
		}
	}
	c.Check(bad == "", rule, tname+".resize:skipped-only-when-both-dimensions-are-equal", p.pos(fn.Pos()), fmt.Sprintf("%d way(s) out without CellBuffer.Resize, each knowing both dimensions unchanged or the size query failed %s", n, bad))
}

// checkWebCombiningAlwaysSent: the text drawn for a cell on the page contains its combining runes
// whatever its main rune is: what uses the combining list GetContent returned is decided by that list
// alone (its length), not by the main rune.
func checkWebCombiningAlwaysSent(c *Ctx, p *Prog, rule string) {
	fn := p.Fn("tcell:(*wScreen).drawCell")
	if fn == nil {
		c.Undecided(rule, "(*wScreen).drawCell", "-", "not found")
		return
	}
	var comb ssa.Value
	eachInstr(fn, func(in ssa.Instruction) {
		if ex, ok := in.(*ssa.Extract); ok && ex.Index == 1 {
			if call, isCall := ex.Tuple.(*ssa.Call); isCall && strings.HasSuffix(calleeName(&call.Call), "CellBuffer).GetContent") {
				comb = ex
			}
		}
	})
	if comb == nil {
		c.Undecided(rule, "drawCell:combining-list", p.pos(fn.Pos()), "GetContent's second result is not taken")
		return
	}
	// the cell's other contents (main rune, style, width)
	var others []ssa.Value
	for _, r := range referrers(comb.(*ssa.Extract).Tuple) {
		if ex, ok := r.(*ssa.Extract); ok && ex.Index != 1 {
			others = append(others, ex)
		}
	}
	n, bad := 0, ""
	var follow func(list ssa.Value, others []ssa.Value, outer []rawGuard, outerOthers []ssa.Value, depth int)
	follow = func(list ssa.Value, others []ssa.Value, outer []rawGuard, outerOthers []ssa.Value, depth int) {
		for _, r := range referrers(list) {
			in, ok := r.(ssa.Instruction)
			if !ok {
				continue
			}
			uses := false
			switch x := r.(type) {
			case *ssa.Call:
				if b, isB := x.Call.Value.(*ssa.Builtin); isB {
					uses = b.Name() == "append"
				} else if h := x.Call.StaticCallee(); h != nil && h.Pkg == p.Tcell && len(h.Blocks) > 0 && depth > 0 {
					// a helper that builds the text: its parameter stands for the list, its other
					// parameters that receive the cell's other contents for those
					var hl ssa.Value
					var ho []ssa.Value
					for i, a := range x.Call.Args {
						if i >= len(h.Params) {
							break
						}
						if a == list {
							hl = h.Params[i]
						}
						for _, o := range others {
							if a == o {
								ho = append(ho, h.Params[i])
							}
						}
					}
					if hl != nil {
						follow(hl, ho, append(append([]rawGuard{}, outer...), rawGuardsAt(in.Block())...), append(append([]ssa.Value{}, outerOthers...), others...), depth-1)
					}
				}
			case *ssa.Range, *ssa.Index, *ssa.IndexAddr, *ssa.Slice, *ssa.Convert:
				uses = true
			}
			if !uses {
				continue
			}
			n++
			for _, g := range rawGuardsAt(in.Block()) {
				for _, o := range others {
					if mentionsValue(g.Cond, o, 5) {
						bad += fmt.Sprintf("the use at %s depends on %s; ", p.pos(in.Pos()), valName(g.Cond))
					}
				}
			}
			for _, g := range outer {
				for _, o := range outerOthers {
					if mentionsValue(g.Cond, o, 5) {
						bad += fmt.Sprintf("the use at %s is reached only under %s; ", p.pos(in.Pos()), valName(g.Cond))
					}
				}
			}
		}
	}
	follow(comb, others, nil, nil, 2)
	c.Check(n > 0 && bad == "", rule, "wScreen.drawCell:combining-runes-always-in-the-text", p.pos(fn.Pos()), fmt.Sprintf("%d use(s) of the combining list, decided by the list alone %s", n, bad))
}

// checkContentEventAlwaysRelayouts: a BoxLayout lays its children out again whenever one of them
// reports a content change: in HandleEvent the store that marks the layout changed is decided by the
// event's type alone, not by a test of who sent it (widgets that are boxes or texts by embedding post
// with the embedded receiver, which never equals the child the box holds).
func checkContentEventAlwaysRelayouts(c *Ctx, p *Prog, rule string) {
	if p.Views == nil {
		c.Undecided(rule, "package views", "-", "not loaded")
		return
	}
	fn := p.Fn("views:(*BoxLayout).HandleEvent")
	if fn == nil {
		c.Undecided(rule, "BoxLayout.HandleEvent", "-", "not found")
		return
	}
	n, bad := 0, ""
	for _, d := range deepInstrs(p, fn, 1, nil) {
		st, ok := d.in.(*ssa.Store)
		if !ok {
			continue
		}
		ref, _, okR := fieldAddrRef(st.Addr)
		if !okR || ref.Owner != "views.BoxLayout" {
			continue
		}
		if v, isC := constBool(st.Val); !isC || !v {
			continue
		}
		n++
		for _, g := range d.rawGuards() {
			var hasCall func(v ssa.Value, depth int) string
			hasCall = func(v ssa.Value, depth int) string {
				if v == nil || depth < 0 {
					return ""
				}
				if call, isCall := v.(*ssa.Call); isCall {
					return calleeName(&call.Call)
				}
				if _, isPhi := v.(*ssa.Phi); isPhi {
					return ""
				}
				if in, isIn := v.(ssa.Instruction); isIn {
					for _, op := range in.Operands(nil) {
						if *op != nil {
							if s := hasCall(*op, depth-1); s != "" {
								return s
							}
						}
					}
				}
				return ""
			}
			if s := hasCall(g.Cond, 4); s != "" {
				bad += fmt.Sprintf("the re-layout at %s depends on a call of %s; ", p.pos(st.Pos()), s)
			}
		}
	}
	c.Check(n > 0 && bad == "", rule, "BoxLayout.HandleEvent:content-event-marks-the-layout-changed", p.pos(fn.Pos()), fmt.Sprintf("%d store(s) raising a flag of the box, decided by the event's type alone %s", n, bad))
}

// checkDrainMakesDescriptorNonBlocking: Drain has to get a reader out of a read(2) that is already in
// progress on a descriptor the runtime does not poll (stdin): VMIN=0 only affects reads issued
// afterwards, the read in progress returns when the descriptor is non-blocking.  The Drain of the stdin
// Tty reaches syscall.SetNonblock(fd, true), and Start takes it back.
func checkDrainMakesDescriptorNonBlocking(c *Ctx, p *Prog, rule string) {
	drain := p.Fn("tcell:(*stdIoTty).Drain")
	start := p.Fn("tcell:(*stdIoTty).Start")
	if drain == nil || start == nil {
		c.Undecided(rule, "stdIoTty", "-", "Drain or Start not found")
		return
	}
	sets := func(fn *ssa.Function, want bool) bool {
		hit := false
		for _, d := range deepInstrs(p, fn, 2, nil) {
			cc := callCommon(d.in)
			if cc == nil || calleeName(cc) != "syscall.SetNonblock" || len(cc.Args) != 2 {
				continue
			}
			if v, isC := constBool(d.bindVal(cc.Args[1])); isC && v == want {
				hit = true
			}
		}
		return hit
	}
	c.Check(sets(drain, true), rule, "stdIoTty.Drain:descriptor-made-non-blocking", p.pos(drain.Pos()), "Drain reaches syscall.SetNonblock(fd, true): a read in progress on the inherited descriptor returns")
	c.Check(sets(start, false), rule, "stdIoTty.Start:descriptor-made-blocking-again", p.pos(start.Pos()), "Start reaches syscall.SetNonblock(fd, false)")
}

// checkBackgroundSelectedOnEveryPath: in the palette tail of sendFgBg a valid background is selected
// whatever happened to the foreground: every way to a return passes an emission that carries the
// background (SetBg, SetFgBg, SetBgRGB, SetFgBgRGB), or a test that found the background invalid or the
// capability empty, or the monochrome branch.
func checkBackgroundSelectedOnEveryPath(c *Ctx, p *Prog, rule string) {
	fn := p.Fn("tcell:(*tScreen).sendFgBg")
	if fn == nil || len(fn.Params) < 3 {
		c.Undecided(rule, "sendFgBg", "-", "not found")
		return
	}
	bg := fn.Params[2]
	carries := map[string]bool{"SetBg": true, "SetFgBg": true, "SetBgRGB": true, "SetFgBgRGB": true}
	bgLineage := func(v ssa.Value) bool {
		for _, s := range phiSourcesAll(derefCell(v)) {
			if s == ssa.Value(bg) {
				return true
			}
		}
		return false
	}
	emits := func(b *ssa.BasicBlock) bool {
		for _, in := range b.Instrs {
			cc := callCommon(in)
			if cc == nil || !strings.HasSuffix(calleeName(cc), "Terminfo).TParm") || len(cc.Args) < 2 {
				continue
			}
			if ref, _, ok := loadedField(cc.Args[1]); ok && ref.Owner == "terminfo.Terminfo" && carries[ref.Name] {
				return true
			}
		}
		return false
	}
	// does the edge (b → succ idx) decide "no background to select"?
	decides := func(b *ssa.BasicBlock, idx int) bool {
		iff, ok := b.Instrs[len(b.Instrs)-1].(*ssa.If)
		if !ok {
			return false
		}
		for _, g := range expandCond(iff.Cond, idx == 0, 0) {
			// bg.Valid() false, bg.IsRGB() irrelevant
			if call, isCall := g.Cond.(*ssa.Call); isCall && !g.Positive {
				if strings.HasSuffix(calleeName(&call.Call), "Color).Valid") && len(call.Call.Args) == 1 && bgLineage(call.Call.Args[0]) {
					return true
				}
			}
			if bo, isBO := g.Cond.(*ssa.BinOp); isBO {
				for _, side := range []ssa.Value{bo.X, bo.Y} {
					if ref, _, ok := loadedField(side); ok && ref.Owner == "terminfo.Terminfo" {
						empty := (bo.Op == token.NEQ && !g.Positive) || (bo.Op == token.EQL && g.Positive)
						if carries[ref.Name] && empty {
							return true
						}
						if ref.Name == "Colors" {
							if k, isK := constInt(bo.Y); isK && k == 0 && ((bo.Op == token.EQL && g.Positive) || (bo.Op == token.NEQ && !g.Positive)) {
								return true // the monochrome branch
							}
						}
					}
				}
			}
		}
		return false
	}
	seen := map[*ssa.BasicBlock]bool{}
	bad := ""
	nRet := 0
	var walk func(b *ssa.BasicBlock)
	walk = func(b *ssa.BasicBlock) {
		if seen[b] || deadBlock(b) || len(b.Instrs) == 0 {
			return
		}
		seen[b] = true
		if emits(b) {
			return
		}
		if r, ok := b.Instrs[len(b.Instrs)-1].(*ssa.Return); ok {
			nRet++
			bad += fmt.Sprintf("the return at %s is reached without the background having been selected or found absent; ", p.pos(r.Pos()))
			return
		}
		for i, s := range b.Succs {
			if len(b.Succs) == 2 && decides(b, i) {
				continue
			}
			walk(s)
		}
	}
	walk(fn.Blocks[0])
	c.Check(bad == "", rule, "sendFgBg:background-selected-on-every-path", p.pos(fn.Pos()), fmt.Sprintf("every way to a return passes an emission carrying the background, or a test that found it invalid or the capability empty (%d blocks walked) %s", len(seen), bad))
}

// checkFrameBufferStartsEmpty: each pass starts from an empty frame buffer: draw resets it before it
// switches buffering on.  (WriteTo keeps what a short write left over; without the reset an idle Show
// would send the leftover of the previous frame.)
func checkFrameBufferStartsEmpty(c *Ctx, p *Prog, rule string) {
	draw := p.Fn("tcell:(*tScreen).draw")
	if draw == nil {
		c.Undecided(rule, "tScreen.draw", "-", "not found")
		return
	}
	onBuf := func(in ssa.Instruction, method string) bool {
		cc := callCommon(in)
		if cc == nil || calleeName(cc) != "(*bytes.Buffer)."+method || len(cc.Args) < 1 {
			return false
		}
		ref, _, ok := fieldAddrRef(cc.Args[0])
		return ok && ref.Owner == "tcell.tScreen"
	}
	var resets, flushes []ssa.Instruction
	for _, d := range deepInstrs(p, draw, 1, nil) {
		if onBuf(d.in, "Reset") {
			resets = append(resets, d.anchor)
		}
		if onBuf(d.in, "WriteTo") {
			flushes = append(flushes, d.anchor)
		}
	}
	ok := len(resets) > 0 && len(flushes) > 0
	for _, f := range flushes {
		dom := false
		for _, r := range resets {
			if r != nil && f != nil && instrDominates(r, f) {
				dom = true
			}
		}
		if !dom {
			ok = false
		}
	}
	c.Check(ok, rule, "tScreen.draw:frame-buffer-reset-before-the-flush", p.pos(draw.Pos()), fmt.Sprintf("%d reset(s) of the frame buffer, dominating the %d flush(es)", len(resets), len(flushes)))
}

package main

import (
	"fmt"
	"go/constant"
	"go/token"
	"go/types"
	"sort"
	"strconv"
	"strings"

	"golang.org/x/tools/go/ssa"
)

func init() {
	register("C07", checkC07, "Interpreter correctness over all programs is not statically decidable; decided instead, on the SSA form of Terminfo.TParm and its stack: the operator dispatch covers the whole terminfo(5) operator alphabet (including %A %O and the # space . format leaders); every binary operator pops its right operand first and applies the Go operator that corresponds to its byte, division and modulo guarded against zero; stack coercions (bool→1/0, string↔int) and the empty-stack behaviour have the specified shape; the skipping scanner looks at conditional openers as well as closers (nesting); every loop consumes input and leaves at end of input (termination), array indices and stack pops are guarded (no panic). And exhaustively over the data: every parameterised string of the database and every hard-coded parameterised literal parses as a well-formed program using only operators the dispatch implements and only parameters the call sites supply. What each handler computes beyond these patterns (printf details, %c of unusual values, static-variable sharing) is not decided.")
}

var terminfoAlphabet = "%csdoxXipPg'{l+-*/m&|^~!=><AO?te;"
var terminfoFormatLead = ":# .0123456789"

func checkC07(c *Ctx) {
	c.Rule("C07-R1", "the byte dispatch after % covers the terminfo(5) operator alphabet and the format introducers")
	c.Rule("C07-R2", "binary operators: right operand popped first, second pop from the stack the first returned, Go operator matches the byte; / and m guarded by a non-zero test")
	c.Rule("C07-R2b", "stack coercions: Push maps true→1,false→0; PopInt/PopString convert; empty stack yields the zero value under a length guard")
	c.Rule("C07-R3", "the skip scanner compares the byte after % with the conditional opener '?' as well as ';'/'e' (nested conditionals)")
	c.Rule("C07-R4", "every loop in TParm is counted or consumes input through NextCh and leaves at end of input; only Start fills the input buffer")
	c.Rule("C07-R5", "array indexing in TParm is range-guarded")
	c.Rule("C07-R6", "every parameterised string of the database and of the library's literals parses, uses only implemented operators and only the parameters its call site supplies")
	c.Expect("C07-R1", 40)
	c.Expect("C07-R2", 11)
	c.Expect("C07-R2b", 5)
	c.Expect("C07-R3", 4)
	c.Rule("C07-R10", "the state of one evaluation (parameter copy, dynamic variables, stack, buffers) is local to the call: allocated in TParm, no pooled or package-level storage except the static variables")
	c.Expect("C07-R10", 3)
	c.Rule("C07-R8", "%i increments each of the first two parameters on its own (each increment depends only on that parameter being an integer)")
	c.Rule("C07-R9", "every pop in TParm continues with the popped stack (the stack a Pop returns is never discarded)")
	c.Expect("C07-R8", 2)
	c.Expect("C07-R9", 10)
	c.Rule("C07-R7", "%c writes exactly one byte, the low 8 bits of the popped integer (byte-addressed cursor strings rely on it for values of 128 and above)")
	c.Expect("C07-R7", 1)
	c.Expect("C07-R4", 4)
	c.Expect("C07-R5", 5)
	c.Expect("C07-R6", 49)
	c.Rule("C07-R11", "variables, constants and unary operators as terminfo(5) defines them: %P/%g address the static variables with ch-'A' under 'A'..'Z' and the dynamic ones with ch-'a' under 'a'..'z'; %'c' pushes the quoted character; %{n} accumulates decimal digits from zero; %l pushes the popped string's length; %! pushes x==0; %~ pushes x^-1")
	c.Expect("C07-R11", 9)
	c.Rule("C07-R12", "the cursor string is what TParm computes in this call: TGoto keeps no state across calls (= C15-R1)")
	c.Expect("C07-R12", 2)
	if err := tpSelfTest(); err != nil {
		c.Undecided("C07-R6", "self-test", "-", err.Error())
		return
	}
	p := c.P("linux")
	if p == nil || p.Terminfo == nil {
		c.Undecided("C07-R1", "package terminfo", "-", "not loaded")
		return
	}
	c.Rule("C07-R13", "printf-style specifications: the flags '#', ' ', '+', '-' are collected for every specification, not only behind the ':' introducer (%#x and '% d' are written without it)")
	c.Expect("C07-R13", 1)
	c.Rule("C07-R14", "a printf-style conversion formats an operand coerced to what the conversion byte asks for: the element popped as a number for %d %x %X %o %c, popped as a string for %s (the stack holds both side by side: %P stores strings, parameters may be either)")
	c.Expect("C07-R14", 2)
	checkFormattedOperandCoerced(c, p, "C07-R14")
	c.Rule("C07-R16", "every way of completing an operator takes the same number of operands off the stack (a shortcut for a zero divisor that pushes before the dividend is popped leaves the dividend under the result)")
	c.Expect("C07-R16", 1)
	checkOperandsConsumedAlike(c, p, "C07-R16")
	c.Rule("C07-R17", "nothing of a skipped conditional part is copied, %% included: every output in the interpreter's loop lies where the skipping mode is known to be emit")
	c.Expect("C07-R17", 1)
	checkOutputBehindSkipGate(c, p, "C07-R17")
	c.Rule("C07-R18", "every operand pushed is there to be popped, however deep the expression: each return of stack.Push answers an append to the stack (a bounded stack that ignores a push loses operands of well-formed strings)")
	c.Expect("C07-R18", 1)
	checkPushAlwaysAppends(c, p, "C07-R18")
	c.Rule("C07-R15", "%d writes the decimal form of the number it pops: strconv's form handed to the output, or a helper decided by constant evaluation for every number from -1000 to 70000 (= C15-R10)")
	c.Expect("C07-R15", 1)
	c.asRule("C15-R10", "C07-R15", func() { checkDecimalOutput(c, p, "C15-R10") })
	checkFormatFlagsAlways(c, p, "C07-R13")
	fn := p.Fn("terminfo:(*Terminfo).TParm")
	if fn == nil {
		c.Undecided("C07-R1", "TParm", "-", "not found")
		return
	}
	// NextCh calls and the values derived from their first result
	var nextCalls []*ssa.Call
	eachInstr(fn, func(in ssa.Instruction) {
		if call, ok := in.(*ssa.Call); ok && p.isInputRead(&call.Call) {
			nextCalls = append(nextCalls, call)
		}
	})
	if len(nextCalls) < 4 {
		c.Undecided("C07-R1", "NextCh calls", p.pos(fn.Pos()), "input reader calls not found")
		return
	}
	chOf := map[ssa.Value]*ssa.Call{} // extract #0 -> call
	for _, call := range nextCalls {
		for _, r := range referrers(call) {
			if ex, ok := r.(*ssa.Extract); ok && ex.Index == 0 {
				chOf[ex] = call
			}
		}
	}
	// the dispatch value: the NextCh result with the most equality comparisons against constants
	cmpConsts := func(v ssa.Value) map[int64][]*ssa.BinOp {
		out := map[int64][]*ssa.BinOp{}
		for _, r := range referrers(v) {
			if bo, ok := r.(*ssa.BinOp); ok && bo.Op == token.EQL {
				if k, ok := constInt(bo.Y); ok {
					out[k] = append(out[k], bo)
				}
			}
		}
		return out
	}
	var dispatch ssa.Value
	best := 0
	for ex := range chOf {
		if n := len(cmpConsts(ex)); n > best {
			best, dispatch = n, ex
		}
	}
	if dispatch == nil {
		c.Undecided("C07-R1", "dispatch", p.pos(fn.Pos()), "no dispatch value found")
		return
	}
	all := cmpConsts(dispatch)
	// split: comparisons made while skipping (block guarded by skip == k, k != 0) vs. the operator switch
	skipCmp := map[int64]bool{}
	opCmp := map[int64]*ssa.BinOp{}
	for k, bos := range all {
		for _, bo := range bos {
			inSkip := false
			for _, g := range guardsAt(bo.Block()) {
				if g.L == "skip" && ((g.Op == "==" && g.R != "0") || (g.Op == "!=" && g.R == "0")) {
					inSkip = true
				}
			}
			if inSkip {
				skipCmp[k] = true
			} else {
				opCmp[k] = bo
			}
		}
	}
	for _, ch := range terminfoAlphabet + terminfoFormatLead {
		_, ok := opCmp[int64(ch)]
		c.Check(ok, "C07-R1", fmt.Sprintf("op:%%%c", ch), p.pos(fn.Pos()), fmt.Sprintf("byte %q has a case in the dispatch after %%", ch))
	}
	// R3
	c.Check(skipCmp['?'] && skipCmp[';'] && skipCmp['e'], "C07-R3", "skip-scanner:sees-openers", p.pos(fn.Pos()), fmt.Sprintf("bytes examined while skipping: %v", byteSet(skipCmp)))
	c07SkipNesting(c, p, fn, dispatch)
	c07Increment(c, p, fn)
	c07CallLocal(c, p, fn)
	c07PopDiscipline(c, p, fn)
	c07CharOutput(c, p, fn, opCmp)
	c07BinOps(c, p, fn, dispatch)
	c07Handlers(c, p, fn, dispatch)
	c.asRule("C15-R1", "C07-R12", func() { c15Goto(c, p) })
	c07Stack(c, p)
	c07Loops(c, p, fn, chOf)
	c07Index(c, p, fn)
	c07Data(c, p, opCmp)
}

func byteSet(m map[int64]bool) []string {
	var out []string
	for k := range m {
		out = append(out, fmt.Sprintf("%q", rune(k)))
	}
	sort.Strings(out)
	return out
}

func popIntResult(v ssa.Value) *ssa.Call {
	ex, ok := v.(*ssa.Extract)
	if !ok || ex.Index != 0 {
		return nil
	}
	call, ok := ex.Tuple.(*ssa.Call)
	if !ok || !strings.HasSuffix(calleeName(&call.Call), "terminfo.stack).PopInt") && !strings.HasSuffix(calleeName(&call.Call), "stack).PopInt") {
		return nil
	}
	return call
}

func c07BinOps(c *Ctx, p *Prog, fn *ssa.Function, dispatch ssa.Value) {
	want := map[rune]token.Token{'+': token.ADD, '-': token.SUB, '*': token.MUL, '/': token.QUO, 'm': token.REM,
		'&': token.AND, '|': token.OR, '^': token.XOR, '=': token.EQL, '>': token.GTR, '<': token.LSS}
	seen := map[rune]bool{}
	helperOrder := map[*ssa.BinOp]bool{}
	// the operators may be applied in TParm's own cases or in a helper the case hands the operator byte
	// and the two operands to (`stk.Push(binaryOp(ch, ai, bi))`): the helper's parameters stand for the
	// arguments of that call
	for _, d := range deepInstrs(p, fn, 1, nil) {
		d := d
		in := d.in
		bo, ok := in.(*ssa.BinOp)
		if !ok {
			continue
		}
		boX, boY := d.bindVal(bo.X), d.bindVal(bo.Y)
		cx, cy := popIntResult(boX), popIntResult(boY)
		viaHelper := false
		if cx == nil || cy == nil {
			// the two pops may live in a helper that returns (left, right, rest): resolve the roles of
			// its results from the helper's own body
			ex, okx := boX.(*ssa.Extract)
			ey, oky := boY.(*ssa.Extract)
			if !okx || !oky || ex.Tuple != ey.Tuple {
				continue
			}
			hc, isCall := ex.Tuple.(*ssa.Call)
			if !isCall {
				continue
			}
			roles := popPairSummary(p, hc.Call.StaticCallee())
			if roles == nil {
				continue
			}
			if roles[ex.Index] == 0 || roles[ey.Index] == 0 {
				continue
			}
			viaHelper = true
			cx, cy = nil, nil
			_ = cx
			_ = cy
			// X must be the second pop (left operand), Y the first pop (right operand)
			helperOrder[bo] = roles[ex.Index] == 2 && roles[ey.Index] == 1
		}
		// which operator byte guards this block?
		var opByte rune = -1
		for _, g := range rawGuardsAt(bo.Block()) {
			if cmp, ok := g.Cond.(*ssa.BinOp); ok && cmp.Op == token.EQL && g.Positive && (cmp.X == dispatch || d.bindVal(cmp.X) == dispatch) {
				if k, ok := constInt(cmp.Y); ok {
					opByte = rune(k)
				}
			}
		}
		// … or the row of a table of operator functions indexed by the dispatch byte
		if k, ok := d.tableKeyFor(dispatch); ok {
			opByte = rune(k)
		}
		// … or what is left of a shared case (`case '/', 'm': if ch == '/' {…} else {HERE}`): the
		// case is entered from one of its comparisons, all but one are refuted on the way
		if opByte < 0 && len(d.chain) == 0 {
			for _, a := range guardsAt(bo.Block()) {
				if a.Op == "==" && a.L == valName(dispatch) {
					if k, err := strconv.ParseInt(a.R, 10, 32); err == nil {
						opByte = rune(k)
					}
				}
			}
		}
		if opByte < 0 {
			continue
		}
		tok, isOp := want[opByte]
		if !isOp {
			continue
		}
		seen[opByte] = true
		key := fmt.Sprintf("binop:%%%c", opByte)
		// Y is the first pop: the X call takes the stack returned by the Y call
		order := false
		if viaHelper {
			order = helperOrder[bo]
		} else if len(cx.Call.Args) > 0 {
			if ex, ok := cx.Call.Args[0].(*ssa.Extract); ok && ex.Index == 1 && ex.Tuple == ssa.Value(cy) {
				order = true
			}
		}
		okTok := bo.Op == tok
		detail := fmt.Sprintf("push(second-pop %s first-pop): operator %s, right operand popped first: %v", bo.Op, bo.Op, order)
		okDiv := true
		if tok == token.QUO || tok == token.REM {
			okDiv = hasAtom(guardsAt(bo.Block()), Atom{valName(bo.Y), "!=", "0"})
			detail += fmt.Sprintf(", divisor guarded non-zero: %v", okDiv)
		}
		c.Check(order && okTok && okDiv, "C07-R2", key, p.pos(bo.Pos()), detail)
	}
	// the logical operators: %A is (x != 0 && y != 0), %O is (x != 0 || y != 0) over the two popped
	// values (for %O the spelling x|y != 0 says the same; x&y != 0 is NOT %A: 1 and 2 are both true)
	{
		isPop := func(d deepInstr, v ssa.Value) ssa.Value {
			b := d.bindVal(v)
			if popIntResult(b) != nil {
				return b
			}
			if ex, ok := b.(*ssa.Extract); ok {
				if hc, isCall := ex.Tuple.(*ssa.Call); isCall {
					if roles := popPairSummary(p, hc.Call.StaticCallee()); roles != nil && roles[ex.Index] != 0 {
						return b
					}
				}
			}
			return nil
		}
		nonZeroOf := func(d deepInstr, v ssa.Value) ssa.Value { // v is `pop != 0`: the pop
			bo, ok := v.(*ssa.BinOp)
			if !ok || bo.Op != token.NEQ {
				return nil
			}
			if k, isK := constInt(bo.Y); !isK || k != 0 {
				return nil
			}
			return isPop(d, bo.X)
		}
		got := map[rune]string{}
		for _, d := range deepInstrs(p, fn, 1, nil) {
			d := d
			v, isV := d.in.(ssa.Value)
			if !isV {
				continue
			}
			if bt, ok := v.Type().Underlying().(*types.Basic); !ok || bt.Kind() != types.Bool {
				continue
			}
			var opByte rune = -1
			for _, g := range rawGuardsAt(d.in.Block()) {
				if cmp, ok := g.Cond.(*ssa.BinOp); ok && cmp.Op == token.EQL && g.Positive && (cmp.X == dispatch || d.bindVal(cmp.X) == dispatch) {
					if k, ok := constInt(cmp.Y); ok {
						opByte = rune(k)
					}
				}
			}
			if k, ok := d.tableKeyFor(dispatch); ok {
				opByte = rune(k)
			}
			if opByte != 'A' && opByte != 'O' {
				continue
			}
			switch x := v.(type) {
			case *ssa.Phi:
				if x.Comment != "&&" && x.Comment != "||" {
					continue
				}
				var pops []ssa.Value
				okOps := true
				for i, e := range x.Edges {
					op := e
					if _, isC := constBool(e); isC {
						pr := x.Block().Preds[i]
						iff, isIf := pr.Instrs[len(pr.Instrs)-1].(*ssa.If)
						if !isIf {
							okOps = false
							continue
						}
						op = iff.Cond
					}
					if pv := nonZeroOf(d, op); pv != nil {
						pops = append(pops, pv)
					} else {
						okOps = false
					}
				}
				if okOps && len(pops) == 2 && pops[0] != pops[1] {
					got[opByte] = x.Comment
				} else if got[opByte] == "" {
					got[opByte] = "?"
				}
			case *ssa.BinOp:
				// (x | y) != 0
				if x.Op != token.NEQ {
					continue
				}
				if k, isK := constInt(x.Y); !isK || k != 0 {
					continue
				}
				if inner, ok := x.X.(*ssa.BinOp); ok && (inner.Op == token.OR || inner.Op == token.AND) {
					a, b := isPop(d, inner.X), isPop(d, inner.Y)
					if a != nil && b != nil && a != b {
						if inner.Op == token.OR {
							got[opByte] = "||"
						} else {
							got[opByte] = "bitwise &"
						}
					}
				}
			}
		}
		c.Check(got['A'] == "&&", "C07-R2", "binop:%A", p.pos(fn.Pos()), fmt.Sprintf("%%A pushes (x != 0 && y != 0) of the two popped values (found: %q)", got['A']))
		c.Check(got['O'] == "||", "C07-R2", "binop:%O", p.pos(fn.Pos()), fmt.Sprintf("%%O pushes (x != 0 || y != 0) of the two popped values (found: %q)", got['O']))
	}
	for r := range want {
		if !seen[r] {
			c.Fail("C07-R2", fmt.Sprintf("binop:%%%c", r), p.pos(fn.Pos()), "no handler of the form push(pop2 OP pop1) found for this operator")
		}
	}
}

func c07Stack(c *Ctx, p *Prog) {
	push := p.Fn("terminfo:(stack).Push")
	popI := p.Fn("terminfo:(stack).PopInt")
	popS := p.Fn("terminfo:(stack).PopString")
	if push == nil || popI == nil || popS == nil {
		c.Undecided("C07-R2b", "stack methods", "-", "Push/PopInt/PopString not found")
		return
	}
	// Push: append of constant 1 under the true edge of the asserted bool, 0 under the false edge
	got := map[string]int64{}
	eachInstr(push, func(in ssa.Instruction) {
		call, ok := in.(*ssa.Call)
		if !ok {
			return
		}
		if b, ok := call.Call.Value.(*ssa.Builtin); !ok || b.Name() != "append" {
			return
		}
		// appended slice literal: new [1]interface{}; store const
		if sl, ok := call.Call.Args[1].(*ssa.Slice); ok {
			if al, ok := sl.X.(*ssa.Alloc); ok {
				for _, r := range referrers(al) {
					if ia, ok := r.(*ssa.IndexAddr); ok {
						for _, r2 := range referrers(ia) {
							if st, ok := r2.(*ssa.Store); ok {
								v := st.Val
								if mi, ok := v.(*ssa.MakeInterface); ok {
									v = mi.X
								}
								polAt := func(b *ssa.BasicBlock, k int64) {
									for _, g := range guardsAt(b) {
										if strings.HasSuffix(g.L, "#0") && (g.R == "true" || g.R == "false") {
											pol := (g.Op == "==") == (g.R == "true")
											got[fmt.Sprint(pol)] = k
										}
									}
								}
								if k, ok := constInt(v); ok {
									polAt(in.Block(), k)
								} else if phi, isPhi := v.(*ssa.Phi); isPhi {
									// n := 0; if b { n = 1 }; append(st, n): the constant on each edge, with
									// the polarity that holds on that edge
									for i, e := range phi.Edges {
										k, isK := constInt(e)
										if !isK {
											continue
										}
										pred := phi.Block().Preds[i]
										before := len(got)
										polAt(pred, k)
										if len(got) == before {
											// the edge comes straight from the test: polarity = the successor index
											if iff, isIf := pred.Instrs[len(pred.Instrs)-1].(*ssa.If); isIf {
												if at, okA := condAtom(iff.Cond, pred.Succs[0] == phi.Block()); okA && strings.HasSuffix(at.canon().L, "#0") {
													a := at.canon()
													got[fmt.Sprint((a.Op == "==") == (a.R == "true"))] = k
												}
											}
										}
									}
								}
							}
						}
					}
				}
			}
		}
	})
	c.Check(got["true"] == 1 && got["false"] == 0 && len(got) == 2, "C07-R2b", "Push:bool→int", p.pos(push.Pos()), fmt.Sprintf("values pushed for a bool: %v", got))
	// everything that is not a bool is pushed as it is: string parameters keep their text
	{
		okPass, nApp := false, 0
		extra := ""
		eachInstr(push, func(in ssa.Instruction) {
			call, ok := in.(*ssa.Call)
			if !ok {
				return
			}
			if b, ok := call.Call.Value.(*ssa.Builtin); !ok || b.Name() != "append" {
				return
			}
			nApp++
			if sl, ok := call.Call.Args[1].(*ssa.Slice); ok {
				if al, ok := sl.X.(*ssa.Alloc); ok {
					for _, r := range referrers(al) {
						if ia, ok := r.(*ssa.IndexAddr); ok {
							for _, r2 := range referrers(ia) {
								if st, ok := r2.(*ssa.Store); ok {
									if st.Val == ssa.Value(push.Params[1]) {
										okPass = true
									} else if mi, ok := st.Val.(*ssa.MakeInterface); ok {
										_, isK := mi.X.(*ssa.Const)
										if phi, isPhi := mi.X.(*ssa.Phi); isPhi {
											isK = true
											for _, e := range phi.Edges {
												if _, k := e.(*ssa.Const); !k {
													isK = false
												}
											}
										}
										if !isK {
											extra += "pushes " + valName(mi.X) + " at " + p.pos(st.Pos()) + "; "
										}
									}
								}
							}
						}
					}
				}
			}
		})
		eachInstr(push, func(in ssa.Instruction) {
			if cc := callCommon(in); cc != nil {
				if n := calleeName(cc); strings.HasPrefix(n, "strconv.") {
					extra += "calls " + n + "; "
				}
			}
		})
		c.Check(okPass && extra == "" && nApp >= 2 && nApp <= 3, "C07-R2b", "Push:others-unchanged", p.pos(push.Pos()), fmt.Sprintf("%d appends: 1, 0 and the value itself %s", nApp, extra))
	}
	for _, f := range []*ssa.Function{popI, popS} {
		conv := map[string]bool{}
		guarded := true
		nidx := 0
		eachInstr(f, func(in ssa.Instruction) {
			if call, ok := in.(*ssa.Call); ok {
				n := calleeName(&call.Call)
				if n == "strconv.Atoi" || n == "strconv.Itoa" {
					conv[n] = true
				}
			}
			switch x := in.(type) {
			case *ssa.IndexAddr:
				nidx++
				if !nonEmptyAtom(guardsAt(in.Block()), "len(st)") {
					guarded = false
				}
				_ = x
			case *ssa.Slice:
				if !nonEmptyAtom(guardsAt(in.Block()), "len(st)") {
					guarded = false
				}
			}
		})
		wantConv := "strconv.Atoi"
		if f == popS {
			wantConv = "strconv.Itoa"
		}
		c.Check(conv[wantConv], "C07-R2b", f.Name()+":coercion", p.pos(f.Pos()), "uses "+wantConv+" for the other element type")
		c.Check(guarded && nidx > 0, "C07-R2b", f.Name()+":empty-guard", p.pos(f.Pos()), "index and reslice dominated by len(st) > 0")
		// empty: returns zero value and the unchanged stack
		okEmpty := false
		for _, r := range returnsOf(f) {
			if len(r.Results) == 2 && !hasAtom(guardsAt(r.Block()), Atom{"len(st)", ">", "0"}) {
				zero := false
				if k, ok := constInt(r.Results[0]); ok && k == 0 {
					zero = true
				}
				if s, ok := constString(r.Results[0]); ok && s == "" {
					zero = true
				}
				if prm, ok := r.Results[1].(*ssa.Parameter); ok && prm.Name() == "st" && zero {
					okEmpty = true
				}
			}
		}
		c.Check(okEmpty, "C07-R2b", f.Name()+":empty-result", p.pos(f.Pos()), "empty stack yields the zero value and the unchanged stack")
	}
}

// loopsOf returns natural loops as header -> set of blocks.
func loopsOf(fn *ssa.Function) map[*ssa.BasicBlock]map[*ssa.BasicBlock]bool {
	loops := map[*ssa.BasicBlock]map[*ssa.BasicBlock]bool{}
	for _, b := range fn.Blocks {
		for _, s := range b.Succs {
			if s.Dominates(b) {
				body := loops[s]
				if body == nil {
					body = map[*ssa.BasicBlock]bool{s: true}
					loops[s] = body
				}
				var stack []*ssa.BasicBlock
				if !body[b] {
					body[b] = true
					stack = append(stack, b)
				}
				for len(stack) > 0 {
					x := stack[len(stack)-1]
					stack = stack[:len(stack)-1]
					for _, pr := range x.Preds {
						if !body[pr] {
							body[pr] = true
							stack = append(stack, pr)
						}
					}
				}
			}
		}
	}
	return loops
}

func c07Loops(c *Ctx, p *Prog, fn *ssa.Function, chOf map[ssa.Value]*ssa.Call) {
	loops := loopsOf(fn)
	n := 0
	var headers []*ssa.BasicBlock
	for h := range loops {
		headers = append(headers, h)
	}
	sort.Slice(headers, func(i, j int) bool { return headers[i].Index < headers[j].Index })
	for _, h := range headers {
		body := loops[h]
		n++
		key := fmt.Sprintf("loop@%s", p.pos(firstPos(h)))
		key = fmt.Sprintf("loop#%d", n)
		// (a) counted loop: a phi in the header incremented by a positive constant and compared with a bound
		counted := false
		for _, in := range h.Instrs {
			phi, ok := in.(*ssa.Phi)
			if !ok {
				continue
			}
			for _, e := range phi.Edges {
				if bo, ok := e.(*ssa.BinOp); ok && bo.Op == token.ADD && bo.X == ssa.Value(phi) {
					if k, ok := constInt(bo.Y); ok && k > 0 {
						for _, r := range referrers(phi) {
							if cmp, ok := r.(*ssa.BinOp); ok && cmp.Op == token.LSS && body[cmp.Block()] {
								counted = true
							}
						}
					}
				}
			}
		}
		if counted {
			c.OK("C07-R4", key+":counted", p.pos(firstPos(h)), "induction variable with positive step compared with a bound")
			continue
		}
		// (b) consumes input: a NextCh call in the body …
		var calls []*ssa.Call
		for ex, call := range chOf {
			_ = ex
			if body[call.Block()] {
				calls = append(calls, call)
			}
		}
		if len(calls) == 0 {
			c.Fail("C07-R4", key+":consumes", p.pos(firstPos(h)), "loop neither counted nor reading input: may not terminate")
			continue
		}
		// … and at end of input (NextCh yields 0 / an error) the loop is left:
		// either an exit test on the error of a NextCh in the loop dominates every back edge,
		// or the loop condition folds to "exit" for ch == 0.
		exitOnErr := false
		for _, b := range fn.Blocks {
			if !body[b] || len(b.Instrs) == 0 {
				continue
			}
			iff, ok := b.Instrs[len(b.Instrs)-1].(*ssa.If)
			if !ok {
				continue
			}
			bo, ok := iff.Cond.(*ssa.BinOp)
			if !ok || bo.Op != token.NEQ || !isNilConst(bo.Y) {
				continue
			}
			ex, ok := bo.X.(*ssa.Extract)
			if !ok || ex.Index != 1 {
				continue
			}
			if call, ok := ex.Tuple.(*ssa.Call); ok && body[call.Block()] && p.isInputRead(&call.Call) {
				if !body[b.Succs[0]] {
					exitOnErr = true
				}
			}
		}
		foldsOut := loopExitsForZero(p, h, body, chOf)
		c.Check(exitOnErr || foldsOut, "C07-R4", key+":leaves-at-EOF", p.pos(firstPos(h)), fmt.Sprintf("reads input (%d NextCh); exit on read error: %v; condition false for the zero byte: %v", len(calls), exitOnErr, foldsOut))
	}
	if n < 4 {
		c.Undecided("C07-R4", "loops", p.pos(fn.Pos()), fmt.Sprintf("only %d loops found in TParm", n))
	}
	var reads []*ssa.Call
	seenCall := map[*ssa.Call]bool{}
	for _, call := range chOf {
		if !seenCall[call] {
			seenCall[call] = true
			reads = append(reads, call)
		}
	}
	sort.Slice(reads, func(i, j int) bool { return reads[i].Pos() < reads[j].Pos() })
	c07InputOnlyFilledOnce(c, p, fn, reads)
}

// c07InputOnlyFilledOnce: what the interpreter reads is the string it was given and nothing else:
// the input is filled once, before the first read, and afterwards only read forward.  The reader is
// found by role (isInputRead): a helper method of package terminfo over fields of its receiver
// (whatever their names and representation: a bytes.Buffer, a strings.Reader, a string with a read
// offset), or a standard byte reader created by the call itself.
func c07InputOnlyFilledOnce(c *Ctx, p *Prog, fn *ssa.Function, reads []*ssa.Call) {
	const key = "input-buffer:only-Start-writes"
	var helper *ssa.Function
	direct := 0
	for _, call := range reads {
		if f := call.Call.StaticCallee(); f != nil && f.Pkg == p.Terminfo {
			if helper != nil && helper != f {
				c.Undecided("C07-R4", key, p.pos(call.Pos()), "two different reader helpers in one interpreter: "+helper.Name()+" and "+f.Name())
				return
			}
			helper = f
		} else {
			direct++
		}
	}
	if helper != nil && direct > 0 {
		c.Undecided("C07-R4", key, p.pos(fn.Pos()), "the input is read both through "+helper.Name()+" and directly")
		return
	}
	dominatesReads := func(b *ssa.BasicBlock) bool {
		for _, r := range reads {
			if b != r.Block() && !b.Dominates(r.Block()) {
				return false
			}
			if b == r.Block() {
				return false // a fill in a block that also reads: order not established here
			}
		}
		return true
	}
	if helper == nil {
		// the reader object is created by this call and used for nothing but reading
		var rv ssa.Value
		for _, call := range reads {
			if rv != nil && call.Call.Args[0] != rv {
				c.Fail("C07-R4", key, p.pos(call.Pos()), "reads from two different readers: "+valName(rv)+" and "+valName(call.Call.Args[0]))
				return
			}
			rv = call.Call.Args[0]
		}
		fills, detail := 0, ""
		switch x := rv.(type) {
		case *ssa.Call:
			n := calleeName(&x.Call)
			if (n == "strings.NewReader" || n == "bytes.NewBufferString" || n == "bytes.NewReader" || n == "bytes.NewBuffer") && len(x.Call.Args) == 1 && derivesFromParam(x.Call.Args[0], fn, 1) && dominatesReads(x.Block()) {
				fills = 1
			} else {
				detail = "the reader is " + n + "(" + valName(x.Call.Args[0]) + ")"
			}
		case *ssa.Alloc:
		default:
			c.Fail("C07-R4", key, p.pos(fn.Pos()), "the reader is neither created by this call nor a local: "+valName(rv))
			return
		}
		for _, r := range referrers(rv) {
			if _, isDbg := r.(*ssa.DebugRef); isDbg {
				continue
			}
			cc := callCommon(r)
			if cc == nil || len(cc.Args) == 0 || cc.Args[0] != rv {
				detail += "the reader escapes at " + p.pos(r.Pos()) + "; "
				continue
			}
			if p.isInputRead(cc) {
				continue
			}
			if mutatesReader(calleeName(cc)) {
				if _, isAlloc := rv.(*ssa.Alloc); isAlloc && len(cc.Args) == 2 && derivesFromParam(cc.Args[1], fn, 1) && dominatesReads(r.Block()) {
					fills++
				} else {
					detail += calleeName(cc) + " on the reader at " + p.pos(r.Pos()) + "; "
				}
			}
		}
		c.Check(fills == 1 && detail == "", "C07-R4", key, p.pos(fn.Pos()), fmt.Sprintf("the reader is local to the call, filled %d time(s) from the string given, before every read; otherwise only read %s", fills, detail))
		return
	}
	owner := recvTypeName(helper)
	inputFields := p.inputFieldsOf(helper)
	writers := map[*ssa.Function]bool{}
	backwards := ""
	for _, f := range p.modFns {
		if f.Pkg != p.Terminfo {
			continue
		}
		eachInstr(f, func(in ssa.Instruction) {
			if st, isSt := in.(*ssa.Store); isSt {
				if ref, _, ok := fieldAddrRef(st.Addr); ok && ref.Owner == owner && inputFields[ref.Name] {
					if f == helper {
						okFwd := false
						if bo, isBO := st.Val.(*ssa.BinOp); isBO && bo.Op == token.ADD {
							if k, isK := constInt(bo.Y); isK && k > 0 {
								if r2, _, ok2 := loadedField(bo.X); ok2 && r2.Name == ref.Name {
									okFwd = true
								}
							}
						}
						if !okFwd {
							backwards += helper.Name() + " stores " + valName(st.Val) + " into " + ref.Name + "; "
						}
						return
					}
					writers[f] = true
				}
				return
			}
			cc := callCommon(in)
			if cc == nil || len(cc.Args) == 0 {
				return
			}
			ref, _, ok := fieldAddrRef(cc.Args[0])
			if !ok || ref.Owner != owner || !inputFields[ref.Name] {
				return
			}
			n := calleeName(cc)
			if f == helper {
				if !stdByteReaders[n] && mutatesReader(n) {
					backwards += helper.Name() + " calls " + n + " on " + ref.Name + "; "
				}
				return
			}
			if mutatesReader(n) {
				writers[f] = true
			}
		})
	}
	var names []string
	var filler *ssa.Function
	for f := range writers {
		names = append(names, f.Name())
		filler = f
	}
	sort.Strings(names)
	// the one filler is called by the interpreter with the string given, before every read
	early := false
	if len(writers) == 1 {
		eachInstr(fn, func(in ssa.Instruction) {
			if cc := callCommon(in); cc != nil && cc.StaticCallee() == filler && dominatesReads(in.Block()) {
				early = true
			}
		})
	}
	c.Check(len(inputFields) > 0 && len(writers) == 1 && early && backwards == "", "C07-R4", key, "-", fmt.Sprintf("input fields (read by %s): %v; functions writing them: %v, called before every read: %v %s", helper.Name(), sortedKeys(inputFields), names, early, backwards))
}

// derivesFromParam: v is parameter #idx of fn, possibly converted or sliced from its start... only
// conversions are accepted: a slice would drop part of the program.
func derivesFromParam(v ssa.Value, fn *ssa.Function, idx int) bool {
	v = stripConv(v)
	par, ok := v.(*ssa.Parameter)
	return ok && idx < len(fn.Params) && fn.Params[idx] == par
}

func firstPos(b *ssa.BasicBlock) token.Pos {
	for _, in := range b.Instrs {
		if in.Pos().IsValid() {
			return in.Pos()
		}
	}
	return token.NoPos
}

// loopExitsForZero: starting at the loop header with every NextCh-derived byte equal to 0,
// following only branch conditions that compare such a byte with a constant, is the loop left?
func loopExitsForZero(p *Prog, h *ssa.BasicBlock, body map[*ssa.BasicBlock]bool, chOf map[ssa.Value]*ssa.Call) bool {
	isCh := func(v ssa.Value) bool {
		if _, ok := chOf[v]; ok {
			return true
		}
		if phi, ok := v.(*ssa.Phi); ok {
			for _, e := range phi.Edges {
				if _, ok := chOf[e]; ok {
					return true
				}
			}
		}
		return false
	}
	b := h
	for steps := 0; steps < 20; steps++ {
		if !body[b] {
			return true
		}
		if len(b.Instrs) == 0 {
			return false
		}
		switch t := b.Instrs[len(b.Instrs)-1].(type) {
		case *ssa.Jump:
			b = b.Succs[0]
			if b == h {
				return false
			}
		case *ssa.If:
			// a predicate of the module over the byte (`for isDigit(ch)`): decided for the zero byte by
			// constant evaluation
			if call, isCall := t.Cond.(*ssa.Call); isCall && p != nil {
				hf := call.Call.StaticCallee()
				if hf == nil || hf.Pkg != p.Terminfo || len(hf.Blocks) == 0 || len(hf.Params) != 1 || len(call.Call.Args) != 1 || !isCh(call.Call.Args[0]) {
					return false
				}
				ce := &constEval{pk: p.pkg("terminfo"), globals: map[*ssa.Global]*cv{}, strings: true}
				rets, err := ce.call(p, hf, map[*ssa.Parameter]*cv{hf.Params[0]: cvI(0)})
				if err != nil || len(rets) != 1 || rets[0].kind != cvBool {
					return false
				}
				if rets[0].b {
					b = b.Succs[0]
				} else {
					b = b.Succs[1]
				}
				if b == h {
					return false
				}
				continue
			}
			bo, ok := t.Cond.(*ssa.BinOp)
			if !ok {
				return false
			}
			// the left side for the zero byte: the byte itself, or its position in a constant set
			// (strings.IndexByte(set, ch) and the like)
			var lhs int64
			if isCh(bo.X) {
				lhs = 0
			} else if set, v, isIdx := constSetIndex(bo.X); isIdx && isCh(v) {
				lhs = int64(strings.IndexByte(set, 0))
			} else {
				return false
			}
			k, ok := constInt(bo.Y)
			if !ok {
				return false
			}
			var res bool
			switch bo.Op {
			case token.EQL:
				res = lhs == k
			case token.NEQ:
				res = lhs != k
			case token.LSS:
				res = lhs < k
			case token.LEQ:
				res = lhs <= k
			case token.GTR:
				res = lhs > k
			case token.GEQ:
				res = lhs >= k
			default:
				return false
			}
			if res {
				b = b.Succs[0]
			} else {
				b = b.Succs[1]
			}
			if b == h {
				return false
			}
		default:
			return false
		}
	}
	return false
}

func c07Index(c *Ctx, p *Prog, fn *ssa.Function) {
	n := 0
	eachInstr(fn, func(in ssa.Instruction) {
		ia, ok := in.(*ssa.IndexAddr)
		if !ok {
			return
		}
		pt, ok := ia.X.Type().Underlying().(*types.Pointer)
		if !ok {
			return
		}
		arr, ok := pt.Elem().Underlying().(*types.Array)
		if !ok {
			return
		}
		if _, isConst := constInt(ia.Index); isConst {
			return
		}
		n++
		key := fmt.Sprintf("index#%d:%s", n, strings.TrimPrefix(valName(ia.X), "&"))
		g := guardsAt(in.Block())
		idx := stripConv(ia.Index)
		lo, hi := int64(-1<<62), int64(1<<62)
		base := idx
		off := int64(0)
		if bo, ok := idx.(*ssa.BinOp); ok && bo.Op == token.SUB {
			if k, ok := constInt(bo.Y); ok {
				base, off = stripConv(bo.X), k
			}
		}
		bn := valName(base)
		for _, a := range g {
			if a.L != bn {
				continue
			}
			var k int64
			if _, err := fmt.Sscanf(a.R, "%d", &k); err != nil {
				if a.R == "len("+valName(ia.X)+")" || strings.HasPrefix(a.R, "len(") {
					k = arr.Len()
				} else {
					continue
				}
			}
			switch a.Op {
			case ">=":
				if k > lo {
					lo = k
				}
			case ">":
				if k+1 > lo {
					lo = k + 1
				}
			case "<=":
				if k < hi {
					hi = k
				}
			case "<":
				if k-1 < hi {
					hi = k - 1
				}
			}
		}
		// loop induction variable starting at 0
		if phi, ok := base.(*ssa.Phi); ok {
			for _, e := range phi.Edges {
				if k, ok := constInt(e); ok && k >= 0 && lo < k {
					lo = k
				}
			}
		}
		// guards stated on the whole index expression
		full := valName(ia.Index)
		flo, fhi := int64(-1<<62), int64(1<<62)
		for _, a := range g {
			if a.L != full {
				continue
			}
			var k int64
			if _, err := fmt.Sscanf(a.R, "%d", &k); err != nil {
				if strings.HasPrefix(a.R, "len(") {
					k = arr.Len()
				} else {
					continue
				}
			}
			switch a.Op {
			case ">=":
				if k > flo {
					flo = k
				}
			case ">":
				if k+1 > flo {
					flo = k + 1
				}
			case "<=":
				if k < fhi {
					fhi = k
				}
			case "<":
				if k-1 < fhi {
					fhi = k - 1
				}
			}
		}
		if flo >= 0 && fhi < arr.Len() {
			lo, hi, off = flo, fhi, 0
		}
		ok2 := lo-off >= 0 && hi-off < arr.Len()
		c.Check(ok2, "C07-R5", key, p.pos(in.Pos()), fmt.Sprintf("index in [%d,%d] for an array of %d (guards: %v)", lo-off, hi-off, arr.Len(), g))
	})
	if n < 5 {
		c.Undecided("C07-R5", "index sites", p.pos(fn.Pos()), fmt.Sprintf("found %d variable array index sites, expected 5", n))
	}
}

// c07Data: R6 over the database and the literals prepared by the screen.
func c07Data(c *Ctx, p *Prog, opCmp map[int64]*ssa.BinOp) {
	db := buildDB(c, p)
	implemented := func(prg *tpProgram) []string {
		var missing []string
		for op := range prg.ops {
			var b byte
			switch op {
			case "%fmt":
				continue
			case "%%":
				b = '%'
			default:
				b = op[1]
			}
			if _, ok := opCmp[int64(b)]; !ok {
				missing = append(missing, op)
			}
		}
		sort.Strings(missing)
		return missing
	}
	maxDepth := 0
	for _, e := range db.entries {
		bad := []string{}
		n := 0
		for _, f := range sortedKeys(e.Str) {
			v := e.Str[f]
			if !strings.Contains(v, "%") || strings.HasPrefix(f, "Key") || f == "AltChars" || f == "Name" || f == "PasteStart" || f == "PasteEnd" || f == "Mouse" {
				continue
			}
			n++
			prg, err := parseTparm(stripPadding(v))
			if err != nil {
				bad = append(bad, f+": "+err.Error())
				continue
			}
			if m := implemented(prg); len(m) > 0 {
				bad = append(bad, fmt.Sprintf("%s uses operators TParm does not implement: %v", f, m))
			}
			if prg.depth > maxDepth {
				maxDepth = prg.depth
			}
			if ar, used := db.arityOf(f); used && prg.maxParam > ar {
				bad = append(bad, fmt.Sprintf("%s uses %%p%d, call site supplies %d", f, prg.maxParam, ar))
			}
		}
		c.Check(len(bad) == 0, "C07-R6", "entry:"+e.Name, p.pos(e.Pos), fmt.Sprintf("%d parameterised strings; %v", n, bad))
	}
	// literals prepared by the screen
	for _, g := range sortedKeys(db.prepared) {
		ar, used := db.arityG[g]
		for _, src := range db.prepared[g] {
			if src.Field != "" || !strings.Contains(src.Literal, "%") {
				continue
			}
			v := src.Literal
			for _, x := range db.xforms[g] {
				v = strings.Replace(v, x.Old, x.New, x.N)
			}
			prg, err := parseTparm(v)
			key := fmt.Sprintf("literal:t.%s=%q", g, src.Literal)
			if err != nil {
				c.Fail("C07-R6", key, p.pos(src.Pos), err.Error())
				continue
			}
			m := implemented(prg)
			okAr := used && prg.maxParam <= ar
			c.Check(len(m) == 0 && okAr, "C07-R6", key, p.pos(src.Pos), fmt.Sprintf("operators missing in TParm: %v; uses %%p%d, call sites supply %d (expanded with TParm: %v)", m, prg.maxParam, ar, used))
		}
	}
	c.extra["max_conditional_depth_in_data"] = maxDepth
}

// c07SkipNesting: while a conditional part is being skipped, a closer or an
// else that belongs to a conditional nested inside the skipped part must not
// end the skip.  Structure required: a nesting counter incremented on '?' in
// every skipping mode, and every return to the emitting mode from the skipping
// region is guarded by "counter is zero".
func c07SkipNesting(c *Ctx, p *Prog, fn *ssa.Function, dispatch ssa.Value) {
	// the mode variable: header phi named skip (as in the anchors of the property)
	var skip *ssa.Phi
	for _, b := range fn.Blocks {
		for _, in := range b.Instrs {
			if phi, ok := in.(*ssa.Phi); ok && phi.Comment == "skip" {
				if skip == nil || len(phi.Edges) > len(skip.Edges) {
					skip = phi
				}
			}
		}
	}
	if skip == nil {
		c.Undecided("C07-R3", "skip-scanner:mode", p.pos(fn.Pos()), "mode variable not found")
		return
	}
	// all places where the constant `emit` (0) or another mode flows into the mode variable
	type site struct{ pred, succ *ssa.BasicBlock }
	var toEmit []site
	modes := map[int64]bool{}
	seen := map[*ssa.Phi]bool{}
	var visit func(phi *ssa.Phi)
	visit = func(phi *ssa.Phi) {
		if seen[phi] {
			return
		}
		seen[phi] = true
		for i, e := range phi.Edges {
			if k, ok := constInt(e); ok {
				if k == 0 {
					toEmit = append(toEmit, site{phi.Block().Preds[i], phi.Block()})
				} else {
					modes[k] = true
				}
			} else if ph, ok := e.(*ssa.Phi); ok {
				visit(ph)
			}
		}
	}
	visit(skip)
	inSkipRegion := func(as []Atom) bool {
		for _, g := range as {
			if g.L == "skip" && ((g.Op == "==" && g.R != "0") || (g.Op == "!=" && g.R == "0")) {
				return true
			}
		}
		return false
	}
	nExit, bad := 0, ""
	for _, st := range toEmit {
		if !inSkipRegion(guardsOnEdge(st.pred, st.succ)) {
			continue
		}
		nExit++
		// every way of getting here (the assignment may be the shared body of `a || (b && c)`)
		for _, as := range guardAlternativesOnEdge(st.pred, st.succ) {
			ok := false
			for _, g := range as {
				if g.L == "nest" && ((g.Op == "<=" && g.R == "0") || (g.Op == "==" && g.R == "0") || (g.Op == "<" && g.R == "1")) {
					ok = true
				}
			}
			if !ok {
				bad += fmt.Sprintf("the skip ends at %s without testing the nesting counter (guards: %v); ", p.pos(firstPos(st.pred)), as)
			}
		}
	}
	c.Check(bad == "" && nExit > 0, "C07-R3", "skip-scanner:exit-only-at-own-level", p.pos(fn.Pos()), fmt.Sprintf("%d return(s) to the emitting mode from the skipping region, each under `nest == 0` %s", nExit, bad))
	// the counter is incremented on '?' in every skipping mode
	var incs []*ssa.BinOp
	eachInstr(fn, func(in ssa.Instruction) {
		bo, ok := in.(*ssa.BinOp)
		if !ok || bo.Op != token.ADD {
			return
		}
		if k, ok := constInt(bo.Y); !ok || k != 1 {
			return
		}
		if ph, ok := bo.X.(*ssa.Phi); !ok || ph.Comment != "nest" {
			return
		}
		incs = append(incs, bo)
	})
	var ms []int64
	for m := range modes {
		ms = append(ms, m)
	}
	sort.Slice(ms, func(i, j int) bool { return ms[i] < ms[j] })
	for _, m := range ms {
		ok := false
		for _, bo := range incs {
			as := guardsAt(bo.Block())
			sawOpener, compatible := false, inSkipRegion(as)
			for _, g := range as {
				if g.Op == "==" && g.R == fmt.Sprint(int64('?')) {
					sawOpener = true
				}
				if g.L == "skip" {
					if g.Op == "==" && g.R != "0" && g.R != fmt.Sprint(m) {
						compatible = false
					}
					if g.Op == "!=" && g.R == fmt.Sprint(m) {
						compatible = false
					}
				}
			}
			if sawOpener && compatible {
				ok = true
			}
		}
		c.Check(ok, "C07-R3", fmt.Sprintf("skip-scanner:mode#%d-counts-openers", m), p.pos(fn.Pos()), fmt.Sprintf("in skipping mode %d a nested %%? increments the nesting counter", m))
	}
	if len(ms) == 0 {
		c.Undecided("C07-R3", "skip-scanner:modes", p.pos(fn.Pos()), "no skipping mode constant found")
	}
}

// c07CharOutput: the %c handler pops an int and writes byte(v) through PutCh.
func c07CharOutput(c *Ctx, p *Prog, fn *ssa.Function, opCmp map[int64]*ssa.BinOp) {
	charOutputRule(c, p, fn, opCmp['c'], "C07-R7")
}

func charOutputRule(c *Ctx, p *Prog, fn *ssa.Function, bo *ssa.BinOp, rule string) {
	if bo == nil {
		// find the case for 'c': an equality test against 'c' whose true branch pops an int
		eachInstr(fn, func(in ssa.Instruction) {
			x, ok := in.(*ssa.BinOp)
			if !ok || x.Op != token.EQL {
				return
			}
			if k, ok := constInt(x.Y); !ok || k != 'c' {
				return
			}
			for _, r := range referrers(x) {
				if iff, ok := r.(*ssa.If); ok {
					for _, in2 := range iff.Block().Succs[0].Instrs {
						if cc := callCommon(in2); cc != nil && strings.HasSuffix(calleeName(cc), "stack).PopInt") {
							// the operator dispatch is the value compared with the most constants
							if bo == nil || len(referrers(x.X)) > len(referrers(bo.X)) {
								bo = x
							}
						}
					}
				}
			}
		})
	}
	if bo == nil {
		c.Undecided(rule, "op:%c:one-byte", p.pos(fn.Pos()), "no case for %c")
		return
	}
	// the case block: true successor of the If on this comparison
	var body *ssa.BasicBlock
	for _, r := range referrers(bo) {
		if iff, ok := r.(*ssa.If); ok {
			body = iff.Block().Succs[0]
		}
	}
	if body == nil {
		c.Undecided(rule, "op:%c:one-byte", p.pos(bo.Pos()), "case body not found")
		return
	}
	ok, detail := false, "no output in the case body"
	for _, in := range body.Instrs {
		cc := callCommon(in)
		if cc == nil {
			continue
		}
		if arg, isPut := p.outputByteArg(cc); isPut {
			if cv, isCv := arg.(*ssa.Convert); isCv {
				if call := popIntResult(cv.X); call != nil {
					if b, isB := cv.Type().Underlying().(*types.Basic); isB && (b.Kind() == types.Byte || b.Kind() == types.Uint8) {
						ok, detail = true, "one byte written: byte(PopInt())"
						continue
					}
				}
			}
			detail = "the byte written is " + valName(arg)
		} else if arg, isStr := p.outputStringArg(cc); isStr {
			ok, detail = false, "%c writes a string ("+valName(arg)+"): more than one byte for values of 128 and above"
			break
		}
	}
	c.Check(ok, rule, "op:%c:one-byte", p.pos(bo.Pos()), detail)
}

// c07Increment: terminfo(5): %i adds 1 to the first two parameters.  A string
// that is evaluated with one parameter (hpa, vpa) still gets that one
// incremented, so the two increments must not be conditional on each other.
func c07Increment(c *Ctx, p *Prog, fn *ssa.Function) {
	n := 0
	eachInstr(fn, func(in ssa.Instruction) {
		st, ok := in.(*ssa.Store)
		if !ok {
			return
		}
		ia, ok := st.Addr.(*ssa.IndexAddr)
		if !ok {
			return
		}
		k, ok := constInt(ia.Index)
		// the two increments written as a loop over the first two parameters: the index runs over
		// exactly 0 and 1, and the loop is left only through its counter
		var loopIdx *ssa.Phi
		if !ok {
			if phi, isPhi := ia.Index.(*ssa.Phi); isPhi && countsZeroOne(phi) {
				loopIdx, ok, k = phi, true, 0
			}
		}
		if !ok || k > 1 {
			return
		}
		mi, ok := st.Val.(*ssa.MakeInterface)
		if !ok {
			return
		}
		add, ok := mi.X.(*ssa.BinOp)
		if !ok || add.Op != token.ADD {
			return
		}
		if one, ok := constInt(add.Y); !ok || one != 1 {
			return
		}
		ex, ok := add.X.(*ssa.Extract)
		if !ok {
			return
		}
		ta, ok := ex.Tuple.(*ssa.TypeAssert)
		if !ok {
			return
		}
		n++
		key := fmt.Sprintf("op:%%i:param%d", k+1)
		// the asserted value is the same parameter
		same := false
		if ld, ok := ta.X.(*ssa.UnOp); ok {
			if ia2, ok := ld.X.(*ssa.IndexAddr); ok && ia2.X == ia.X {
				if k2, ok := constInt(ia2.Index); ok && k2 == k && loopIdx == nil {
					same = true
				}
				if loopIdx != nil && ia2.Index == ssa.Value(loopIdx) {
					same = true
				}
			}
		}
		if loopIdx != nil {
			n++
		}
		// guards inside the case: only this assertion's ok
		foreign := ""
		for _, g := range rawGuardsAt(st.Block()) {
			if gx, ok := g.Cond.(*ssa.Extract); ok {
				if gta, ok := gx.Tuple.(*ssa.TypeAssert); ok && gta != ta {
					foreign = "also depends on the type of " + valName(gta.X)
				}
			}
		}
		if loopIdx != nil {
			// one store standing for both increments
			c.Check(same && foreign == "", "C07-R8", "op:%i:param1", p.pos(st.Pos()), "params[n] = params[n].(int) + 1 for n = 0, 1 "+foreign)
			c.Check(same && foreign == "", "C07-R8", "op:%i:param2", p.pos(st.Pos()), "params[n] = params[n].(int) + 1 for n = 0, 1 "+foreign)
			return
		}
		c.Check(same && foreign == "", "C07-R8", key, p.pos(st.Pos()), fmt.Sprintf("params[%d] = params[%d].(int) + 1 %s", k, k, foreign))
	})
	if n < 2 {
		c.Undecided("C07-R8", "op:%i", p.pos(fn.Pos()), fmt.Sprintf("%d increments of the first two parameters found, expected 2", n))
	}
}

// c07PopDiscipline: the stack is a value; Pop returns the shortened stack.
// Dropping that result leaves the operand on the stack for the next operator.
func c07PopDiscipline(c *Ctx, p *Prog, fn *ssa.Function) {
	n := 0
	var walk func(f *ssa.Function)
	seen := map[*ssa.Function]bool{}
	walk = func(f *ssa.Function) {
		if seen[f] {
			return
		}
		seen[f] = true
		eachInstr(f, func(in ssa.Instruction) {
			call, ok := in.(*ssa.Call)
			if !ok {
				return
			}
			callee := staticCallee(&call.Call)
			if callee == nil || callee.Pkg != p.Terminfo || recvTypeName(callee) != "terminfo.stack" || !strings.HasPrefix(callee.Name(), "Pop") {
				return
			}
			walk(callee) // helpers built on the primitive pops
			n++
			used := false
			for _, r := range referrers(call) {
				if ex, ok := r.(*ssa.Extract); ok && ex.Index == 1 {
					for _, r2 := range referrers(ex) {
						if _, isDbg := r2.(*ssa.DebugRef); !isDbg {
							used = true
						}
					}
				}
			}
			c.Check(used, "C07-R9", fmt.Sprintf("%s:pop#%d@%s", f.Name(), n, callee.Name()), p.pos(in.Pos()), "the stack returned by the pop is the stack used afterwards")
		})
	}
	walk(fn)
}

// c07CallLocal: per-call dynamic variables start empty and nothing of one
// evaluation is visible to the next, because everything but the static
// variables is allocated by the call itself.
func c07CallLocal(c *Ctx, p *Prog, fn *ssa.Function) {
	// (1) package-level objects touched by TParm and the buffer's methods
	globals := map[string]bool{}
	// … and everything it calls in its own package (the buffer's and the stack's methods today)
	fns := []*ssa.Function{fn}
	seenFn := map[*ssa.Function]bool{fn: true}
	for i := 0; i < len(fns); i++ {
		eachInstr(fns[i], func(in ssa.Instruction) {
			if cc := callCommon(in); cc != nil {
				if f := cc.StaticCallee(); f != nil && f.Pkg == p.Terminfo && !seenFn[f] {
					seenFn[f] = true
					fns = append(fns, f)
				}
			}
		})
	}
	for _, f := range fns {
		eachInstr(f, func(in ssa.Instruction) {
			for _, op := range in.Operands(nil) {
				if g, ok := (*op).(*ssa.Global); ok && g.Pkg == p.Terminfo {
					if !globalIsStored(p, g) {
						continue // a table filled by the package initialiser and never written again: a constant
					}
					globals[g.Name()] = true
				}
			}
		})
	}
	okG := true
	for g := range globals {
		if g != "svars" {
			okG = false
		}
	}
	c.Check(okG && globals["svars"], "C07-R10", "TParm:package-state", p.pos(fn.Pos()), fmt.Sprintf("package-level variables used by the interpreter: %v (only the static variables may outlive a call)", sortedKeys(globals)))
	// (2) what the call reads its program from and collects its output in is allocated by the call
	okPB := true
	nIO := 0
	detail := ""
	eachInstr(fn, func(in ssa.Instruction) {
		cc := callCommon(in)
		if cc == nil {
			return
		}
		_, isB := p.outputByteArg(cc)
		_, isS := p.outputStringArg(cc)
		if !isB && !isS && !p.isInputRead(cc) {
			return
		}
		nIO++
		base := cc.Args[0]
		for {
			if fa, ok := base.(*ssa.FieldAddr); ok {
				base = fa.X
				continue
			}
			break
		}
		switch x := base.(type) {
		case *ssa.Alloc:
			if x.Parent() == fn {
				return
			}
		case *ssa.Call:
			switch calleeName(&x.Call) {
			case "strings.NewReader", "bytes.NewBufferString", "bytes.NewReader", "bytes.NewBuffer":
				return
			}
		}
		okPB = false
		detail = "the buffer used at " + p.pos(in.Pos()) + " is " + valName(base)
	})
	okPB = okPB && nIO > 0
	c.Check(okPB, "C07-R10", "TParm:buffer-allocated-here", p.pos(fn.Pos()), "the params buffer is a fresh allocation of this call "+detail)
	// (3) the dynamic variables: the array indexed by (ch - 'a')
	okDV, n := true, 0
	eachInstr(fn, func(in ssa.Instruction) {
		ia, ok := in.(*ssa.IndexAddr)
		if !ok {
			return
		}
		at, ok := ia.X.Type().Underlying().(*types.Pointer)
		if !ok {
			return
		}
		arr, ok := at.Elem().Underlying().(*types.Array)
		if !ok || arr.Len() != 26 {
			return
		}
		if g, isG := ia.X.(*ssa.Global); isG && g.Name() == "svars" {
			return
		}
		n++
		if al, ok := ia.X.(*ssa.Alloc); !ok || al.Parent() != fn {
			okDV = false
			detail = "dynamic variables live in " + valName(ia.X)
		}
	})
	c.Check(okDV && n >= 2, "C07-R10", "TParm:dynamic-variables-local", p.pos(fn.Pos()), fmt.Sprintf("%d accesses to the 26 dynamic variables, all to an array allocated by this call %s", n, detail))
}

// tparmDispatch finds TParm and the value its operator switch dispatches on (the NextCh result with the
// most equality comparisons against constants).
func tparmDispatch(p *Prog) (*ssa.Function, ssa.Value) {
	fn := p.Fn("terminfo:(*Terminfo).TParm")
	if fn == nil {
		return nil, nil
	}
	var dispatch ssa.Value
	best := 0
	eachInstr(fn, func(in ssa.Instruction) {
		call, ok := in.(*ssa.Call)
		if !ok || !p.isInputRead(&call.Call) {
			return
		}
		for _, r := range referrers(call) {
			ex, ok := r.(*ssa.Extract)
			if !ok || ex.Index != 0 {
				continue
			}
			n := 0
			for _, r2 := range referrers(ex) {
				if bo, ok := r2.(*ssa.BinOp); ok && bo.Op == token.EQL {
					if _, ok := constInt(bo.Y); ok {
						n++
					}
				}
			}
			if n > best {
				best, dispatch = n, ex
			}
		}
	})
	return fn, dispatch
}

// ---- R11: the operators no database string exercises much — variables, constants, unary operators.
// Each handler's shape is compared with terminfo(5): %P/%g address the 26 static variables with
// ch-'A' under 'A'..'Z' and the 26 dynamic ones with ch-'a' under 'a'..'z' (two different arrays, the
// static one at package level); %'c' pushes the character between the quotes; %{n} accumulates decimal
// digits from zero; %l pushes the length of the popped string; %! pushes (x == 0), %~ pushes x ^ -1.
func c07Handlers(c *Ctx, p *Prog, fn *ssa.Function, dispatch ssa.Value) {
	region := func(ch byte) map[*ssa.BasicBlock]bool {
		var start *ssa.BasicBlock
		for _, r := range referrers(dispatch) {
			bo, ok := r.(*ssa.BinOp)
			if !ok || bo.Op != token.EQL {
				continue
			}
			if k, isK := constInt(bo.Y); !isK || k != int64(ch) {
				continue
			}
			for _, r2 := range referrers(bo) {
				if iff, isIf := r2.(*ssa.If); isIf {
					start = iff.Block().Succs[0]
				}
			}
		}
		if start == nil {
			return nil
		}
		out := map[*ssa.BasicBlock]bool{}
		for _, b := range fn.Blocks {
			if start.Dominates(b) {
				out[b] = true
			}
		}
		return out
	}
	inRegion := func(reg map[*ssa.BasicBlock]bool, f func(in ssa.Instruction)) {
		for _, b := range fn.Blocks {
			if reg[b] {
				for _, in := range b.Instrs {
					f(in)
				}
			}
		}
	}
	pushArgs := func(reg map[*ssa.BasicBlock]bool) []ssa.Value {
		var out []ssa.Value
		inRegion(reg, func(in ssa.Instruction) {
			if cc := callCommon(in); cc != nil && strings.HasSuffix(calleeName(cc), "stack).Push") && len(cc.Args) == 2 {
				v := cc.Args[1]
				if mi, ok := v.(*ssa.MakeInterface); ok {
					v = mi.X
				}
				out = append(out, v)
			}
		})
		return out
	}
	// variable cells: IndexAddr on the package-level static array or on the local dynamic array
	type cellUse struct {
		in      ssa.Instruction
		static  bool
		offset  int64
		lo, hi  bool
		isStore bool
		pushed  bool
	}
	varUses := func(reg map[*ssa.BasicBlock]bool) []cellUse {
		var out []cellUse
		inRegion(reg, func(in ssa.Instruction) {
			ia, ok := in.(*ssa.IndexAddr)
			if !ok {
				return
			}
			arr, isArr := ia.X.Type().Underlying().(*types.Pointer)
			if !isArr {
				return
			}
			at, isArr2 := arr.Elem().Underlying().(*types.Array)
			if !isArr2 || at.Len() != 26 {
				return
			}
			u := cellUse{in: in}
			if _, isG := ia.X.(*ssa.Global); isG {
				u.static = true
			}
			idx := stripConv(ia.Index)
			if bo, isBO := idx.(*ssa.BinOp); isBO && bo.Op == token.SUB {
				if k, isK := constInt(bo.Y); isK {
					u.offset = k
				}
			}
			want := int64('a')
			if u.static {
				want = 'A'
			}
			for _, a := range guardsAt(ia.Block()) {
				if (a.Op == ">=" && a.R == fmt.Sprint(want)) || (a.Op == "<" && a.R == fmt.Sprint(want)) {
					u.lo = a.Op == ">="
				}
				if a.Op == "<=" && a.R == fmt.Sprint(want+25) {
					u.hi = true
				}
			}
			for _, r := range referrers(ia) {
				switch x := r.(type) {
				case *ssa.Store:
					if x.Addr == ssa.Value(ia) {
						u.isStore = true
					}
				case *ssa.UnOp:
					for _, r2 := range referrers(x) {
						if mi, isMI := r2.(*ssa.MakeInterface); isMI {
							for _, r3 := range referrers(mi) {
								if cc := callCommon(r3.(ssa.Instruction)); cc != nil && strings.HasSuffix(calleeName(cc), "stack).Push") {
									u.pushed = true
								}
							}
						}
					}
				}
			}
			out = append(out, u)
		})
		return out
	}
	for _, op := range []struct {
		ch    byte
		store bool
	}{{'P', true}, {'g', false}} {
		reg := region(op.ch)
		if reg == nil {
			c.Undecided("C07-R11", fmt.Sprintf("op:%%%c", op.ch), p.pos(fn.Pos()), "case not found")
			continue
		}
		seen := map[bool]bool{}
		for _, u := range varUses(reg) {
			kind := "dynamic"
			want := int64('a')
			if u.static {
				kind, want = "static", 'A'
			}
			seen[u.static] = true
			okUse := u.offset == want && u.lo && u.hi && ((op.store && u.isStore) || (!op.store && u.pushed))
			c.Check(okUse, "C07-R11", fmt.Sprintf("op:%%%c:%s-variable", op.ch, kind), p.pos(u.in.Pos()),
				fmt.Sprintf("index = ch - %d (want %d), range test lower %v upper %v, stored %v, pushed %v", u.offset, want, u.lo, u.hi, u.isStore, u.pushed))
		}
		if !seen[true] || !seen[false] {
			c.Fail("C07-R11", fmt.Sprintf("op:%%%c:both-variable-sets", op.ch), p.pos(fn.Pos()), fmt.Sprintf("static variables addressed: %v, dynamic: %v", seen[true], seen[false]))
		}
	}
	// the static set is package state, the dynamic set lives in the call (R10 covers the rest)
	// %'c'
	if reg := region('\''); reg != nil {
		var first *ssa.Call
		inRegion(reg, func(in ssa.Instruction) {
			if call, ok := in.(*ssa.Call); ok && first == nil && p.isInputRead(&call.Call) {
				first = call
			}
		})
		ok := false
		for _, v := range pushArgs(reg) {
			if ex, isEx := stripConv(v).(*ssa.Extract); isEx && first != nil && ex.Tuple == ssa.Value(first) && ex.Index == 0 {
				ok = true
			}
		}
		c.Check(ok, "C07-R11", "op:%'c':pushes-the-character", p.pos(fn.Pos()), "the value pushed is the byte read right after the quote")
	} else {
		c.Undecided("C07-R11", "op:%'c'", p.pos(fn.Pos()), "case not found")
	}
	// %{n}
	if reg := region('{'); reg != nil {
		ok := false
		inRegion(reg, func(in ssa.Instruction) {
			phi, isPhi := in.(*ssa.Phi)
			if !isPhi {
				return
			}
			zero, acc := false, false
			for _, e := range phi.Edges {
				if k, isK := constInt(e); isK && k == 0 {
					zero = true
				}
				if add, isAdd := e.(*ssa.BinOp); isAdd && add.Op == token.ADD {
					if mul, isMul := add.X.(*ssa.BinOp); isMul && mul.Op == token.MUL && mul.X == ssa.Value(phi) {
						if k, isK := constInt(mul.Y); isK && k == 10 {
							if sub, isSub := stripConv(add.Y).(*ssa.BinOp); isSub && sub.Op == token.SUB {
								if k2, isK2 := constInt(sub.Y); isK2 && k2 == '0' {
									acc = true
								}
							}
						}
					}
				}
			}
			if zero && acc {
				for _, v := range pushArgs(reg) {
					if v == ssa.Value(phi) {
						ok = true
					}
				}
			}
		})
		c.Check(ok, "C07-R11", "op:%{n}:decimal-constant", p.pos(fn.Pos()), "pushes n accumulated as n*10 + (digit - '0') starting from zero")
	} else {
		c.Undecided("C07-R11", "op:%{n}", p.pos(fn.Pos()), "case not found")
	}
	// %l
	if reg := region('l'); reg != nil {
		ok := false
		for _, v := range pushArgs(reg) {
			if call, isCall := v.(*ssa.Call); isCall {
				if b, isB := call.Call.Value.(*ssa.Builtin); isB && b.Name() == "len" {
					if ex, isEx := call.Call.Args[0].(*ssa.Extract); isEx && ex.Index == 0 {
						if pc, isPC := ex.Tuple.(*ssa.Call); isPC && strings.HasSuffix(calleeName(&pc.Call), "stack).PopString") {
							ok = true
						}
					}
				}
			}
		}
		c.Check(ok, "C07-R11", "op:%l:string-length", p.pos(fn.Pos()), "pushes len() of the popped string")
	} else {
		c.Undecided("C07-R11", "op:%l", p.pos(fn.Pos()), "case not found")
	}
	// %! and %~
	popped := func(v ssa.Value) bool {
		ex, isEx := v.(*ssa.Extract)
		if !isEx || ex.Index != 0 {
			return false
		}
		pc, isPC := ex.Tuple.(*ssa.Call)
		return isPC && strings.HasSuffix(calleeName(&pc.Call), "stack).PopInt")
	}
	if reg := region('!'); reg != nil {
		ok := false
		for _, v := range pushArgs(reg) {
			if bo, isBO := v.(*ssa.BinOp); isBO && bo.Op == token.EQL && popped(bo.X) {
				if k, isK := constInt(bo.Y); isK && k == 0 {
					ok = true
				}
			}
		}
		c.Check(ok, "C07-R11", "op:%!:logical-not", p.pos(fn.Pos()), "pushes (x == 0)")
	} else {
		c.Undecided("C07-R11", "op:%!", p.pos(fn.Pos()), "case not found")
	}
	if reg := region('~'); reg != nil {
		ok := false
		for _, v := range pushArgs(reg) {
			switch x := v.(type) {
			case *ssa.BinOp:
				if x.Op == token.XOR && popped(x.X) {
					if k, isK := constInt(x.Y); isK && k == -1 {
						ok = true
					}
				}
			case *ssa.UnOp:
				if x.Op == token.XOR && popped(x.X) {
					ok = true
				}
			}
		}
		c.Check(ok, "C07-R11", "op:%~:bit-complement", p.pos(fn.Pos()), "pushes x ^ -1")
	} else {
		c.Undecided("C07-R11", "op:%~", p.pos(fn.Pos()), "case not found")
	}
}

// popPairSummary: for a helper that pops two integers off a stack and returns them (in any order, plus
// the rest of the stack), the role of each result index: 1 = the value popped first (the right operand
// of a binary operator), 2 = the value popped second (the left operand).  nil if h is not such a helper.
func popPairSummary(p *Prog, h *ssa.Function) map[int]int {
	if h == nil || len(h.Blocks) == 0 || h.Pkg != p.Terminfo {
		return nil
	}
	var pops []*ssa.Call
	eachInstr(h, func(in ssa.Instruction) {
		if call, ok := in.(*ssa.Call); ok && strings.HasSuffix(calleeName(&call.Call), "stack).PopInt") {
			pops = append(pops, call)
		}
	})
	if len(pops) != 2 {
		return nil
	}
	// first = the one whose stack argument is not derived from the other pop
	first, second := pops[0], pops[1]
	derives := func(a, b *ssa.Call) bool { // a's receiver comes from b's result
		if len(a.Call.Args) == 0 {
			return false
		}
		ex, ok := a.Call.Args[0].(*ssa.Extract)
		return ok && ex.Tuple == ssa.Value(b) && ex.Index == 1
	}
	switch {
	case derives(pops[1], pops[0]):
	case derives(pops[0], pops[1]):
		first, second = pops[1], pops[0]
	default:
		return nil
	}
	rets := returnsOf(h)
	if len(rets) != 1 {
		return nil
	}
	roles := map[int]int{}
	for i, r := range rets[0].Results {
		if ex, ok := r.(*ssa.Extract); ok && ex.Index == 0 {
			switch ex.Tuple {
			case ssa.Value(first):
				roles[i] = 1
			case ssa.Value(second):
				roles[i] = 2
			}
		}
	}
	if len(roles) != 2 {
		return nil
	}
	return roles
}

// nonEmptyAtom: the guards say that the length expression l is at least one, in any of the forms a
// programmer writes it (l > 0, l != 0, l >= 1, or the false edge of l == 0 / l < 1 / l <= 0).
func nonEmptyAtom(g []Atom, l string) bool {
	for _, a := range g {
		if a.L == l && ((a.Op == ">" && a.R == "0") || (a.Op == "!=" && a.R == "0") || (a.Op == ">=" && a.R == "1")) {
			return true
		}
		if a.R == l && ((a.Op == "<" && a.L == "0") || (a.Op == "!=" && a.L == "0") || (a.Op == "<=" && a.L == "1")) {
			return true
		}
	}
	return false
}

// constSetIndex: v is the position of a byte in a constant set of bytes — strings.IndexByte(set, b),
// strings.IndexRune(set, rune(b)) or bytes.IndexByte([]byte(set), b) with a constant set.  It returns
// the set and the byte looked up.
func constSetIndex(v ssa.Value) (string, ssa.Value, bool) {
	call, ok := v.(*ssa.Call)
	if !ok || len(call.Call.Args) != 2 {
		return "", nil, false
	}
	switch calleeName(&call.Call) {
	case "strings.IndexByte", "strings.IndexRune", "bytes.IndexByte", "bytes.IndexRune":
	default:
		return "", nil, false
	}
	k, ok := stripConv(call.Call.Args[0]).(*ssa.Const)
	if !ok || k.Value == nil || k.Value.Kind() != constant.String {
		return "", nil, false
	}
	return constant.StringVal(k.Value), stripConv(call.Call.Args[1]), true
}

// countsZeroOne: phi is the counter of a loop that runs its body for 0 and for 1 and for nothing
// else: phi(0, phi+1), tested `phi < 2` (or `<= 1`) in the loop header, and no other way out of the
// loop than that test.
func countsZeroOne(phi *ssa.Phi) bool {
	if len(phi.Edges) != 2 {
		return false
	}
	zero, step := false, false
	for _, e := range phi.Edges {
		if k, ok := constInt(e); ok && k == 0 {
			zero = true
		}
		if add, ok := e.(*ssa.BinOp); ok && add.Op == token.ADD && add.X == ssa.Value(phi) {
			if k, ok := constInt(add.Y); ok && k == 1 {
				step = true
			}
		}
	}
	if !zero || !step {
		return false
	}
	h := phi.Block()
	body := loopsOf(h.Parent())[h]
	if body == nil || len(h.Instrs) == 0 {
		return false
	}
	iff, ok := h.Instrs[len(h.Instrs)-1].(*ssa.If)
	if !ok || !body[h.Succs[0]] || body[h.Succs[1]] {
		return false
	}
	cmp, ok := iff.Cond.(*ssa.BinOp)
	if !ok || cmp.X != ssa.Value(phi) {
		return false
	}
	k, ok := constInt(cmp.Y)
	if !ok || !((cmp.Op == token.LSS && k == 2) || (cmp.Op == token.LEQ && k == 1)) {
		return false
	}
	for b := range body {
		if b == h {
			continue
		}
		for _, s := range b.Succs {
			if !body[s] {
				return false // a second way out (break, return): the second increment may be skipped
			}
		}
	}
	return true
}

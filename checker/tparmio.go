package main

import (
	"go/types"
	"strings"

	"golang.org/x/tools/go/ssa"
)

// The interpreter's input and output are identified by role, not by the name of
// the helper type that happens to wrap them today: a read is a static call that
// takes nothing and yields (byte, error) — the standard ReadByte of a
// bytes.Buffer, bytes.Reader, strings.Reader or bufio.Reader, or a method of
// package terminfo with that signature (a wrapper around one, or a string with a
// read offset); a byte write takes one byte, a string write one string, on a
// bytes.Buffer or strings.Builder directly or through a method of package
// terminfo.

var stdByteReaders = map[string]bool{
	"(*bytes.Buffer).ReadByte": true, "(*bytes.Reader).ReadByte": true,
	"(*strings.Reader).ReadByte": true, "(*bufio.Reader).ReadByte": true,
}
var stdByteWriters = map[string]bool{
	"(*bytes.Buffer).WriteByte": true, "(*strings.Builder).WriteByte": true, "(*bufio.Writer).WriteByte": true,
}
var stdStringWriters = map[string]bool{
	"(*bytes.Buffer).WriteString": true, "(*strings.Builder).WriteString": true, "(*bufio.Writer).WriteString": true,
}

func isByteType(t types.Type) bool {
	b, ok := t.Underlying().(*types.Basic)
	return ok && (b.Kind() == types.Byte || b.Kind() == types.Uint8)
}

func isErrorType(t types.Type) bool {
	return t.String() == "error"
}

// isInputRead: the call reads the next byte of the program being expanded.
func (p *Prog) isInputRead(cc *ssa.CallCommon) bool {
	if cc == nil || cc.IsInvoke() {
		return false
	}
	f := cc.StaticCallee()
	if f == nil || f.Signature.Recv() == nil || f.Signature.Params().Len() != 0 {
		return false
	}
	res := f.Signature.Results()
	if res.Len() != 2 || !isByteType(res.At(0).Type()) || !isErrorType(res.At(1).Type()) {
		return false
	}
	if stdByteReaders[calleeName(cc)] {
		return true
	}
	return f.Pkg != nil && f.Pkg == p.Terminfo
}

// outputByteArg: the call appends one byte to the expansion; the byte is returned.
func (p *Prog) outputByteArg(cc *ssa.CallCommon) (ssa.Value, bool) {
	if cc == nil || cc.IsInvoke() {
		return nil, false
	}
	f := cc.StaticCallee()
	if f == nil || f.Signature.Recv() == nil || f.Signature.Params().Len() != 1 || len(cc.Args) != 2 {
		return nil, false
	}
	if !isByteType(f.Signature.Params().At(0).Type()) {
		return nil, false
	}
	if stdByteWriters[calleeName(cc)] {
		return cc.Args[1], true
	}
	if f.Pkg != nil && f.Pkg == p.Terminfo && strings.HasPrefix(recvTypeName(f), "terminfo.") && recvTypeName(f) != "terminfo.stack" {
		return cc.Args[1], true
	}
	return nil, false
}

// outputStringArg: the call appends a string to the expansion.  A method of
// package terminfo that takes one string counts unless it is the one that fills
// the input (it stores into what the reader reads).
func (p *Prog) outputStringArg(cc *ssa.CallCommon) (ssa.Value, bool) {
	if cc == nil || cc.IsInvoke() {
		return nil, false
	}
	f := cc.StaticCallee()
	if f == nil || f.Signature.Recv() == nil || f.Signature.Params().Len() != 1 || len(cc.Args) != 2 {
		return nil, false
	}
	if b, ok := f.Signature.Params().At(0).Type().Underlying().(*types.Basic); !ok || b.Kind() != types.String {
		return nil, false
	}
	if stdStringWriters[calleeName(cc)] {
		return cc.Args[1], true
	}
	if f.Pkg != nil && f.Pkg == p.Terminfo && f.Signature.Results().Len() == 0 && recvTypeName(f) != "terminfo.stack" && !p.fillsInput(f) {
		return cc.Args[1], true
	}
	return nil, false
}

// inputFieldsOf: the fields (owner.name) a reader helper of package terminfo reads from.
func (p *Prog) inputFieldsOf(reader *ssa.Function) map[string]bool {
	out := map[string]bool{}
	if reader == nil {
		return out
	}
	owner := recvTypeName(reader)
	eachInstr(reader, func(in ssa.Instruction) {
		for _, op := range in.Operands(nil) {
			if *op == nil {
				continue
			}
			if ref, _, ok := fieldAddrRef(*op); ok && ref.Owner == owner {
				out[ref.Name] = true
			}
		}
	})
	return out
}

// readerHelpers: the methods of package terminfo with the reader signature.
func (p *Prog) readerHelpers() []*ssa.Function {
	var out []*ssa.Function
	for _, f := range p.modFns {
		if f.Pkg != p.Terminfo || f.Signature.Recv() == nil || f.Signature.Params().Len() != 0 {
			continue
		}
		res := f.Signature.Results()
		if res.Len() == 2 && isByteType(res.At(0).Type()) && isErrorType(res.At(1).Type()) {
			out = append(out, f)
		}
	}
	return out
}

// fillsInput: f stores into, or calls a mutating method on, a field some reader helper reads.
func (p *Prog) fillsInput(f *ssa.Function) bool {
	for _, r := range p.readerHelpers() {
		if r == f || recvTypeName(r) != recvTypeName(f) {
			continue
		}
		fields := p.inputFieldsOf(r)
		owner := recvTypeName(r)
		hit := false
		eachInstr(f, func(in ssa.Instruction) {
			if st, ok := in.(*ssa.Store); ok {
				if ref, _, ok := fieldAddrRef(st.Addr); ok && ref.Owner == owner && fields[ref.Name] {
					hit = true
				}
				return
			}
			cc := callCommon(in)
			if cc == nil || len(cc.Args) == 0 {
				return
			}
			if ref, _, ok := fieldAddrRef(cc.Args[0]); ok && ref.Owner == owner && fields[ref.Name] && mutatesReader(calleeName(cc)) {
				hit = true
			}
		})
		if hit {
			return true
		}
	}
	return false
}

// mutatesReader: a method that changes what a byte reader will yield next, other than by reading.
func mutatesReader(callee string) bool {
	for _, s := range []string{"Write", "Unread", "Reset", "Seek", "Truncate", "Grow", "Next", "ReadFrom"} {
		if strings.Contains(callee, ")."+s) {
			return true
		}
	}
	return false
}

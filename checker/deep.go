package main

// Looking through helpers.  A rule stated on "function F" (the shutdown path, the take-over path, a
// painter) must keep holding when a maintainer moves part of F's body into a helper that F calls.
// deepInstrs enumerates the instructions of F together with those of the module functions F reaches
// through static calls (bounded depth, goroutines not followed), each with its anchor — the instruction
// of F itself through which it is reached — so that ordering and dominance questions are asked in F,
// and with the chain of call sites, so that guards can be collected along the way.

import (
	"go/token"
	"sort"

	"golang.org/x/tools/go/ssa"
)

type deepInstr struct {
	in     ssa.Instruction   // the instruction itself (in F or in a helper)
	anchor ssa.Instruction   // the instruction of F it is reached through (== in when it is in F)
	chain  []ssa.Instruction // call sites from F down to the helper holding `in` (empty when in F)
	sels   []tableSel        // for each call of the chain made through a constant table of functions: the row
}

// tableSel: the helper was reached through `table[index](…)`, table a package-level map (or array) of
// function literals that nothing writes after its initialisation; this is the row with the given key.
type tableSel struct {
	level int       // position in chain
	index ssa.Value // the index expression at the call site
	key   int64
}

// tableKeyFor: the key of the table row through which the instruction is reached, when the table was
// indexed by v (as bound to the caller's values).
func (d deepInstr) tableKeyFor(v ssa.Value) (int64, bool) {
	for _, s := range d.sels {
		idx := s.index
		// bind the index up through the part of the chain above the table call
		up := deepInstr{chain: d.chain[:s.level]}
		if stripConv(up.bindVal(stripConv(idx))) == v || stripConv(idx) == v {
			return s.key, true
		}
	}
	return 0, false
}

// guards: the atoms known to hold at the instruction: those at every call site of the chain plus those
// inside the helper.
func (d deepInstr) guards() []Atom {
	var out []Atom
	for _, cs := range d.chain {
		out = append(out, guardsAt(cs.Block())...)
	}
	return append(out, guardsAt(d.in.Block())...)
}

// rawGuards: the branch conditions known at the instruction, as values: those at every call site of the
// chain, plus those inside the helper.  A helper's test of one of its own boolean parameters
// (`if release {`) is replaced by the argument the caller passed (`b[i] == 'm'`), so a rule sees the
// condition it would see if the helper's body stood in the caller.
func (d deepInstr) rawGuards() []rawGuard {
	var out []rawGuard
	// level j: the block holding call site j of the chain (j < len) or the instruction itself (j == len);
	// for j >= 1 it lies in the helper called at chain[j-1]
	for j := 0; j <= len(d.chain); j++ {
		var blk *ssa.BasicBlock
		if j < len(d.chain) {
			blk = d.chain[j].Block()
		} else {
			blk = d.in.Block()
		}
		for _, g := range rawGuardsAt(blk) {
			out = append(out, d.bindUp(g, j)...)
		}
	}
	return out
}

// bindUp: a condition known at level j, with a test of a boolean parameter replaced by the argument
// passed at the call one level up (and so on upwards while it is again a parameter).
func (d deepInstr) bindUp(g rawGuard, j int) []rawGuard {
	if j == 0 {
		return []rawGuard{g}
	}
	cond, pos := g.Cond, g.Positive
	for {
		u, ok := cond.(*ssa.UnOp)
		if !ok || u.Op != token.NOT {
			break
		}
		cond, pos = u.X, !pos
	}
	pa, ok := cond.(*ssa.Parameter)
	if !ok {
		return []rawGuard{g}
	}
	call := callCommon(d.chain[j-1])
	h := pa.Parent()
	if call == nil || h == nil {
		return []rawGuard{g}
	}
	for i, q := range h.Params {
		if q == pa && i < len(call.Args) {
			var out []rawGuard
			for _, e := range expandCond(call.Args[i], pos, 0) {
				out = append(out, d.bindUp(e, j-1)...)
			}
			return out
		}
	}
	return []rawGuard{g}
}

// bindVal: a helper's parameter stands for the argument passed at the call the instruction was reached
// through (and so on upwards).
func (d deepInstr) bindVal(v ssa.Value) ssa.Value {
	v = derefCell(v)
	for j := len(d.chain); j >= 1; j-- {
		pa, ok := v.(*ssa.Parameter)
		if !ok {
			break
		}
		call := callCommon(d.chain[j-1])
		h := pa.Parent()
		if call == nil || h == nil {
			break
		}
		found := false
		for i, q := range h.Params {
			if q == pa && i < len(call.Args) {
				v, found = derefCell(call.Args[i]), true
			}
		}
		if !found {
			break
		}
	}
	return v
}

// atoms: rawGuards as printable atoms.
func (d deepInstr) atoms() []Atom {
	var out []Atom
	for _, g := range d.rawGuards() {
		out = append(out, helperAtoms(g)...)
		if at, ok := condAtom(g.Cond, g.Positive); ok {
			out = append(out, at.canon())
		}
	}
	return out
}

func deepInstrs(p *Prog, fn *ssa.Function, depth int, enter func(call ssa.Instruction, callee *ssa.Function) bool) []deepInstr {
	var out []deepInstr
	var walk func(f *ssa.Function, chain []ssa.Instruction, d int, seen map[*ssa.Function]bool)
	walk = func(f *ssa.Function, chain []ssa.Instruction, d int, seen map[*ssa.Function]bool) {
		eachInstr(f, func(in ssa.Instruction) {
			anchor := in
			if len(chain) > 0 {
				anchor = chain[0]
			}
			out = append(out, deepInstr{in: in, anchor: anchor, chain: append([]ssa.Instruction(nil), chain...)})
			if d == 0 {
				return
			}
			if _, isGo := in.(*ssa.Go); isGo {
				return
			}
			if _, isDefer := in.(*ssa.Defer); isDefer {
				return
			}
			cc := callCommon(in)
			if cc == nil {
				return
			}
			callee := cc.StaticCallee()
			if callee == nil && !cc.IsInvoke() {
				// a call through a constant table of function literals: every row is a helper
				if idx, rows := funcTableRows(p, cc.Value); rows != nil {
					keys := make([]int64, 0, len(rows))
					for k := range rows {
						keys = append(keys, k)
					}
					sort.Slice(keys, func(i, j int) bool { return keys[i] < keys[j] })
					for _, k := range keys {
						h := rows[k]
						if h.Pkg != fn.Pkg || len(h.Blocks) == 0 || seen[h] {
							continue
						}
						seen[h] = true
						nchain := append(append([]ssa.Instruction(nil), chain...), in)
						before := len(out)
						walk(h, nchain, d-1, seen)
						for i := before; i < len(out); i++ {
							out[i].sels = append(out[i].sels, tableSel{level: len(chain), index: idx, key: k})
						}
						delete(seen, h)
					}
				}
				return
			}
			if callee == nil || callee.Pkg != fn.Pkg || len(callee.Blocks) == 0 || seen[callee] {
				return
			}
			if enter != nil && !enter(in, callee) {
				return
			}
			seen[callee] = true
			walk(callee, append(append([]ssa.Instruction(nil), chain...), in), d-1, seen)
			delete(seen, callee)
		})
	}
	walk(fn, nil, depth, map[*ssa.Function]bool{fn: true})
	return out
}

// funcTableRows: v is `table[index]` with table a package-level map or array of function literals that
// is filled by the package initialiser and written nowhere else: the index expression and the rows.
func funcTableRows(p *Prog, v ssa.Value) (ssa.Value, map[int64]*ssa.Function) {
	var tab, idx ssa.Value
	switch x := v.(type) {
	case *ssa.Lookup:
		tab, idx = x.X, x.Index
	case *ssa.UnOp: // *(&table[i]) of an array or slice
		ia, ok := x.X.(*ssa.IndexAddr)
		if !ok || x.Op != token.MUL {
			return nil, nil
		}
		tab, idx = ia.X, ia.Index
	default:
		return nil, nil
	}
	var g *ssa.Global
	switch y := tab.(type) {
	case *ssa.UnOp:
		g, _ = y.X.(*ssa.Global)
	case *ssa.Global:
		g = y
	}
	if g == nil || g.Pkg == nil || globalIsStored(p, g) {
		return nil, nil
	}
	init := g.Pkg.Func("init")
	if init == nil {
		return nil, nil
	}
	rows := map[int64]*ssa.Function{}
	ok := true
	// the value stored into the global: a map made in init and filled by MapUpdates, or an array
	// filled by stores through IndexAddr
	var made ssa.Value
	eachInstr(init, func(in ssa.Instruction) {
		if st, isSt := in.(*ssa.Store); isSt && st.Addr == ssa.Value(g) {
			made = st.Val
		}
	})
	eachInstr(init, func(in ssa.Instruction) {
		switch x := in.(type) {
		case *ssa.MapUpdate:
			if made == nil || x.Map != made {
				return
			}
			k, isK := constInt(x.Key)
			f, isF := x.Value.(*ssa.Function)
			if !isK || !isF {
				ok = false
				return
			}
			rows[k] = f
		case *ssa.Store:
			ia, isIA := x.Addr.(*ssa.IndexAddr)
			if !isIA || ia.X != ssa.Value(g) {
				return
			}
			k, isK := constInt(ia.Index)
			f, isF := x.Val.(*ssa.Function)
			if !isK || !isF {
				ok = false
				return
			}
			rows[k] = f
		}
	})
	if !ok || len(rows) == 0 {
		return nil, nil
	}
	return idx, rows
}

package main

import (
	"fmt"
	"go/token"
	"go/types"
	"sort"
	"strings"

	"golang.org/x/tools/go/ssa"
)

// Shared database model for C03/C07/C09/C14/C15: entries (T1), how the
// library uses each capability string (T7: arity at TParm call sites, prepared
// strings of tScreen, emission sites).

// strSource is where a prepared tScreen string can come from.
type strSource struct {
	Field   string // Terminfo field name, or ""
	Literal string // constant, if Field == ""
	Pos     token.Pos
}

// replaceXform is a strings.Replace(x, old, new, n) applied to a prepared string after its stores.
type replaceXform struct {
	Old, New string
	N        int
}

type dbModel struct {
	p        *Prog
	entries  []*Entry
	nonLit   []string
	arity    map[string]int         // Terminfo field -> number of parameters supplied by the library
	arityG   map[string]int         // tScreen prepared field -> parameters supplied
	argKinds map[string][]string    // field (Terminfo "F" or tScreen "t.G") -> kinds of args ("int"/"string")
	prepared map[string][]strSource // tScreen field -> sources
	xforms   map[string][]replaceXform
	tparmN   int // TParm call sites seen
	unknown  []string
}

func varargCount(v ssa.Value) (int, []ssa.Value, bool) {
	if isNilConst(v) {
		return 0, nil, true
	}
	sl, ok := v.(*ssa.Slice)
	if !ok {
		return 0, nil, false
	}
	al, ok := sl.X.(*ssa.Alloc)
	if !ok {
		return 0, nil, false
	}
	arr, ok := al.Type().(*types.Pointer).Elem().Underlying().(*types.Array)
	if !ok {
		return 0, nil, false
	}
	n := int(arr.Len())
	vals := make([]ssa.Value, n)
	for _, r := range referrers(al) {
		ia, ok := r.(*ssa.IndexAddr)
		if !ok {
			continue
		}
		k, ok := constInt(ia.Index)
		if !ok {
			continue
		}
		for _, r2 := range referrers(ia) {
			if st, ok := r2.(*ssa.Store); ok && int(k) < n {
				vals[k] = st.Val
			}
		}
	}
	return n, vals, true
}

func argKind(v ssa.Value) string {
	if v == nil {
		return "?"
	}
	if mi, ok := v.(*ssa.MakeInterface); ok {
		v = mi.X
	}
	if b, ok := v.Type().Underlying().(*types.Basic); ok {
		if b.Info()&types.IsString != 0 {
			return "string"
		}
		if b.Info()&types.IsInteger != 0 {
			return "int"
		}
	}
	return "?"
}

func buildDB(c *Ctx, p *Prog) *dbModel {
	m := &dbModel{p: p, arity: map[string]int{}, arityG: map[string]int{}, argKinds: map[string][]string{},
		prepared: map[string][]strSource{}, xforms: map[string][]replaceXform{}}
	m.entries, m.nonLit = extractEntries(p)
	if p.Tcell == nil {
		return m
	}
	setArity := func(tab map[string]int, key string, n int, kinds []string, pos token.Pos) {
		if old, ok := tab[key]; ok && old != n {
			m.unknown = append(m.unknown, fmt.Sprintf("%s: capability %s used with %d and %d parameters", p.pos(pos), key, old, n))
		}
		if old, ok := tab[key]; !ok || n > old {
			tab[key] = n
		}
		pre := "t."
		if &tab == &m.arity {
			pre = ""
		}
		_ = pre
	}
	for _, fn := range p.modFns {
		if fn.Pkg != p.Tcell && fn.Pkg != p.Terminfo {
			continue
		}
		eachInstr(fn, func(in ssa.Instruction) {
			cc := callCommon(in)
			if cc == nil {
				return
			}
			name := calleeName(cc)
			tmpl, varArg := ssa.Value(nil), ssa.Value(nil)
			if name == "(*"+modPath+"/terminfo.Terminfo).TParm" && len(cc.Args) == 3 {
				if textEmitters(p)[fn] {
					return // the wrapper's own expansion: its call sites are the usage sites
				}
				tmpl, varArg = cc.Args[1], cc.Args[2]
			} else if c, v, ok := textEmitterCall(p, in); ok {
				tmpl, varArg = c, v
				name = "(*" + modPath + "/terminfo.Terminfo).TParm"
			}
			switch name {
			case "(*" + modPath + "/terminfo.Terminfo).TParm":
				if tmpl == nil {
					return
				}
				m.tparmN++
				n, vals, ok := varargCount(varArg)
				if !ok {
					m.unknown = append(m.unknown, p.pos(in.Pos())+": TParm with a non-literal argument list")
					return
				}
				kinds := make([]string, n)
				for i := range kinds {
					kinds[i] = argKind(vals[i])
				}
				ref, _, isField := loadedField(tmpl)
				switch {
				case isField && ref.Owner == "terminfo.Terminfo":
					setArity(m.arity, ref.Name, n, kinds, in.Pos())
					m.argKinds[ref.Name] = kinds
				case isField && ref.Owner == "tcell.tScreen":
					setArity(m.arityG, ref.Name, n, kinds, in.Pos())
					m.argKinds["t."+ref.Name] = kinds
				default:
					if _, isParam := tmpl.(*ssa.Parameter); isParam && fn.Name() == "TParm" {
						return
					}
					// a row of a local table of capabilities (`{t.SetFg, fi}, {t.SetBg, bi}`): every
					// string stored into that column is a use with this argument list
					if srcs := localTableColumn(tmpl); len(srcs) > 0 {
						all := true
						for _, src := range srcs {
							if r2, _, ok2 := loadedField(src); !ok2 || r2.Owner != "terminfo.Terminfo" {
								all = false
							}
						}
						if all {
							for _, src := range srcs {
								r2, _, _ := loadedField(src)
								setArity(m.arity, r2.Name, n, kinds, in.Pos())
								m.argKinds[r2.Name] = kinds
							}
							return
						}
					}
					m.unknown = append(m.unknown, p.pos(in.Pos())+": TParm on a string that is neither a Terminfo field nor a prepared screen string: "+valName(tmpl))
				}
			}
		})
		// stores into tScreen string fields (prepared strings)
		eachInstr(fn, func(in ssa.Instruction) {
			st, ok := in.(*ssa.Store)
			if !ok {
				return
			}
			ref, _, ok := fieldAddrRef(st.Addr)
			if !ok || ref.Owner != "tcell.tScreen" {
				return
			}
			if b, ok := st.Val.Type().Underlying().(*types.Basic); !ok || b.Info()&types.IsString == 0 {
				return
			}
			m.addSource(ref.Name, st.Val, in.Pos())
		})
	}
	return m
}

func (m *dbModel) addSource(g string, v ssa.Value, pos token.Pos) {
	if s, ok := constString(v); ok {
		m.prepared[g] = append(m.prepared[g], strSource{Literal: s, Pos: pos})
		return
	}
	if ref, _, ok := loadedField(v); ok {
		if ref.Owner == "terminfo.Terminfo" {
			m.prepared[g] = append(m.prepared[g], strSource{Field: ref.Name, Pos: pos})
			return
		}
		if ref.Owner == "tcell.tScreen" && ref.Name == g {
			return // self assignment
		}
	}
	if call, ok := v.(*ssa.Call); ok && calleeName(&call.Call) == "strings.Replace" && len(call.Call.Args) == 4 {
		o, ok1 := constString(call.Call.Args[1])
		n, ok2 := constString(call.Call.Args[2])
		k, ok3 := constInt(call.Call.Args[3])
		if ref, _, isF := loadedField(call.Call.Args[0]); ok1 && ok2 && ok3 && isF && ref.Owner == "tcell.tScreen" && ref.Name == g {
			m.xforms[g] = append(m.xforms[g], replaceXform{o, n, int(k)})
			return
		}
	}
	// a field of a local record that was filled from constants and description fields
	// (`seqs = pasteSeqs{enable: t.ti.EnablePaste, …}` … `t.enablePaste = seqs.enable`): each of them
	if srcs := localTableColumn(v); len(srcs) > 0 {
		all := true
		for _, src := range srcs {
			if _, isC := constString(src); isC {
				continue
			}
			if r2, _, ok2 := loadedField(src); ok2 && r2.Owner == "terminfo.Terminfo" {
				continue
			}
			all = false
		}
		if all {
			for _, src := range srcs {
				m.addSource(g, src, pos)
			}
			return
		}
	}
	if _, isParam := v.(*ssa.Parameter); isParam && g == "title" {
		return
	}
	if g == "charset" || g == "title" {
		return // not control strings
	}
	m.unknown = append(m.unknown, m.p.pos(pos)+": prepared string t."+g+" stored from a value that is not a constant or a Terminfo field: "+valName(v))
}

// preparedValues returns the possible values of prepared string g for entry e.
func (m *dbModel) preparedValues(e *Entry, g string) []string {
	seen := map[string]bool{}
	var out []string
	for _, s := range m.prepared[g] {
		v := s.Literal
		if s.Field != "" {
			v = e.Str[s.Field]
		}
		if v == "" {
			continue
		}
		for _, x := range m.xforms[g] {
			v = strings.Replace(v, x.Old, x.New, x.N)
		}
		if !seen[v] {
			seen[v] = true
			out = append(out, v)
		}
	}
	sort.Strings(out)
	return out
}

// arityOf: how many parameters does the library supply when it expands Terminfo field f
// (directly, or through a prepared string)? ok=false if f is never expanded with TParm.
func (m *dbModel) arityOf(f string) (int, bool) {
	n, ok := m.arity[f]
	for g, srcs := range m.prepared {
		for _, s := range srcs {
			if s.Field == f {
				if k, ok2 := m.arityG[g]; ok2 {
					if !ok || k > n {
						n, ok = k, true
					}
				}
			}
		}
	}
	return n, ok
}

// localTableColumn: v reads field k of an element of a local array of structs (or of a local struct);
// the values stored into that field anywhere in the function are returned (nil when v is not such a
// read, or the table escapes).
func localTableColumn(v ssa.Value) []ssa.Value {
	var field int
	var agg ssa.Value
	switch x := v.(type) {
	case *ssa.Field:
		field, agg = x.Field, x.X
	case *ssa.UnOp:
		fa, ok := x.X.(*ssa.FieldAddr)
		if !ok || x.Op != token.MUL {
			return nil
		}
		field, agg = fa.Field, fa.X
	default:
		return nil
	}
	// down to the allocation
	var root *ssa.Alloc
	for i := 0; i < 6 && root == nil; i++ {
		switch y := agg.(type) {
		case *ssa.Index:
			agg = y.X
		case *ssa.IndexAddr:
			agg = y.X
		case *ssa.UnOp:
			agg = y.X
		case *ssa.Phi:
			return nil
		case *ssa.Alloc:
			root = y
		default:
			return nil
		}
	}
	if root == nil {
		return nil
	}
	var out []ssa.Value
	okAll := true
	var visit func(addr ssa.Value, depth int)
	visit = func(addr ssa.Value, depth int) {
		for _, r := range referrers(addr) {
			switch y := r.(type) {
			case *ssa.IndexAddr:
				if depth < 3 {
					visit(y, depth+1)
				}
			case *ssa.FieldAddr:
				if y.Field == field {
					for _, r2 := range referrers(y) {
						if st, ok := r2.(*ssa.Store); ok && st.Addr == ssa.Value(y) {
							out = append(out, st.Val)
						}
					}
				}
			case *ssa.UnOp, *ssa.DebugRef:
			case *ssa.Store:
				if y.Addr != addr {
					okAll = false // the table's address is stored somewhere
					continue
				}
				// a whole row copied in (the range variable of `for _, c := range table`): follow the
				// row back to the table it comes from
				src := y.Val
				var from *ssa.Alloc
				for i := 0; i < 5 && from == nil; i++ {
					switch z := src.(type) {
					case *ssa.Index:
						src = z.X
					case *ssa.IndexAddr:
						src = z.X
					case *ssa.UnOp:
						src = z.X
					case *ssa.Alloc:
						from = z
					default:
						i = 5
					}
				}
				if from == nil || from == root || depth >= 3 {
					okAll = false
					continue
				}
				visit(from, depth+1)
			default:
				okAll = false
			}
		}
	}
	visit(root, 0)
	if !okAll {
		return nil
	}
	return out
}

package main

// Rules added after seeding round 9.

import (
	"fmt"
	"go/ast"
	"go/constant"
	"go/token"
	"go/types"
	"strings"

	"golang.org/x/tools/go/ssa"
)

// checkClearOnlyOnRequest: the flag that makes the next pass wipe the terminal is raised only by Sync —
// the application's explicit request to repaint everything — or by a helper used by nothing else.  A
// wipe erases locked cells as well, and those are not repainted while locked.
func checkClearOnlyOnRequest(c *Ctx, p *Prog, rule, tname string) {
	owner := "tcell." + tname
	ok := map[string]bool{"Sync": true}
	n, bad := 0, ""
	for _, f := range p.modFns {
		if f.Pkg != p.Tcell {
			continue
		}
		for _, st := range storesTo(f, owner, "clear") {
			if v, isC := constBool(st.Val); isC && !v {
				continue
			}
			n++
			top := topFunc(f)
			if !(recvTypeName(top) == owner && ok[top.Name()]) && !calledOnlyFrom(p, top, ok, 2) {
				bad += fmt.Sprintf("%s raises it at %s; ", f.Name(), p.pos(st.Pos()))
			}
		}
	}
	c.Check(n > 0 && bad == "", rule, tname+".clear:raised-by-Sync-only", "-", fmt.Sprintf("%d store(s) raising the clear flag, all in Sync or helpers of Sync only %s", n, bad))
}

// storesFieldDeep: f, or a module function it calls statically (to the given depth), stores the field.
func storesFieldDeep(f *ssa.Function, owner, field string, depth int) bool {
	if f == nil || len(f.Blocks) == 0 {
		return false
	}
	if len(storesTo(f, owner, field)) > 0 {
		return true
	}
	if depth == 0 {
		return false
	}
	hit := false
	eachInstr(f, func(in ssa.Instruction) {
		if cc := callCommon(in); cc != nil && !hit {
			if h := cc.StaticCallee(); h != nil && h.Pkg == f.Pkg && h != f && storesFieldDeep(h, owner, field, depth-1) {
				hit = true
			}
		}
	})
	return hit
}

// checkCursorAlwaysRestated: every pass hides the cursor and states it again at the end (showCursor).
// A pass that is allowed to leave without doing so — beyond the screen not running — must decide that
// by comparing the request with a record of what the terminal was last told, and such a record is
// only worth anything if showCursor refreshes it on every way out, the hiding branch included: a
// record that still names the old cell after a hide makes "show it where it was" look like no change.
func checkCursorAlwaysRestated(c *Ctx, p *Prog, rule, tname string) {
	owner := "tcell." + tname
	draw := p.Fn("tcell:(*" + tname + ").draw")
	show := p.Fn("tcell:(*" + tname + ").showCursor")
	if draw == nil || show == nil {
		c.Undecided(rule, tname+".draw", "-", "draw or showCursor not found")
		return
	}
	isShow := func(in ssa.Instruction) bool {
		cc := callCommon(in)
		if cc == nil {
			return false
		}
		h := cc.StaticCallee()
		return h != nil && (h == show || (h.Pkg == p.Tcell && h != draw && reachesStatically(h, show, 2)))
	}
	nCalls := 0
	eachInstr(draw, func(in ssa.Instruction) {
		if isShow(in) {
			nCalls++
		}
	})
	if nCalls == 0 {
		c.Fail(rule, tname+".draw:cursor-restated", p.pos(draw.Pos()), "draw never reaches showCursor")
		return
	}
	// avoid(b): from the start of b a return is reachable without a showCursor call
	avoid := map[*ssa.BasicBlock]bool{}
	hasShow := map[*ssa.BasicBlock]bool{}
	for _, b := range draw.Blocks {
		for _, in := range b.Instrs {
			if isShow(in) {
				hasShow[b] = true
			}
		}
	}
	for changed := true; changed; {
		changed = false
		for _, b := range draw.Blocks {
			if avoid[b] || hasShow[b] || deadBlock(b) || len(b.Instrs) == 0 {
				continue
			}
			v := false
			if _, isRet := b.Instrs[len(b.Instrs)-1].(*ssa.Return); isRet {
				v = true
			}
			for _, s := range b.Succs {
				if avoid[s] {
					v = true
				}
			}
			if v {
				avoid[b] = true
				changed = true
			}
		}
	}
	nDec, bad := 0, ""
	fields := map[string]bool{}
	for _, b := range draw.Blocks {
		if len(b.Instrs) == 0 || hasShow[b] {
			continue
		}
		iff, isIf := b.Instrs[len(b.Instrs)-1].(*ssa.If)
		if !isIf || len(b.Succs) != 2 || avoid[b.Succs[0]] == avoid[b.Succs[1]] {
			continue
		}
		fs := screenFieldsInOf(iff.Cond, owner, 6)
		onlyRunning := len(fs) > 0
		for _, f := range fs {
			if f != "running" {
				onlyRunning = false
			}
		}
		if onlyRunning {
			continue
		}
		nDec++
		for _, f := range fs {
			fields[f] = true
		}
	}
	if nDec == 0 {
		c.OK(rule, tname+".draw:cursor-restated", p.pos(draw.Pos()), fmt.Sprintf("%d call(s) reaching showCursor; every way through a running pass goes through one", nCalls))
		return
	}
	nCache := 0
	for _, f := range sortedKeys(fields) {
		if !storesFieldDeep(show, owner, f, 2) {
			continue
		}
		nCache++
		// every way out of showCursor refreshes the record
		stop := map[ssa.Instruction]bool{}
		eachInstr(show, func(in ssa.Instruction) {
			if st, isSt := in.(*ssa.Store); isSt {
				if ref, _, ok := fieldAddrRef(st.Addr); ok && ref.Owner == owner && ref.Name == f {
					stop[in] = true
				}
			}
			if cc := callCommon(in); cc != nil {
				if h := cc.StaticCallee(); h != nil && h.Pkg == p.Tcell && h != show && storesFieldDeep(h, owner, f, 1) {
					stop[in] = true
				}
			}
		})
		for _, r := range returnsOf(show) {
			if existsPathFromEntryAvoiding(show, r, stop) {
				bad += fmt.Sprintf("draw decides by %s.%s whether the cursor is stated again, and showCursor can return at %s without refreshing it; ", tname, f, p.pos(r.Pos()))
			}
		}
	}
	if nCache == 0 {
		bad += fmt.Sprintf("%d branch(es) let a running pass end without showCursor, and none of what they test (%v) is a record showCursor keeps; ", nDec, sortedKeys(fields))
	}
	c.Check(bad == "", rule, tname+".draw:cursor-restated", p.pos(draw.Pos()), fmt.Sprintf("%d branch(es) let a pass skip the cursor, decided by record(s) that showCursor refreshes on every way out %s", nDec, bad))
}

// screenFieldsInOf: fields of the owner type read in the expression (not through phis).
func screenFieldsInOf(v ssa.Value, owner string, depth int) []string {
	var out []string
	var walk func(v ssa.Value, d int)
	walk = func(v ssa.Value, d int) {
		if d < 0 || v == nil {
			return
		}
		if ref, _, ok := loadedField(v); ok && ref.Owner == owner {
			out = append(out, ref.Name)
			return
		}
		if _, isPhi := v.(*ssa.Phi); isPhi {
			return
		}
		if in, ok := v.(ssa.Instruction); ok {
			for _, op := range in.Operands(nil) {
				if *op != nil {
					walk(*op, d-1)
				}
			}
		}
	}
	walk(v, depth)
	return out
}

// checkCoalescingChansBuffered: a channel that is only ever offered a value (select with default: "wake
// up, if you are not already about to") loses the wake-up whenever the receiver is busy, unless it has
// room to keep one.  Every channel field that some select offers to without blocking is made with a
// constant capacity of at least one.
func checkCoalescingChansBuffered(c *Ctx, p *Prog, rule, tname string) {
	owner := "tcell." + tname
	offered := map[string]string{}
	for _, f := range p.modFns {
		if f.Pkg != p.Tcell {
			continue
		}
		eachInstr(f, func(in ssa.Instruction) {
			sel, isSel := in.(*ssa.Select)
			if !isSel || sel.Blocking {
				return
			}
			for _, st := range sel.States {
				if st.Dir != types.SendOnly {
					continue
				}
				for _, src := range phiSourcesAll(st.Chan) {
					if ref, _, ok := loadedField(derefCell(src)); ok && ref.Owner == owner {
						offered[ref.Name] = p.pos(in.Pos())
					}
				}
			}
		})
	}
	n := 0
	for _, name := range sortedKeys(offered) {
		nMake, bad := 0, ""
		for _, f := range p.modFns {
			if f.Pkg != p.Tcell {
				continue
			}
			for _, st := range storesTo(f, owner, name) {
				mk, isMk := st.Val.(*ssa.MakeChan)
				if !isMk {
					if isNilConst(st.Val) {
						continue
					}
					bad += "stored from something other than make at " + p.pos(st.Pos()) + "; "
					continue
				}
				nMake++
				if k, isC := constInt(mk.Size); !isC || k < 1 {
					bad += "made without room for a pending value at " + p.pos(st.Pos()) + "; "
				}
			}
		}
		n++
		c.Check(nMake > 0 && bad == "", rule, tname+"."+name+":offered-without-blocking:has-room", offered[name], fmt.Sprintf("offered to by a select with default; %d make(s), each with capacity >= 1 %s", nMake, bad))
	}
	if n == 0 {
		c.Undecided(rule, tname+":non-blocking-sends", "-", "no select with default sends on a channel field")
	}
}

// checkBareEscOnlyForLoneEsc: the collect loop reports the Esc key itself only for an ESC that stands
// alone in the buffer; an ESC with bytes behind it is the Alt prefix of what follows, also when the
// scan runs because the wait expired.  On every way into the block that builds the Esc key event, the
// length of the buffered bytes is known to be one.
func checkBareEscOnlyForLoneEsc(c *Ctx, p *Prog, rule string) {
	var collect *ssa.Function
	for _, n := range []string{"tcell:(*tScreen).collectEventsFromInput"} {
		if f := p.Fn(n); f != nil {
			collect = f
		}
	}
	if collect == nil {
		c.Undecided(rule, "collectEventsFromInput", "-", "not found")
		return
	}
	lone := func(as []Atom) bool {
		for _, a := range as {
			if !strings.HasPrefix(a.L, "len(") && !strings.Contains(a.L, "Len(") {
				continue
			}
			if (a.Op == "==" && a.R == "1") || (a.Op == "<" && a.R == "2") || (a.Op == "<=" && a.R == "1") {
				return true
			}
		}
		return false
	}
	n := 0
	for _, d := range deepInstrs(p, collect, 1, nil) {
		cc := callCommon(d.in)
		if cc == nil || !strings.HasSuffix(calleeName(cc), ".NewEventKey") || len(cc.Args) < 1 {
			continue
		}
		if k, isC := constInt(cc.Args[0]); !isC || k != 27 {
			continue
		}
		n++
		b := d.in.Block()
		ok, detail := lone(d.guards()), ""
		if !ok && len(b.Preds) > 0 {
			ok = true
			for _, pr := range b.Preds {
				if !lone(guardsOnEdge(pr, b)) {
					ok = false
					detail += fmt.Sprintf("entered from %s without the buffer being known to hold one byte; ", p.pos(firstPos(pr)))
				}
			}
		}
		if !ok {
			detail += fmt.Sprintf("known there: %v", d.guards())
		}
		c.Check(ok, rule, fmt.Sprintf("%s:Esc-key#%d:only-for-a-lone-ESC", d.in.Parent().Name(), n), p.pos(d.in.Pos()), "the Esc key event is built only where len(buffer) == 1 "+detail)
	}
	if n == 0 {
		c.Undecided(rule, "collectEventsFromInput:Esc-key", p.pos(collect.Pos()), "no NewEventKey(KeyEsc, …) found")
	}
}

// checkCursorStyleTablesHaveDefault: the hand-back resets the cursor shape with
// cursorStyles[CursorStyleDefault]; a table without that entry yields "" and the application's shape
// stays on the terminal.  Every table stored into the field has the key, whether it is written as a
// literal or filled by a loop (whose first key is then followed back to its constant start).
func checkCursorStyleTablesHaveDefault(c *Ctx, p *Prog, rule string) {
	owner := "tcell.tScreen"
	n := 0
	for _, f := range p.modFns {
		if f.Pkg != p.Tcell {
			continue
		}
		for _, st := range storesTo(f, owner, "cursorStyles") {
			if isNilConst(st.Val) {
				continue
			}
			mk, isMk := st.Val.(*ssa.MakeMap)
			if !isMk {
				c.Undecided(rule, fmt.Sprintf("%s:cursor-style-table#%d", f.Name(), n+1), p.pos(st.Pos()), "the table is not made here")
				n++
				continue
			}
			n++
			keys := map[int64]bool{}
			open := ""
			add := func(upd *ssa.MapUpdate) {
				for _, src := range phiSourcesAll(upd.Key) {
					if _, isPhi := src.(*ssa.Phi); isPhi {
						continue
					}
					if k, isC := constInt(stripConv(src)); isC {
						keys[k] = true
					} else if bo, isBO := src.(*ssa.BinOp); isBO && bo.Op == token.ADD {
						// the step of a counting loop: the start decides
					} else {
						open = "a key that is not a constant at " + p.pos(upd.Pos())
					}
				}
			}
			for _, g := range p.modFns {
				if topFunc(g) != topFunc(f) {
					continue
				}
				eachInstr(g, func(in ssa.Instruction) {
					upd, isU := in.(*ssa.MapUpdate)
					if !isU {
						return
					}
					if upd.Map == ssa.Value(mk) {
						add(upd)
						return
					}
					if ref, _, ok := loadedField(upd.Map); ok && ref.Owner == owner && ref.Name == "cursorStyles" && instrDominatesOrSameFn(st, in) {
						add(upd)
					}
				})
			}
			if open != "" && !keys[0] {
				c.Undecided(rule, fmt.Sprintf("%s:cursor-style-table#%d:has-default", f.Name(), n), p.pos(st.Pos()), open)
				continue
			}
			c.Check(keys[0], rule, fmt.Sprintf("%s:cursor-style-table#%d:has-default", f.Name(), n), p.pos(st.Pos()), fmt.Sprintf("keys written: %v (0 is CursorStyleDefault, the one the hand-back emits)", sortedInts(keys)))
		}
	}
	if n == 0 {
		c.Undecided(rule, "cursorStyles", "-", "no table is stored")
	}
}

func instrDominatesOrSameFn(a, b ssa.Instruction) bool {
	if a.Parent() != b.Parent() {
		return false
	}
	return instrDominates(a, b)
}

func sortedInts(m map[int64]bool) []int64 {
	var out []int64
	for k := range m {
		out = append(out, k)
	}
	for i := range out {
		for j := i + 1; j < len(out); j++ {
			if out[j] < out[i] {
				out[i], out[j] = out[j], out[i]
			}
		}
	}
	return out
}

// checkStopBeforeDrain: the reader is told to stop before it is woken.  Drain makes the blocked Read
// return; a reader that comes back empty-handed looks at the stop channel and, finding it open, reads
// again — after which nothing wakes it and the wait for it never ends.  Every Drain on the screen's tty
// is dominated by the close of the stop channel (in the same function, or at each call of the helper).
func checkStopBeforeDrain(c *Ctx, p *Prog, rule, tname string) {
	owner := "tcell." + tname
	isCloseStop := func(in ssa.Instruction) bool {
		cc := callCommon(in)
		if cc == nil {
			return false
		}
		b, isB := cc.Value.(*ssa.Builtin)
		if !isB || b.Name() != "close" || len(cc.Args) != 1 {
			return false
		}
		for _, src := range phiSourcesAll(cc.Args[0]) {
			if ref, _, ok := loadedField(derefCell(src)); ok && ref.Owner == owner && ref.Name == "stopQ" {
				return true
			}
		}
		return false
	}
	var closedBefore func(in ssa.Instruction, depth int) bool
	closedBefore = func(in ssa.Instruction, depth int) bool {
		f := in.Parent()
		hit := false
		eachInstr(f, func(x ssa.Instruction) {
			if isCloseStop(x) && instrDominates(x, in) {
				hit = true
			}
		})
		if hit || depth == 0 {
			return hit
		}
		// a helper: every call of it comes after the close
		uses, all := 0, true
		for _, g := range p.modFns {
			if g.Pkg != f.Pkg {
				continue
			}
			eachInstr(g, func(x ssa.Instruction) {
				if cc := callCommon(x); cc != nil && cc.StaticCallee() == f {
					uses++
					if !closedBefore(x, depth-1) {
						all = false
					}
				}
			})
		}
		return uses > 0 && all
	}
	n := 0
	for _, f := range p.modFns {
		if f.Pkg != p.Tcell || recvTypeName(topFunc(f)) != owner {
			continue
		}
		eachInstr(f, func(in ssa.Instruction) {
			cc := callCommon(in)
			if cc == nil || !cc.IsInvoke() || cc.Method.Name() != "Drain" {
				return
			}
			if ref, _, ok := loadedField(cc.Value); !ok || ref.Owner != owner {
				return
			}
			n++
			c.Check(closedBefore(in, 1), rule, fmt.Sprintf("%s.%s:Drain#%d:after-the-stop-signal", tname, f.Name(), n), p.pos(in.Pos()), "close(stopQ) dominates the Drain that wakes the reader")
		})
	}
	if n == 0 {
		c.Undecided(rule, tname+":Drain", "-", "no Drain on the tty found")
	}
}

// checkOutputBehindSkipGate: nothing of a conditional part that is being skipped is copied to the
// output, %% included.  Every output of the interpreter's loop — a call in an output role, or a call of
// a helper that makes one — is in a block where the skipping mode is known to be "emit".
func checkOutputBehindSkipGate(c *Ctx, p *Prog, rule string) {
	fn := p.Fn("terminfo:(*Terminfo).TParm")
	if fn == nil {
		c.Undecided(rule, "TParm", "-", "not found")
		return
	}
	var skip *ssa.Phi
	for _, b := range fn.Blocks {
		for _, in := range b.Instrs {
			if phi, ok := in.(*ssa.Phi); ok && phi.Comment == "skip" {
				if skip == nil || len(phi.Edges) > len(skip.Edges) {
					skip = phi
				}
			}
		}
	}
	if skip == nil {
		c.Undecided(rule, "TParm:skip-mode", p.pos(fn.Pos()), "mode variable not found")
		return
	}
	loops := loopsOf(fn)
	inLoop := func(b *ssa.BasicBlock) bool {
		for _, body := range loops {
			if body[b] {
				return true
			}
		}
		return false
	}
	var outputs func(h *ssa.Function, depth int) bool
	outputs = func(h *ssa.Function, depth int) bool {
		if h == nil || len(h.Blocks) == 0 || h.Pkg != p.Terminfo {
			return false
		}
		hit := false
		eachInstr(h, func(in ssa.Instruction) {
			cc := callCommon(in)
			if cc == nil || hit {
				return
			}
			if _, ok := p.outputByteArg(cc); ok {
				hit = true
			} else if _, ok := p.outputStringArg(cc); ok {
				hit = true
			} else if depth > 0 && outputs(cc.StaticCallee(), depth-1) {
				hit = true
			}
		})
		return hit
	}
	n, bad := 0, ""
	eachInstr(fn, func(in ssa.Instruction) {
		cc := callCommon(in)
		if cc == nil || !inLoop(in.Block()) {
			return
		}
		_, isB := p.outputByteArg(cc)
		_, isS := p.outputStringArg(cc)
		if !isB && !isS {
			h := cc.StaticCallee()
			if h == nil || !outputs(h, 1) || p.isInputRead(cc) {
				return
			}
		}
		n++
		emitting := false
		for _, a := range guardsAt(in.Block()) {
			if a.L == "skip" && ((a.Op == "==" && a.R == "0") || (a.Op == "==" && a.R == "emit")) {
				emitting = true
			}
		}
		if !emitting {
			bad += "the output at " + p.pos(in.Pos()) + " is not behind the test of the skipping mode; "
		}
	})
	c.Check(n >= 3 && bad == "", rule, "TParm:outputs-behind-the-skip-gate", p.pos(fn.Pos()), fmt.Sprintf("%d output(s) in the loop, each where skip == emit is known %s", n, bad))
}

// checkSynthTruecolorGuard: the standard 24-bit strings are supplied whenever direct colour was asked
// for (suffix, COLORTERM, TCELL_TRUECOLOR) and the entry has none of its own: the block that stores them
// depends on the request and on the entry's three RGB strings, on nothing else the entry holds (a
// monochrome entry looked up as NAME-truecolor gets them like any other).
func checkSynthTruecolorGuard(c *Ctx, p *Prog, rule string) {
	fn := p.Fn("terminfo:LookupTerminfo")
	if fn == nil {
		c.Undecided(rule, "LookupTerminfo", "-", "not found")
		return
	}
	allowed := map[string]bool{"SetFgBgRGB": true, "SetFgRGB": true, "SetBgRGB": true, "TrueColor": true}
	var readsEntry func(v ssa.Value, d int) string
	readsEntry = func(v ssa.Value, d int) string {
		if d < 0 || v == nil {
			return ""
		}
		if ref, _, ok := loadedField(v); ok && ref.Owner == "terminfo.Terminfo" {
			if allowed[ref.Name] {
				return ""
			}
			return ref.Name
		}
		if _, isPhi := v.(*ssa.Phi); isPhi {
			return ""
		}
		if call, isCall := v.(*ssa.Call); isCall && d > 0 {
			if h := call.Call.StaticCallee(); h != nil && h.Pkg == p.Terminfo && len(h.Blocks) > 0 {
				found := ""
				eachInstr(h, func(in ssa.Instruction) {
					for _, op := range in.Operands(nil) {
						if *op != nil && found == "" {
							if ref, _, ok := loadedField(*op); ok && ref.Owner == "terminfo.Terminfo" && !allowed[ref.Name] {
								found = ref.Name + " (in " + h.Name() + ")"
							}
						}
					}
				})
				if found != "" {
					return found
				}
			}
		}
		if in, ok := v.(ssa.Instruction); ok {
			for _, op := range in.Operands(nil) {
				if *op != nil {
					if s := readsEntry(*op, d-1); s != "" {
						return s
					}
				}
			}
		}
		return ""
	}
	type site struct {
		st     *ssa.Store
		guards []rawGuard
	}
	var sites []site
	for _, st := range storesTo(fn, "terminfo.Terminfo", "SetFgRGB") {
		sites = append(sites, site{st, rawGuardsAt(st.Block())})
	}
	eachInstr(fn, func(in ssa.Instruction) {
		cc := callCommon(in)
		if cc == nil {
			return
		}
		h := cc.StaticCallee()
		if h == nil || h == fn || h.Pkg != p.Terminfo || len(h.Blocks) == 0 {
			return
		}
		for _, st := range storesTo(h, "terminfo.Terminfo", "SetFgRGB") {
			sites = append(sites, site{st, append(append([]rawGuard{}, rawGuardsAt(st.Block())...), rawGuardsAt(in.Block())...)})
		}
	})
	n := 0
	for _, s := range sites {
		if str, ok := constString(s.st.Val); !ok || !strings.Contains(str, "38;2;") {
			continue
		}
		n++
		bad := ""
		for _, g := range s.guards {
			if f := readsEntry(g.Cond, 4); f != "" {
				bad += "depends on the entry's " + f + "; "
			}
		}
		c.Check(bad == "", rule, fmt.Sprintf("LookupTerminfo:direct-colour-synthesis#%d", n), p.pos(s.st.Pos()), "the standard 24-bit strings are supplied whenever direct colour was requested and the entry has no RGB strings of its own "+bad)
	}
	if n == 0 {
		c.Undecided(rule, "LookupTerminfo:direct-colour-synthesis", p.pos(fn.Pos()), "no store of the standard SetFgRGB string found")
	}
}

// checkAcsMapUnconditional: the alternate-character-set table is filled from the description's acsc
// string whatever the locale's character set is: which runes the charset lacks is decided cell by cell
// when drawing, not wholesale when the table is built.  No test on the way to a store into the table
// calls a function of the screen or reads one of its fields (other than the description and the table).
func checkAcsMapUnconditional(c *Ctx, p *Prog, rule string) {
	owner := "tcell.tScreen"
	var dependsOn func(v ssa.Value, d int) string
	dependsOn = func(v ssa.Value, d int) string {
		if d < 0 || v == nil {
			return ""
		}
		if ref, _, ok := loadedField(v); ok && ref.Owner == owner {
			if ref.Name == "ti" || ref.Name == "acs" {
				return ""
			}
			return "the screen's " + ref.Name
		}
		if _, isPhi := v.(*ssa.Phi); isPhi {
			return ""
		}
		if call, isCall := v.(*ssa.Call); isCall {
			if h := call.Call.StaticCallee(); h != nil && h.Pkg == p.Tcell && recvTypeName(h) == owner {
				return "a call of " + h.Name()
			}
			if call.Call.IsInvoke() {
				return "a call of " + call.Call.Method.Name()
			}
		}
		if in, ok := v.(ssa.Instruction); ok {
			for _, op := range in.Operands(nil) {
				if *op != nil {
					if s := dependsOn(*op, d-1); s != "" {
						return s
					}
				}
			}
		}
		return ""
	}
	n, bad := 0, ""
	var builders []*ssa.Function
	for _, f := range p.modFns {
		if f.Pkg != p.Tcell || recvTypeName(topFunc(f)) != owner {
			continue
		}
		var mk ssa.Value
		for _, st := range storesTo(f, owner, "acs") {
			mk = st.Val
		}
		eachInstr(f, func(in ssa.Instruction) {
			upd, isU := in.(*ssa.MapUpdate)
			if !isU {
				return
			}
			isAcs := mk != nil && upd.Map == mk
			if ref, _, ok := loadedField(upd.Map); ok && ref.Owner == owner && ref.Name == "acs" {
				isAcs = true
			}
			if !isAcs {
				return
			}
			n++
			builders = append(builders, topFunc(f))
			for _, g := range rawGuardsAt(in.Block()) {
				if s := dependsOn(g.Cond, 5); s != "" {
					bad += fmt.Sprintf("the store at %s depends on %s; ", p.pos(in.Pos()), s)
				}
			}
		})
	}
	// and the calls of the builder do not depend on the character set either
	for _, bf := range builders {
		for _, g := range p.modFns {
			if g.Pkg != p.Tcell {
				continue
			}
			eachInstr(g, func(in ssa.Instruction) {
				if cc := callCommon(in); cc != nil && cc.StaticCallee() == bf {
					for _, gd := range rawGuardsAt(in.Block()) {
						for _, f := range screenFieldsInOf(gd.Cond, owner, 4) {
							if f == "encoder" || f == "decoder" || f == "charset" {
								bad += fmt.Sprintf("the call at %s depends on the screen's %s; ", p.pos(in.Pos()), f)
							}
						}
					}
				}
			})
		}
	}
	c.Check(n > 0 && bad == "", rule, "tScreen.acs:filled-whatever-the-charset", "-", fmt.Sprintf("%d store(s) into the table, each decided by the acsc string alone %s", n, bad))
}

// checkModeSettersAlwaysRemember: Enable…/Disable… record what the application asked for on every path,
// also while the screen is suspended: Resume re-applies what is recorded.  No return of a setter is
// reachable without passing the store of its field.
func checkModeSettersAlwaysRemember(c *Ctx, p *Prog, rule, tname string, setters map[string]string) {
	owner := "tcell." + tname
	n := 0
	for _, name := range sortedKeys(setters) {
		field := setters[name]
		fn := p.Fn("tcell:(*" + tname + ")." + name)
		if fn == nil {
			continue
		}
		n++
		// the field by name; where the screen keeps the request differently (a bit set behind a helper),
		// whatever field of the screen the setter or a helper it calls stores
		exists := false
		for _, g := range p.modFns {
			if g.Pkg == p.Tcell && len(storesTo(g, owner, field)) > 0 {
				exists = true
			}
		}
		storesAny := func(h *ssa.Function) bool {
			hit := false
			eachInstr(h, func(in ssa.Instruction) {
				if st, isSt := in.(*ssa.Store); isSt {
					if ref, _, ok := fieldAddrRef(st.Addr); ok && ref.Owner == owner {
						hit = true
					}
				}
			})
			return hit
		}
		stop := map[ssa.Instruction]bool{}
		eachInstr(fn, func(in ssa.Instruction) {
			if st, isSt := in.(*ssa.Store); isSt {
				if ref, _, ok := fieldAddrRef(st.Addr); ok && ref.Owner == owner && (ref.Name == field || !exists) {
					stop[in] = true
				}
			}
			if cc := callCommon(in); cc != nil {
				if _, isDefer := in.(*ssa.Defer); isDefer {
					return
				}
				if h := cc.StaticCallee(); h != nil && h.Pkg == p.Tcell && h != fn && len(h.Blocks) > 0 {
					if (exists && storesFieldDeep(h, owner, field, 1)) || (!exists && storesAny(h)) {
						stop[in] = true
					}
				}
			}
		})
		bad := ""
		if len(stop) == 0 {
			bad = "the field is not stored at all; "
		}
		for _, r := range returnsOf(fn) {
			if existsPathFromEntryAvoiding(fn, r, stop) {
				bad += fmt.Sprintf("the return at %s is reached without recording the request (guards: %v); ", p.pos(r.Pos()), guardsAt(r.Block()))
			}
		}
		c.Check(bad == "", rule, tname+"."+name+":records-"+field+"-on-every-path", p.pos(fn.Pos()), "every return follows the store of "+tname+"."+field+" "+bad)
	}
	if n == 0 {
		c.Undecided(rule, tname+":mode-setters", "-", "none found")
	}
}

// checkSetterStoresParams: ViewPort.SetContentSize records all it is given — limits and the locked flag
// — on every path; a return before the stores is only acceptable where each parameter is known to equal
// the field it would be stored into.
func checkSetterStoresParams(c *Ctx, p *Prog, rule, fname, owner string) {
	fn := p.Fn(fname)
	if fn == nil {
		c.Undecided(rule, fname, "-", "not found")
		return
	}
	n := 0
	for i, par := range fn.Params {
		if i == 0 {
			continue
		}
		var stores []*ssa.Store
		field := ""
		eachInstr(fn, func(in ssa.Instruction) {
			if st, isSt := in.(*ssa.Store); isSt && stripConv(st.Val) == ssa.Value(par) {
				if ref, _, ok := fieldAddrRef(st.Addr); ok && ref.Owner == owner {
					stores = append(stores, st)
					field = ref.Name
				}
			}
		})
		n++
		key := fmt.Sprintf("%s:parameter-%s:stored-on-every-path", fn.Name(), par.Name())
		if len(stores) == 0 {
			c.Fail(rule, key, p.pos(fn.Pos()), "the parameter is not stored into a field of "+owner)
			continue
		}
		stop := map[ssa.Instruction]bool{}
		for _, st := range stores {
			stop[st] = true
		}
		bad := ""
		for _, r := range returnsOf(fn) {
			if !existsPathFromEntryAvoiding(fn, r, stop) {
				continue
			}
			same := false
			for _, a := range guardsAt(r.Block()) {
				if a.Op != "==" {
					continue
				}
				l, rr := a.L, a.R
				if (l == par.Name() && strings.HasSuffix(rr, "."+field)) || (rr == par.Name() && strings.HasSuffix(l, "."+field)) {
					same = true
				}
			}
			if !same {
				bad += fmt.Sprintf("the return at %s leaves %s unrecorded without knowing it equal to the stored .%s; ", p.pos(r.Pos()), par.Name(), field)
			}
		}
		c.Check(bad == "", rule, key, p.pos(fn.Pos()), "stored into ."+field+" before every return "+bad)
	}
	if n == 0 {
		c.Undecided(rule, fn.Name()+":parameters", p.pos(fn.Pos()), "no parameters")
	}
}

// checkPadDerivesFromFill: the surplus a BoxLayout hands a cell is in proportion to the cell's fill
// factor: every value stored into a cell's pad is zero, the pad plus or minus one (the leftover cells),
// or computed from that cell's fill factor (following the frac field through its stores) — or it is
// stored under a test that compares fill factors for equality (an even split where all are equal).  A
// share computed from the number of expanding cells alone ignores the proportions.
func checkPadDerivesFromFill(c *Ctx, p *Prog, rule string) {
	views := p.Views
	if views == nil {
		c.Undecided(rule, "package views", "-", "not loaded")
		return
	}
	// the roles, from the types: the cell is the struct behind BoxLayout's slice of cells (the one with a
	// widget in it); its share of the surplus is its int field, its fill factor the float field that a
	// method stores from a parameter
	owner, padF, fillF := "", map[string]bool{}, ""
	if bl := p.namedType(views, "BoxLayout"); bl != nil {
		if st, ok := bl.Underlying().(*types.Struct); ok {
			for i := 0; i < st.NumFields(); i++ {
				sl, isSl := st.Field(i).Type().Underlying().(*types.Slice)
				if !isSl {
					continue
				}
				el := sl.Elem()
				if pt, isP := el.(*types.Pointer); isP {
					el = pt.Elem()
				}
				nm, isN := el.(*types.Named)
				if !isN {
					continue
				}
				cs, isS := nm.Underlying().(*types.Struct)
				if !isS {
					continue
				}
				owner = typeName(nm)
				for j := 0; j < cs.NumFields(); j++ {
					if bt, isB := cs.Field(j).Type().Underlying().(*types.Basic); isB && bt.Info()&types.IsInteger != 0 {
						padF[cs.Field(j).Name()] = true
					}
				}
			}
		}
	}
	for _, f := range p.modFns {
		if f.Pkg != views {
			continue
		}
		eachInstr(f, func(in ssa.Instruction) {
			if st, isSt := in.(*ssa.Store); isSt {
				if ref, _, ok := fieldAddrRef(st.Addr); ok && ref.Owner == owner {
					if _, isPar := stripConv(st.Val).(*ssa.Parameter); isPar {
						if bt, isB := st.Val.Type().Underlying().(*types.Basic); isB && bt.Info()&types.IsFloat != 0 {
							fillF = ref.Name
						}
					}
				}
			}
		})
	}
	if owner == "" || len(padF) == 0 || fillF == "" {
		c.Undecided(rule, "BoxLayout:cell-roles", "-", fmt.Sprintf("cell type %q, share field(s) %v, fill field %q", owner, sortedKeys(padF), fillF))
		return
	}
	n := 0
	for _, f := range p.modFns {
		if f.Pkg != views {
			continue
		}
		isFillLoad := func(v ssa.Value) bool {
			ref, _, ok := loadedField(stripConv(v))
			return ok && ref.Owner == owner && ref.Name == fillF
		}
		var derives func(v ssa.Value, seen map[ssa.Value]bool) bool
		derives = func(v ssa.Value, seen map[ssa.Value]bool) bool {
			if v == nil || seen[v] {
				return false
			}
			seen[v] = true
			if isFillLoad(v) {
				return true
			}
			if ref, _, ok := loadedField(v); ok && ref.Owner == owner {
				if padF[ref.Name] {
					return false
				}
				for _, g := range p.modFns {
					if g.Pkg != views {
						continue
					}
					for _, st := range storesTo(g, owner, ref.Name) {
						if derives(st.Val, seen) {
							return true
						}
					}
				}
				return false
			}
			switch x := v.(type) {
			case *ssa.BinOp:
				return derives(x.X, seen) || derives(x.Y, seen)
			case *ssa.UnOp:
				if x.Op == token.MUL {
					return false
				}
				return derives(x.X, seen)
			case *ssa.Convert:
				return derives(x.X, seen)
			case *ssa.ChangeType:
				return derives(x.X, seen)
			case *ssa.Phi:
				for _, e := range x.Edges {
					if derives(e, seen) {
						return true
					}
				}
			}
			return false
		}
		var comparesFills func(v ssa.Value, seen map[ssa.Value]bool) bool
		comparesFills = func(v ssa.Value, seen map[ssa.Value]bool) bool {
			if v == nil || seen[v] {
				return false
			}
			seen[v] = true
			switch x := v.(type) {
			case *ssa.BinOp:
				if (x.Op == token.EQL || x.Op == token.NEQ) && (isFillLoad(x.X) || isFillLoad(x.Y)) {
					_, cx := x.X.(*ssa.Const)
					_, cy := x.Y.(*ssa.Const)
					if z, isC := constFloatOrInt(x.X); cx && isC && z == 0 {
						return false
					}
					if z, isC := constFloatOrInt(x.Y); cy && isC && z == 0 {
						return false
					}
					return true
				}
				return comparesFills(x.X, seen) || comparesFills(x.Y, seen)
			case *ssa.UnOp:
				if x.Op == token.MUL {
					if al, isAl := x.X.(*ssa.Alloc); isAl {
						for _, r := range referrers(al) {
							if st, isSt := r.(*ssa.Store); isSt && comparesFills(st.Val, seen) {
								return true
							}
						}
					}
					return false
				}
				return comparesFills(x.X, seen)
			case *ssa.Phi:
				for i, e := range x.Edges {
					if comparesFills(e, seen) {
						return true
					}
					// a flag set under such a test
					if i < len(x.Block().Preds) {
						for _, g := range rawGuardsAt(x.Block().Preds[i]) {
							if comparesFills(g.Cond, seen) {
								return true
							}
						}
					}
				}
			}
			return false
		}
		var padStores []*ssa.Store
		for _, pf := range sortedKeys(padF) {
			padStores = append(padStores, storesTo(f, owner, pf)...)
		}
		for _, st := range padStores {
			n++
			key := fmt.Sprintf("%s:pad-store#%d", f.Name(), n)
			if k, isC := constInt(st.Val); isC && k == 0 {
				c.Trivial(rule, key, p.pos(st.Pos()), "reset to zero")
				continue
			}
			if bo, isBO := st.Val.(*ssa.BinOp); isBO && (bo.Op == token.ADD || bo.Op == token.SUB) {
				if k, isC := constInt(bo.Y); isC && k == 1 {
					if ref, _, ok := loadedField(bo.X); ok && ref.Owner == owner && padF[ref.Name] {
						c.OK(rule, key, p.pos(st.Pos()), "one leftover cell more or less")
						continue
					}
				}
			}
			if derives(st.Val, map[ssa.Value]bool{}) {
				c.OK(rule, key, p.pos(st.Pos()), "computed from the cell's fill factor")
				continue
			}
			even := false
			for _, g := range rawGuardsAt(st.Block()) {
				if comparesFills(g.Cond, map[ssa.Value]bool{}) {
					even = true
				}
			}
			if even {
				c.OK(rule, key, p.pos(st.Pos()), "an even share, stored under a test that compares the fill factors for equality")
			} else {
				c.Fail(rule, key, p.pos(st.Pos()), "the share is not computed from the cell's fill factor, nor stored under a test that the fill factors are equal")
			}
		}
	}
	if n == 0 {
		c.Undecided(rule, "BoxLayout:pad", "-", "no store to a cell's pad found")
	}
}

func constFloatOrInt(v ssa.Value) (float64, bool) {
	k, ok := v.(*ssa.Const)
	if !ok || k.Value == nil {
		return 0, false
	}
	if i, isI := constInt(v); isI {
		return float64(i), true
	}
	s := k.Value.ExactString()
	if s == "0" {
		return 0, true
	}
	var f float64
	if _, err := fmt.Sscanf(k.Value.String(), "%g", &f); err == nil {
		return f, true
	}
	return 0, false
}

// checkCapabilitiesThroughStripper: a capability string reaches the terminal (or the frame buffer)
// through terminfo's TPuts, which is what removes the $<n> padding markers: in the screen's TPuts the
// string parameter is handed to nothing else that writes.
func checkCapabilitiesThroughStripper(c *Ctx, p *Prog, rule string) {
	fn := p.Fn("tcell:(*tScreen).TPuts")
	if fn == nil || len(fn.Params) != 2 {
		c.Undecided(rule, "tScreen.TPuts", "-", "not found")
		return
	}
	s := fn.Params[1]
	n, bad := 0, ""
	var follow func(v ssa.Value, seen map[ssa.Value]bool)
	follow = func(v ssa.Value, seen map[ssa.Value]bool) {
		if seen[v] {
			return
		}
		seen[v] = true
		for _, r := range referrers(v) {
			switch x := r.(type) {
			case *ssa.DebugRef:
			case *ssa.BinOp:
				if x.Op == token.ADD {
					follow(x, seen)
				}
			case *ssa.Phi:
				follow(x, seen)
			case *ssa.Convert:
				follow(x, seen)
			case *ssa.ChangeType:
				follow(x, seen)
			case *ssa.MakeInterface:
				follow(x, seen)
			case *ssa.Slice:
				follow(x, seen)
			case *ssa.Lookup, *ssa.Index:
			case ssa.CallInstruction:
				cc := x.Common()
				name := calleeName(cc)
				if b, isB := cc.Value.(*ssa.Builtin); isB && b.Name() == "len" {
					continue
				}
				if strings.HasSuffix(name, "terminfo.Terminfo).TPuts") {
					n++
					continue
				}
				bad += fmt.Sprintf("handed to %s at %s; ", name, p.pos(r.Pos()))
			case *ssa.Store:
				bad += "stored at " + p.pos(r.Pos()) + "; "
			}
		}
	}
	follow(s, map[ssa.Value]bool{})
	c.Check(n > 0 && bad == "", rule, "tScreen.TPuts:through-the-padding-stripper", p.pos(fn.Pos()), fmt.Sprintf("%d use(s) of the string, each a call of Terminfo.TPuts %s", n, bad))
}

// checkWebCtrlNameFolding: Ctrl plus a letter is looked up in WebKeyNames as "Ctrl-" plus the key name
// in lower case (the page reports "Z" with Shift or CapsLock).  The folded part is strings.ToLower of
// the name, or a helper of the module that is decided by constant evaluation (T18, strings): for every
// one-character ASCII name and a sample of named keys, the helper's answer selects the same "Ctrl-…"
// entry of the table as the lower-cased name does (or none, where that selects none).
func checkWebCtrlNameFolding(c *Ctx, p *Prog, rule string) {
	fn := p.Fn("tcell:(*wScreen).onKeyEvent")
	if fn == nil {
		c.Undecided(rule, "(*wScreen).onKeyEvent", "-", "not found")
		return
	}
	pk := p.pkg("")
	suffixes := map[string]bool{}
	if obj := pk.Types.Scope().Lookup("WebKeyNames"); obj != nil {
		if cl, ok := findVarDecl(pk, obj).(*ast.CompositeLit); ok {
			for _, el := range cl.Elts {
				if kv, isKV := el.(*ast.KeyValueExpr); isKV {
					if tv, ok := pk.TypesInfo.Types[kv.Key]; ok && tv.Value != nil && tv.Value.Kind() == constant.String {
						if k := constant.StringVal(tv.Value); strings.HasPrefix(k, "Ctrl-") {
							suffixes[strings.TrimPrefix(k, "Ctrl-")] = true
						}
					}
				}
			}
		}
	}
	if len(suffixes) < 26 {
		c.Undecided(rule, "WebKeyNames", "-", fmt.Sprintf("only %d Ctrl- names read from the table", len(suffixes)))
		return
	}
	n := 0
	for _, d := range deepInstrs(p, fn, 1, nil) {
		lk, ok := d.in.(*ssa.Lookup)
		if !ok {
			continue
		}
		ld, ok := lk.X.(*ssa.UnOp)
		if !ok {
			continue
		}
		if g, ok := ld.X.(*ssa.Global); !ok || g.Name() != "WebKeyNames" {
			continue
		}
		bo, ok := d.bindVal(lk.Index).(*ssa.BinOp)
		if !ok || bo.Op != token.ADD {
			continue
		}
		if pre, isC := constString(bo.X); !isC || pre != "Ctrl-" {
			continue
		}
		n++
		key := fmt.Sprintf("onKeyEvent:Ctrl-name#%d:folded-to-lower-case", n)
		call, isCall := bo.Y.(*ssa.Call)
		if !isCall {
			c.Fail(rule, key, p.pos(lk.Pos()), "the key name is used as the page reports it ("+valName(bo.Y)+"): with Shift or CapsLock the letter is a capital and no Ctrl- name matches")
			continue
		}
		if strings.HasSuffix(calleeName(&call.Call), "strings.ToLower") {
			c.OK(rule, key, p.pos(lk.Pos()), "strings.ToLower of the key name")
			continue
		}
		h := call.Call.StaticCallee()
		if h == nil || h.Pkg != p.Tcell || len(h.Params) != 1 || len(h.Blocks) == 0 {
			c.Undecided(rule, key, p.pos(lk.Pos()), "the name is folded by "+calleeName(&call.Call)+", which is not followed")
			continue
		}
		var domain []string
		for b := 0x20; b < 0x7f; b++ {
			domain = append(domain, string(rune(b)))
		}
		domain = append(domain, "Enter", "Tab", "Backspace", "Escape", "ArrowUp", "F1", "Delete", "")
		bad := ""
		for _, k := range domain {
			ce := &constEval{pk: pk, globals: map[*ssa.Global]*cv{}, strings: true}
			rets, err := ce.call(p, h, map[*ssa.Parameter]*cv{h.Params[0]: cvS(k)})
			if err != nil || len(rets) != 1 || rets[0].kind != cvStr {
				c.Undecided(rule, key, p.pos(lk.Pos()), fmt.Sprintf("%s(%q) is not decided by constant evaluation: %v", h.Name(), k, err))
				bad = "-"
				break
			}
			want, got := strings.ToLower(k), rets[0].s
			if (suffixes[want] && got != want) || (!suffixes[want] && suffixes[got]) {
				bad += fmt.Sprintf("%s(%q) = %q selects Ctrl-%s where the lower-cased name selects Ctrl-%s; ", h.Name(), k, got, got, want)
				if len(bad) > 300 {
					break
				}
			}
		}
		if bad == "-" {
			continue
		}
		c.Check(bad == "", rule, key, p.pos(lk.Pos()), fmt.Sprintf("%s decided for %d key names: selects the table entry the lower-cased name selects %s", h.Name(), len(domain), bad))
	}
	if n == 0 {
		c.Undecided(rule, "onKeyEvent:Ctrl-name", p.pos(fn.Pos()), "no lookup of \"Ctrl-\"+name in WebKeyNames found")
	}
}

// checkCapabilityRewrites: the screen sends the description's strings as they are.  Where a function of
// package tcell stores into a string field of a Terminfo, what it stores is a constant that tokenises as
// complete control sequences, or the result of a helper applied to a field of the description, decided
// by constant evaluation (T18, strings) for every value that field has in the database: each result
// tokenises completely (no dangling ESC or unterminated CSI in front of whatever is written next).
func checkCapabilityRewrites(c *Ctx, p *Prog, rule string, db *dbModel) {
	nStr, nOther := 0, 0
	for _, f := range p.modFns {
		if f.Pkg != p.Tcell {
			continue
		}
		eachInstr(f, func(in ssa.Instruction) {
			st, isSt := in.(*ssa.Store)
			if !isSt {
				return
			}
			ref, _, ok := fieldAddrRef(st.Addr)
			if !ok || ref.Owner != "terminfo.Terminfo" {
				return
			}
			if bt, isB := st.Val.Type().Underlying().(*types.Basic); !isB || bt.Info()&types.IsString == 0 {
				nOther++
				return
			}
			nStr++
			key := fmt.Sprintf("%s:rewrites-%s#%d", f.Name(), ref.Name, nStr)
			if s, isC := constString(st.Val); isC {
				_, err := ecmaTokenize(s)
				c.Check(err == nil, rule, key, p.pos(st.Pos()), fmt.Sprintf("constant %q tokenises completely (%v)", s, err))
				return
			}
			call, isCall := st.Val.(*ssa.Call)
			var h *ssa.Function
			if isCall {
				h = call.Call.StaticCallee()
			}
			if h == nil || h.Pkg != p.Tcell || len(h.Blocks) == 0 || len(h.Params) != len(call.Call.Args) {
				c.Undecided(rule, key, p.pos(st.Pos()), "the stored value ("+valName(st.Val)+") is not followed")
				return
			}
			srcField, srcIdx := "", -1
			for i, a := range call.Call.Args {
				if r2, _, ok := loadedField(a); ok && r2.Owner == "terminfo.Terminfo" {
					srcField, srcIdx = r2.Name, i
				} else if _, isK := a.(*ssa.Const); !isK {
					srcIdx = -2
				}
			}
			if srcIdx < 0 {
				c.Undecided(rule, key, p.pos(st.Pos()), "the arguments of "+h.Name()+" are not a field of the description and constants")
				return
			}
			vals := map[string]bool{}
			for _, e := range db.entries {
				if v := e.S(srcField); v != "" {
					vals[v] = true
				}
			}
			bad := ""
			for _, v := range sortedKeys(vals) {
				ce := &constEval{pk: p.pkg(""), globals: map[*ssa.Global]*cv{}, strings: true}
				params := map[*ssa.Parameter]*cv{}
				for i, a := range call.Call.Args {
					if i == srcIdx {
						params[h.Params[i]] = cvS(v)
					} else if s, isS := constString(a); isS {
						params[h.Params[i]] = cvS(s)
					} else if k, isK := constInt(a); isK {
						params[h.Params[i]] = cvI(k)
					} else if b, isB := constBool(a); isB {
						params[h.Params[i]] = cvB(b)
					}
				}
				rets, err := ce.call(p, h, params)
				if err != nil || len(rets) != 1 || rets[0].kind != cvStr {
					c.Undecided(rule, key, p.pos(st.Pos()), fmt.Sprintf("%s(%q) is not decided by constant evaluation: %v", h.Name(), v, err))
					return
				}
				if _, err := ecmaTokenize(rets[0].s); err != nil {
					bad += fmt.Sprintf("%s(%q) = %q: %v; ", h.Name(), v, rets[0].s, err)
				}
			}
			c.Check(bad == "", rule, key, p.pos(st.Pos()), fmt.Sprintf("%s applied to the %d values of %s in the database: every result tokenises completely %s", h.Name(), len(vals), srcField, bad))
		})
	}
	c.Check(nStr+nOther > 0, rule, "tcell:stores-into-the-description", "-", fmt.Sprintf("%d store(s) into fields of a Terminfo from package tcell, %d of them into string fields (each decided above)", nStr+nOther, nStr))
}

// checkSignalChansBuffered: os/signal never blocks sending to a channel handed to signal.Notify: a
// signal that arrives while the receiver is busy (the resize callback is running) is dropped unless the
// channel has room to keep it — and then the last size the terminal reported is never read.  Every
// channel field handed to signal.Notify is made with a constant capacity of at least one.
func checkSignalChansBuffered(c *Ctx, p *Prog, rule string) {
	n := 0
	seen := map[string]bool{}
	for _, f := range p.modFns {
		if f.Pkg != p.Tcell {
			continue
		}
		eachInstr(f, func(in ssa.Instruction) {
			cc := callCommon(in)
			if cc == nil || calleeName(cc) != "os/signal.Notify" || len(cc.Args) < 1 {
				return
			}
			for _, src := range phiSourcesAll(cc.Args[0]) {
				ref, _, ok := loadedField(derefCell(src))
				if !ok || seen[ref.String()] {
					continue
				}
				seen[ref.String()] = true
				n++
				nMake, bad := 0, ""
				for _, g := range p.modFns {
					if g.Pkg != p.Tcell {
						continue
					}
					for _, st := range storesTo(g, ref.Owner, ref.Name) {
						mk, isMk := st.Val.(*ssa.MakeChan)
						if !isMk {
							continue
						}
						nMake++
						if k, isC := constInt(mk.Size); !isC || k < 1 {
							bad += "made without room for a pending signal at " + p.pos(st.Pos()) + "; "
						}
					}
				}
				c.Check(nMake > 0 && bad == "", rule, ref.String()+":handed-to-signal.Notify:has-room", p.pos(in.Pos()), fmt.Sprintf("%d make(s), each with capacity >= 1 %s", nMake, bad))
			}
		})
	}
	if n == 0 {
		c.Undecided(rule, "signal.Notify", "-", "no channel field is handed to signal.Notify")
	}
}

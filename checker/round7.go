package main

import (
	"fmt"
	"go/token"
	"go/types"

	"golang.org/x/tools/go/ssa"
)

// checkFallbackOnlyForMainRune: the real screen and its test double agree on when the fallback table
// is consulted: only while nothing has been written for the cell yet, i.e. for the main rune; a
// combining rune the character set lacks is elided, whether or not somebody registered a fallback
// for it.  In both encoders every lookup in the fallback map must be dominated by a test that the
// bytes collected so far are empty (`len(buf) == 0`, `simc.Bytes == nil`, or the complement on the
// other branch).
func checkFallbackOnlyForMainRune(c *Ctx, p *Prog, rule string) {
	type site struct {
		name  string
		entry string
		owner string
	}
	for _, s := range []site{
		{"simscreen.drawCell", "tcell:(*simscreen).drawCell", "tcell.simscreen"},
		{"tScreen.drawCell", "tcell:(*tScreen).drawCell", "tcell.tScreen"},
	} {
		entry := p.Fn(s.entry)
		if entry == nil {
			c.Undecided(rule, s.name, "-", "not found")
			continue
		}
		// the function and what it calls in its package, two levels down
		fns := []*ssa.Function{entry}
		seen := map[*ssa.Function]bool{entry: true}
		for depth, lo := 0, 0; depth < 2; depth++ {
			hi := len(fns)
			for _, f := range fns[lo:hi] {
				eachInstr(f, func(in ssa.Instruction) {
					if cc := callCommon(in); cc != nil {
						if h := cc.StaticCallee(); h != nil && h.Pkg == entry.Pkg && len(h.Blocks) > 0 && !seen[h] {
							seen[h] = true
							fns = append(fns, h)
						}
					}
				})
			}
			lo = hi
		}
		n, bad := 0, ""
		for _, f := range fns {
			eachInstr(f, func(in ssa.Instruction) {
				lk, ok := in.(*ssa.Lookup)
				if !ok {
					return
				}
				ref, _, isF := loadedField(lk.X)
				if !isF || ref.Owner != s.owner || ref.Name != "fallback" {
					return
				}
				n++
				if !underEmptyOutputTest(p, lk, f, 0) {
					bad += "the fallback table is consulted at " + p.pos(lk.Pos()) + " whatever has been written for the cell already; "
				}
			})
		}
		c.Check(n > 0 && bad == "", rule, s.name+":fallback-only-for-the-main-rune", p.pos(entry.Pos()), fmt.Sprintf("%d lookup(s) in the fallback table, each under a test that the cell's bytes are still empty %s", n, bad))
	}
}

// emptyOutputTest: the guard says that the bytes collected for the cell are empty: a nil or
// zero-length test of SimCell.Bytes or of a []byte parameter of f (possibly grown by append in a
// loop), holding on the branch taken.
func emptyOutputTest(g rawGuard, f *ssa.Function) bool {
	bo, ok := g.Cond.(*ssa.BinOp)
	if !ok {
		return false
	}
	isOut := func(v ssa.Value) bool { return isByteAccumulator(v, f, map[ssa.Value]bool{}) }
	// x == nil
	if isNilConst(bo.Y) && isOut(bo.X) {
		return (bo.Op == token.EQL && g.Positive) || (bo.Op == token.NEQ && !g.Positive)
	}
	// len(x) ? 0
	call, isCall := bo.X.(*ssa.Call)
	if !isCall {
		return false
	}
	if b, isB := call.Call.Value.(*ssa.Builtin); !isB || b.Name() != "len" || len(call.Call.Args) != 1 || !isOut(call.Call.Args[0]) {
		return false
	}
	k, isK := constInt(bo.Y)
	if !isK {
		return false
	}
	switch {
	case k == 0 && bo.Op == token.EQL, k == 0 && bo.Op == token.LEQ, k == 1 && bo.Op == token.LSS:
		return g.Positive
	case k == 0 && bo.Op == token.NEQ, k == 0 && bo.Op == token.GTR, k == 1 && bo.Op == token.GEQ:
		return !g.Positive
	}
	return false
}

// underEmptyOutputTest: the instruction only runs while the cell's bytes are empty: a dominating test
// in its own function, or — when it sits in a helper (`substituteFor(r)`) — at every call of that helper.
func underEmptyOutputTest(p *Prog, in ssa.Instruction, f *ssa.Function, depth int) bool {
	for _, g := range rawGuardsAt(in.Block()) {
		if emptyOutputTest(g, f) {
			return true
		}
	}
	if depth >= 2 {
		return false
	}
	n, all := 0, true
	for _, caller := range p.modFns {
		if caller.Pkg != f.Pkg {
			continue
		}
		eachInstr(caller, func(ci ssa.Instruction) {
			if cc := callCommon(ci); cc != nil && cc.StaticCallee() == f {
				n++
				if !underEmptyOutputTest(p, ci, caller, depth+1) {
					all = false
				}
			}
		})
	}
	return n > 0 && all
}

// isByteAccumulator: v is the []byte a cell's bytes are collected in: SimCell.Bytes, a []byte parameter
// of f, or a local that starts empty (nil, make([]byte, 0, n)) and only grows by append — not a scratch
// buffer of fixed length.
func isByteAccumulator(v ssa.Value, f *ssa.Function, seen map[ssa.Value]bool) bool {
	if seen[v] {
		return true
	}
	seen[v] = true
	if sl, ok := v.Type().Underlying().(*types.Slice); !ok {
		return false
	} else if b, isB := sl.Elem().Underlying().(*types.Basic); !isB || b.Kind() != types.Uint8 {
		return false
	}
	if ref, _, isF := loadedField(v); isF {
		return ref.Owner == "tcell.SimCell" && ref.Name == "Bytes"
	}
	switch x := v.(type) {
	case *ssa.Const:
		return x.IsNil()
	case *ssa.Parameter:
		return x.Parent() == f
	case *ssa.Phi:
		for _, e := range x.Edges {
			if !isByteAccumulator(e, f, seen) {
				return false
			}
		}
		return true
	case *ssa.Slice:
		return isByteAccumulator(x.X, f, seen)
	case *ssa.MakeSlice:
		k, ok := constInt(x.Len)
		return ok && k == 0
	case *ssa.Call:
		if b, isB := x.Call.Value.(*ssa.Builtin); isB && b.Name() == "append" && len(x.Call.Args) >= 1 {
			return isByteAccumulator(x.Call.Args[0], f, seen)
		}
	}
	return false
}
